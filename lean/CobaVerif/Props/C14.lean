/-
C14 — Supervised data becomes a bandit problem whose best action is the true label.
Property theorems only (helper lemmas live in `Lemmas/C14.lean`; the model in `Model/C14.lean`).

Reading of the statement.  `rows : List (χ × Label)` are the examples (features, label) in the
order the source yields them (after `LabelRows` split them and after `Reservoir(take)` selected
them); `read given rows` is what `SupervisedSimulation.read` yields for `label_type = given`.
`typeOf given rows` is the label type in force (given, or inferred from the first label) and
`firstLevels rows` the levels of the first label when it is a `Categorical`.
-/
import CobaVerif.Lemmas.C14

namespace Coba.C14

/-! ### all label types -/

/-- "The number and order of interactions equal those of the examples" and "its context is exactly
the example's features": the contexts, in order, are the examples' features, in order. -/
theorem length_order {χ : Type} (given : Option LType) (rows : List (χ × Label)) (ints : List (Interaction χ))
    (h : read given rows = .ok ints) : ints.map (·.context) = rows.map (·.1) :=
  contexts_eq' given rows ints h

/-- "every interaction offers the same action set" -/
theorem actions_same {χ : Type} (given : Option LType) (rows : List (χ × Label)) (ints : List (Interaction χ))
    (h : read given rows = .ok ints) : ∃ acts, ∀ x ∈ ints, x.actions = acts :=
  actions_same' given rows ints h

/-! ### classification, labels that are not `Categorical` (strings, numbers, one-element lists) -/

/-- "exactly the distinct labels of the data in a fixed order": the action list is strictly
ascending (so duplicate-free) and its members are exactly the examples' labels. -/
theorem actions_eq {χ : Type} (given : Option LType) (rows : List (χ × Label)) (ints : List (Interaction χ))
    (h : read given rows = .ok ints) (ht : typeOf given rows = some .c) (hl : firstLevels rows = none) :
    ∀ x ∈ ints, Sorted x.actions ∧ ∀ v, v ∈ x.actions ↔ ∃ r ∈ rows, delist r.2 = .ok v :=
  actions_eq' given rows ints h ht hl

/-- the order is *fixed*: it is determined by the set of labels alone (two ascending lists with the
same members are equal), so it does not depend on the order or multiplicity of the examples -/
theorem actions_order_fixed (l₁ l₂ : List Val) (h₁ : Sorted l₁) (h₂ : Sorted l₂)
    (hm : ∀ v, v ∈ l₁ ↔ v ∈ l₂) : l₁ = l₂ :=
  Sorted.ext h₁ h₂ hm

/-- "its reward is 1 for the example's label and 0 for every other action" (for *every* value `a`,
in particular for every offered action), and the label is among the offered actions -/
theorem reward_argmax {χ : Type} (given : Option LType) (rows : List (χ × Label)) (ints : List (Interaction χ))
    (h : read given rows = .ok ints) (ht : typeOf given rows = some .c) (hl : firstLevels rows = none)
    (i : Nat) (r : χ × Label) (x : Interaction χ) (hr : rows[i]? = some r) (hx : ints[i]? = some x) :
    ∃ v, delist r.2 = .ok v ∧ v ∈ x.actions ∧
      ∀ a, x.reward.eval (.one a) = .ok (if a = v then 1 else 0) :=
  reward_argmax' given rows ints h ht hl i r x hr hx

/-- the best action is the true label and it is unique: an offered action earns 1 iff it is the label -/
theorem unique_argmax {χ : Type} (given : Option LType) (rows : List (χ × Label)) (ints : List (Interaction χ))
    (h : read given rows = .ok ints) (ht : typeOf given rows = some .c) (hl : firstLevels rows = none)
    (i : Nat) (r : χ × Label) (x : Interaction χ) (hr : rows[i]? = some r) (hx : ints[i]? = some x) :
    ∃ v, delist r.2 = .ok v ∧
      (∀ a, a ∈ x.actions ∧ x.reward.eval (.one a) = .ok 1 ↔ a = v) :=
  unique_argmax' given rows ints h ht hl i r x hr hx

/-- the hypotheses are not vacuous: well-formed classification data (no empty list label, labels of
one kind) is always accepted -/
theorem classification_total {χ : Type} (given : Option LType) (rows : List (χ × Label))
    (ht : typeOf given rows = some .c)
    (hne : ∀ r ∈ rows, r.2 ≠ .list [])
    (hk : ∀ d, delistAll rows = .ok d → homogeneous (d.map (·.2)) = true)
    (hcat : firstLevels rows ≠ none → ∀ r ∈ rows, ∀ vs, r.2 ≠ .list vs) :
    ∃ ints, read given rows = .ok ints :=
  classification_total' given rows ht hne hk hcat

example :
    read (χ := Nat) none [(10, .atom (.str "b")), (11, .atom (.str "a")), (12, .list [.str "b"])] =
      .ok [⟨10, [.str "a", .str "b"], .binary (.atom (.str "b"))⟩,
           ⟨11, [.str "a", .str "b"], .binary (.atom (.str "a"))⟩,
           ⟨12, [.str "a", .str "b"], .binary (.atom (.str "b"))⟩] := by decide

/-! ### classification, `Categorical` labels (the shortcut of `read`, with fixes/C14-categorical-unused-levels.diff) -/

/-- with a `Categorical` first label the offered actions are the declared levels that occur among
the examples, in declared order -/
theorem actions_eq_cat {χ : Type} (given : Option LType) (rows : List (χ × Label)) (ints : List (Interaction χ))
    (levels : List String)
    (h : read given rows = .ok ints) (ht : typeOf given rows = some .c) (hl : firstLevels rows = some levels) :
    ∀ x ∈ ints, x.actions.Sublist (levels.map Val.str) ∧
      ∀ v, v ∈ x.actions ↔ (∃ l ∈ levels, v = .str l) ∧ ∃ r ∈ rows, delist r.2 = .ok v :=
  actions_eq_cat' given rows ints levels h ht hl

theorem cat_actions_nodup {χ : Type} (given : Option LType) (rows : List (χ × Label)) (ints : List (Interaction χ))
    (levels : List String) (hn : levels.Nodup)
    (h : read given rows = .ok ints) (ht : typeOf given rows = some .c) (hl : firstLevels rows = some levels) :
    ∀ x ∈ ints, x.actions.Nodup :=
  cat_actions_nodup' given rows ints levels hn h ht hl

theorem reward_argmax_cat {χ : Type} (given : Option LType) (rows : List (χ × Label)) (ints : List (Interaction χ))
    (levels : List String)
    (h : read given rows = .ok ints) (ht : typeOf given rows = some .c) (hl : firstLevels rows = some levels)
    (i : Nat) (r : χ × Label) (x : Interaction χ) (hr : rows[i]? = some r) (hx : ints[i]? = some x)
    (hnl : ∀ vs, r.2 ≠ .list vs) :
    ∃ v, delist r.2 = .ok v ∧ ∀ a, x.reward.eval (.one a) = .ok (if a = v then 1 else 0) :=
  reward_argmax_cat' given rows ints levels h ht hl i r x hr hx hnl

/-- "exactly the distinct labels of the data", now at full strength (phase 1 had `actions_cat_exact_partial`
with the extra hypothesis that every level occurs; the repaired shortcut no longer offers unused levels):
for well-formed Categorical labels over one level list the actions are exactly the examples' labels -/
theorem actions_cat_exact {χ : Type} (given : Option LType) (rows : List (χ × Label))
    (ints : List (Interaction χ)) (levels : List String)
    (h : read given rows = .ok ints) (ht : typeOf given rows = some .c) (hl : firstLevels rows = some levels)
    (hall : ∀ r ∈ rows, ∃ s, r.2 = .cat s levels ∧ s ∈ levels) :
    ∀ x ∈ ints, ∀ v, v ∈ x.actions ↔ ∃ r ∈ rows, delist r.2 = .ok v :=
  actions_cat_exact' given rows ints levels h ht hl hall

example : ∀ r ∈ [((), Label.cat "x" ["y", "x"]), ((), Label.cat "y" ["y", "x"])],
    ∃ s, r.2 = .cat s ["y", "x"] ∧ s ∈ ["y", "x"] := by simp

/-- the level `b` no example carries is not offered (it was, before the repair: finding C14-F6) -/
example : read (χ := Unit) none [((), .cat "a" ["b", "a"])] =
    .ok [⟨(), [.str "a"], .binary (.cat "a" ["b", "a"])⟩] := by decide

/-! ### regression -/

/-- "regression data [is rewarded] by the negative absolute error"; no discrete actions are offered -/
theorem l1_spec {χ : Type} (given : Option LType) (rows : List (χ × Label)) (ints : List (Interaction χ))
    (h : read given rows = .ok ints) (ht : typeOf given rows = some .r)
    (i : Nat) (r : χ × Label) (x : Interaction χ) (hr : rows[i]? = some r) (hx : ints[i]? = some x) :
    x.actions = [] ∧
    ∀ y, r.2 = .atom (.num y) → ∀ a, x.reward.eval (.one (.num a)) = .ok (-|a - y|) :=
  l1_spec' given rows ints h ht i r x hr hx

/-- the best action is the true label -/
theorem l1_best (a y : Rat) : -|a - y| ≤ 0 ∧ (-|a - y| = 0 ↔ a = y) := l1_best' a y

example : read (χ := Nat) none [(1, .atom (.num 2)), (2, .atom (.num (1/2)))] =
    .ok [⟨1, [], .l1 (.atom (.num 2))⟩, ⟨2, [], .l1 (.atom (.num (1/2)))⟩] := by decide +kernel

/-! ### multi-label -/

/-- the offered actions are exactly the distinct labels occurring in the label sets, ascending -/
theorem multilabel_actions {χ : Type} (given : Option LType) (rows : List (χ × Label))
    (ints : List (Interaction χ))
    (h : read given rows = .ok ints) (ht : typeOf given rows = some .m) :
    ∀ x ∈ ints, Sorted x.actions ∧
      ∀ v, v ∈ x.actions ↔ ∃ r ∈ rows, ∃ vs, r.2 = .list vs ∧ v ∈ vs :=
  multilabel_actions' given rows ints h ht

/-- "multi-label data rewards an action by its Jaccard overlap with the true label set":
for a label *set* `ys` and an action that is a *set* of labels (or one label, read as the singleton),
not both empty, the reward is |action ∩ ys| / |action ∪ ys| -/
theorem jaccard_spec {χ : Type} (given : Option LType) (rows : List (χ × Label)) (ints : List (Interaction χ))
    (h : read given rows = .ok ints) (ht : typeOf given rows = some .m)
    (i : Nat) (r : χ × Label) (x : Interaction χ) (hr : rows[i]? = some r) (hx : ints[i]? = some x)
    (ys : List Val) (hy : r.2 = .list ys) (hyn : ys.Nodup)
    (a : Action) (han : a.asList.Nodup) (hne : ys ≠ [] ∨ a.asList ≠ []) :
    x.reward.eval a =
      .ok (((a.asList.toFinset ∩ ys.toFinset).card : Rat) / ((a.asList.toFinset ∪ ys.toFinset).card : Rat)) :=
  jaccard_spec' given rows ints h ht i r x hr hx ys hy hyn a han hne

/-- a single offered label `a` earns `1/|ys|` when it is one of the true labels and 0 otherwise -/
theorem hamming_scalar (ys : List Val) (a : Val) :
    hammingValue ys [a] = .ok (if a ∈ ys then 1 / (ys.length : Rat) else 0) :=
  hamming_scalar' ys a

/-- the best action is the true label set, and only it -/
theorem jaccard_best (ys as : List Val) (hy : ys.Nodup) (ha : as.Nodup) (hne : ys ≠ [] ∨ as ≠ []) :
    hammingValue ys as = .ok 1 ↔ as.toFinset = ys.toFinset :=
  jaccard_best' hy ha hne

example : ([Val.num 1, Val.num 2] : List Val).Nodup := by decide

/-- `Nodup` is necessary: a label *list* with a repeated member is not scored as the set it denotes
(the code counts list lengths) -/
theorem jaccard_nodup_counterexample :
    hammingValue [.num 1, .num 1] [.num 1] = .ok (1 / 2) ∧
    ((([Val.num 1] : List Val).toFinset ∩ ([Val.num 1, Val.num 1] : List Val).toFinset).card : Rat) /
      ((([Val.num 1] : List Val).toFinset ∪ ([Val.num 1, Val.num 1] : List Val).toFinset).card : Rat) = 1 := by
  refine ⟨by decide +kernel, by simp⟩

/-! ### `take`: the interactions are those of the reservoir's selection, in its order -/

theorem take_is_reservoir {χ : Type} (given : Option LType) (idxs : List Nat) (rows : List (χ × Label))
    (ints : List (Interaction χ)) (h : simPairs given (some idxs) rows = .ok ints) :
    simPairs given (some idxs) rows = simPairs given none (select idxs rows) ∧
    ints.map (·.context) = idxs.filterMap (fun i => rows[i]?.map (·.1)) :=
  take_is_reservoir' given idxs rows ints h

/-! ### `LabelRows`: "its context is exactly the example's features without the label" -/

/-- dense rows: putting the label back at the label position gives the row -/
theorem context_eq_features_dense {γ : Type} (i : Nat) (row feats : List γ) (l : γ)
    (h : splitDense i row = .ok (feats, l)) :
    row = feats.take i ++ l :: feats.drop i ∧ feats.length + 1 = row.length :=
  splitDense_spec' i row feats l h

/-- sparse rows: the features are the row's items other than the label key, in the row's order;
the label is the value stored under the key, or `zero` when the key is absent -/
theorem context_eq_features_sparse {κ γ : Type} [DecidableEq κ] (key : κ) (zero : γ) (row : List (κ × γ)) :
    (∀ kv, kv ∈ (splitSparse key zero row).1 ↔ kv ∈ row ∧ kv.1 ≠ key) ∧
    (splitSparse key zero row).1.Sublist row ∧
    ((∃ v, (key, v) ∈ row ∧ (splitSparse key zero row).2 = v) ∨
     ((∀ kv ∈ row, kv.1 ≠ key) ∧ (splitSparse key zero row).2 = zero)) :=
  splitSparse_spec' key zero row

/-- a simulation over dense rows with a label column is `read` over the rows split into
(features without the label, label) — with or without `take` -/
theorem dense_pipeline (given : Option LType) (take : Option (List Nat)) (ind : Int)
    (rows : List (List Label)) (ints : List (Interaction (List Label)))
    (h : simDense given take ind rows = .ok ints) (hne : applyTake take rows ≠ []) :
    ∃ first i prs, (applyTake take rows).head? = some first ∧ normIdx ind first.length = some i ∧
      read given prs = .ok ints ∧ prs.length = (applyTake take rows).length ∧
      ∀ (k : Nat) (row : List Label) (p : List Label × Label),
        (applyTake take rows)[k]? = some row → prs[k]? = some p →
          row = p.1.take i ++ p.2 :: p.1.drop i :=
  dense_pipeline' given take ind rows ints h hne

theorem sparse_pipeline (given : Option LType) (take : Option (List Nat)) (key : Val)
    (rows : List (List (Val × Label))) :
    simSparse given take key rows =
      read given ((applyTake take rows).map (splitSparse key (Label.atom (.num 0)))) :=
  sparse_pipeline' given take key rows

/-! ### already labelled sources (rows carry their own `tipe`, e.g. OpenML) -/

/-- an explicit `label_type` decides, whatever type the source attached to its rows -/
theorem explicit_type_wins {χ : Type} (t : LType) (tipe : Option LType) (r : χ × Label) (rest : List (χ × Label)) :
    typeOf (resolveGiven (some t) tipe) (r :: rest) = some t :=
  explicit_type_wins' t tipe r rest

/-- without an explicit `label_type` the rows' own type is used (no inference from the first label) -/
theorem source_type_used {χ : Type} (t : LType) (r : χ × Label) (rest : List (χ × Label)) :
    typeOf (resolveGiven none (some t)) (r :: rest) = some t :=
  source_type_used' t r rest

/-! ## Phase 2 -/

/-! ### label-type inference (`label_type=None`, rows without their own `tipe`) -/

/-- regression exactly for a number (`int`, `float`, also `bool`, which is an `int` in Python:
`True`/`False` are the targets 1/0), classification for everything else — strings, Categoricals
and list-valued labels (delisted to their first member); multi-label is never inferred -/
theorem inference_spec (first : Label) :
    (inferType none first = .r ↔ ∃ q, first = .atom (.num q)) ∧
    (inferType none first = .c ↔ ¬ ∃ q, first = .atom (.num q)) ∧
    inferType none first ≠ .m :=
  inference_spec' first

/-! ### multi-label with repeated members: the exact relation of `HammingReward` to the Jaccard index -/

/-- for arbitrary lists: the numerator is |A∩Y| plus the repeats of the action's members that are
true labels; the denominator is |A∪Y| plus the repeats inside the true label list plus the repeats
of the action's members that are not true labels -/
theorem hamming_multiset_formula (ys as : List Val) :
    nIntersect ys as = (as.toFinset ∩ ys.toFinset).card +
        ((as.filter (fun a => ys.contains a)).length - (as.toFinset ∩ ys.toFinset).card) ∧
    nUnion ys as = (as.toFinset ∪ ys.toFinset).card + (ys.length - ys.toFinset.card) +
        ((as.filter (fun a => !ys.contains a)).length - (as.toFinset \ ys.toFinset).card) :=
  hamming_multiset_formula' ys as

/-- an action without repeats against a label list with repeats: only the denominator is off,
by the number of repeats in the label list (so the reward is ≤ the Jaccard index, < when A∩Y ≠ ∅) -/
theorem hamming_nodup_action (ys as : List Val) (ha : as.Nodup) :
    nIntersect ys as = (as.toFinset ∩ ys.toFinset).card ∧
    nUnion ys as = (as.toFinset ∪ ys.toFinset).card + (ys.length - ys.toFinset.card) :=
  hamming_nodup_action' ys as ha

/-! ### the whole statement as one predicate (`MeetsStatement`, Lemmas/C14) -/

theorem read_meets_statement {χ : Type} (given : Option LType) (exs : List (χ × Label)) (ints : List (Interaction χ))
    (h : read given exs = .ok ints) : MeetsStatement given exs ints :=
  read_meets_statement' given exs ints h

/-- a simulation over a dense table: the examples are the rows split at the label column and the statement holds for them -/
theorem dense_meets (given : Option LType) (ind : Int) (table : List (List Label))
    (ints : List (Interaction (List Label))) (h : simDense given none ind table = .ok ints) :
    ∃ exs, DenseSplit ind table exs ∧ MeetsStatement given exs ints :=
  dense_meets' given ind table ints h

/-! ### `take`: Algorithm L of the C09 model, seed 1 -/

/-- the interactions are those of the reservoir's sample, in sample order; the sample is a
sub-multiset of the examples of size `min k n`; and the action set (and every other clause) is
that of the *sample*: "the data" of a simulation with `take` are the sampled examples -/
theorem take_sample_spec {χ : Type} (given : Option LType) (k : Nat) (steps : List C09.Step)
    (rows : List (χ × Label)) (ints : List (Interaction χ)) (h : simPairsS given k steps rows = .ok ints) :
    ∃ sample, C09.reservoir (some k) false (C05.normInt 1) steps rows = .ok sample ∧
      sample.Subperm rows ∧ sample.length = min k rows.length ∧
      read given sample = .ok ints ∧ MeetsStatement given sample ints :=
  take_sample_spec' given k steps rows ints h

/-! ### end to end: text written by a canonical writer → reader (C12 model) → LabelRows → read -/

/-- CSV (any delimiter, RFC 4180 quoting, optional header; C12's `csvRowOk`): the interactions meet
the statement for the written table split at the label column -/
theorem end_to_end_csv (delim : Nat) (hd1 : delim ≠ C12.DQ) (hd2 : C12.isNl delim = false) (hasHeader : Bool)
    (rows : List (List (Bool × C12.Text))) (hok : ∀ r ∈ rows, C12.csvRowOk r = true)
    (ind : Int) (given : Option LType) (ints : List (Interaction (List Label)))
    (h : csvSim delim hasHeader (.index ind) given (rows.map (C12.csvWriteRow delim)) = .ok ints) :
    ∃ exs, DenseSplit ind (((rows.map (·.map (·.2))).drop (if hasHeader then 1 else 0)).map (·.map textLabel)) exs ∧
      MeetsStatement given exs ints :=
  end_to_end_csv' delim hd1 hd2 hasHeader rows hok ind given ints h

/-- `a,1` / `b,"2"` with the label in column 0 -/
example : csvSim 44 false (.index 0) none
    ([[(false, [97]), (false, [49])], [(false, [98]), (true, [50])]].map (C12.csvWriteRow 44)) =
  .ok [⟨[textLabel [49]], [.str "a", .str "b"], .binary (.atom (.str "a"))⟩,
       ⟨[textLabel [50]], [.str "a", .str "b"], .binary (.atom (.str "b"))⟩] := by decide +kernel

/-- `0,1 1:2` / `1` as multi-label data -/
example : (libsvmSim (some .m) ([⟨[[48], [49]], [([49], [50])]⟩, ⟨[[49]], []⟩].map C12.svmWriteRow)).toOption.map (·.map (·.actions)) =
  some [[.str "0", .str "1"], [.str "0", .str "1"]] := by decide +kernel

/-- LibSVM (C12's `svmRowOk`): examples = (feature tokens, list of label strings) per written row -/
theorem end_to_end_libsvm (rows : List C12.SvmRow) (hok : ∀ r ∈ rows, C12.svmRowOk r = true)
    (given : Option LType) (ints : List (Interaction (List (C12.Text × C12.Text))))
    (h : libsvmSim given (rows.map C12.svmWriteRow) = .ok ints) :
    MeetsStatement given (rows.map svmPair) ints :=
  end_to_end_libsvm' rows hok given ints h

/-- Manik: the same after the metadata line -/
theorem end_to_end_manik (first : C12.Text) (rows : List C12.SvmRow) (hok : ∀ r ∈ rows, C12.svmRowOk r = true)
    (given : Option LType) (ints : List (Interaction (List (C12.Text × C12.Text))))
    (h : manikSim given (first :: rows.map C12.svmWriteRow) = .ok ints) :
    MeetsStatement given (rows.map svmPair) ints :=
  end_to_end_manik' first rows hok given ints h

/-- dense ARFF (header and data lines in one quote style; C12's `AttrW.ok`, `arffRowOk`): the written
values, encoded by the written attribute types, split at the label column, meet the statement.
Partial in the sense of C12: the hypotheses are those forced by C12-F8/F9/F11.
theorem end_to_end_arff_sparse (sparse data lines)   -- not proved: C12 has the row-level sparse round trip only -/
theorem end_to_end_arff_dense (q : Nat) (hq : q = C12.SQ ∨ q = C12.DQ) (also : Nat → Bool)
    (attrs : List C12.AttrW) (hattr : ∀ a ∈ attrs, a.ok true = true) (hnd : (attrs.map (·.name.2)).Nodup)
    (rows : List (Nat × List (Bool × C12.Text)))
    (hrows : ∀ r ∈ rows, C12.arffRowOk q r.2 = true ∧ r.2.length = attrs.length)
    (ind : Int) (given : Option LType) (ints : List (Interaction (List Label)))
    (h : arffDenseSim (.index ind) given (attrs.map (·.line q also))
          (rows.map (fun r => C12.arffWriteRow q also r.1 r.2)) = .ok ints) :
    ∃ cells table, encodeRows (attrs.map (·.typ.enc true)) (rows.map (·.2.map (·.2))) = .ok cells ∧
      rowsLabels cells = .ok table ∧
      ∃ exs, DenseSplit ind table exs ∧ MeetsStatement given exs ints :=
  end_to_end_arff_dense' q hq also attrs hattr hnd rows hrows ind given ints h

/-! ### contexts addressed by header name (`DropOne.headers`, `DropOne.__getitem__(name)`) -/

/-- the label's header name is not among the context's headers … -/
theorem label_header_absent {η : Type} (i : Nat) (hdr : List η) (l : η) (hn : hdr.Nodup) (hl : hdr[i]? = some l) :
    l ∉ featureHeaders i hdr :=
  label_header_absent' i hdr l hn hl

/-- … so the true label cannot be read out of the context by the label column's name (`KeyError`) -/
theorem label_lookup_fails {η γ : Type} [DecidableEq η] (i : Nat) (hdr : List η) (feats : List γ) (l : η)
    (hn : hdr.Nodup) (hl : hdr[i]? = some l) : featureByName i hdr feats l = .error .keyError :=
  label_lookup_fails' i hdr feats l hn hl

/-- every other column is found in the context under its own name, with the row's value -/
theorem feature_lookup {η γ : Type} [DecidableEq η] (i : Nat) (hdr : List η) (row feats : List γ) (lab : γ)
    (hn : hdr.Nodup) (hlen : hdr.length = row.length) (hs : splitDense i row = .ok (feats, lab))
    (k : Nat) (name : η) (v : γ) (hk : k ≠ i) (hname : hdr[k]? = some name) (hv : row[k]? = some v) :
    featureByName i hdr feats name = .ok v :=
  feature_lookup' i hdr row feats lab hn hlen hs k name v hk hname hv

example : featureByName 1 ["a", "y", "b"] [10, 30] "b" = .ok 30 ∧
    featureByName 1 ["a", "y", "b"] [10, 30] "y" = (.error .keyError : Except Err Nat) := by decide

end Coba.C14
