/-
C14 — Supervised data becomes a bandit problem whose best action is the true label.
Property theorems only (helper lemmas live in `Lemmas/C14.lean`; the model in `Model/C14.lean`).

Reading of the statement.  `rows : List (χ × Label)` are the examples (features, label) in the
order the source yields them (after `LabelRows` split them and after `Reservoir(take)` selected
them); `read given rows` is what `SupervisedSimulation.read` yields for `label_type = given`.
`typeOf given rows` is the label type in force (given, or inferred from the first label) and
`firstLevels rows` the levels of the first label when it is a `Categorical`.
-/
import CobaVerif.Lemmas.C14

namespace Coba.C14

/-! ### all label types -/

/-- "The number and order of interactions equal those of the examples" and "its context is exactly
the example's features": the contexts, in order, are the examples' features, in order. -/
theorem length_order {χ : Type} (given : Option LType) (rows : List (χ × Label)) (ints : List (Interaction χ))
    (h : read given rows = .ok ints) : ints.map (·.context) = rows.map (·.1) :=
  contexts_eq' given rows ints h

/-- "every interaction offers the same action set" -/
theorem actions_same {χ : Type} (given : Option LType) (rows : List (χ × Label)) (ints : List (Interaction χ))
    (h : read given rows = .ok ints) : ∃ acts, ∀ x ∈ ints, x.actions = acts :=
  actions_same' given rows ints h

/-! ### classification, labels that are not `Categorical` (strings, numbers, one-element lists) -/

/-- "exactly the distinct labels of the data in a fixed order": the action list is strictly
ascending (so duplicate-free) and its members are exactly the examples' labels. -/
theorem actions_eq {χ : Type} (given : Option LType) (rows : List (χ × Label)) (ints : List (Interaction χ))
    (h : read given rows = .ok ints) (ht : typeOf given rows = some .c) (hl : firstLevels rows = none) :
    ∀ x ∈ ints, Sorted x.actions ∧ ∀ v, v ∈ x.actions ↔ ∃ r ∈ rows, delist r.2 = .ok v :=
  actions_eq' given rows ints h ht hl

/-- the order is *fixed*: it is determined by the set of labels alone (two ascending lists with the
same members are equal), so it does not depend on the order or multiplicity of the examples -/
theorem actions_order_fixed (l₁ l₂ : List Val) (h₁ : Sorted l₁) (h₂ : Sorted l₂)
    (hm : ∀ v, v ∈ l₁ ↔ v ∈ l₂) : l₁ = l₂ :=
  Sorted.ext h₁ h₂ hm

/-- "its reward is 1 for the example's label and 0 for every other action" (for *every* value `a`,
in particular for every offered action), and the label is among the offered actions -/
theorem reward_argmax {χ : Type} (given : Option LType) (rows : List (χ × Label)) (ints : List (Interaction χ))
    (h : read given rows = .ok ints) (ht : typeOf given rows = some .c) (hl : firstLevels rows = none)
    (i : Nat) (r : χ × Label) (x : Interaction χ) (hr : rows[i]? = some r) (hx : ints[i]? = some x) :
    ∃ v, delist r.2 = .ok v ∧ v ∈ x.actions ∧
      ∀ a, x.reward.eval (.one a) = .ok (if a = v then 1 else 0) :=
  reward_argmax' given rows ints h ht hl i r x hr hx

/-- the best action is the true label and it is unique: an offered action earns 1 iff it is the label -/
theorem unique_argmax {χ : Type} (given : Option LType) (rows : List (χ × Label)) (ints : List (Interaction χ))
    (h : read given rows = .ok ints) (ht : typeOf given rows = some .c) (hl : firstLevels rows = none)
    (i : Nat) (r : χ × Label) (x : Interaction χ) (hr : rows[i]? = some r) (hx : ints[i]? = some x) :
    ∃ v, delist r.2 = .ok v ∧
      (∀ a, a ∈ x.actions ∧ x.reward.eval (.one a) = .ok 1 ↔ a = v) :=
  unique_argmax' given rows ints h ht hl i r x hr hx

/-- the hypotheses are not vacuous: well-formed classification data (no empty list label, labels of
one kind) is always accepted -/
theorem classification_total {χ : Type} (given : Option LType) (rows : List (χ × Label))
    (ht : typeOf given rows = some .c)
    (hne : ∀ r ∈ rows, r.2 ≠ .list [])
    (hk : ∀ d, delistAll rows = .ok d → homogeneous (d.map (·.2)) = true) :
    ∃ ints, read given rows = .ok ints :=
  classification_total' given rows ht hne hk

example :
    read (χ := Nat) none [(10, .atom (.str "b")), (11, .atom (.str "a")), (12, .list [.str "b"])] =
      .ok [⟨10, [.str "a", .str "b"], .binary (.atom (.str "b"))⟩,
           ⟨11, [.str "a", .str "b"], .binary (.atom (.str "a"))⟩,
           ⟨12, [.str "a", .str "b"], .binary (.atom (.str "b"))⟩] := by decide

/-! ### classification, `Categorical` labels (the shortcut of `read`) -/

/-- with a `Categorical` first label the offered actions are the declared levels, in declared order -/
theorem actions_eq_cat {χ : Type} (given : Option LType) (rows : List (χ × Label)) (ints : List (Interaction χ))
    (levels : List String)
    (h : read given rows = .ok ints) (ht : typeOf given rows = some .c) (hl : firstLevels rows = some levels) :
    ∀ x ∈ ints, x.actions = levels.map Val.str :=
  actions_eq_cat' given rows ints levels h ht hl

theorem cat_actions_nodup (levels : List String) (h : levels.Nodup) : (levels.map Val.str).Nodup :=
  cat_actions_nodup' levels h

theorem reward_argmax_cat {χ : Type} (given : Option LType) (rows : List (χ × Label)) (ints : List (Interaction χ))
    (levels : List String)
    (h : read given rows = .ok ints) (ht : typeOf given rows = some .c) (hl : firstLevels rows = some levels)
    (i : Nat) (r : χ × Label) (x : Interaction χ) (hr : rows[i]? = some r) (hx : ints[i]? = some x)
    (hnl : ∀ vs, r.2 ≠ .list vs) :
    ∃ v, delist r.2 = .ok v ∧ ∀ a, x.reward.eval (.one a) = .ok (if a = v then 1 else 0) :=
  reward_argmax_cat' given rows ints levels h ht hl i r x hr hx hnl

/- The full statement
     theorem actions_cat_exact_full … : ∀ x ∈ ints, ∀ v, v ∈ x.actions ↔ ∃ r ∈ rows, delist r.2 = .ok v
   is false for the code as it is: the shortcut offers every declared level, also one no example
   carries (known finding C14-F6, `actions_cat_counterexample`).  Proved under the hypothesis
   that every level occurs: -/
theorem actions_cat_exact_partial {χ : Type} (given : Option LType) (rows : List (χ × Label))
    (ints : List (Interaction χ)) (levels : List String)
    (h : read given rows = .ok ints) (ht : typeOf given rows = some .c) (hl : firstLevels rows = some levels)
    (hall : ∀ r ∈ rows, ∃ s, r.2 = .cat s levels ∧ s ∈ levels)
    (hocc : ∀ lv ∈ levels, ∃ r ∈ rows, r.2 = .cat lv levels) :
    ∀ x ∈ ints, ∀ v, v ∈ x.actions ↔ ∃ r ∈ rows, delist r.2 = .ok v :=
  actions_cat_exact_partial' given rows ints levels h ht hl hall hocc

example : ∀ r ∈ [((), Label.cat "x" ["y", "x"]), ((), Label.cat "y" ["y", "x"])],
    ∃ s, r.2 = .cat s ["y", "x"] ∧ s ∈ ["y", "x"] := by simp

/-- an unused level is offered as an action although it is no example's label -/
theorem actions_cat_counterexample :
    ∃ ints, read (χ := Unit) none [((), .cat "a" ["a", "b"])] = .ok ints ∧
      ∃ x ∈ ints, Val.str "b" ∈ x.actions ∧
        ¬ ∃ r ∈ [((), Label.cat "a" ["a", "b"])], delist r.2 = .ok (.str "b") := by
  refine ⟨_, rfl, _, List.mem_cons_self, by decide, by decide⟩

/-! ### regression -/

/-- "regression data [is rewarded] by the negative absolute error"; no discrete actions are offered -/
theorem l1_spec {χ : Type} (given : Option LType) (rows : List (χ × Label)) (ints : List (Interaction χ))
    (h : read given rows = .ok ints) (ht : typeOf given rows = some .r)
    (i : Nat) (r : χ × Label) (x : Interaction χ) (hr : rows[i]? = some r) (hx : ints[i]? = some x) :
    x.actions = [] ∧
    ∀ y, r.2 = .atom (.num y) → ∀ a, x.reward.eval (.one (.num a)) = .ok (-|a - y|) :=
  l1_spec' given rows ints h ht i r x hr hx

/-- the best action is the true label -/
theorem l1_best (a y : Rat) : -|a - y| ≤ 0 ∧ (-|a - y| = 0 ↔ a = y) := l1_best' a y

example : read (χ := Nat) none [(1, .atom (.num 2)), (2, .atom (.num (1/2)))] =
    .ok [⟨1, [], .l1 (.atom (.num 2))⟩, ⟨2, [], .l1 (.atom (.num (1/2)))⟩] := by decide +kernel

/-! ### multi-label -/

/-- the offered actions are exactly the distinct labels occurring in the label sets, ascending -/
theorem multilabel_actions {χ : Type} (given : Option LType) (rows : List (χ × Label))
    (ints : List (Interaction χ))
    (h : read given rows = .ok ints) (ht : typeOf given rows = some .m) :
    ∀ x ∈ ints, Sorted x.actions ∧
      ∀ v, v ∈ x.actions ↔ ∃ r ∈ rows, ∃ vs, r.2 = .list vs ∧ v ∈ vs :=
  multilabel_actions' given rows ints h ht

/-- "multi-label data rewards an action by its Jaccard overlap with the true label set":
for a label *set* `ys` and an action that is a *set* of labels (or one label, read as the singleton),
not both empty, the reward is |action ∩ ys| / |action ∪ ys| -/
theorem jaccard_spec {χ : Type} (given : Option LType) (rows : List (χ × Label)) (ints : List (Interaction χ))
    (h : read given rows = .ok ints) (ht : typeOf given rows = some .m)
    (i : Nat) (r : χ × Label) (x : Interaction χ) (hr : rows[i]? = some r) (hx : ints[i]? = some x)
    (ys : List Val) (hy : r.2 = .list ys) (hyn : ys.Nodup)
    (a : Action) (han : a.asList.Nodup) (hne : ys ≠ [] ∨ a.asList ≠ []) :
    x.reward.eval a =
      .ok (((a.asList.toFinset ∩ ys.toFinset).card : Rat) / ((a.asList.toFinset ∪ ys.toFinset).card : Rat)) :=
  jaccard_spec' given rows ints h ht i r x hr hx ys hy hyn a han hne

/-- a single offered label `a` earns `1/|ys|` when it is one of the true labels and 0 otherwise -/
theorem hamming_scalar (ys : List Val) (a : Val) :
    hammingValue ys [a] = .ok (if a ∈ ys then 1 / (ys.length : Rat) else 0) :=
  hamming_scalar' ys a

/-- the best action is the true label set, and only it -/
theorem jaccard_best (ys as : List Val) (hy : ys.Nodup) (ha : as.Nodup) (hne : ys ≠ [] ∨ as ≠ []) :
    hammingValue ys as = .ok 1 ↔ as.toFinset = ys.toFinset :=
  jaccard_best' hy ha hne

example : ([Val.num 1, Val.num 2] : List Val).Nodup := by decide

/-- `Nodup` is necessary: a label *list* with a repeated member is not scored as the set it denotes
(the code counts list lengths) -/
theorem jaccard_nodup_counterexample :
    hammingValue [.num 1, .num 1] [.num 1] = .ok (1 / 2) ∧
    ((([Val.num 1] : List Val).toFinset ∩ ([Val.num 1, Val.num 1] : List Val).toFinset).card : Rat) /
      ((([Val.num 1] : List Val).toFinset ∪ ([Val.num 1, Val.num 1] : List Val).toFinset).card : Rat) = 1 := by
  refine ⟨by decide +kernel, by simp⟩

/-! ### `take`: the interactions are those of the reservoir's selection, in its order -/

theorem take_is_reservoir {χ : Type} (given : Option LType) (idxs : List Nat) (rows : List (χ × Label))
    (ints : List (Interaction χ)) (h : simPairs given (some idxs) rows = .ok ints) :
    simPairs given (some idxs) rows = simPairs given none (select idxs rows) ∧
    ints.map (·.context) = idxs.filterMap (fun i => rows[i]?.map (·.1)) :=
  take_is_reservoir' given idxs rows ints h

/-! ### `LabelRows`: "its context is exactly the example's features without the label" -/

/-- dense rows: putting the label back at the label position gives the row -/
theorem context_eq_features_dense {γ : Type} (i : Nat) (row feats : List γ) (l : γ)
    (h : splitDense i row = .ok (feats, l)) :
    row = feats.take i ++ l :: feats.drop i ∧ feats.length + 1 = row.length :=
  splitDense_spec' i row feats l h

/-- sparse rows: the features are the row's items other than the label key, in the row's order;
the label is the value stored under the key, or `zero` when the key is absent -/
theorem context_eq_features_sparse {κ γ : Type} [DecidableEq κ] (key : κ) (zero : γ) (row : List (κ × γ)) :
    (∀ kv, kv ∈ (splitSparse key zero row).1 ↔ kv ∈ row ∧ kv.1 ≠ key) ∧
    (splitSparse key zero row).1.Sublist row ∧
    ((∃ v, (key, v) ∈ row ∧ (splitSparse key zero row).2 = v) ∨
     ((∀ kv ∈ row, kv.1 ≠ key) ∧ (splitSparse key zero row).2 = zero)) :=
  splitSparse_spec' key zero row

/-- a simulation over dense rows with a label column is `read` over the rows split into
(features without the label, label) — with or without `take` -/
theorem dense_pipeline (given : Option LType) (take : Option (List Nat)) (ind : Int)
    (rows : List (List Label)) (ints : List (Interaction (List Label)))
    (h : simDense given take ind rows = .ok ints) (hne : applyTake take rows ≠ []) :
    ∃ first i prs, (applyTake take rows).head? = some first ∧ normIdx ind first.length = some i ∧
      read given prs = .ok ints ∧ prs.length = (applyTake take rows).length ∧
      ∀ (k : Nat) (row : List Label) (p : List Label × Label),
        (applyTake take rows)[k]? = some row → prs[k]? = some p →
          row = p.1.take i ++ p.2 :: p.1.drop i :=
  dense_pipeline' given take ind rows ints h hne

theorem sparse_pipeline (given : Option LType) (take : Option (List Nat)) (key : Val)
    (rows : List (List (Val × Label))) :
    simSparse given take key rows =
      read given ((applyTake take rows).map (splitSparse key (Label.atom (.num 0)))) :=
  sparse_pipeline' given take key rows

/-! ### already labelled sources (rows carry their own `tipe`, e.g. OpenML) -/

/-- an explicit `label_type` decides, whatever type the source attached to its rows -/
theorem explicit_type_wins {χ : Type} (t : LType) (tipe : Option LType) (r : χ × Label) (rest : List (χ × Label)) :
    typeOf (resolveGiven (some t) tipe) (r :: rest) = some t :=
  explicit_type_wins' t tipe r rest

/-- without an explicit `label_type` the rows' own type is used (no inference from the first label) -/
theorem source_type_used {χ : Type} (t : LType) (r : χ × Label) (rest : List (χ × Label)) :
    typeOf (resolveGiven none (some t)) (r :: rest) = some t :=
  source_type_used' t r rest

end Coba.C14
