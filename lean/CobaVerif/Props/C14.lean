/-
C14 — Supervised data becomes a bandit problem whose best action is the true label.
Property theorems only (helper lemmas live in `Lemmas/C14.lean`; the model in `Model/C14.lean`).

Reading of the statement.  `rows : List (χ × Label)` are the examples (features, label) in the
order the source yields them (after `LabelRows` split them and after `Reservoir(take)` selected
them); `read given rows` is what `SupervisedSimulation.read` yields for `label_type = given`.
`typeOf given rows` is the label type in force (given, or inferred from the first label) and
`firstLevels rows` the levels of the first label when it is a `Categorical`.
-/
import CobaVerif.Lemmas.C14
import CobaVerif.Generated.C14Supervised

namespace Coba.C14

/-! ### all label types -/

/-- "The number and order of interactions equal those of the examples" and "its context is exactly
the example's features": the contexts, in order, are the examples' features, in order. -/
theorem length_order {χ : Type} (given : Option LType) (rows : List (χ × Label)) (ints : List (Interaction χ))
    (h : read given rows = .ok ints) : ints.map (·.context) = rows.map (·.1) :=
  contexts_eq' given rows ints h

/-- "every interaction offers the same action set" -/
theorem actions_same {χ : Type} (given : Option LType) (rows : List (χ × Label)) (ints : List (Interaction χ))
    (h : read given rows = .ok ints) : ∃ acts, ∀ x ∈ ints, x.actions = acts :=
  actions_same' given rows ints h

/-! ### classification, labels that are not `Categorical` (strings, numbers, one-element lists) -/

/-- "exactly the distinct labels of the data in a fixed order": the action list is strictly
ascending (so duplicate-free) and its members are exactly the examples' labels. -/
theorem actions_eq {χ : Type} (given : Option LType) (rows : List (χ × Label)) (ints : List (Interaction χ))
    (h : read given rows = .ok ints) (ht : typeOf given rows = some .c) (hl : firstLevels rows = none) :
    ∀ x ∈ ints, Sorted x.actions ∧ ∀ v, v ∈ x.actions ↔ ∃ r ∈ rows, delist r.2 = .ok v :=
  actions_eq' given rows ints h ht hl

/-- the order is *fixed*: it is determined by the set of labels alone (two ascending lists with the
same members are equal), so it does not depend on the order or multiplicity of the examples -/
theorem actions_order_fixed (l₁ l₂ : List Val) (h₁ : Sorted l₁) (h₂ : Sorted l₂)
    (hm : ∀ v, v ∈ l₁ ↔ v ∈ l₂) : l₁ = l₂ :=
  Sorted.ext h₁ h₂ hm

/-- "its reward is 1 for the example's label and 0 for every other action" (for *every* value `a`,
in particular for every offered action), and the label is among the offered actions -/
theorem reward_argmax {χ : Type} (given : Option LType) (rows : List (χ × Label)) (ints : List (Interaction χ))
    (h : read given rows = .ok ints) (ht : typeOf given rows = some .c) (hl : firstLevels rows = none)
    (i : Nat) (r : χ × Label) (x : Interaction χ) (hr : rows[i]? = some r) (hx : ints[i]? = some x) :
    ∃ v, delist r.2 = .ok v ∧ v ∈ x.actions ∧
      ∀ a, x.reward.eval (.one a) = .ok (if a = v then 1 else 0) :=
  reward_argmax' given rows ints h ht hl i r x hr hx

/-- the best action is the true label and it is unique: an offered action earns 1 iff it is the label -/
theorem unique_argmax {χ : Type} (given : Option LType) (rows : List (χ × Label)) (ints : List (Interaction χ))
    (h : read given rows = .ok ints) (ht : typeOf given rows = some .c) (hl : firstLevels rows = none)
    (i : Nat) (r : χ × Label) (x : Interaction χ) (hr : rows[i]? = some r) (hx : ints[i]? = some x) :
    ∃ v, delist r.2 = .ok v ∧
      (∀ a, a ∈ x.actions ∧ x.reward.eval (.one a) = .ok 1 ↔ a = v) :=
  unique_argmax' given rows ints h ht hl i r x hr hx

/-- the hypotheses are not vacuous: well-formed classification data (no empty list label, labels of
one kind) is always accepted -/
theorem classification_total {χ : Type} (given : Option LType) (rows : List (χ × Label))
    (ht : typeOf given rows = some .c)
    (hne : ∀ r ∈ rows, r.2 ≠ .list [])
    (hk : ∀ d, delistAll rows = .ok d → homogeneous (d.map (·.2)) = true)
    (hcat : firstLevels rows ≠ none → ∀ r ∈ rows, ∀ vs, r.2 ≠ .list vs) :
    ∃ ints, read given rows = .ok ints :=
  classification_total' given rows ht hne hk hcat

example :
    read (χ := Nat) none [(10, .atom (.str "b")), (11, .atom (.str "a")), (12, .list [.str "b"])] =
      .ok [⟨10, [.str "a", .str "b"], .binary (.atom (.str "b"))⟩,
           ⟨11, [.str "a", .str "b"], .binary (.atom (.str "a"))⟩,
           ⟨12, [.str "a", .str "b"], .binary (.atom (.str "b"))⟩] := by decide

/-! ### classification, `Categorical` labels (the shortcut of `read`, with fixes/C14-categorical-unused-levels.diff) -/

/-- with a `Categorical` first label the offered actions are the declared levels that occur among
the examples, in declared order -/
theorem actions_eq_cat {χ : Type} (given : Option LType) (rows : List (χ × Label)) (ints : List (Interaction χ))
    (levels : List String)
    (h : read given rows = .ok ints) (ht : typeOf given rows = some .c) (hl : firstLevels rows = some levels) :
    ∀ x ∈ ints, x.actions.Sublist (levels.map Val.str) ∧
      ∀ v, v ∈ x.actions ↔ (∃ l ∈ levels, v = .str l) ∧ ∃ r ∈ rows, delist r.2 = .ok v :=
  actions_eq_cat' given rows ints levels h ht hl

theorem cat_actions_nodup {χ : Type} (given : Option LType) (rows : List (χ × Label)) (ints : List (Interaction χ))
    (levels : List String) (hn : levels.Nodup)
    (h : read given rows = .ok ints) (ht : typeOf given rows = some .c) (hl : firstLevels rows = some levels) :
    ∀ x ∈ ints, x.actions.Nodup :=
  cat_actions_nodup' given rows ints levels hn h ht hl

theorem reward_argmax_cat {χ : Type} (given : Option LType) (rows : List (χ × Label)) (ints : List (Interaction χ))
    (levels : List String)
    (h : read given rows = .ok ints) (ht : typeOf given rows = some .c) (hl : firstLevels rows = some levels)
    (i : Nat) (r : χ × Label) (x : Interaction χ) (hr : rows[i]? = some r) (hx : ints[i]? = some x)
    (hnl : ∀ vs, r.2 ≠ .list vs) :
    ∃ v, delist r.2 = .ok v ∧ ∀ a, x.reward.eval (.one a) = .ok (if a = v then 1 else 0) :=
  reward_argmax_cat' given rows ints levels h ht hl i r x hr hx hnl

/-- "exactly the distinct labels of the data", now at full strength (phase 1 had `actions_cat_exact_partial`
with the extra hypothesis that every level occurs; the repaired shortcut no longer offers unused levels):
for well-formed Categorical labels over one level list the actions are exactly the examples' labels -/
theorem actions_cat_exact {χ : Type} (given : Option LType) (rows : List (χ × Label))
    (ints : List (Interaction χ)) (levels : List String)
    (h : read given rows = .ok ints) (ht : typeOf given rows = some .c) (hl : firstLevels rows = some levels)
    (hall : ∀ r ∈ rows, ∃ s, r.2 = .cat s levels ∧ s ∈ levels) :
    ∀ x ∈ ints, ∀ v, v ∈ x.actions ↔ ∃ r ∈ rows, delist r.2 = .ok v :=
  actions_cat_exact' given rows ints levels h ht hl hall

example : ∀ r ∈ [((), Label.cat "x" ["y", "x"]), ((), Label.cat "y" ["y", "x"])],
    ∃ s, r.2 = .cat s ["y", "x"] ∧ s ∈ ["y", "x"] := by simp

/-- the level `b` no example carries is not offered (it was, before the repair: finding C14-F6) -/
example : read (χ := Unit) none [((), .cat "a" ["b", "a"])] =
    .ok [⟨(), [.str "a"], .binary (.cat "a" ["b", "a"])⟩] := by decide

/-! ### regression -/

/-- "regression data [is rewarded] by the negative absolute error"; no discrete actions are offered -/
theorem l1_spec {χ : Type} (given : Option LType) (rows : List (χ × Label)) (ints : List (Interaction χ))
    (h : read given rows = .ok ints) (ht : typeOf given rows = some .r)
    (i : Nat) (r : χ × Label) (x : Interaction χ) (hr : rows[i]? = some r) (hx : ints[i]? = some x) :
    x.actions = [] ∧
    ∀ y, r.2 = .atom (.num y) → ∀ a, x.reward.eval (.one (.num a)) = .ok (-|a - y|) :=
  l1_spec' given rows ints h ht i r x hr hx

/-- the best action is the true label -/
theorem l1_best (a y : Rat) : -|a - y| ≤ 0 ∧ (-|a - y| = 0 ↔ a = y) := l1_best' a y

example : read (χ := Nat) none [(1, .atom (.num 2)), (2, .atom (.num (1/2)))] =
    .ok [⟨1, [], .l1 (.atom (.num 2))⟩, ⟨2, [], .l1 (.atom (.num (1/2)))⟩] := by decide +kernel

/-! ### multi-label -/

/-- the offered actions are exactly the distinct labels occurring in the label sets, ascending -/
theorem multilabel_actions {χ : Type} (given : Option LType) (rows : List (χ × Label))
    (ints : List (Interaction χ))
    (h : read given rows = .ok ints) (ht : typeOf given rows = some .m) :
    ∀ x ∈ ints, Sorted x.actions ∧
      ∀ v, v ∈ x.actions ↔ ∃ r ∈ rows, ∃ vs, r.2 = .list vs ∧ v ∈ vs :=
  multilabel_actions' given rows ints h ht

/-- "multi-label data rewards an action by its Jaccard overlap with the true label set":
for a label *set* `ys` and an action that is a *set* of labels (or one label, read as the singleton),
not both empty, the reward is |action ∩ ys| / |action ∪ ys| -/
theorem jaccard_spec {χ : Type} (given : Option LType) (rows : List (χ × Label)) (ints : List (Interaction χ))
    (h : read given rows = .ok ints) (ht : typeOf given rows = some .m)
    (i : Nat) (r : χ × Label) (x : Interaction χ) (hr : rows[i]? = some r) (hx : ints[i]? = some x)
    (ys : List Val) (hy : r.2 = .list ys) (hyn : ys.Nodup)
    (a : Action) (han : a.asList.Nodup) (hne : ys ≠ [] ∨ a.asList ≠ []) :
    x.reward.eval a =
      .ok (((a.asList.toFinset ∩ ys.toFinset).card : Rat) / ((a.asList.toFinset ∪ ys.toFinset).card : Rat)) :=
  jaccard_spec' given rows ints h ht i r x hr hx ys hy hyn a han hne

/-- a single offered label `a` earns `1/|ys|` when it is one of the true labels and 0 otherwise -/
theorem hamming_scalar (ys : List Val) (a : Val) :
    hammingValue ys [a] = .ok (if a ∈ ys then 1 / (ys.length : Rat) else 0) :=
  hamming_scalar' ys a

/-- the best action is the true label set, and only it -/
theorem jaccard_best (ys as : List Val) (hy : ys.Nodup) (ha : as.Nodup) (hne : ys ≠ [] ∨ as ≠ []) :
    hammingValue ys as = .ok 1 ↔ as.toFinset = ys.toFinset :=
  jaccard_best' hy ha hne

example : ([Val.num 1, Val.num 2] : List Val).Nodup := by decide

/-- `Nodup` is necessary: a label *list* with a repeated member is not scored as the set it denotes
(the code counts list lengths) -/
theorem jaccard_nodup_counterexample :
    hammingValue [.num 1, .num 1] [.num 1] = .ok (1 / 2) ∧
    ((([Val.num 1] : List Val).toFinset ∩ ([Val.num 1, Val.num 1] : List Val).toFinset).card : Rat) /
      ((([Val.num 1] : List Val).toFinset ∪ ([Val.num 1, Val.num 1] : List Val).toFinset).card : Rat) = 1 := by
  refine ⟨by decide +kernel, by simp⟩

/-! ### `take`: the interactions are those of the reservoir's selection, in its order -/

theorem take_is_reservoir {χ : Type} (given : Option LType) (idxs : List Nat) (rows : List (χ × Label))
    (ints : List (Interaction χ)) (h : simPairs given (some idxs) rows = .ok ints) :
    simPairs given (some idxs) rows = simPairs given none (select idxs rows) ∧
    ints.map (·.context) = idxs.filterMap (fun i => rows[i]?.map (·.1)) :=
  take_is_reservoir' given idxs rows ints h

/-! ### `LabelRows`: "its context is exactly the example's features without the label" -/

/-- dense rows: putting the label back at the label position gives the row -/
theorem context_eq_features_dense {γ : Type} (i : Nat) (row feats : List γ) (l : γ)
    (h : splitDense i row = .ok (feats, l)) :
    row = feats.take i ++ l :: feats.drop i ∧ feats.length + 1 = row.length :=
  splitDense_spec' i row feats l h

/-- sparse rows: the features are the row's items other than the label key, in the row's order;
the label is the value stored under the key, or `zero` when the key is absent -/
theorem context_eq_features_sparse {κ γ : Type} [DecidableEq κ] (key : κ) (zero : γ) (row : List (κ × γ)) :
    (∀ kv, kv ∈ (splitSparse key zero row).1 ↔ kv ∈ row ∧ kv.1 ≠ key) ∧
    (splitSparse key zero row).1.Sublist row ∧
    ((∃ v, (key, v) ∈ row ∧ (splitSparse key zero row).2 = v) ∨
     ((∀ kv ∈ row, kv.1 ≠ key) ∧ (splitSparse key zero row).2 = zero)) :=
  splitSparse_spec' key zero row

/-- a simulation over dense rows with a label column is `read` over the rows split into
(features without the label, label) — with or without `take` -/
theorem dense_pipeline (given : Option LType) (take : Option (List Nat)) (ind : Int)
    (rows : List (List Label)) (ints : List (Interaction (List Label)))
    (h : simDense given take ind rows = .ok ints) (hne : applyTake take rows ≠ []) :
    ∃ first i prs, (applyTake take rows).head? = some first ∧ normIdx ind first.length = some i ∧
      read given prs = .ok ints ∧ prs.length = (applyTake take rows).length ∧
      ∀ (k : Nat) (row : List Label) (p : List Label × Label),
        (applyTake take rows)[k]? = some row → prs[k]? = some p →
          row = p.1.take i ++ p.2 :: p.1.drop i :=
  dense_pipeline' given take ind rows ints h hne

theorem sparse_pipeline (given : Option LType) (take : Option (List Nat)) (key : Val)
    (rows : List (List (Val × Label))) :
    simSparse given take key rows =
      read given ((applyTake take rows).map (splitSparse key (Label.atom (.num 0)))) :=
  sparse_pipeline' given take key rows

/-! ### already labelled sources (rows carry their own `tipe`, e.g. OpenML) -/

/-- an explicit `label_type` decides, whatever type the source attached to its rows -/
theorem explicit_type_wins {χ : Type} (t : LType) (tipe : Option LType) (r : χ × Label) (rest : List (χ × Label)) :
    typeOf (resolveGiven (some t) tipe) (r :: rest) = some t :=
  explicit_type_wins' t tipe r rest

/-- without an explicit `label_type` the rows' own type is used (no inference from the first label) -/
theorem source_type_used {χ : Type} (t : LType) (r : χ × Label) (rest : List (χ × Label)) :
    typeOf (resolveGiven none (some t)) (r :: rest) = some t :=
  source_type_used' t r rest

/-! ## Phase 2 -/

/-! ### label-type inference (`label_type=None`, rows without their own `tipe`) -/

/-- regression exactly for a number (`int`, `float`, also `bool`, which is an `int` in Python:
`True`/`False` are the targets 1/0), classification for everything else — strings, Categoricals
and list-valued labels (delisted to their first member); multi-label is never inferred -/
theorem inference_spec (first : Label) :
    (inferType none first = .r ↔ ∃ q, first = .atom (.num q)) ∧
    (inferType none first = .c ↔ ¬ ∃ q, first = .atom (.num q)) ∧
    inferType none first ≠ .m :=
  inference_spec' first

/-! ### multi-label with repeated members: the exact relation of `HammingReward` to the Jaccard index -/

/-- for arbitrary lists: the numerator is |A∩Y| plus the repeats of the action's members that are
true labels; the denominator is |A∪Y| plus the repeats inside the true label list plus the repeats
of the action's members that are not true labels -/
theorem hamming_multiset_formula (ys as : List Val) :
    nIntersect ys as = (as.toFinset ∩ ys.toFinset).card +
        ((as.filter (fun a => ys.contains a)).length - (as.toFinset ∩ ys.toFinset).card) ∧
    nUnion ys as = (as.toFinset ∪ ys.toFinset).card + (ys.length - ys.toFinset.card) +
        ((as.filter (fun a => !ys.contains a)).length - (as.toFinset \ ys.toFinset).card) :=
  hamming_multiset_formula' ys as

/-- an action without repeats against a label list with repeats: only the denominator is off,
by the number of repeats in the label list (so the reward is ≤ the Jaccard index, < when A∩Y ≠ ∅) -/
theorem hamming_nodup_action (ys as : List Val) (ha : as.Nodup) :
    nIntersect ys as = (as.toFinset ∩ ys.toFinset).card ∧
    nUnion ys as = (as.toFinset ∪ ys.toFinset).card + (ys.length - ys.toFinset.card) :=
  hamming_nodup_action' ys as ha

/-! ### the whole statement as one predicate (`MeetsStatement`, Lemmas/C14) -/

theorem read_meets_statement {χ : Type} (given : Option LType) (exs : List (χ × Label)) (ints : List (Interaction χ))
    (h : read given exs = .ok ints) : MeetsStatement given exs ints :=
  read_meets_statement' given exs ints h

/-- a simulation over a dense table: the examples are the rows split at the label column and the statement holds for them -/
theorem dense_meets (given : Option LType) (ind : Int) (table : List (List Label))
    (ints : List (Interaction (List Label))) (h : simDense given none ind table = .ok ints) :
    ∃ exs, DenseSplit ind table exs ∧ MeetsStatement given exs ints :=
  dense_meets' given ind table ints h

/-! ### `take`: Algorithm L of the C09 model, seed 1 -/

/-- the interactions are those of the reservoir's sample, in sample order; the sample is a
sub-multiset of the examples of size `min k n`; and the action set (and every other clause) is
that of the *sample*: "the data" of a simulation with `take` are the sampled examples -/
theorem take_sample_spec {χ : Type} (given : Option LType) (k : Nat) (steps : List C09.Step)
    (rows : List (χ × Label)) (ints : List (Interaction χ)) (h : simPairsS given k steps rows = .ok ints) :
    ∃ sample, C09.reservoir (some k) false (C05.normInt 1) steps rows = .ok sample ∧
      sample.Subperm rows ∧ sample.length = min k rows.length ∧
      read given sample = .ok ints ∧ MeetsStatement given sample ints :=
  take_sample_spec' given k steps rows ints h

/-! ### end to end: text written by a canonical writer → reader (C12 model) → LabelRows → read -/

/-- CSV (any delimiter, RFC 4180 quoting, optional header; C12's `csvRowOk`): the interactions meet
the statement for the written table split at the label column -/
theorem end_to_end_csv (delim : Nat) (hd1 : delim ≠ C12.DQ) (hd2 : C12.isNl delim = false) (hasHeader : Bool)
    (rows : List (List (Bool × C12.Text))) (hok : ∀ r ∈ rows, C12.csvRowOk r = true)
    (ind : Int) (given : Option LType) (ints : List (Interaction (List Label)))
    (h : csvSim delim hasHeader (.index ind) given (rows.map (C12.csvWriteRow delim)) = .ok ints) :
    ∃ exs, DenseSplit ind (((rows.map (·.map (·.2))).drop (if hasHeader then 1 else 0)).map (·.map textLabel)) exs ∧
      MeetsStatement given exs ints :=
  end_to_end_csv' delim hd1 hd2 hasHeader rows hok ind given ints h

/-- `a,1` / `b,"2"` with the label in column 0 -/
example : csvSim 44 false (.index 0) none
    ([[(false, [97]), (false, [49])], [(false, [98]), (true, [50])]].map (C12.csvWriteRow 44)) =
  .ok [⟨[textLabel [49]], [.str "a", .str "b"], .binary (.atom (.str "a"))⟩,
       ⟨[textLabel [50]], [.str "a", .str "b"], .binary (.atom (.str "b"))⟩] := by decide +kernel

/-- `0,1 1:2` / `1` as multi-label data -/
example : (libsvmSim (some .m) ([⟨[[48], [49]], [([49], [50])]⟩, ⟨[[49]], []⟩].map C12.svmWriteRow)).toOption.map (·.map (·.actions)) =
  some [[.str "0", .str "1"], [.str "0", .str "1"]] := by decide +kernel

/-- LibSVM (C12's `svmRowOk`): examples = (feature tokens, list of label strings) per written row -/
theorem end_to_end_libsvm (rows : List C12.SvmRow) (hok : ∀ r ∈ rows, C12.svmRowOk r = true)
    (given : Option LType) (ints : List (Interaction (List (C12.Text × C12.Text))))
    (h : libsvmSim given (rows.map C12.svmWriteRow) = .ok ints) :
    MeetsStatement given (rows.map svmPair) ints :=
  end_to_end_libsvm' rows hok given ints h

/-- Manik: the same after the metadata line -/
theorem end_to_end_manik (first : C12.Text) (rows : List C12.SvmRow) (hok : ∀ r ∈ rows, C12.svmRowOk r = true)
    (given : Option LType) (ints : List (Interaction (List (C12.Text × C12.Text))))
    (h : manikSim given (first :: rows.map C12.svmWriteRow) = .ok ints) :
    MeetsStatement given (rows.map svmPair) ints :=
  end_to_end_manik' first rows hok given ints h

/-- dense ARFF (header and data lines in one quote style; C12's `AttrW.ok`, `arffRowOk`): the written
values, encoded by the written attribute types, split at the label column, meet the statement.
Partial in the sense of C12: the hypotheses are those forced by C12-F8/F9/F11.
theorem end_to_end_arff_sparse (sparse data lines)   -- not proved: C12 has the row-level sparse round trip only -/
theorem end_to_end_arff_dense (q : Nat) (hq : q = C12.SQ ∨ q = C12.DQ) (also : Nat → Bool)
    (attrs : List C12.AttrW) (hattr : ∀ a ∈ attrs, a.ok true = true) (hnd : (attrs.map (·.name.2)).Nodup)
    (rows : List (Nat × List (Bool × C12.Text)))
    (hrows : ∀ r ∈ rows, C12.arffRowOk q r.2 = true ∧ r.2.length = attrs.length)
    (ind : Int) (given : Option LType) (ints : List (Interaction (List Label)))
    (h : arffDenseSim (.index ind) given (attrs.map (·.line q also))
          (rows.map (fun r => C12.arffWriteRow q also r.1 r.2)) = .ok ints) :
    ∃ cells table, encodeRows (attrs.map (·.typ.enc true)) (rows.map (·.2.map (·.2))) = .ok cells ∧
      rowsLabels cells = .ok table ∧
      ∃ exs, DenseSplit ind table exs ∧ MeetsStatement given exs ints :=
  end_to_end_arff_dense' q hq also attrs hattr hnd rows hrows ind given ints h

/-! ### contexts addressed by header name (`DropOne.headers`, `DropOne.__getitem__(name)`) -/

/-- the label's header name is not among the context's headers … -/
theorem label_header_absent {η : Type} (i : Nat) (hdr : List η) (l : η) (hn : hdr.Nodup) (hl : hdr[i]? = some l) :
    l ∉ featureHeaders i hdr :=
  label_header_absent' i hdr l hn hl

/-- … so the true label cannot be read out of the context by the label column's name (`KeyError`) -/
theorem label_lookup_fails {η γ : Type} [DecidableEq η] (i : Nat) (hdr : List η) (feats : List γ) (l : η)
    (hn : hdr.Nodup) (hl : hdr[i]? = some l) : featureByName i hdr feats l = .error .keyError :=
  label_lookup_fails' i hdr feats l hn hl

/-- every other column is found in the context under its own name, with the row's value -/
theorem feature_lookup {η γ : Type} [DecidableEq η] (i : Nat) (hdr : List η) (row feats : List γ) (lab : γ)
    (hn : hdr.Nodup) (hlen : hdr.length = row.length) (hs : splitDense i row = .ok (feats, lab))
    (k : Nat) (name : η) (v : γ) (hk : k ≠ i) (hname : hdr[k]? = some name) (hv : row[k]? = some v) :
    featureByName i hdr feats name = .ok v :=
  feature_lookup' i hdr row feats lab hn hlen hs k name v hk hname hv

example : featureByName 1 ["a", "y", "b"] [10, 30] "b" = .ok 30 ∧
    featureByName 1 ["a", "y", "b"] [10, 30] "y" = (.error .keyError : Except Err Nat) := by decide

/-! ## Phase 3 -/

/-! ### end to end = the in-memory (X,Y) form: the simulation over the reader yields exactly the interactions
`SupervisedSimulation(X, Y, label_type)` yields for the examples the file denotes -/

theorem dense_eq_xy (given : Option LType) (ind : Int) (table : List (List Label))
    (ints : List (Interaction (List Label))) (h : simDense given none ind table = .ok ints) :
    ∃ exs, DenseSplit ind table exs ∧ simPairs given none exs = .ok ints :=
  dense_eq_xy' given ind table ints h

theorem end_to_end_csv_xy (delim : Nat) (hd1 : delim ≠ C12.DQ) (hd2 : C12.isNl delim = false) (hasHeader : Bool)
    (rows : List (List (Bool × C12.Text))) (hok : ∀ r ∈ rows, C12.csvRowOk r = true)
    (ind : Int) (given : Option LType) (ints : List (Interaction (List Label)))
    (h : csvSim delim hasHeader (.index ind) given (rows.map (C12.csvWriteRow delim)) = .ok ints) :
    ∃ exs, DenseSplit ind (((rows.map (·.map (·.2))).drop (if hasHeader then 1 else 0)).map (·.map textLabel)) exs ∧
      simPairs given none exs = .ok ints :=
  end_to_end_csv_xy' delim hd1 hd2 hasHeader rows hok ind given ints h

/-- LibSVM: an equation, errors included -/
theorem end_to_end_libsvm_xy (rows : List C12.SvmRow) (hok : ∀ r ∈ rows, C12.svmRowOk r = true) (given : Option LType) :
    libsvmSim given (rows.map C12.svmWriteRow) = simPairs given none (rows.map svmPair) :=
  end_to_end_libsvm_xy' rows hok given

theorem end_to_end_manik_xy (first : C12.Text) (rows : List C12.SvmRow) (hok : ∀ r ∈ rows, C12.svmRowOk r = true)
    (given : Option LType) :
    manikSim given (first :: rows.map C12.svmWriteRow) = simPairs given none (rows.map svmPair) :=
  end_to_end_manik_xy' first rows hok given

example : C12.svmRowOk ⟨[[49], [50]], [([51], [52, 46, 53])]⟩ = true := by decide

/- theorem end_to_end_arff_xy (any ARFF file a Weka/OpenML writer produces) — only in part:
   * dense, one quote style, names/levels/values within C12's `AttrW.ok` / `arffRowOk` (gaps named by C12-F8, F9, F11), header and
     data lines handed over separately (C12 has no round trip of the whole-file reader `arffRead`): `end_to_end_arff_dense_xy_partial`;
   * sparse data lines: not proved — C12 proves `arff_sparse_roundtrip_partial` for one row (`arffSparseLine`) but not for
     `sparseRows` (implicit columns, encoders) over a file; sparse ARFF stays covered by (A)+(B) through the table path only. -/
theorem end_to_end_arff_dense_xy_partial (q : Nat) (hq : q = C12.SQ ∨ q = C12.DQ) (also : Nat → Bool)
    (attrs : List C12.AttrW) (hattr : ∀ a ∈ attrs, a.ok true = true) (hnd : (attrs.map (·.name.2)).Nodup)
    (rows : List (Nat × List (Bool × C12.Text)))
    (hrows : ∀ r ∈ rows, C12.arffRowOk q r.2 = true ∧ r.2.length = attrs.length)
    (ind : Int) (given : Option LType) (ints : List (Interaction (List Label)))
    (h : arffDenseSim (.index ind) given (attrs.map (·.line q also))
          (rows.map (fun r => C12.arffWriteRow q also r.1 r.2)) = .ok ints) :
    ∃ cells table, encodeRows (attrs.map (·.typ.enc true)) (rows.map (·.2.map (·.2))) = .ok cells ∧
      rowsLabels cells = .ok table ∧
      ∃ exs, DenseSplit ind table exs ∧ simPairs given none exs = .ok ints :=
  end_to_end_arff_dense_xy' q hq also attrs hattr hnd rows hrows ind given ints h

/-! ### the lazy row the learner receives (C13's model of `HeadDense` / `LabelDense` / `DropOne`) -/

/-- the context object of an interaction over a list-backed table is `LabelDense(row,i,tipe).feats = DropOne(row,i)`;
iterating it, its length, indexing it by position and its header map all give the features (the row without cell `i`),
and the label the simulation uses is cell `i` -/
theorem lazy_context (hdr : Option (List String)) (vals : List C13.Val) (i : Nat) (t : Option String)
    (hi : i < vals.length) :
    (C13.DRow.label (lazyRow hdr vals) i t).feats = .ok (lazyContext hdr vals i) ∧
    (C13.DRow.label (lazyRow hdr vals) i t).labelVal = C13.idx vals i ∧
    (lazyContext hdr vals i).iter = .ok (vals.eraseIdx i) ∧
    (lazyContext hdr vals i).len = (vals.eraseIdx i).length ∧
    (∀ j, (lazyContext hdr vals i).getPos j = C13.idx (vals.eraseIdx i) j) ∧
    (lazyContext hdr vals i).headers.toOption = (hdr.map C13.zipNames).map (C13.DRow.shiftHdr i) :=
  lazy_context' hdr vals i t hi

/-- the label cannot be read out of the lazy context by the label column's header name -/
theorem lazy_context_label_hidden (ns : List String) (vals : List C13.Val) (i : Nat) (l : String)
    (hn : ns.Nodup) (hl : ns[i]? = some l) :
    (lazyContext (some ns) vals i).getName l = .error .keyError :=
  lazy_context_label_hidden' ns vals i l hn hl

/-- every other column is read from the lazy context under its header name -/
theorem lazy_context_name (ns : List String) (vals : List C13.Val) (i k : Nat) (name : String) (v : C13.Val)
    (hn : ns.Nodup) (hi : i < vals.length) (hk : k ≠ i) (hname : ns[k]? = some name) (hv : vals[k]? = some v) :
    (lazyContext (some ns) vals i).getName name = .ok v :=
  lazy_context_name' ns vals i k name v hn hi hk hname hv

example : (lazyContext (some ["a", "y", "b"]) [.int 1, .str "x", .int 2] 1).getName "b" = .ok (.int 2) ∧
    (lazyContext (some ["a", "y", "b"]) [.int 1, .str "x", .int 2] 1).getName "y" = .error .keyError ∧
    (lazyContext (some ["a", "y", "b"]) [.int 1, .str "x", .int 2] 1).iter = .ok [.int 1, .int 2] := by decide

/-! ### which action order the code guarantees: a function of the label set (and the declared levels) alone -/

/-- plain labels (strings, numbers, one-element lists): ascending in Python's `<` (`actions_eq`), hence two example
sets with the same labels — in any order, with any multiplicities, any features — are offered the same action list -/
theorem actions_order_canonical {χ₁ χ₂ : Type} (g₁ g₂ : Option LType) (rows₁ : List (χ₁ × Label)) (rows₂ : List (χ₂ × Label))
    (ints₁ : List (Interaction χ₁)) (ints₂ : List (Interaction χ₂))
    (h₁ : read g₁ rows₁ = .ok ints₁) (h₂ : read g₂ rows₂ = .ok ints₂)
    (t₁ : typeOf g₁ rows₁ = some .c) (t₂ : typeOf g₂ rows₂ = some .c)
    (l₁ : firstLevels rows₁ = none) (l₂ : firstLevels rows₂ = none)
    (hset : ∀ v, (∃ r ∈ rows₁, delist r.2 = .ok v) ↔ (∃ r ∈ rows₂, delist r.2 = .ok v)) :
    ∀ x₁ ∈ ints₁, ∀ x₂ ∈ ints₂, x₁.actions = x₂.actions :=
  actions_order_canonical' g₁ g₂ rows₁ rows₂ ints₁ ints₂ h₁ h₂ t₁ t₂ l₁ l₂ hset

/-- Categorical labels: the declared level order restricted to the occurring levels (`actions_eq_cat`): same levels
and same occurring labels give the same action list -/
theorem cat_order_canonical {χ₁ χ₂ : Type} (g₁ g₂ : Option LType) (rows₁ : List (χ₁ × Label)) (rows₂ : List (χ₂ × Label))
    (ints₁ : List (Interaction χ₁)) (ints₂ : List (Interaction χ₂)) (levels : List String)
    (h₁ : read g₁ rows₁ = .ok ints₁) (h₂ : read g₂ rows₂ = .ok ints₂)
    (t₁ : typeOf g₁ rows₁ = some .c) (t₂ : typeOf g₂ rows₂ = some .c)
    (l₁ : firstLevels rows₁ = some levels) (l₂ : firstLevels rows₂ = some levels)
    (hset : ∀ v, (∃ r ∈ rows₁, delist r.2 = .ok v) ↔ (∃ r ∈ rows₂, delist r.2 = .ok v)) :
    ∀ x₁ ∈ ints₁, ∀ x₂ ∈ ints₂, x₁.actions = x₂.actions :=
  cat_order_canonical' g₁ g₂ rows₁ rows₂ ints₁ ints₂ levels h₁ h₂ t₁ t₂ l₁ l₂ hset

/-- multi-label: ascending over the union of the label sets -/
theorem multilabel_order_canonical {χ₁ χ₂ : Type} (g₁ g₂ : Option LType) (rows₁ : List (χ₁ × Label)) (rows₂ : List (χ₂ × Label))
    (ints₁ : List (Interaction χ₁)) (ints₂ : List (Interaction χ₂))
    (h₁ : read g₁ rows₁ = .ok ints₁) (h₂ : read g₂ rows₂ = .ok ints₂)
    (t₁ : typeOf g₁ rows₁ = some .m) (t₂ : typeOf g₂ rows₂ = some .m)
    (hset : ∀ v, (∃ r ∈ rows₁, ∃ vs, r.2 = .list vs ∧ v ∈ vs) ↔ (∃ r ∈ rows₂, ∃ vs, r.2 = .list vs ∧ v ∈ vs)) :
    ∀ x₁ ∈ ints₁, ∀ x₂ ∈ ints₂, x₁.actions = x₂.actions :=
  multilabel_order_canonical' g₁ g₂ rows₁ rows₂ ints₁ ints₂ h₁ h₂ t₁ t₂ hset

/-- the same labels in another order, with other multiplicities and other features: the same action list -/
example : (read (χ := Nat) none [(1, .atom (.str "b")), (2, .atom (.str "a")), (3, .atom (.str "b"))]).toOption.map (·.map (·.actions)) =
      some [[.str "a", .str "b"], [.str "a", .str "b"], [.str "a", .str "b"]] ∧
    (read (χ := Nat) none [(7, .atom (.str "a")), (8, .atom (.str "b"))]).toOption.map (·.map (·.actions)) =
      some [[.str "a", .str "b"], [.str "a", .str "b"]] := by decide


/-! ## Phase 4 -/

/-! ### text sources WITH `take`: reader (C12) → Reservoir (C09, seed 1) → LabelRows → read, all inside the model -/

/-- the new pipelines without `take` are the phase-2 ones -/
theorem csvSimT_none (delim : Nat) (hasHeader : Bool) (lc : LabelCol) (given : Option LType) (lines : List C12.Text) :
    csvSimT delim hasHeader lc given none lines = csvSim delim hasHeader lc given lines :=
  csvSimT_none' delim hasHeader lc given lines

theorem libsvmSimT_none (given : Option LType) (lines : List C12.Text) : libsvmSimT given none lines = libsvmSim given lines :=
  libsvmSimT_none' given lines

theorem manikSimT_none (given : Option LType) (lines : List C12.Text) : manikSimT given none lines = manikSim given lines :=
  manikSimT_none' given lines

/-- CSV with `take`: the interactions meet the statement for the reservoir's sample of the written data rows (header dropped),
split at the label column; the sample is a sub-multiset of the written rows of size `min k n` -/
theorem end_to_end_csv_take (delim : Nat) (hd1 : delim ≠ C12.DQ) (hd2 : C12.isNl delim = false) (hasHeader : Bool)
    (rows : List (List (Bool × C12.Text))) (hok : ∀ r ∈ rows, C12.csvRowOk r = true)
    (ind : Int) (given : Option LType) (k : Nat) (steps : List C09.Step) (ints : List (Interaction (List Label)))
    (h : csvSimT delim hasHeader (.index ind) given (some (k, steps)) (rows.map (C12.csvWriteRow delim)) = .ok ints) :
    ∃ sample, C09.reservoir (some k) false (C05.normInt 1) steps
        ((rows.map (·.map (·.2))).drop (if hasHeader then 1 else 0)) = .ok sample ∧
      sample.Subperm ((rows.map (·.map (·.2))).drop (if hasHeader then 1 else 0)) ∧
      sample.length = min k ((rows.map (·.map (·.2))).drop (if hasHeader then 1 else 0)).length ∧
      ∃ exs, DenseSplit ind (sample.map (·.map textLabel)) exs ∧ MeetsStatement given exs ints :=
  end_to_end_csv_take' delim hd1 hd2 hasHeader rows hok ind given k steps ints h

theorem end_to_end_libsvm_take (rows : List C12.SvmRow) (hok : ∀ r ∈ rows, C12.svmRowOk r = true)
    (given : Option LType) (k : Nat) (steps : List C09.Step) (ints : List (Interaction (List (C12.Text × C12.Text))))
    (h : libsvmSimT given (some (k, steps)) (rows.map C12.svmWriteRow) = .ok ints) :
    ∃ sample, C09.reservoir (some k) false (C05.normInt 1) steps rows = .ok sample ∧
      sample.Subperm rows ∧ sample.length = min k rows.length ∧ MeetsStatement given (sample.map svmPair) ints :=
  end_to_end_libsvm_take' rows hok given k steps ints h

theorem end_to_end_manik_take (first : C12.Text) (rows : List C12.SvmRow) (hok : ∀ r ∈ rows, C12.svmRowOk r = true)
    (given : Option LType) (k : Nat) (steps : List C09.Step) (ints : List (Interaction (List (C12.Text × C12.Text))))
    (h : manikSimT given (some (k, steps)) (first :: rows.map C12.svmWriteRow) = .ok ints) :
    ∃ sample, C09.reservoir (some k) false (C05.normInt 1) steps rows = .ok sample ∧
      sample.Subperm rows ∧ sample.length = min k rows.length ∧ MeetsStatement given (sample.map svmPair) ints :=
  end_to_end_manik_take' first rows hok given k steps ints h

/-! ### `label_col` by header name -/

/-- over a table with headers a name is the index `HeadRows` maps it to (`denseByCol` is what every dense pipeline ends in) -/
theorem label_by_name (h : List C12.Text) (nm : C12.Text) (i : Nat) (given : Option LType) (table : List (List Label))
    (hi : headerIndex h nm = some i) :
    denseByCol (some h) (.name nm) given table = denseByCol (some h) (.index (i : Int)) given table :=
  denseByCol_name' h nm i given table hi

/-- CSV written with a header line: `label_col=<name>` yields exactly what `label_col=<its index>` yields (with or without
`take`), so `end_to_end_csv`, `end_to_end_csv_xy` and `end_to_end_csv_take` hold for header names as well -/
theorem end_to_end_csv_name (delim : Nat) (hd1 : delim ≠ C12.DQ) (hd2 : C12.isNl delim = false)
    (hdr : List (Bool × C12.Text)) (rows : List (List (Bool × C12.Text))) (hok : ∀ r ∈ hdr :: rows, C12.csvRowOk r = true)
    (nm : C12.Text) (i : Nat) (hi : headerIndex (hdr.map (·.2)) nm = some i)
    (given : Option LType) (res : Option (Nat × List C09.Step)) :
    csvSimT delim true (.name nm) given res ((hdr :: rows).map (C12.csvWriteRow delim)) =
      csvSimT delim true (.index (i : Int)) given res ((hdr :: rows).map (C12.csvWriteRow delim)) :=
  end_to_end_csv_name' delim hd1 hd2 hdr rows hok nm i hi given res

/-- `y,f` / `a,1` / `b,2` with the label named `y` -/
example : headerIndex [[121], [102]] [121] = some 0 ∧
    (csvSimT 44 true (.name [121]) none none
      ([[(false, [121]), (false, [102])], [(false, [97]), (false, [49])], [(false, [98]), (false, [50])]].map (C12.csvWriteRow 44))).toOption.map
        (·.map (·.actions)) = some [[.str "a", .str "b"], [.str "a", .str "b"]] := by decide +kernel

/-! ### whole-file ARFF (`C12.arffRead`: framing, `@data`, dense / sparse, encoders) -/

/-- a whole dense ARFF file of the Weka/OpenML-style writer (C12's `arff_dense_table_roundtrip`, hypotheses as there, the file
given up to `arffNormalize`, i.e. with any blank lines / kept terminators): the interactions are those of `LabelRows` + `read`
over the written cells (`rowOut`), the label column given by index or by attribute name -/
theorem end_to_end_arff_file_dense (q : Nat) (hq : q = C12.SQ ∨ q = C12.DQ) (also : Nat → Bool) (attrs : List C12.AttrW) (dkw : C12.Text)
    (rows : List (Nat × List (Bool × C12.CellW)))
    (hattrs : attrs ≠ []) (hok : ∀ a ∈ attrs, a.ok true = true) (hnd : (attrs.map (·.name.2)).Nodup)
    (hdkw : C12.lowerAscii dkw = C12.kwData) (hne : rows ≠ [])
    (hrows : ∀ r ∈ rows, C12.denseRowWOk q also r.1 (attrs.map (·.typ.enc true)) r.2 = true)
    (hfirst : ∀ r, rows.head? = some r → C12.notBraced (C12.denseRowLine q also r.1 r.2) = true)
    (lines : List C12.Text)
    (hnorm : C12.arffNormalize lines = attrs.map (·.line q also) ++ dkw :: rows.map (fun r => C12.denseRowLine q also r.1 r.2))
    (lc : LabelCol) (given : Option LType) (ints : List (Interaction (List Label)))
    (h : arffFileSim lc given none lines = .dense (.ok ints)) :
    ∃ table, rowsLabels (rows.map fun r => C12.rowOut (attrs.map (·.typ.enc true)) r.2) = .ok table ∧
      denseByCol (some (attrs.map (·.name.2))) lc given table = .ok ints :=
  end_to_end_arff_file_dense' q hq also attrs dkw rows hattrs hok hnd hdkw hne hrows hfirst lines hnorm lc given ints h

/-- … hence, for an index, the statement and the (X,Y) form for the written table split at the label column
(`dense_meets`, `dense_eq_xy` apply to `denseByCol … (.index ind)` = `simDense`) -/
theorem end_to_end_arff_file_dense_meets (ind : Int) (hdr : Option (List C12.Text)) (given : Option LType) (table : List (List Label))
    (ints : List (Interaction (List Label))) (h : denseByCol hdr (.index ind) given table = .ok ints) :
    ∃ exs, DenseSplit ind table exs ∧ MeetsStatement given exs ints ∧ simPairs given none exs = .ok ints :=
  denseByCol_index_meets' ind hdr given table ints h

/-- phase 4 form, under the explicit, named hypothesis `SparseFileRoundTrip` (Lemmas/C14).  Since phase 5 the hypothesis is
discharged for every whole sparse file of the canonical writer (`sparse_file_roundtrip`, `sparse_file_roundtrip_relation` below, from
C12's `arff_sparse_table_roundtrip`); `end_to_end_arff_file_sparse` / `end_to_end_arff_sparse_xy` state the result without it. -/
theorem end_to_end_arff_file_sparse_under (lines : List C12.Text) (names : List C12.Text) (srows : List C12.SparseRow)
    (hrt : SparseFileRoundTrip lines names srows) (lc : LabelCol) (given : Option LType)
    (ints : List (Interaction (List (Val × Label))))
    (h : arffFileSim lc given none lines = .sparse (.ok ints)) :
    ∃ table, sparseTable (srows.map (·.items)) = .ok table ∧
      MeetsStatement given (table.map (splitSparse (sparseKey names lc) (Label.atom (.num 0)))) ints :=
  end_to_end_arff_file_sparse_under' lines names srows hrt lc given ints h

/-- the hypothesis is met by a concrete sparse file (`@attribute a numeric`, `@attribute y {x,z}`, `@data`, `{0 2,1 z}`, `{1 x}`),
whose simulation offers the levels that occur, in declared order -/
example : (∃ names srows, SparseFileRoundTrip sparseDemo names srows) ∧
    sparseActions (.name [121]) none sparseDemo = some [[.str "x", .str "z"], [.str "x", .str "z"]] :=
  ⟨sparseDemo_roundtrip, sparseDemo_actions⟩

/-! ## Phase 5 -/

/-! ### whole sparse ARFF files: the named hypothesis `SparseFileRoundTrip` is discharged by C12's `arff_sparse_table_roundtrip` -/

/-- the hypothesis of `end_to_end_arff_file_sparse_under` holds for every whole sparse file of the Weka / OpenML-style writer
(hypotheses exactly those of C12's `arff_sparse_table_roundtrip`; the file given up to `arffNormalize`) -/
theorem sparse_file_roundtrip (q : Nat) (hq : q = C12.SQ ∨ q = C12.DQ) (also : Nat → Bool) (attrs : List C12.AttrW) (dkw : C12.Text)
    (rows : List (Nat × List (C12.Text × C12.CellW)))
    (hattrs : attrs ≠ []) (hok : ∀ a ∈ attrs, a.ok false = true) (hnd : (attrs.map (·.name.2)).Nodup)
    (hdkw : C12.lowerAscii dkw = C12.kwData) (hne : rows ≠ [])
    (hrows : ∀ r ∈ rows, C12.sparseRowWOk attrs.length (attrs.map (·.typ.enc false)) r.2 = true)
    (lines : List C12.Text)
    (hnorm : C12.arffNormalize lines = attrs.map (·.line q also) ++ dkw :: rows.map (fun r => C12.sparseRowLine r.1 r.2)) :
    SparseFileRoundTrip lines (attrs.map (·.name.2)) (sparseWritten attrs rows) :=
  sparse_file_roundtrip' q hq also attrs dkw rows hattrs hok hnd hdkw hne hrows lines hnorm

/-- a whole sparse ARFF file end to end, no named hypothesis left: the interactions meet the statement for the written rows
(`sparseRowOut`: the written items under their column names + coba's defaults for unwritten string/nominal columns) split at the
label key (`sparseKey`: a name, or an index translated to its column name; an absent label is 0), and they are exactly those of the
in-memory (X,Y) form over these examples -/
theorem end_to_end_arff_file_sparse (q : Nat) (hq : q = C12.SQ ∨ q = C12.DQ) (also : Nat → Bool) (attrs : List C12.AttrW) (dkw : C12.Text)
    (rows : List (Nat × List (C12.Text × C12.CellW)))
    (hattrs : attrs ≠ []) (hok : ∀ a ∈ attrs, a.ok false = true) (hnd : (attrs.map (·.name.2)).Nodup)
    (hdkw : C12.lowerAscii dkw = C12.kwData) (hne : rows ≠ [])
    (hrows : ∀ r ∈ rows, C12.sparseRowWOk attrs.length (attrs.map (·.typ.enc false)) r.2 = true)
    (lines : List C12.Text)
    (hnorm : C12.arffNormalize lines = attrs.map (·.line q also) ++ dkw :: rows.map (fun r => C12.sparseRowLine r.1 r.2))
    (lc : LabelCol) (given : Option LType) (ints : List (Interaction (List (Val × Label))))
    (h : arffFileSim lc given none lines = .sparse (.ok ints)) :
    ∃ table, sparseTable (rows.map fun r => C12.sparseRowOut (attrs.map (·.name.2)) (attrs.map (·.typ.enc false)) r.2) = .ok table ∧
      MeetsStatement given (table.map (splitSparse (sparseKey (attrs.map (·.name.2)) lc) (Label.atom (.num 0)))) ints ∧
      simPairs given none (table.map (splitSparse (sparseKey (attrs.map (·.name.2)) lc) (Label.atom (.num 0)))) = .ok ints :=
  end_to_end_arff_file_sparse' q hq also attrs dkw rows hattrs hok hnd hdkw hne hrows lines hnorm lc given ints h

/-- the (X,Y) equation alone (the form of `end_to_end_csv_xy` / `end_to_end_libsvm_xy`) -/
theorem end_to_end_arff_sparse_xy (q : Nat) (hq : q = C12.SQ ∨ q = C12.DQ) (also : Nat → Bool) (attrs : List C12.AttrW) (dkw : C12.Text)
    (rows : List (Nat × List (C12.Text × C12.CellW)))
    (hattrs : attrs ≠ []) (hok : ∀ a ∈ attrs, a.ok false = true) (hnd : (attrs.map (·.name.2)).Nodup)
    (hdkw : C12.lowerAscii dkw = C12.kwData) (hne : rows ≠ [])
    (hrows : ∀ r ∈ rows, C12.sparseRowWOk attrs.length (attrs.map (·.typ.enc false)) r.2 = true)
    (lines : List C12.Text)
    (hnorm : C12.arffNormalize lines = attrs.map (·.line q also) ++ dkw :: rows.map (fun r => C12.sparseRowLine r.1 r.2))
    (lc : LabelCol) (given : Option LType) (ints : List (Interaction (List (Val × Label))))
    (h : arffFileSim lc given none lines = .sparse (.ok ints)) :
    ∃ table, sparseTable (rows.map fun r => C12.sparseRowOut (attrs.map (·.name.2)) (attrs.map (·.typ.enc false)) r.2) = .ok table ∧
      simPairs given none (table.map (splitSparse (sparseKey (attrs.map (·.name.2)) lc) (Label.atom (.num 0)))) = .ok ints :=
  (end_to_end_arff_file_sparse' q hq also attrs dkw rows hattrs hok hnd hdkw hne hrows lines hnorm lc given ints h).imp fun _ t => ⟨t.1, t.2.2⟩

/-- the hypotheses are met by the writer's data of the demo file (`@attribute a numeric`, `@attribute y {x,z}`, `@data`, `{0 2,1 z}`, `{1 x}`),
and what it writes is that file -/
example : demoAttrs.map (·.line C12.SQ (fun _ => false)) ++ a2t "@data" :: demoRows.map (fun r => C12.sparseRowLine r.1 r.2) = sparseDemo ∧
    (demoAttrs ≠ [] ∧ (∀ a ∈ demoAttrs, a.ok false = true) ∧ (demoAttrs.map (·.name.2)).Nodup ∧
    C12.lowerAscii (a2t "@data") = C12.kwData ∧ demoRows ≠ [] ∧
    (∀ r ∈ demoRows, C12.sparseRowWOk demoAttrs.length (demoAttrs.map (·.typ.enc false)) r.2 = true) ∧
    C12.arffNormalize sparseDemo = sparseDemo) := ⟨demo_written, demo_hyps⟩

/-! ### whole-file ARFF with take (goal 2) -/

/-- sparse file + take: the interactions are those of the reservoir's sample (C09, seed 1) of the written rows — a sub-multiset of
size `min k n` — and meet the statement for the sampled rows split at the label key; (X,Y) form included -/
theorem end_to_end_arff_file_sparse_take (q : Nat) (hq : q = C12.SQ ∨ q = C12.DQ) (also : Nat → Bool) (attrs : List C12.AttrW) (dkw : C12.Text)
    (rows : List (Nat × List (C12.Text × C12.CellW)))
    (hattrs : attrs ≠ []) (hok : ∀ a ∈ attrs, a.ok false = true) (hnd : (attrs.map (·.name.2)).Nodup)
    (hdkw : C12.lowerAscii dkw = C12.kwData) (hne : rows ≠ [])
    (hrows : ∀ r ∈ rows, C12.sparseRowWOk attrs.length (attrs.map (·.typ.enc false)) r.2 = true)
    (lines : List C12.Text)
    (hnorm : C12.arffNormalize lines = attrs.map (·.line q also) ++ dkw :: rows.map (fun r => C12.sparseRowLine r.1 r.2))
    (lc : LabelCol) (given : Option LType) (k : Nat) (steps : List C09.Step) (ints : List (Interaction (List (Val × Label))))
    (h : arffFileSim lc given (some (k, steps)) lines = .sparse (.ok ints)) :
    ∃ sample, C09.reservoir (some k) false (C05.normInt 1) steps (sparseWritten attrs rows) = .ok sample ∧
      sample.Subperm (sparseWritten attrs rows) ∧ sample.length = min k rows.length ∧
      ∃ table, sparseTable (sample.map (·.items)) = .ok table ∧
        MeetsStatement given (table.map (splitSparse (sparseKey (attrs.map (·.name.2)) lc) (Label.atom (.num 0)))) ints ∧
        simPairs given none (table.map (splitSparse (sparseKey (attrs.map (·.name.2)) lc) (Label.atom (.num 0)))) = .ok ints :=
  end_to_end_arff_file_sparse_take' q hq also attrs dkw rows hattrs hok hnd hdkw hne hrows lines hnorm lc given k steps ints h

/-- dense file + take: `LabelRows` + `read` over the reservoir's sample of the written rows, label column by index or name
(`end_to_end_arff_file_dense_meets` then gives the statement and the (X,Y) form for an index, `label_by_name` for a name) -/
theorem end_to_end_arff_file_dense_take (q : Nat) (hq : q = C12.SQ ∨ q = C12.DQ) (also : Nat → Bool) (attrs : List C12.AttrW) (dkw : C12.Text)
    (rows : List (Nat × List (Bool × C12.CellW)))
    (hattrs : attrs ≠ []) (hok : ∀ a ∈ attrs, a.ok true = true) (hnd : (attrs.map (·.name.2)).Nodup)
    (hdkw : C12.lowerAscii dkw = C12.kwData) (hne : rows ≠ [])
    (hrows : ∀ r ∈ rows, C12.denseRowWOk q also r.1 (attrs.map (·.typ.enc true)) r.2 = true)
    (hfirst : ∀ r, rows.head? = some r → C12.notBraced (C12.denseRowLine q also r.1 r.2) = true)
    (lines : List C12.Text)
    (hnorm : C12.arffNormalize lines = attrs.map (·.line q also) ++ dkw :: rows.map (fun r => C12.denseRowLine q also r.1 r.2))
    (lc : LabelCol) (given : Option LType) (k : Nat) (steps : List C09.Step) (ints : List (Interaction (List Label)))
    (h : arffFileSim lc given (some (k, steps)) lines = .dense (.ok ints)) :
    ∃ sample, C09.reservoir (some k) false (C05.normInt 1) steps (denseWritten attrs rows) = .ok sample ∧
      sample.Subperm (denseWritten attrs rows) ∧ sample.length = min k rows.length ∧
      ∃ table, rowsLabels (sample.map (·.cells)) = .ok table ∧
        denseByCol (some (attrs.map (·.name.2))) lc given table = .ok ints :=
  end_to_end_arff_file_dense_take' q hq also attrs dkw rows hattrs hok hnd hdkw hne hrows hfirst lines hnorm lc given k steps ints h

/-! ### `HeadRows`: which column a header name stands for -/

/-- `headerIndex` (= `dict(zip(headers, count()))[name]`) is **the last column of that name** -/
theorem headerIndex_spec (h : List C12.Text) (nm : C12.Text) (i : Nat) :
    headerIndex h nm = some i ↔ h[i]? = some nm ∧ ∀ j, i < j → h[j]? ≠ some nm := headerIndex_some_iff' h nm i

/-- … and it fails (`KeyError`) exactly for a name no column has -/
theorem headerIndex_none (h : List C12.Text) (nm : C12.Text) : headerIndex h nm = none ↔ nm ∉ h := headerIndex_none_iff' h nm

example : headerIndex [[121], [102], [121]] [121] = some 2 ∧ headerIndex [[121], [102]] [122] = none := by decide

/-! ### translator obligation: `SupervisedSimulation.__init__` / `.read` as extracted from the current source -/

/-- the tables `harness/props/c14.py` (`pre_build`) reads off the current `coba/environments/supervised.py` with Python's `ast` —
reward constructor and action computation reached for every label-type literal (either case) × "first label is a Categorical",
the numeric types and the two literals of the inference, the precedence explicit > tipe > inferred, the argument positions /
keyword names / defaults of both overloads (`label_col`, `label_type`, `take` default to None), `Reservoir(take)` joined before
`LabelRows(label_col,label_type)`, and what an interaction is built from — are the ones the model assumes -/
theorem supervised_source_as_modelled :
    Coba.Generated.C14.extracted = true ∧ Coba.Generated.C14.dispatch = dispatchTable ∧
    Coba.Generated.C14.inferNumeric = inferNumericTypes ∧
    parseLType Coba.Generated.C14.inferThen = some .r ∧ parseLType Coba.Generated.C14.inferElse = some .c ∧
    Coba.Generated.C14.sourcesNoTipe = typeSources false ∧ Coba.Generated.C14.sourcesTipe = typeSources true ∧
    Coba.Generated.C14.sourceArgs = ctorSourceArgs ∧ Coba.Generated.C14.xyArgs = ctorXYArgs ∧
    Coba.Generated.C14.joins = pipelineJoins ∧ Coba.Generated.C14.yields = yieldTable := by decide

/-- the model's `read` dispatches as its table says, for all inputs: every reward object has the class of the label type in force -/
theorem reward_class_dispatch {χ : Type} (given : Option LType) (rows : List (χ × Label)) (ints : List (Interaction χ)) (t : LType)
    (h : read given rows = .ok ints) (ht : typeOf given rows = some t) :
    ∀ x ∈ ints, x.reward.className = rewardClassOf t := read_reward_class' given rows ints t h ht

example : (read (χ := Nat) (parseLType "M") [(1, .list [.str "a", .str "b"]), (2, .list [.str "b"])]).toOption.map (·.map (·.reward.className)) =
      some ["HammingReward", "HammingReward"] ∧
    (read (χ := Nat) none [(1, .cat "y" ["z", "y"]), (2, .cat "z" ["z", "y"])]).toOption.map (·.map (·.reward.className)) =
      some ["BinaryReward", "BinaryReward"] := by decide +kernel

/-- … and the row of that label type (given by any literal `label_type.lower()` maps to it) is in the extracted table, its
constructor being that class, applied to the label or to the delisted label -/
theorem dispatch_row_extracted (lit : String) (t : LType) (cat : Bool) (h : parseLType lit = some t) :
    (lit, cat, rewardCtorOf t cat, actionsKindOf t cat) ∈ Coba.Generated.C14.dispatch ∧
    (rewardCtorOf t cat = rewardClassOf t ∨ rewardCtorOf t cat = rewardClassOf t ++ "(delist)") :=
  ⟨supervised_source_as_modelled.2.1 ▸ dispatch_row_mem' lit t cat h, rewardCtor_class' t cat⟩

example : parseLType "M" = some .m ∧ parseLType "c" = some .c ∧ parseLType "x" = none := by decide

/-- where the label type comes from (`typeSources`): the explicit `label_type`, else the rows' `tipe`, else inferred from the first
label — number ⇒ `r` (the extracted `inferThen`), anything else ⇒ `c` (`inferElse`) -/
theorem label_type_resolution (g tipe : Option LType) (first : Label) :
    inferType (resolveGiven g tipe) first =
      match g, tipe with
      | some t, _ => t
      | none, some t => t
      | none, none => match first with | .atom (.num _) => .r | _ => .c := label_type_resolution' g tipe first

/-- the same with a `@relation` line (or any other line that is neither `@data` nor an attribute line) in front — the files the
harness' sparse writer emits; with `end_to_end_arff_file_sparse_under` this gives the statement for them -/
theorem sparse_file_roundtrip_relation (q : Nat) (hq : q = C12.SQ ∨ q = C12.DQ) (also : Nat → Bool) (attrs : List C12.AttrW) (dkw : C12.Text)
    (rows : List (Nat × List (C12.Text × C12.CellW)))
    (hattrs : attrs ≠ []) (hok : ∀ a ∈ attrs, a.ok false = true) (hnd : (attrs.map (·.name.2)).Nodup)
    (hdkw : C12.lowerAscii dkw = C12.kwData) (hne : rows ≠ [])
    (hrows : ∀ r ∈ rows, C12.sparseRowWOk attrs.length (attrs.map (·.typ.enc false)) r.2 = true)
    (rel : C12.Text) (hr1 : C12.lowerAscii rel ≠ C12.kwData) (hr2 : C12.lowerAscii (rel.take 5) ≠ C12.kwAttr)
    (lines : List C12.Text)
    (hnorm : C12.arffNormalize lines = rel :: (attrs.map (·.line q also) ++ dkw :: rows.map (fun r => C12.sparseRowLine r.1 r.2))) :
    SparseFileRoundTrip lines (attrs.map (·.name.2)) (sparseWritten attrs rows) :=
  sparse_file_roundtrip_relation' q hq also attrs dkw rows hattrs hok hnd hdkw hne hrows rel hr1 hr2 lines hnorm

example : C12.lowerAscii (a2t "@relation verif") ≠ C12.kwData ∧ C12.lowerAscii ((a2t "@relation verif").take 5) ≠ C12.kwAttr := by decide

end Coba.C14
