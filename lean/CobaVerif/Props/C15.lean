import CobaVerif.Lemmas.C15

namespace Coba.C15

theorem fixes_all_short : Fixes.all.short = true := fixes_all_short'

end Coba.C15
