/-
C15 — Every supported prediction format is understood the same way.
Property theorems only (helper lemmas live in `Lemmas/C15.lean`; the model and the spec in `Model/C15.lean`).

Reading of the statement.  A learner "using one documented format consistently" is `scripted sp pol`:
`sp` fixes the format (`A | AP | PM | dA | dAP | dPM`), whether a kwargs mapping follows, and how a batch is answered
(`row`-major, `col`umn-major, or `single` = the learner raises on a batch); `pol : context → offered actions → Answer`
is ANY function saying which offered action it names, which probability / PMF it states and which kwargs it gives.
`wantSingle` / `wantBatch` say what the evaluator must then receive.  `Fixes.all` is the code with the proposed repairs
`fixes/C15-*.diff`, `Fixes.none` the pinned commit; the side conditions (`firstRowOK`, `Unambiguous`, all decidable) are
the property's own "offered action objects themselves, or explicit hints where a value could be read two ways", plus -
for flags that are off - the regions of the recorded defects C15-F1…F4.
-/
import CobaVerif.Lemmas.C15
import CobaVerif.Lemmas.C15Hist
import CobaVerif.Lemmas.C15P4
import CobaVerif.Lemmas.C15P5
import CobaVerif.Lemmas.C15P6

namespace Coba.C15

/-- **format_roundtrip, unbatched calls.**  For every format, with or without kwargs, every policy, every offered action
set and every state the SafeLearner can be in: `predict` returns exactly the action the learner named (an offered
object), the probability it stated (`None` for a bare action; for a PMF the draw of `CobaRandom.choicew` from the
SafeLearner's generator and the PMF's own entry for it), and the kwargs object it gave; the detection is memoised. -/
theorem format_roundtrip_single (fx : Fixes) (sp : Spec) (pol : Policy) (st : State) (c : PyVal) (as : List PyVal)
    (hinv : Inv sp false st)
    (hfirst : st.layout = Option.none → firstRowOK fx sp (pol c as) as = true) :
    predictCore fx (scripted sp pol) st (.single c as) =
      (wantSingle sp st.rng (pol c as) as).map (fun x => (x.1, stAfter sp false st x.2)) :=
  format_roundtrip_single' fx sp pol st c as hinv hfirst

/-- **format_roundtrip, batched calls** (row-major, column-major, and learners that cannot handle batches - these are
called per row): per row the named action, the stated probability (or the PMF draws made row after row from the one
generator), and per kwargs key the rows' values in order. -/
theorem format_roundtrip_batch (fx : Fixes) (sp : Spec) (pol : Policy) (st : State) (cs : List PyVal) (rows : List (List PyVal))
    (hinv : Inv sp true st) (hlen : cs.length = rows.length) (hne : rows ≠ [])
    (hU : Unambiguous fx sp st (rowsOf pol cs rows) = true) :
    Delivers (predictCore fx (scripted sp pol) st (.batch cs rows)) (wantBatch sp st.rng (rowsOf pol cs rows))
      (stAfter sp true st) :=
  format_roundtrip_batch' fx sp pol st cs rows hinv hlen hne hU

/-- the same two theorems read for the repaired code: all defect regions are gone from the side conditions -/
theorem format_roundtrip (sp : Spec) (pol : Policy) (st : State) (cs : List PyVal) (rows : List (List PyVal))
    (hinv : Inv sp true st) (hlen : cs.length = rows.length) (hne : rows ≠ [])
    (hU : Unambiguous Fixes.all sp st (rowsOf pol cs rows) = true) :
    Delivers (predictCore Fixes.all (scripted sp pol) st (.batch cs rows)) (wantBatch sp st.rng (rowsOf pol cs rows))
      (stAfter sp true st) :=
  format_roundtrip_batch' Fixes.all sp pol st cs rows hinv hlen hne hU

/-- … and for the pinned commit: the same claim holds outside the regions of the recorded defects (the `fx.… = false`
disjuncts of `firstRowOK`, `dictRowsOK`, `colParseOK`); the `_counterexample` theorems below show each is necessary. -/
theorem format_roundtrip_pinned_partial (sp : Spec) (pol : Policy) (st : State) (cs : List PyVal) (rows : List (List PyVal))
    (hinv : Inv sp true st) (hlen : cs.length = rows.length) (hne : rows ≠ [])
    (hU : Unambiguous Fixes.none sp st (rowsOf pol cs rows) = true) :
    Delivers (predictCore Fixes.none (scripted sp pol) st (.batch cs rows)) (wantBatch sp st.rng (rowsOf pol cs rows))
      (stAfter sp true st) :=
  format_roundtrip_batch' Fixes.none sp pol st cs rows hinv hlen hne hU

/-- the hypotheses are satisfiable: a column-major (action, prob) learner with kwargs on a 2-row batch of 0/1 actions -/
example : Unambiguous Fixes.all { fmt := .AP, kw := true, layout := .col } (initState 1)
    (rowsOf (exPol (fun i => i) (fun _ => 0) 2) (ctxs 2) [[.flt (.safe 0) 0, .flt (.safe 1) 1], [.flt (.safe 4096) 0, .flt (.safe 4097) 1]]) = true := by decide

/-- `predict` is the float-copy step followed by the core the theorems above are about -/
theorem predict_prepare (fx : Fixes) (L : Learner) (st : State) (arg : Arg) :
    predict fx L st arg = predictCore fx L (prepare fx st arg).1 (prepare fx st arg).2 :=
  predict_prepare' fx L st arg

/-- the memoised detection is an invariant of the evaluation: it holds initially, the float-copy step keeps it, every
answered call re-establishes it (so the per-call theorems chain over any history of calls) -/
theorem inv_preserved (fx : Fixes) (sp : Spec) (b : Bool) (st : State) (arg : Arg) (s : Nat) :
    Inv sp b (initState 1) ∧ (Inv sp b st → Inv sp b (prepare fx st arg).1) ∧ Inv sp b (stAfter sp b st s) :=
  ⟨Or.inl ⟨rfl, rfl⟩, inv_prepare' fx sp b st arg, inv_stAfter' sp b st s⟩

/-- on a fresh SafeLearner the learner is given the float copies (each row of a batch, in the repaired code) -/
theorem prepare_given (st : State) (arg : Arg) (h : st.prev = Option.none) :
    (prepare Fixes.all st arg).2 =
      (match arg with
       | .single c as => .single c (safeRow 0 as)
       | .batch cs rows => .batch cs (mapIdxFrom safeRow 0 rows)) :=
  prepare_given' st arg h

/-- "an action that is one of the offered actions": the learner is given, position by position, the offered object
itself or a float equal to it, and never the int 0, the int 1 or a bool -/
theorem safe_actions_equal (r : Nat) (as : List PyVal) :
    List.Forall₂ (fun s a => s = a ∨ pyEq s a = true) (safeRow r as) as ∧
    ∀ a ∈ safeRow r as, a ≠ .int 0 ∧ a ≠ .int 1 ∧ ∀ b, a ≠ .bool b :=
  ⟨safeRow_values' r as, safeRow_no01' r as⟩

/-- hence the entries of a PMF built by the learner (fresh floats, or the interned ints 0/1) are none of the objects it
was given: the two-action side condition of `firstRowOK` holds by construction once the copies are made -/
theorem pmf_entry_fresh (x : PyVal) (as : List PyVal)
    (hx : (∃ k q, x = .flt (.lrn k) q) ∨ x = .int 0 ∨ x = .int 1)
    (hsafe : ∀ a ∈ as, a ≠ .int 0 ∧ a ≠ .int 1) (hl : ∀ a ∈ as, isLrn a = false) :
    as.any (fun a => pyIs x a) = false :=
  pmf_entry_fresh' x as hx hsafe hl

/-- **pmf_prob_reported.**  A PMF over the offered actions is sampled with one uniform of the SafeLearner's generator
(C05); the action returned is offered, the probability returned is exactly the PMF's entry for it, and it is positive. -/
theorem pmf_prob_reported (s : Nat) (as pmf : List PyVal) (v : PyVal) (hv : v.items = some pmf)
    (hp : validPmf pmf as = true) :
    ∃ (i : Nat) (a p : PyVal) (q : Rat), choicew s as v = .ok (Coba.C05.next s, a, p) ∧ as[i]? = some a ∧ pmf[i]? = some p ∧
      p.num = some q ∧ 0 < q :=
  pmf_prob_reported' s as pmf v hv hp

/-- **ambiguity_characterised.**  Which un-hinted two-item answers are read as (action, prob): exactly those whose first
item IS one of the objects the learner was given - whatever the learner meant (a two-action PMF built from offered float
objects, a two-feature action starting with another offered action, …).  This is a design limit, not a defect: such
answers need the dict hints. -/
theorem ambiguity_characterised (fx : Fixes) (v x y : PyVal) (as : List PyVal) (hv : v.items = some [x, y]) (hne : as ≠ []) :
    predFormat fx v (some as) = .ok ⟨.AP, false⟩ ↔ as.any (fun a => pyIs x a) = true :=
  ambiguity_two_items' fx v x y as hv hne

/-- **kwargs_unchanged** (unbatched calls and learners that take batches): `learn` is called once with exactly the
kwargs object `predict` returned, next to the action, the probability and the reward. -/
theorem kwargs_unchanged (arg : Arg) (r : Result) (reward : PyVal) (ks : List String) (vs : List PyVal) (ref : Ref)
    (hk : r.kw = .dict ref ks vs) :
    (∀ c as, arg = .single c as → learn true arg r reward = .ok [⟨c, r.a, reward, r.p, ks, vs⟩] ∧
                                   learn false arg r reward = .ok [⟨c, r.a, reward, r.p, ks, vs⟩]) ∧
    (∀ cs rows, arg = .batch cs rows → learn true arg r reward = .ok [⟨.list .tmp cs, r.a, reward, r.p, ks, vs⟩]) :=
  learn_kwargs_whole' arg r reward ks vs ref hk

/-- **kwargs_unchanged, per-row learners**: row j is given its context, action, reward, probability and the j-th entry
of every kwargs column (`format_roundtrip_batch`: that is the value the learner gave for row j under that key). -/
theorem kwargs_unchanged_per_row (ks : List String) (cols : List (List PyVal)) (ref : Ref) (cs A R P : List PyVal)
    (hc : ∀ c ∈ cols, cs.length ≤ c.length) (hA : A.length = cs.length) (hR : R.length = cs.length) (hP : P.length = cs.length) :
    ∃ calls, learnRows 0 cs A R P ks (cols.map (fun c => PyVal.list ref c)) = .ok calls ∧ calls.length = cs.length ∧
      ∀ (j : Nat) (call : LearnCall), calls[j]? = some call →
        call.kwKeys = ks ∧ call.kwVals = cols.map (fun c => c.getD (0 + j) .none) ∧
        cs[j]? = some call.ctx ∧ A[j]? = some call.action ∧ R[j]? = some call.reward ∧ P[j]? = some call.prob :=
  learnRows_kwargs' ks cols ref 0 cs A R P (by simpa using hc) hA hR hP

/-- **fallback_equiv.**  A learner that cannot handle batches is called exactly once per row, in order (after the one
batch attempt of the first call), and - `wantBatch` does not depend on the layout - the evaluator receives what it
would receive from the same learner answering the batch row-major. -/
theorem fallback_equiv (fx : Fixes) (sp : Spec) (pol : Policy) (m : Option Nat) (cs : List PyVal) (rows : List (List PyVal))
    (hlay : sp.layout = .single) (hm : m = Option.none ∨ m = some 2) (s : Nat) (R : Rows) :
    (safeCallTrace fx (scripted sp pol) m (.batch cs rows)).filter (fun a => !isBatchArg a) = perRowArgs cs rows ∧
    wantBatch { sp with layout := .row } s R = wantBatch sp s R :=
  ⟨perrow_calls' fx sp pol m cs rows hlay hm, wantBatch_layout' sp .row s R⟩

/-! ### the recorded defects of the pinned commit (each replayed on the real code by the harness) and their repair -/

/-- C15-F1a: an un-hinted bare action that is a sparse dict with two features raises KeyError -/
theorem pinned_short_dict_counterexample :
    errOf (predict Fixes.none (scripted { fmt := .A, kw := false, layout := .single } (exPol (fun _ => 0) (fun _ => 0) 2)) (initState 1)
      (.single (.int 0) [exD2 2 1, exD2 3 2])) = some .key := pinned_short_dict_counterexample'

/-- C15-F1b: an un-hinted bare action that is a one-item tuple raises CobaException -/
theorem pinned_short_tuple_counterexample :
    errOf (predict Fixes.none (scripted { fmt := .A, kw := false, layout := .single } (exPol (fun _ => 0) (fun _ => 0) 2)) (initState 1)
      (.single (.int 0) [.tuple (.ext 1) [.int 5], .tuple (.ext 2) [.int 6]])) = some .coba := pinned_short_tuple_counterexample'

/-- C15-F2: batched 0/1 actions get no float copies, so the PMFs [0,1],[1,0] are read as (action, prob) … -/
theorem pinned_batched01_counterexample :
    numsOf (predict Fixes.none (scripted { fmt := .PM, kw := false, layout := .row } (exPol (fun _ => 0) (fun i => 1 - i) 2)) (initState 1)
      (.batch (ctxs 2) [[.int 0, .int 1], [.int 0, .int 1]])) = some ([some 0, some 1], [some 1, some 0]) := pinned_batched01_counterexample'

/-- … while the repaired code draws actions 1 and 0 with probability 1 each -/
theorem fixed_batched01 :
    numsOf (predict Fixes.all (scripted { fmt := .PM, kw := false, layout := .row } (exPol (fun _ => 0) (fun i => 1 - i) 2)) (initState 1)
      (.batch (ctxs 2) [[.int 0, .int 1], [.int 0, .int 1]])) = some ([some 1, some 0], [some 1, some 1]) := fixed_batched01'

/-- C15-F3a: column-major bare actions with kwargs come back as ONE "action" (the wrapped column) … -/
theorem pinned_colA_counterexample :
    lensOf (predict Fixes.none (scripted { fmt := .A, kw := true, layout := .col } (exPol (fun i => i) (fun _ => 0) 2)) (initState 1)
      (.batch (ctxs 2) [[exStr 1 "aa", exStr 2 "bb"], [exStr 1 "aa", exStr 2 "bb"]])) = some (1, 1) := pinned_colA_counterexample'

theorem fixed_colA :
    lensOf (predict Fixes.all (scripted { fmt := .A, kw := true, layout := .col } (exPol (fun i => i) (fun _ => 0) 2)) (initState 1)
      (.batch (ctxs 2) [[exStr 1 "aa", exStr 2 "bb"], [exStr 1 "aa", exStr 2 "bb"]])) = some (2, 2) := fixed_colA'

/-- C15-F3c: column-major PMFs on a non-square batch raise ValueError -/
theorem pinned_colPM_counterexample :
    errOf (predict Fixes.none (scripted { fmt := .PM, kw := false, layout := .col } (exPol (fun _ => 0) (fun i => 2 * i) 3)) (initState 1)
      (.batch (ctxs 2) [[exStr 1 "aa", exStr 2 "bb", exStr 3 "cc"], [exStr 1 "aa", exStr 2 "bb", exStr 3 "cc"]])) = some .value :=
  pinned_colPM_counterexample'

/-- C15-F3e: a column-major hinted answer followed by kwargs raises AttributeError -/
theorem pinned_colHintKw_counterexample :
    errOf (predict Fixes.none (scripted { fmt := .dA, kw := true, layout := .col } (exPol (fun i => i) (fun _ => 0) 2)) (initState 1)
      (.batch (ctxs 2) [[exStr 1 "aa", exStr 2 "bb"], [exStr 1 "aa", exStr 2 "bb"]])) = some .attr := pinned_colHintKw_counterexample'

/-- C15-F4: row-major bare sparse actions with different feature names raise CobaException … -/
theorem pinned_sparseRows_counterexample :
    errOf (predict Fixes.none (scripted { fmt := .A, kw := false, layout := .row } (exPol (fun i => i) (fun _ => 0) 2)) (initState 1)
      (.batch (ctxs 2) [[exSparse "f0" 1, exSparse "f1" 2], [exSparse "f0" 1, exSparse "f1" 2]])) = some .coba :=
  pinned_sparseRows_counterexample'

theorem fixed_sparseRows :
    lensOf (predict Fixes.all (scripted { fmt := .A, kw := false, layout := .row } (exPol (fun i => i) (fun _ => 0) 2)) (initState 1)
      (.batch (ctxs 2) [[exSparse "f0" 1, exSparse "f1" 2], [exSparse "f0" 1, exSparse "f1" 2]])) = some (2, 2) := fixed_sparseRows'


/-! ### Phase 2: whole histories, kwargs as finite maps, score, PMF draws end to end -/

/-- **history_roundtrip.**  For ANY sequence of interactions (all unbatched, or all batched) of a learner that answers
consistently in one documented format, evaluated as SequentialCB does (`predict`, then `learn` with what predict
returned): interaction by interaction the parsed (action, prob, kwargs) is the intended one - on the actions the learner is
given, generator state and memoised layout/format threaded through - and every `learn` receives the action, probability,
reward and the kwargs of its own predict (one call with a column per key, or per row that row's finite map) - whether
the learner's `learn` takes batches (`batchable`) is independent of what its `predict` does with them.  By
induction over the history from `inv_preserved` and the per-call theorems. -/
theorem history_roundtrip (fx : Fixes) (sp : Spec) (pol : Policy) (batched batchable : Bool) (h : List (Arg × PyVal)) (st : State)
    (hinv : Inv sp batched st) (hok : histOK fx sp pol batched st h = true) :
    HistDelivers fx sp pol batchable st h (runHistory fx (scripted sp pol) batchable st h) :=
  history_roundtrip' fx sp pol batched batchable h st hinv hok

/-- **kwargs are finite maps** (no "same key order" hypothesis any more: `sameKeys` only asks for the same key SET):
whatever order the rows list their keys in, what row j gets back - the j-th entry of every column under the first row's
keys - is, as a finite map, the kwargs the learner gave for row j. -/
theorem kwargs_row_map (sp : Spec) (R : Rows) (hk : sp.kw = true) (hs : sameKeys R = true) (j : Nat) (r : Answer × List PyVal)
    (hj : R[j]? = some r) :
    kwEquiv (wantKw sp R).1 ((wantKw sp R).2.map (fun c => c.getD j .none)) r.1.kwKeys r.1.kwVals :=
  kwargs_row_map' sp R hk hs j r hj

/-- **score_roundtrip.**  `SafeLearner.score(context, actions, action)`: unbatched the learner's score comes back as is;
for a batch a learner that takes batches is asked once and its sequence of per-row scores is accepted as is, a learner
that raises on batches is asked once per row (`zip(context, actions, action)`) and the scores come back in row order;
the memo `_method['score']` ends up 1 resp. 2 and keeps that value. -/
theorem score_roundtrip (fx : Fixes) (pol : Policy) (batchable tup : Bool) (m : Option Nat) (hm : ScoreInv batchable m) :
    (∀ c as x, m ≠ some 2 → score fx (some (scriptedScore pol batchable tup)) m (.single c as x) = .ok (scoreOf pol c as x, 1)) ∧
    (∀ cs rows acts, cs ≠ [] → rows.length = cs.length → acts.length = cs.length →
        (∀ c a x, (scoreOf pol c a x).isDict = false) →
        ∃ v, score fx (some (scriptedScore pol batchable tup)) m (.batch cs rows acts) = .ok (v, if batchable then 1 else 2) ∧
          v.items = some (scoresOf pol cs rows acts)) :=
  score_roundtrip' fx pol batchable tup m hm

/-- **PMF draws, end to end** (repaired code, fresh SafeLearner with `seed`): `predict` returns the member of the
float-copied action list at the index C05's `choicew` (theorem `C05.choicew_weight`) draws from the PMF's rational weights
with the seed's first uniform; that member is the offered action at that index or a float `==` to it (the copy of 0/1/bool);
the probability is the PMF's own entry there and positive; exactly one uniform is consumed. -/
theorem pmf_draw_end_to_end (sp : Spec) (pol : Policy) (seed : Int) (c : PyVal) (as : List PyVal)
    (hk : sp.fmt.kind = .PM)
    (hfirst : firstRowOK Fixes.all sp (pol c (safeRow 0 as)) (safeRow 0 as) = true)
    (hvalid : validPmf (pol c (safeRow 0 as)).pmf (safeRow 0 as) = true) :
    ∃ (qs : List Rat) (i : Nat) (a' a p : PyVal) (q : Rat) (r : Result) (st' : State),
      predict Fixes.all (scripted sp pol) (initState seed) (.single c as) = .ok (r, st') ∧ r.a = a' ∧ r.p = p ∧
      toRats (pol c (safeRow 0 as)).pmf = some qs ∧
      Coba.C05.choicew (Coba.C05.normInt seed) as.length (some qs) = .ok (Coba.C05.next (Coba.C05.normInt seed), i, q) ∧
      (safeRow 0 as)[i]? = some a' ∧ as[i]? = some a ∧ (a' = a ∨ pyEq a' a = true) ∧
      (pol c (safeRow 0 as)).pmf[i]? = some p ∧ p.num = some q ∧ 0 < q ∧
      st'.rng = Coba.C05.next (Coba.C05.normInt seed) :=
  pmf_draw_end_to_end' sp pol seed c as hk hfirst hvalid

/-- the hypotheses of `history_roundtrip` are satisfiable: two row-major (action, prob) batches with kwargs -/
example : histOK Fixes.all { fmt := .AP, kw := true, layout := .row } (exPol (fun i => i) (fun _ => 0) 2) true (initState 1)
    [(.batch (ctxs 2) [[.int 0, .int 1], [.int 0, .int 1]], .list .tmp [.int 1, .int 2]),
     (.batch (ctxs 2) [[.int 0, .int 1], [.int 0, .int 1]], .list .tmp [.int 1, .int 2])] = true := by decide


/-- **wrappers_frame.**  `SafeLearner(SafeLearner(learner), seed)` is a wrapper of its own (`rewrap`: own generator from its
own seed, empty call-style memo, nothing detected).  In ANY interleaving of calls on the two wrappers of one learner, what
each wrapper returns is exactly what it returns on its own calls alone from its own state: draws are a function of the
wrapper's own seed and own call history, format understanding is independent of the other wrapper. -/
theorem wrappers_frame (fx : Fixes) (L : Learner) (inner : State) (seed : Int) (h : List (Bool × Arg)) (w : Bool) :
    ((runTwo fx L inner (rewrap inner seed) h).filter (fun x => x.1 == w)).map (·.2) =
      runOne fx L (if w then initState seed else inner) ((h.filter (fun x => x.1 == w)).map (·.2)) :=
  wrappers_frame' fx L h inner (rewrap inner seed) w


/-! ### Phase 3: has_score, wrappers switched between batched and unbatched calls, `==` on cached action sets -/

/-- **has_score_iff.**  `SafeLearner.has_score` probes `learner.score(None,None,None)` and answers `"score" not in str(ex)`.
For a learner without a `score` attribute (CPython's AttributeError text, any class name), one that inherits
`Learner.score` (NotImplementedError text), or one that implements `score`: has_score is true exactly for the implementing
ones - PROVIDED the exception an implemented score raises on the probe does not mention "score" in its text. -/
theorem has_score_iff (k : ScoreKind)
    (hclean : ∀ f, k = .implemented (.raises f) → strContains f.msg "score" = false) :
    hasScore (probeOf k) = true ↔ ∃ p, k = .implemented p :=
  has_score_iff' k hclean

example : ∀ f, ScoreKind.implemented (.raises ⟨false, "'NoneType' object is not iterable"⟩) = .implemented (.raises f) →
    strContains f.msg "score" = false := by
  intro f h; cases h; decide

/-- the condition is necessary: an implemented score whose probe call fails inside with a text mentioning "score" is
reported as absent -/
theorem has_score_counterexample :
    hasScore (probeOf (.implemented (.raises ⟨true, "'NoneType' object has no attribute 'score_table'"⟩))) = false :=
  has_score_counterexample'

/-- the error paths of `SafeLearner.score` depend on the exception text in the same way: an AttributeError raised inside an
implemented score whose text contains `'score'` (quotes included) becomes CobaException "not implemented"; other
AttributeErrors and other exceptions pass through unchanged -/
theorem score_error_paths :
    scoreRaises ⟨true, "'Model' object has no attribute 'score'"⟩ = .coba ∧
    scoreRaises ⟨true, "'NoneType' object has no attribute 'score_table'"⟩ = .attr ∧
    scoreRaises ⟨false, "'score' went wrong"⟩ = .learner :=
  score_error_paths'

/- mixed_history_roundtrip does NOT hold: the layout / call style memoised on a wrapper's first call is kept when the
   wrapper is later handed the other kind of call.  What the code does is in the model (`parse`, `safeCall`) and is compared
   with the real code on generated mixed histories; the four witnesses record exactly where it breaks:
   theorem mixed_history_roundtrip : HistDelivers … (for histories mixing `.single` and `.batch`)   -- false -/

/-- (1) unbatched call, then a row-major batch of bare actions: the whole answer list comes back as ONE action, silently -/
theorem mixed_unbatched_then_batch_counterexample :
    obsRun (run Fixes.all (scripted { fmt := .A, kw := false, layout := .row } (exPol (fun i => i) (fun _ => 0) 2)) (initState 1)
      [.single (.int 0) mixActs, .batch (ctxs 2) [mixActs, mixActs]]) = .ok [(true, 2, false), (false, 2, false)] :=
  mixed_unbatched_then_batch_counterexample'

/-- (2) … with (action, prob) rows the first ROW is returned as the action and the second ROW as its probability -/
theorem mixed_unbatched_then_batch_AP_counterexample :
    obsRun (run Fixes.all (scripted { fmt := .AP, kw := false, layout := .row } (exPol (fun i => i) (fun _ => 0) 2)) (initState 1)
      [.single (.int 0) mixActs, .batch (ctxs 2) [mixActs, mixActs]]) = .ok [(true, 2, false), (false, 2, true)] :=
  mixed_unbatched_then_batch_AP_counterexample'

/-- (3) … and a learner that cannot batch is handed the batch directly (memo 1: no per-row fallback any more) -/
theorem mixed_no_fallback_counterexample :
    errOf (run Fixes.all (scripted { fmt := .AP, kw := false, layout := .single } (exPol (fun i => i) (fun _ => 0) 2)) (initState 1)
      [.single (.int 0) mixActs, .batch (ctxs 2) [mixActs, mixActs]]) = some .learner :=
  mixed_no_fallback_counterexample'

/-- (4) batched call first, then an unbatched one: the single answer is parsed as a row-major batch -/
theorem mixed_batch_then_unbatched_counterexample :
    obsRun (run Fixes.all (scripted { fmt := .A, kw := false, layout := .row } (exPol (fun i => i) (fun _ => 0) 2)) (initState 1)
      [.batch (ctxs 2) [mixActs, mixActs], .single (.int 1) mixActs]) = .ok [(false, 2, true), (true, 2, true)] ∧
    errOf (run Fixes.all (scripted { fmt := .AP, kw := false, layout := .row } (exPol (fun i => i) (fun _ => 0) 2)) (initState 1)
      [.batch (ctxs 2) [mixActs, mixActs], .single (.int 1) mixActs]) = some .type :=
  mixed_batch_then_unbatched_counterexample'

/-- **cached action sets.**  `predict` keeps the float copies when `_prev_actions != actions` is False, i.e. when the new
action list `==` the previous one (Python `==`, `pyEq`).  Then the learner is given, position by position, an object that
`==` the newly offered action: the copy compares (as left operand) exactly like the action it replaced
(`pyEq_makeSafe_left`), so no transitivity of `==` is needed. -/
theorem cached_actions_equal (r : Nat) (prev as : List PyVal) (h : pyEq (Acts.single prev).toPy (Acts.single as).toPy = true) :
    List.Forall₂ (fun s a => pyEq s a = true) (safeRow r prev) as :=
  cached_actions_equal' r prev as h

example : pyEq (Acts.single [.int 0, .bool true, .str (.ext 1) "a"]).toPy (Acts.single [.bool false, .flt (.ext 2) 1, .str (.ext 3) "a"]).toPy = true := by
  decide

theorem pyEq_makeSafe_left (k : Nat) (x y : PyVal) : pyEq (makeSafe k x) y = pyEq x y := pyEq_makeSafe_left' k x y

/-- on scalars (None, bool, int, float as exact rational - the model has no nan -, str) Python's `==` is reflexive,
symmetric and transitive (1 == 1.0 == True are one class); nan (irreflexive) is outside the model and pinned by (B) cases -/
theorem pyEq_scalar_equiv (x y z : PyVal) (hx : isScalar x = true) (hy : isScalar y = true) (hz : isScalar z = true) :
    pyEq x x = true ∧ (pyEq x y = pyEq y x) ∧ (pyEq x y = true → pyEq y z = true → pyEq x z = true) :=
  pyEq_scalar_equiv' x y z hx hy hz

/-- **nested values.**  On scalars nested in tuples and lists to any depth (`seqVal`: no dict inside) Python's `==` is reflexive,
symmetric and transitive (a tuple never equals a list; 1 == 1.0 == True at every position). -/
theorem pyEq_seq_equiv (x y z : PyVal) (hx : seqVal x = true) (hy : seqVal y = true) (hz : seqVal z = true) :
    pyEq x x = true ∧ (pyEq x y = pyEq y x) ∧ (pyEq x y = true → pyEq y z = true → pyEq x z = true) :=
  pyEq_seq_equiv' x y z hx hy hz

example : seqVal (.tuple (.ext 1) [.int 1, .list (.ext 2) [.flt (.ext 3) (1/2), .str (.ext 4) "a"], .tuple (.ext 5) []]) = true := by decide

/-- the hypothesis is about the model's value domain: a dict value with a repeated key (no Python dict has one) breaks symmetry.
   theorem pyEq_equiv_full: the same for dicts with duplicate-free keys and as many values as keys - open (not proved). -/
theorem pyEq_dict_dupkeys_counterexample :
    pyEq (.dict .tmp ["a", "a"] [.int 1, .int 1]) (.dict .tmp ["a", "b"] [.int 1, .int 2]) = true ∧
    pyEq (.dict .tmp ["a", "b"] [.int 1, .int 2]) (.dict .tmp ["a", "a"] [.int 1, .int 1]) = false :=
  pyEq_dict_dupkeys_counterexample'

/-- **decided once.**  A successful call on a wrapper whose layout / kwargs flag / format are decided - batched or not,
whatever the learner answers - leaves them as they are. -/
theorem predict_keeps_decided (fx : Fixes) (L : Learner) (st : State) (arg : Arg) (d : Decided) (r : Result) (st' : State)
    (hd : st.decidedAs d) (h : predict fx L st arg = .ok (r, st')) : st'.decidedAs d :=
  predict_keeps_decided' fx L st arg d r st' hd h

/-- **whole histories, any mix of batched and unbatched calls, any learner.**  If the first call succeeds it decides a format
`d` (layout, kwargs flag, prediction format), and the whole rest of the history is what `runFrozen` returns: every later call
is made on a wrapper that has exactly `d` decided; only the generator state, the call-style memo and the action cache are
threaded.  (That the decided format is then the right one for a switched wrapper is false: `mixed_*_counterexample`.) -/
theorem history_format_decided_once (fx : Fixes) (L : Learner) (st : State) (a : Arg) (as : List Arg) (r : Result) (st' : State)
    (h : predict fx L st a = .ok (r, st')) :
    ∃ d, st'.decidedAs d ∧ run fx L st (a :: as) = (runFrozen fx L d st' as).map (fun rs => r :: rs) :=
  history_format_decided_once' fx L st a as r st' h

/-- … and from a decided wrapper on: `run` = `runFrozen` for every list of calls -/
theorem run_frozen (fx : Fixes) (L : Learner) (d : Decided) (args : List Arg) (st : State) (hd : st.decidedAs d) :
    run fx L st args = runFrozen fx L d st args :=
  run_frozen' fx L d args st hd

example : (initState 1).decidedAs ⟨.row, false, ⟨.AX, false⟩⟩ → False := by
  intro h; exact absurd h.1 (by decide)

example : ({ (initState 1) with layout := some .row, fmt := some ⟨.AX, false⟩ } : State).decidedAs ⟨.row, false, ⟨.AX, false⟩⟩ :=
  ⟨rfl, rfl, rfl⟩

/-- **parsed as on a fresh wrapper.**  On a decided wrapper the call on the argument the learner is given equals the same call
on a wrapper that knows nothing but the decided format, the generator state and the call-style memo (`State.core`: no
action cache, nothing else of the history); the cache is carried along unchanged. -/
theorem predictCore_frame (fx : Fixes) (L : Learner) (st : State) (sarg : Arg) (hl : st.layout.isSome = true) :
    predictCore fx L st sarg = (predictCore fx L st.core sarg).map (fun p => (p.1, p.2.withCache st)) :=
  predictCore_frame' fx L st sarg hl

/-- **the splittings the driver executes.**  `run` equals `runSplit` (first call, then `runFrozen` with what that call decided) and
`runCore` (every call on a decided wrapper made on `State.core`) - for every learner, state and list of calls.  The harness
compares the three on every generated history ((C)) and `run` with the real SafeLearner ((A)). -/
theorem run_eq_runSplit (fx : Fixes) (L : Learner) (st : State) (args : List Arg) : run fx L st args = runSplit fx L st args :=
  run_eq_runSplit' fx L st args

theorem run_eq_runCore (fx : Fixes) (L : Learner) (args : List Arg) (st : State) : run fx L st args = runCore fx L st args :=
  run_eq_runCore' fx L args st

/-- **learn with its own call-style memo.**  `learnM` (the memo `_method['learn']` decided on the first learn and kept) delivers
exactly what `learn` (the memo-free model of `history_roundtrip`) delivers whenever the memo is one a uniformly used wrapper
can hold (`learnMemoOK`); for switched wrappers `learnM` is what the driver compares with the real code. -/
theorem learnM_uniform (batchable : Bool) (memo : Option Nat) (arg : Arg) (res : Result) (rw : PyVal)
    (h : learnMemoOK batchable memo arg = true) :
    (learnM batchable memo arg res rw).map Prod.fst = learn batchable arg res rw :=
  learnM_uniform' batchable memo arg res rw h

example : learnMemoOK false (some 2) (.batch [.int 0] [[.int 5]]) = true := by decide

/-- the hypothesis is needed: after an unbatched first learn (memo 1) a batch goes straight to a learner that cannot batch -/
theorem learnM_switched_counterexample :
    (learnM false (some 1) (.batch [.int 0] [[.int 5]]) ⟨.list .tmp [.int 5], .list .tmp [.none], .dict .tmp [] []⟩ (.list .tmp [.int 1])).toOption.isNone = true ∧
    (learn false (.batch [.int 0] [[.int 5]]) ⟨.list .tmp [.int 5], .list .tmp [.none], .dict .tmp [] []⟩ (.list .tmp [.int 1])).toOption.isSome = true :=
  learnM_switched_counterexample'

/-- **one statement per format** (goal 3).  For every format × ±kwargs × layout (row, col, single = per-row fallback), every
policy and batch: (1) `predict` delivers `wantBatch`; (2) the kwargs come back as finite maps - the rows may give their keys
in ANY order (`sameKeys` = same key set): row j gets, under the first row's keys, values `kwEquiv` to what the learner gave for
row j; (3) `score` on the same wrapper and batch returns the policy's per-row scores in row order, natively for a learner that
takes batches and by one call per row otherwise - whatever the prediction format is. -/
theorem format_roundtrip_full (fx : Fixes) (sp : Spec) (pol : Policy) (st : State) (cs : List PyVal) (rows : List (List PyVal))
    (tup : Bool) (m : Option Nat)
    (hinv : Inv sp true st) (hlen : cs.length = rows.length) (hne : rows ≠ [])
    (hU : Unambiguous fx sp st (rowsOf pol cs rows) = true) (hm : ScoreInv (sp.layout != .single) m) :
    Delivers (predictCore fx (scripted sp pol) st (.batch cs rows)) (wantBatch sp st.rng (rowsOf pol cs rows)) (stAfter sp true st) ∧
    (sp.kw = true → sameKeys (rowsOf pol cs rows) = true → ∀ j r, (rowsOf pol cs rows)[j]? = some r →
      kwEquiv (wantKw sp (rowsOf pol cs rows)).1 ((wantKw sp (rowsOf pol cs rows)).2.map (fun c => c.getD j .none)) r.1.kwKeys r.1.kwVals) ∧
    (∀ acts, cs ≠ [] → acts.length = cs.length → (∀ c a x, (scoreOf pol c a x).isDict = false) →
      ∃ v, score fx (some (scriptedScore pol (sp.layout != .single) tup)) m (.batch cs rows acts) =
          .ok (v, if (sp.layout != .single) then 1 else 2) ∧ v.items = some (scoresOf pol cs rows acts)) :=
  format_roundtrip_full' fx sp pol st cs rows tup m hinv hlen hne hU hm

/-- **has_score, its wrong verdicts characterised.**  For a learner that implements `score` the verdict is wrong (reported absent)
exactly when the probe call `score(None,None,None)` raises with a text that contains the substring "score" (any exception
class); a learner without `score` or with the base class's is never reported as having one. -/
theorem has_score_wrong_iff (p : ScoreProbe) :
    hasScore (probeOf (.implemented p)) = false ↔ ∃ f, p = .raises f ∧ strContains f.msg "score" = true :=
  has_score_wrong_iff' p

theorem has_score_never_for_missing (k : ScoreKind) (h : ∀ p, k ≠ .implemented p) : hasScore (probeOf k) = false :=
  has_score_never_for_missing' k h

example : ∀ p, ScoreKind.absent "Model" ≠ .implemented p := by intro p h; cases h

/-- it is a substring test: ValueError("bad underscore in name") makes an implemented score "absent", "Scoreboard" does not
(replayed on the real code: corpus / generated `score_kind` cases, (A) `A:has_score`) -/
theorem has_score_substring_counterexample :
    hasScore (probeOf (.implemented (.raises ⟨false, "bad underscore in name"⟩))) = false ∧
    hasScore (probeOf (.implemented (.raises ⟨false, "Scoreboard is missing"⟩))) = true :=
  has_score_substring_counterexample'

/-- **translator obligation.**  The constants `harness/props/c15.py` reads from the CURRENT coba/safety.py on every run
(`Generated/C15Consts.lean`: both `is_hint` key lists, `possible_pmf`'s total and tolerance, the probe strings of `has_score` and
`score`, `make_safe`'s list) are the ones the model is written with … -/
theorem source_constants_match :
    Generated.C15.hintSites ≠ [] ∧ Generated.C15.hintSites.all (fun s => s == ["action", "action_prob", "pmf"]) = true ∧
    Generated.C15.pmfTotal = 1 ∧ Generated.C15.absTolNum = 1 ∧ Generated.C15.absTolDen = 1000 ∧
    Generated.C15.hasScoreNeedle = "score" ∧ Generated.C15.scoreNeedle = "'score'" ∧ Generated.C15.zeroOne = [0, 1] :=
  source_constants_match'

/-- … and the model's `isHint` / `hasScore` / `scoreRaises` are the source's expressions over those constants -/
theorem isHint_generated (r : Ref) (ks : List String) (vs : List PyVal) :
    ∀ site ∈ Generated.C15.hintSites, isHint (.dict r ks vs) = site.any (fun k => ks.contains k) :=
  isHint_generated' r ks vs

theorem hasScore_generated (f : ScoreFailure) : hasScore (.raises f) = !strContains f.msg Generated.C15.hasScoreNeedle :=
  hasScore_generated' f

theorem scoreRaises_generated (f : ScoreFailure) :
    scoreRaises f = if f.attr && strContains f.msg Generated.C15.scoreNeedle then .coba else if f.attr then .attr else .learner :=
  scoreRaises_generated' f

/-! ### Phase 5: nan objects; `possible_pmf` over the generated constants -/

/-- **nan_encoding_faithful.**  `float('nan')` objects live in the model as the tokens `mkNan r` (`NVal.enc`).  Python compares
container items (`list.__eq__` in `_prev_actions != actions`, `item in actions`) with `x is y or x == y`, where `nan == y` is
False for every y (`richEq`): on the tokens the model's `pyIs || pyEq` computes exactly that, for every pair of values whose
numbers lie outside the token range and are other objects than the nan objects (`encOK`, what the encoder guarantees). -/
theorem nan_encoding_faithful (x y : NVal) (h : encOK x y = true) : richEq x y = itemEq x.enc y.enc :=
  nan_encoding_faithful' x y h

example : encOK (.nan (.ext 1)) (.val (.flt (.ext 2) (5/2))) = true ∧ encOK (.nan (.ext 1)) (.nan (.ext 1)) = true := by
  decide +kernel

/-- the hypothesis is needed: a number inside the token range would equal the nan object with that code (replayed: the encoder
refuses floats below -2^40, tag `unencodable`) -/
theorem nan_encoding_counterexample :
    richEq (.nan (.ext 1)) (.val (.flt (.ext 2) (nanVal 4))) = false ∧
    itemEq (NVal.enc (.nan (.ext 1))) (NVal.enc (.val (.flt (.ext 2) (nanVal 4)))) = true := by
  decide +kernel

/-- two nan objects are equal in the model iff they are one object; reading a token back gives the nan object -/
theorem nan_identity (r r' : Ref) :
    pyEq (mkNan r) (mkNan r') = decide (r = r') ∧ pyIs (mkNan r) (mkNan r') = decide (r = r') ∧ NVal.ofPy (mkNan r) = .nan r :=
  ⟨pyEq_mkNan' r r', pyIs_mkNan' r r', ofPy_enc_nan' r⟩

/-- `item in actions` (`possible_action`) with real nans = the model's `possibleAction` on the tokens -/
theorem possibleAction_faithful (x : NVal) (ys : List NVal) (h : ∀ y ∈ ys, encOK x y = true) :
    possibleAction x.enc (ys.map NVal.enc) = (ys.any (richEq x) || ys.isEmpty) :=
  possibleAction_faithful' x ys h

/-- `_prev_actions != actions` with real nans = the model's `pyEqList` on the tokens (for objects that, when not nan, equal
themselves): the cache is hit with ONE shared nan object and missed with a fresh nan object per call -/
theorem cache_test_faithful (xs ys : List NVal)
    (h : ∀ x ∈ xs, ∀ y ∈ ys, encOK x y = true ∧ (pyIs x.enc y.enc = true → pyEq x.enc y.enc = true)) :
    richEqList xs ys = pyEqList (xs.map NVal.enc) (ys.map NVal.enc) :=
  cache_test_faithful' xs ys h

example : richEqList [.nan (.ext 1), .val (.int 0)] [.nan (.ext 1), .val (.int 0)] = true ∧
    richEqList [.nan (.ext 1), .val (.int 0)] [.nan (.ext 2), .val (.int 0)] = false := by decide

/-- a nan is not 0/1 (no float copy: the offered object itself is handed on), has no length, is no dict, is no PMF -/
theorem nan_passes_untouched (r : Ref) (k : Nat) (as : List PyVal) :
    isZeroOne (mkNan r) = false ∧ makeSafe k (mkNan r) = mkNan r ∧ (mkNan r).hasLen = false ∧ (mkNan r).isDict = false ∧
    possiblePmf (mkNan r) as = false :=
  nan_passes_untouched' r k as

/-- **translator obligation, as a rewriting lemma.**  The model's `possiblePmf` IS the source expression
`len(item) == len(actions) and isclose(sum(item), T, abs_tol=n/d) and all(i >= 0 for i in item)` over the constants the
translator reads from the CURRENT coba/safety.py (`Generated/C15Consts.lean`); an edited tolerance or total breaks this proof. -/
theorem possiblePmf_generated (item : PyVal) (actions : List PyVal) :
    possiblePmf item actions =
      (match item.items with
       | some xs =>
         xs.length == actions.length &&
           (match sumNums xs with
            | some s =>
              decide (s - (Generated.C15.pmfTotal : Rat) ≤ (Generated.C15.absTolNum : Rat) / (Generated.C15.absTolDen : Rat) ∧
                      (Generated.C15.pmfTotal : Rat) - s ≤ (Generated.C15.absTolNum : Rat) / (Generated.C15.absTolDen : Rat)) &&
                xs.all (fun x => match x.num with | some q => decide (0 ≤ q) | Option.none => false)
            | Option.none => false)
       | Option.none => false) :=
  possiblePmf_generated' item actions

/-- the tolerance is sharp: a one-entry PMF `[1 + e]` is a possible PMF exactly for `|e| ≤ n/d` (and `1 + e ≥ 0`) -/
theorem possiblePmf_tolerance (r r' : Ref) (a : PyVal) (e : Rat) :
    possiblePmf (.list r [.flt r' (1 + e)]) [a] =
      decide (e ≤ (Generated.C15.absTolNum : Rat) / (Generated.C15.absTolDen : Rat) ∧
              -e ≤ (Generated.C15.absTolNum : Rat) / (Generated.C15.absTolDen : Rat) ∧ 0 ≤ 1 + e) :=
  possiblePmf_tolerance' r r' a e

/-- **translator obligation: `pred_format`'s decision tree.**  `Generated.C15.predFormatTree` is the body of
`SafeLearner.pred_format` as the translator reads it (ast) from the CURRENT coba/safety.py on every run: its `if` chain with every
test mapped to a `PFAtom` by its source text, `return '<fmt>'`, `raise`, `std_pred = [std_pred]`, local bindings.  Running that
tree (`pfRun`, the interpreter the driver executes) gives, for EVERY answer and action list, exactly what the model's `predFormat`
gives for the repaired code - results and exceptions.  A reordered, dropped or edited branch of the source breaks this proof. -/
theorem pred_format_table (sp : PyVal) (actions : Option (List PyVal)) :
    pfRun Generated.C15.predFormatTree sp actions = predFormat Fixes.all sp actions :=
  pred_format_table' sp actions

/-! ### Phase 6: the action cache and caller-owned list objects (open finding C15-F6)

   theorem inplace_cache_full (cs) : runPrepRef fx ⟨st⟩ cs = runPrep fx st cs      -- FALSE for the pinned lines:
   `_prev_actions = actions` keeps a reference, so a caller that refills its list in place and passes it again is served from the
   cache (`inplace_stale_counterexample`).  It holds for the repaired lines (`_prev_actions` = a copy), which ARE `runPrep`. -/

/-- **partial (forced hypothesis `neverKept`).**  For every history of calls in which the caller never passes the list object the
wrapper currently keeps a reference to, the pinned lines offer the learner, call after call, exactly what the value-based
`prepare` offers - the cache all the other theorems (`prepare_given`, `cached_actions_equal`, `history_roundtrip`) are about. -/
theorem inplace_never_kept_partial (fx : Fixes) (a : AState) (cs : List OCall) (h : neverKept fx a cs = true) :
    runPrepRef fx a cs = runPrep fx a.st cs :=
  prepRef_never_kept' fx cs a h

/-- **partial, in the caller's terms.**  A caller that builds a fresh list object for every interaction (as coba's environments
do) is inside the hypothesis, whatever the contents are. -/
theorem inplace_fresh_objects_partial (fx : Fixes) (st : State) (cs : List OCall) (h : freshObjects [] cs = true) :
    runPrepRef fx { st := st } cs = runPrep fx st cs :=
  prepRef_fresh_objects' fx st cs h

example : freshObjects [] [⟨1, .single (.int 7) [.int 0, .int 1]⟩, ⟨2, .single (.int 8) [.int 3]⟩, ⟨3, .single (.int 9) [.int 0, .int 1]⟩] = true := by
  decide

/-- the hypothesis is needed: list object 1 holds [0,1,2], is refilled in place with [3,4] and passed again - the pinned lines
offer the float copies made for [0,1,2] both times (nothing `==` [3,4] is offered), the value-based cache offers [3,4]. -/
theorem inplace_stale_counterexample :
    (offeredLists (runPrepRef Fixes.all { st := initState 1 } inplaceCalls)).map (fun l => pyEqList l [.int 3, .int 4]) = [false, false]
    ∧ (offeredLists (runPrepRef Fixes.all { st := initState 1 } inplaceCalls)).map (fun l => pyEqList l [.int 0, .int 1, .int 2]) = [true, true]
    ∧ (offeredLists (runPrep Fixes.all (initState 1) inplaceCalls)).map (fun l => pyEqList l [.int 3, .int 4]) = [false, true]
    ∧ neverKept Fixes.all { st := initState 1 } inplaceCalls = false :=
  inplace_stale_counterexample'

end Coba.C15
