import CobaVerif.Lemmas.C18
namespace Coba.C18
end Coba.C18
