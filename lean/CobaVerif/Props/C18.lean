/-
C18 — Analysis compares only complete, equal-length runs and averages correctly.
Property theorems only (helper lemmas live in `Lemmas/C18.lean`; model and spec in `Model/C18.lean`).

Reading of the statement (see `notes/C18.md`):
* `whereFinS`   — "keeps exactly those pairing groups that have one evaluation for every compared level, drops or
                   truncates evaluations to the requested length, changes no remaining value, leaves the four
                   tables mutually consistent";
* `rawLearnersS`— "for every learner and x exactly the per-environment progressive, windowed or final averages of y
                   that a direct computation from the interaction rows gives";
* `movingAverageS` — the textbook definition for every span and weighting.
`filterFin true` is the code with `fixes/C18-group-p-duplicate-level.diff`; `filterFin false` the unchanged keep rule.
Both group by equality of the key (the code with `fixes/C18-partial-order-grouping.diff`; identical to the unchanged
code for totally ordered or unorderable keys — finding C18-F2 is about frozenset-like keys only).
-/
import CobaVerif.Lemmas.C18

namespace Coba.C18

/-! ### moving_average -/

/-- Wherever the textbook moving average is defined (no window of total weight 0) `moving_average` returns it:
every span (`None`, 0, 1, …, ≥ len), unweighted, weighted and exponential. -/
theorem moving_average_eq_spec (vs : List Rat) (span : Option Nat) (w : Weights) (out : List Rat)
    (h : movingAverageS vs span w = .ok out) : movingAverage vs span w = .ok out :=
  moving_average_eq_spec' vs span w out h

/-- Outside the shortcut `span == 1` with explicit weights the two agree as partial functions, error
(`ZeroDivisionError`, the `assert`) included. -/
theorem moving_average_eq_spec_full (vs : List Rat) (span : Option Nat) (w : Weights)
    (h : span ≠ some 1 ∨ w = .none ∨ w = .exp) : movingAverage vs span w = movingAverageS vs span w :=
  moving_average_eq_spec_full' vs span w h

example : movingAverageS [1, 2, 3, 5] (some 2) .none = .ok [1, 3/2, 5/2, 4] := by decide +kernel

/-- Why the harness may compare floats exactly: if every input is `m/2^k` with `|m| ≤ B` then every window sum —
i.e. (by the telescoping lemmas behind `moving_average_eq_spec`) every running sum the accumulate/tee implementation
forms — is `m'/2^k` with `|m'| ≤ len·B`.  For `2^k·len·B < 2^53` such numbers and their sums and differences are
exactly representable in binary64, so the only rounding in `moving_average` (and in `mean`) is the final division. -/
theorem window_sum_dyadic (k B : Nat) (vs : List Rat) (h : ∀ x ∈ vs, DyadicBdd k B x) (span : Option Nat) (i : Nat) :
    DyadicBdd k (vs.length * B) (sumL (window span i vs)) :=
  window_sum_dyadic' k B vs h span i

/-! ### `_remove` -/

/-- On an interaction table sorted by its id columns, for distinct ids that all occur, the three nested
bisects with the moving cursor select exactly the row numbers — hence exactly the rows — whose id triple is
not in `ids` (`cut` is the `n` argument; every listed evaluation has at most `cut` rows, as at both call sites). -/
theorem remove_eq_filter (rows : List IRow) (ids : List Triple) (cut : Nat) (hs : SortedIds rows) (hnd : ids.Nodup)
    (hpres : ∀ t ∈ ids, t ∈ rows.map IRow.triple)
    (hcut : cut = 0 ∨ ∀ t ∈ ids, (rows.map IRow.triple).count t ≤ cut) :
    ∃ sel, remove (rows.map IRow.triple) ids cut = .ok sel ∧
      sel = (List.range rows.length).filter (fun i => (rows[i]?).any (fun r => !(ids.contains r.triple))) ∧
      selectRows rows sel = rows.filter (fun r => !(ids.contains r.triple)) :=
  remove_eq_filter' rows ids cut hs hnd hpres hcut

/-! ### `_group_p` -/

/-- The repaired keep rule is the property's: a group is kept iff it has exactly one evaluation at every
compared level. -/
theorem group_keep_rule (levels : List Key) (hl : levels.Nodup) (g : List Idx) (hsub : ∀ i ∈ g, i.l ∈ levels) :
    groupKeep true levels.length g = true ↔ ∀ lv ∈ levels, (g.filter (fun i => i.l = lv)).length = 1 :=
  groupKeep_fixed_iff levels hl g hsub

/-- `_group_p` (repaired): exactly the rows of the complete `p`-groups survive, each as it was, and exactly
the parameter rows they refer to. -/
theorem group_p_spec (r : Result) (lc pc : List Col) (ix : List Idx) (hs : SortedIds r.ints) (hu : UniqueIds r)
    (hix : mkIndexes r lc pc ((runs r.ints).map (·.1)) = .ok ix) :
    groupP true r lc pc = .ok (restrictTables r (groupPIntsS r.ints ix)) :=
  groupP_eq r lc pc ix hs hu hix

/-- The unchanged `_group_p` (`len(group) == n_levels`) does the same *provided* no level occurs twice inside a
`p`-group — the forced hypothesis. -/
theorem group_p_spec_partial (r : Result) (lc pc : List Col)
    (hnd : ∀ ix, mkIndexes r lc pc ((runs r.ints).map (·.1)) = .ok ix → ∀ g ∈ groupsOf ix, (g.map (·.l)).Nodup) :
    groupP false r lc pc = groupP true r lc pc :=
  groupP_legacy_eq r lc pc hnd

/-- The witness of C18-F1: environments 0,1; learners 0,1; evaluators 0,1; environment 0 was evaluated for learner 0
under both evaluators and never for learner 1. -/
def cexResult : Result :=
  { envs := [⟨0, [0]⟩, ⟨1, [0]⟩], lrns := [⟨0, []⟩, ⟨1, []⟩], evals := [⟨0, []⟩, ⟨1, []⟩],
    ints := [⟨0, 0, 0, 1, 1⟩, ⟨0, 0, 1, 1, 3⟩, ⟨1, 1, 0, 1, 2⟩] }

example : SortedIds cexResult.ints ∧ UniqueIds cexResult ∧ IdxWF cexResult.ints ∧ Consistent cexResult := by
  unfold Consistent; decide

/-- Without the hypothesis the unchanged rule is wrong: on `cexResult` with `l='learner_id'`, `p='environment_id'`
it keeps environment 0 (two evaluations = two levels) although learner 1 is missing there; the property
(`whereFinS`) keeps nothing. -/
theorem group_p_duplicate_counterexample :
    filterFin false cexResult none (some ([.lid], [.eid])) =
        .ok { envs := [⟨0, [0]⟩], lrns := [⟨0, []⟩], evals := [⟨0, []⟩, ⟨1, []⟩],
              ints := [⟨0, 0, 0, 1, 1⟩, ⟨0, 0, 1, 1, 3⟩] } ∧
      whereFinS cexResult none (some ([.lid], [.eid])) = .ok { envs := [], lrns := [], evals := [], ints := [] } ∧
      filterFin true cexResult none (some ([.lid], [.eid])) = .ok { envs := [], lrns := [], evals := [], ints := [] } := by
  refine ⟨?_, ?_, ?_⟩ <;> decide +kernel

/-! ### `_global_n` -/

/-- `_global_n(n)`: evaluations shorter than `n` are dropped, the others cut to their first `n` rows
(`'min'`: all cut to the shortest length), nothing else changes, parameter rows follow. -/
theorem global_n_spec (r : Result) (n : NSpec) (hn : n ≠ .k 0) (hs : SortedIds r.ints) (hu : UniqueIds r)
    (hw : IdxWF r.ints) (hrefs : RefsPresent r) (hall : AllReferenced r) :
    globalN r n = .ok (restrictTables r (globalNIntsS r.ints n)) :=
  global_n_spec' r n hn hs hu hw hrefs hall

/-- after `n='min'` every surviving evaluation has the same length -/
theorem global_n_equal_lengths (ints : List IRow) (m : Nat) (ms : List Nat)
    (h : (runs ints).map (fun g => g.2.length) = m :: ms) :
    ∀ g ∈ runs ints, (g.2.take (minOf m ms)).length = minOf m ms :=
  min_equal_lengths ints m ms h

/-! ### `where_fin` / `filter_fin` -/

/-- `where_fin(n,l,p)` (repaired) is exactly its specification, for every well-formed Result, every choice of
`l`/`p` columns and every `n`.  (`lp = none`, i.e. `l = p = None`, cannot drop unreferenced parameter rows, so
there the input must already have none.) -/
theorem filter_fin_eq_spec (r : Result) (n : Option NSpec) (lp : Option (List Col × List Col))
    (hs : SortedIds r.ints) (hu : UniqueIds r) (hw : IdxWF r.ints) (hrefs : RefsPresent r)
    (hall : lp = none → AllReferenced r) :
    filterFin true r n lp = whereFinS r n lp :=
  filterFin_eq_spec r n lp hs hu hw hrefs hall

/-- the four tables of the result are mutually consistent: every id an interaction row refers to is present in
its parameter table and every parameter row is referred to -/
theorem filter_fin_consistent (r r' : Result) (n : Option NSpec) (lp : Option (List Col × List Col))
    (hs : SortedIds r.ints) (hu : UniqueIds r) (hw : IdxWF r.ints) (hrefs : RefsPresent r)
    (hall : lp = none → AllReferenced r) (h : filterFin true r n lp = .ok r') : Consistent r' :=
  filter_fin_consistent' r r' n lp hs hu hw hrefs hall h

/-- no remaining value changes: with or without the repair, on any input whatsoever, every row of every
output table is a row of the corresponding input table -/
theorem values_unchanged (fixed : Bool) (r r' : Result) (n : Option NSpec) (lp : Option (List Col × List Col))
    (h : filterFin fixed r n lp = .ok r') :
    (∀ x ∈ r'.ints, x ∈ r.ints) ∧ (∀ p ∈ r'.envs, p ∈ r.envs) ∧ (∀ p ∈ r'.lrns, p ∈ r.lrns) ∧
      (∀ p ∈ r'.evals, p ∈ r.evals) :=
  filterFin_rows fixed r r' n lp h

/-- … and on well-formed input order and multiplicity are kept too (each output table is a sublist) -/
theorem values_unchanged_sublist (r r' : Result) (n : Option NSpec) (lp : Option (List Col × List Col))
    (hs : SortedIds r.ints) (hu : UniqueIds r) (hw : IdxWF r.ints) (hrefs : RefsPresent r)
    (hall : lp = none → AllReferenced r) (h : filterFin true r n lp = .ok r') :
    r'.ints.Sublist r.ints ∧ r'.envs.Sublist r.envs ∧ r'.lrns.Sublist r.lrns ∧ r'.evals.Sublist r.evals :=
  filter_fin_sublist' r r' n lp hs hu hw hrefs hall h

/-! ### C18-F3: the order of the two steps -/

/-- The witness of C18-F3: environment 0 was evaluated for learner 0 (2 interactions) and learner 1 (1 interaction),
environment 1 for both learners with 2 interactions. -/
def cexDrop : Result :=
  { envs := [⟨0, []⟩, ⟨1, []⟩], lrns := [⟨0, []⟩, ⟨1, []⟩], evals := [⟨0, []⟩],
    ints := [⟨0, 0, 0, 1, 1⟩, ⟨0, 0, 0, 2, 1⟩, ⟨0, 1, 0, 1, 1⟩, ⟨1, 0, 0, 1, 1⟩, ⟨1, 0, 0, 2, 1⟩, ⟨1, 1, 0, 1, 1⟩, ⟨1, 1, 0, 2, 1⟩] }

example : WF cexDrop ∧ AllReferenced cexDrop := by decide

/-- `where_fin(2,'learner_id','environment_id')` as the code is (pairing, *then* dropping the evaluations shorter
than 2) returns environment 0 with learner 0 only: the result is not "a Result where an `l` exists for every `p`"
(docstring of `where_fin`); with the length step first (`filterFinD`) only environment 1 stays and the pairing
is complete. -/
theorem where_fin_length_drop_counterexample :
    (∃ r', filterFin true cexDrop (some (.k 2)) (some ([.lid], [.eid])) = .ok r' ∧
        pairingComplete r' [.lid] [.eid] = .ok false) ∧
      (∃ r', filterFinD cexDrop (some (.k 2)) (some ([.lid], [.eid])) = .ok r' ∧
        pairingComplete r' [.lid] [.eid] = .ok true) := by
  refine ⟨⟨{ envs := [⟨0, []⟩, ⟨1, []⟩], lrns := [⟨0, []⟩, ⟨1, []⟩], evals := [⟨0, []⟩],
             ints := [⟨0, 0, 0, 1, 1⟩, ⟨0, 0, 0, 2, 1⟩, ⟨1, 0, 0, 1, 1⟩, ⟨1, 0, 0, 2, 1⟩, ⟨1, 1, 0, 1, 1⟩, ⟨1, 1, 0, 2, 1⟩] }, ?_, ?_⟩,
    ⟨{ envs := [⟨1, []⟩], lrns := [⟨0, []⟩, ⟨1, []⟩], evals := [⟨0, []⟩],
       ints := [⟨1, 0, 0, 1, 1⟩, ⟨1, 0, 0, 2, 1⟩, ⟨1, 1, 0, 1, 1⟩, ⟨1, 1, 0, 2, 1⟩] }, ?_, ?_⟩⟩ <;> decide +kernel

/-- With `fixes/C18-length-drop-before-pairing.diff` (`filterFinD`) `where_fin` meets the joint contract
`whereFinJ`: evaluations shorter than `n` go first, then exactly the complete pairing groups of the rest stay. -/
theorem filter_fin_d_eq_spec (r : Result) (n : Option NSpec) (lp : Option (List Col × List Col))
    (hwf : WF r) (hall : AllReferenced r) : filterFinD r n lp = whereFinJ r n lp :=
  filterFinD_eq_spec r n lp hwf hall

/-! ### `where_best` / `filter_best` -/

/-- The inner loop of `filter_best` (`max_val, k, d = -inf, [], []; … if mean_val < max_val …`) keeps exactly the
evaluations of the level `bestLevelS` names: a level whose mean no other level of the cell exceeds — among several
the last in ascending order of the level. -/
theorem pick_best_eq_spec (cands : List (Key × Rat × List Triple)) :
    (pickBest cands none [] []).1 = ((bestLevelS cands).map (·.2.2)).getD [] :=
  pickBest_eq_spec cands

/-- the kept level exists for a non-empty cell and has the best mean of its cell -/
theorem best_level_is_max (cands : List (Key × Rat × List Triple)) (h : cands ≠ []) :
    ∃ c, bestLevelS cands = some c ∧ c ∈ cands ∧ ∀ c' ∈ cands, c'.2.1 ≤ c.2.1 := by
  obtain ⟨c, hc⟩ := bestLevelS_some cands h
  exact ⟨c, hc, bestLevelS_is_max cands c hc⟩

/-- `where_best(l,p,y,n,full_l,full_p)` = its specification: among the complete `full_p` groups, in every `(p,l)` cell
exactly the evaluations of the best `full_l` level stay, untouched, and exactly the parameter rows they refer to. -/
theorem where_best_spec (r : Result) (lc pc : List Col) (n : Option Nat) (fl fp : List Col) (hwf : WF r) :
    filterBest r lc pc n fl fp = whereBestS r lc pc n fl fp :=
  filterBest_eq_spec r lc pc n fl fp hwf

/-- The same for every walking order `lv` of the levels of a cell — in particular `ordLv ord`, the first-occurrence
order of the `groups` list when `sorted(groups)` raised on key values of mixed type. -/
theorem where_best_order_spec (lv : List BEnt → List Key) (r : Result) (lc pc : List Col) (n : Option Nat) (fl fp : List Col)
    (hwf : WF r) : filterBestW lv r lc pc n fl fp = whereBestSW lv r lc pc n fl fp :=
  filterBest_eq_specW lv r lc pc n fl fp hwf

/-- The iteration order is not fixed (sorted, or table order when the keys cannot be sorted), the kept set is: two
walking orders that list the same levels per cell keep the same evaluations whenever every cell has a single level of
best mean (`UniqueMax`; with ties the later level in walking order wins, `pick_best_eq_spec`). -/
theorem where_best_order_independent (lv1 lv2 : List BEnt → List Key) (es : List BEnt)
    (hperm : ∀ e ∈ es, (lv1 (cellOfEnt es e)).Perm (lv2 (cellOfEnt es e)))
    (hu : ∀ e ∈ es, UniqueMax (levelScoresW lv1 (cellOfEnt es e))) :
    keptByBestSW lv1 es = keptByBestSW lv2 es :=
  keptByBestSW_order_independent lv1 lv2 es hperm hu

/-- two entries of one cell, levels `[0]` (mean 1) and `[1]` (mean 2): the ascending order and the table order
`[(0,1,0),(0,0,0)]` list the same levels and the best mean is attained once -/
example :
    let es : List BEnt := [⟨[0], [0], [0], (0, 0, 0), 1⟩, ⟨[0], [0], [1], (0, 1, 0), 2⟩]
    (∀ e ∈ es, (sortLv (cellOfEnt es e)).Perm (ordLv [(0, 1, 0), (0, 0, 0)] (cellOfEnt es e))) ∧
      keptByBestSW sortLv es = [(0, 1, 0)] ∧ keptByBestSW (ordLv [(0, 1, 0), (0, 0, 0)]) es = [(0, 1, 0)] := by
  decide +kernel

/-- its result is again well-formed with mutually consistent tables -/
theorem where_best_preserves_wf (r r' : Result) (lc pc : List Col) (n : Option Nat) (fl fp : List Col) (hwf : WF r)
    (h : filterBest r lc pc n fl fp = .ok r') : WF r' ∧ Consistent r' := by
  rw [where_best_spec r lc pc n fl fp hwf] at h
  obtain ⟨h1, h2⟩ := whereBestS_wf r r' lc pc n fl fp hwf h
  exact ⟨h1, h1.2.2.2, h2⟩

/-- After the pairing step every pairing group of the result holds exactly one evaluation for every level of the
result: for every well-formed Result, every choice of `l`/`p` columns — duplicate `(l,p)` cells (groups that are too
large) and several evaluators included. -/
theorem where_fin_pairing_complete (r r' : Result) (lc pc : List Col) (hwf : WF r)
    (h : filterFin true r none (some (lc, pc)) = .ok r') : pairingComplete r' lc pc = .ok true := by
  rw [filter_fin_eq_spec r none (some (lc, pc)) hwf.1 hwf.2.1 hwf.2.2.1 hwf.2.2.2 (by intro h; cases h)] at h
  exact whereFinS_pairingComplete r r' lc pc hwf.1 h

example : ∃ r', filterFin true cexDrop none (some ([.lid], [.eid])) = .ok r' ∧ pairingComplete r' [.lid] [.eid] = .ok true :=
  ⟨cexDrop, by decide +kernel, by decide +kernel⟩

/-- `where_fin(n=k,l,p)` in the repaired order (`filterFinD`, the code since the C18-F3 fix) returns "a Result where an
`l` exists for every `p` and all `p` have `n` interactions": complete pairing *and* every evaluation exactly `k` long
(the general statement behind `where_fin_length_drop_counterexample`). -/
theorem where_fin_d_complete (r r' : Result) (m : Nat) (lc pc : List Col) (hwf : WF r) (hall : AllReferenced r)
    (h : filterFinD r (some (.k (m + 1))) (some (lc, pc)) = .ok r') :
    pairingComplete r' lc pc = .ok true ∧ ∀ g ∈ runs r'.ints, g.2.length = m + 1 := by
  rw [filter_fin_d_eq_spec r _ _ hwf hall] at h
  exact whereFinJ_complete r r' m lc pc hwf h

/-! ### chains (the "histories" of the quantifier) -/

/-- what `where_fin` returns is again well-formed, with every parameter row referenced — so the hypotheses of
`filter_fin_eq_spec` hold again for the next call of a chain -/
theorem filter_fin_preserves_wf (r r' : Result) (n : Option NSpec) (lp : Option (List Col × List Col)) (hwf : WF r)
    (hall : lp = none → AllReferenced r) (h : filterFin true r n lp = .ok r') : WF r' ∧ AllReferenced r' := by
  rw [filter_fin_eq_spec r n lp hwf.1 hwf.2.1 hwf.2.2.1 hwf.2.2.2 hall] at h
  exact whereFinS_wf r r' n lp hwf h

/-- `where(col=value | [values])` keeps a Result well-formed and fully referenced -/
theorem where_preserves_wf (r : Result) (tb : Tbl) (j : Option Nat) (vals : List Int) (hwf : WF r)
    (hall : AllReferenced r) : WF (whereTbl r tb j vals) ∧ AllReferenced (whereTbl r tb j vals) :=
  whereTbl_wf r tb j vals hwf hall

/-- every chain `r.where_fin(…).where(…).where_best(…).where_fin(…)…` of the (repaired) code equals the same chain
of specifications, for all chains of `where_fin` / `where` / `where_best` steps and all well-formed, fully
referenced starting Results -/
theorem chain_eq_spec (ss : List Step) (r : Result) (hwf : WF r) (hall : AllReferenced r) :
    runChain true ss r = runChainS ss r :=
  runChain_eq_spec ss r hwf hall

example : WF cexResult ∧ AllReferenced cexResult := by decide

/-! ### `raw_learners` -/

/-- `_grouped_ys` — the insertion-ordered dict of lists filled from `moving_average` / `mean` — reports for every
`(l, x)` exactly the list of directly computed averages (progressive, windowed, or final), on any Result. -/
theorem grouped_ys_eq_spec (r : Result) (lc : List Col) (x : XSpec) (span : Option Nat) :
    groupedYs r lc x span = groupedYsS r lc x span :=
  groupedYs_eq r lc x span

/-- `raw_learners(x,y,l,p,span)` = `where_fin` as specified (to the minimal length when `x='index'`) followed by
the direct averages; `CobaException` exactly when nothing is left. -/
theorem raw_learners_eq_spec (r : Result) (x : XSpec) (lc : List Col) (pc : Option (List Col)) (span : Option Nat)
    (hs : SortedIds r.ints) (hu : UniqueIds r) (hw : IdxWF r.ints) (hrefs : RefsPresent r) :
    rawLearners true r x lc pc span = rawLearnersS r x lc pc span :=
  rawLearners_eq_spec r x lc pc span hs hu hw hrefs

/-! ### `raw_contrast` -/

/-- `raw_contrast(l1,l2,x,y,l,p,span)` with any number of labels on each side: the label selections, `_grouped_ys(p,x,card='S')` on each, the pairing
by `p` (`zip` for `x='index'`, `product` otherwise) and the grouping by x — fed with the values the code computes
(`moving_average`, `mean(Y[-span:])`, `Y[-1]`) — equals the same pairing of the directly computed averages; the three
`CobaException`s included. -/
theorem raw_contrast_eq_spec (r : Result) (sels1 sels2 : List (List (Tbl × Option Nat × Int))) (pc : List Col)
    (x : XSpec) (span : Option Nat) (strX : Bool) :
    rawContrast r sels1 sels2 pc x span strX = rawContrastS r sels1 sels2 pc x span strX :=
  rawContrast_eq_spec r sels1 sels2 pc x span strX

/-- the `card='S'` dict never overwrites when no two entries share `(p, x)` — i.e. when every pairing value has one
evaluation on each side (what `where_fin(l,p)` establishes): then each side's values are simply its entries -/
theorem contrast_side_no_overwrite (es : List ((Key × Key) × Rat)) (h : (es.map (·.1)).Nodup) : lastWins [] es = es :=
  lastWins_nodup es [] (by simpa using h)


/-! ### `plot_contrast` (Phase 4): what is averaged, and over which pairs -/

/-- Everything `plot_contrast` computes before it draws — `raw_contrast`, the contrast of every pair (`'diff'`: `l2-l1`,
`'prob'`: `int(l2-l1 > 0)`), point estimate and error sizes per x (any `PointAndInterval` object, any `errevery`), the
win / tie / loss lines — fed with the values the code computes equals the same computation over the directly
computed progressive / windowed / final averages; errors included.  Unconditional. -/
theorem plot_contrast_eq_spec (r : Result) (sels1 sels2 : List (List (Tbl × Option Nat × Int))) (pc : List Col)
    (x : XSpec) (span : Option Nat) (strX : Bool) (xord : Option (List (Key × Key))) (mode : CMode) (ci : Option CiFn)
    (errevery : Option Nat) (kind : XKind) :
    plotContrast r sels1 sels2 pc x span strX xord mode ci errevery kind =
    plotContrastS r sels1 sels2 pc x span strX xord mode ci errevery kind :=
  plotContrast_eq_spec r sels1 sels2 pc x span strX xord mode ci errevery kind

/-- Only correctly paired runs contribute and the plotted value is their arithmetic mean: whenever `plot_contrast`
(no interval object) hands lines to the plotter there are the two sides' directly computed values `L1`, `L2` and a
table `tbl` such that (1) every x of the table has at least one pair and its pairs are exactly the formed pairs with
that x, (2) every formed pair takes its first value from an entry of side 1 and its second from an entry of side 2
**with the same pairing value** (same position for `x='index'`), and (3) the plotted points are
`y(x) = Σ contrast(pair) / #pairs` with error size 0, arranged into lines by `contrastLines`.
For all Results, labels, `l/p/x`, spans, modes, `errevery`. -/
theorem plot_contrast_mean_of_paired (r : Result) (sels1 sels2 : List (List (Tbl × Option Nat × Int))) (pc : List Col)
    (x : XSpec) (span : Option Nat) (strX : Bool) (xord : Option (List (Key × Key))) (mode : CMode)
    (errevery : Option Nat) (kind : XKind) (lines : List (List CPoint))
    (h : plotContrast r sels1 sels2 pc x span strX xord mode none errevery kind = .ok lines) :
    ∃ (L1 L2 : List ((Key × Key) × Rat)) (tbl : List ((Key × Key) × List (Rat × Rat))),
      sideValsAll allEntriesS r pc x span sels1 = .ok L1 ∧ sideValsAll allEntriesS r pc x span sels2 = .ok L2 ∧
      (∀ e ∈ tbl, e.2 ≠ [] ∧ ∀ q, q ∈ e.2 ↔ (e.1, q) ∈ contrastPairs (x = .index) L1 L2) ∧
      (∀ e ∈ contrastPairs (x = .index) L1 L2, PairedFrom (x = .index) L1 L2 e) ∧
      lines = contrastLines kind (boundaryOf mode) (tbl.map (meanPoint mode)) :=
  plotContrast_points r sels1 sels2 pc x span strX xord mode errevery kind lines h

/-- non-vacuity: on a 2-environment, 2-learner Result the hypothesis holds (the plotter receives lines) -/
example : (match plotContrast cexPlot [[(Tbl.lrn, none, 0)]] [[(Tbl.lrn, none, 1)]] [Col.eid] (.cols [Col.eid]) none true
    (some [([0],[0]),([1],[1])]) .diff none none .other with
    | .ok lines => lines.map (fun (l : List CPoint) => l.map (fun p => (p.x.1, p.y))) == [[], [], [([1], 1), ([0], 2)]]
    | .error _ => false) = true := by decide +kernel

/-- completeness of the pairing for a parameter x: any two entries of the two sides with the same pairing value are contrasted -/
theorem contrast_pairs_complete (L1 L2 : List ((Key × Key) × Rat)) (u w : (Key × Key) × Rat)
    (hu : u ∈ L1) (hw : w ∈ L2) (h : u.1.1 = w.1.1) :
    ((u.1.2, w.1.2), (u.2, w.2)) ∈ contrastPairs false L1 L2 :=
  contrastPairs_complete L1 L2 u w hu hw h

/-- the pairs under one x of a `raw_contrast` table are never empty and are exactly the formed pairs with that x;
the x labels are distinct -/
theorem raw_contrast_table_spec (ps : List ((Key × Key) × (Rat × Rat))) :
    ((groupPairs ps).map (·.1)).Nodup ∧ ∀ e ∈ groupPairs ps, e.2 ≠ [] ∧ ∀ q, q ∈ e.2 ↔ (e.1, q) ∈ ps :=
  ⟨groupPairs_keys_nodup ps, fun e he => groupPairs_spec ps e he⟩

/-- the win / tie / loss lines (x neither `'index'` nor `l`): every point with non-negative error sizes lies in
exactly one line — line 0 iff its interval is below the boundary, line 2 iff above, line 1 iff it contains the
boundary — each line is ascending in y and contains plotted points only -/
theorem contrast_lines_partition (b : Rat) (pts : List CPoint) (p : CPoint) :
    splitLines b pts = [sortY (pts.filter (fun p => p.y + p.hi < b)),
                        sortY (pts.filter (fun p => p.y - p.lo ≤ b ∧ b ≤ p.y + p.hi)),
                        sortY (pts.filter (fun p => b < p.y - p.lo))] ∧
    (p ∈ pts → 0 ≤ p.lo → 0 ≤ p.hi →
      ((p.y + p.hi < b ∧ p ∈ (splitLines b pts)[0]! ∧ p ∉ (splitLines b pts)[1]! ∧ p ∉ (splitLines b pts)[2]!) ∨
       (p.y - p.lo ≤ b ∧ b ≤ p.y + p.hi ∧ p ∉ (splitLines b pts)[0]! ∧ p ∈ (splitLines b pts)[1]! ∧ p ∉ (splitLines b pts)[2]!) ∨
       (b < p.y - p.lo ∧ p ∉ (splitLines b pts)[0]! ∧ p ∉ (splitLines b pts)[1]! ∧ p ∈ (splitLines b pts)[2]!))) ∧
    (∀ line ∈ splitLines b pts, line.Pairwise (fun a c => a.y ≤ c.y) ∧ ∀ q ∈ line, q ∈ pts) :=
  splitLines_spec b pts p

/-! ### binary64 exactness bound behind the exact float comparison -/

/-- dyadic inputs `m/2^k`, `|m| ≤ B`, and `len·B ≤ 2^53` ⇒ every window sum is `m'/2^k` with `|m'| ≤ 2^53`, i.e. a
binary64 number (named law `float_exact_boundary`: integers up to `2^53` are exact) — hence every running sum the
implementation forms is exact and each average is a single correctly rounded division -/
theorem window_sum_fits_binary64 (k B : Nat) (vs : List Rat) (h : ∀ x ∈ vs, DyadicBdd k B x)
    (hb : vs.length * B ≤ 2 ^ 53) (span : Option Nat) (i : Nat) :
    ∃ m : Int, sumL (window span i vs) = (m : Rat) / 2 ^ k ∧ m.natAbs ≤ 2 ^ 53 :=
  window_sum_fits_binary64' k B vs h hb span i

/-- the named law at its boundary, evaluated on the kernel's binary64: `2^53-1+1 = 2^53` exactly, `2^53+1` is no
longer representable (rounds to `2^53`), `2^53-1` is; the same one scale step down (`k = 2`) -/
theorem float_exact_boundary :
    ((9007199254740991 : Float) + 1 == 9007199254740992) = true ∧
    ((9007199254740992 : Float) + 1 == 9007199254740992) = true ∧
    ((9007199254740992 : Float) - 1 == 9007199254740991) = true ∧
    ((0.25 : Float) * 9007199254740991 + 0.25 == 0.25 * 9007199254740992) = true :=
  float_exact_boundary'


/-! ### translator obligations: literals of `plot_contrast` / `raw_contrast` / `_confidence` extracted by `ast` from the current
source (`Generated/C18Modes.lean`, regenerated on every run) equal what the model implements — an edit of those literals breaks one of these -/

/-- the `mode` strings are `'diff'`, `'prob'` in this order -/
theorem plot_modes_match : Coba.Generated.C18.modes = [modeName .diff, modeName .prob] := plot_modes_match'

/-- `_boundary = 0 if mode == 'diff' else .5` -/
theorem plot_boundaries_match :
    Coba.Generated.C18.boundaries.map (fun b => (b.1 : Rat) / (b.2 : Rat)) = [boundaryOf .diff, boundaryOf .prob] :=
  plot_boundaries_match'

/-- `err` dispatch strings, the special x `'index'`, the comparison operators of the win/tie/loss split, `(i+1) % errevery` -/
theorem plot_tables_match : Coba.Generated.C18.errNames = errNamesM ∧ Coba.Generated.C18.xSpecial = xSpecialM ∧
    Coba.Generated.C18.splitOps = splitOpsM ∧ Coba.Generated.C18.skipOffset = skipOffsetM := plot_err_names_match'

/-- the two `contraster` lambdas, read off the source (`t[i]-t[j]`, `int(t[i]-t[j] <op> c)`), are the model's `contrastOf` -/
theorem plot_contraster_match (t : Rat × Rat) :
    contrastOf .diff t = pairProj Coba.Generated.C18.diffIdx.1 t - pairProj Coba.Generated.C18.diffIdx.2 t ∧
    contrastOf .prob t = (if cmpOp Coba.Generated.C18.probOp
        (pairProj Coba.Generated.C18.diffIdx.1 t - pairProj Coba.Generated.C18.diffIdx.2 t)
        ((Coba.Generated.C18.probThreshold.1 : Rat) / (Coba.Generated.C18.probThreshold.2 : Rat)) = true then 1 else 0) :=
  plot_contraster_match' t

/-- the win / tie / loss split with the source's comparison operators is the model's `splitLines` -/
theorem plot_split_match (b : Rat) (pts : List CPoint) :
    splitLines b pts =
      [ sortY (pts.filter (fun p => cmpOp (Coba.Generated.C18.splitOps.getD 0 "") (p.y + p.hi) b)),
        sortY (pts.filter (fun p => cmpOp (Coba.Generated.C18.splitOps.getD 1 "") (p.y - p.lo) b &&
                                    cmpOp (Coba.Generated.C18.splitOps.getD 2 "") b (p.y + p.hi))),
        sortY (pts.filter (fun p => cmpOp (Coba.Generated.C18.splitOps.getD 3 "") b (p.y - p.lo))) ] :=
  plot_split_match' b pts

/-- default `errevery` for `x='index'`: `max(int(last*0.05),1)` with the source's factor -/
theorem plot_errevery_match (n : Nat) :
    errEveryOf true none n = max (n * Coba.Generated.C18.errEveryFactor.1 / Coba.Generated.C18.errEveryFactor.2) 1 :=
  plot_errevery_match' n


/-! ### Python's `sorted()` on parameter values (the `ord` / `xord` oracle replaced by a model) -/

/-- Exact characterisation of when `sorted()` raises, for CPython's `list.sort` below 64 elements (`count_run` +
`binarysort`) on values of the classes None / number / str / frozenset: a list of two or more values is sorted without
`TypeError` **iff** all values belong to one class and that class is not `None` (every value is compared with at least
one other value, and `<` raises across classes and on `None`).  Lists of length ≤ 1 are returned as they are. -/
theorem py_sorted_raises_iff (l : List PyVal) (h2 : 2 ≤ l.length) :
    (∃ out, pySorted l = .ok out) ↔ ∃ c, c ≠ PyClass.none ∧ ∀ v ∈ l, pyClass v = c :=
  pySorted_ok_iff l h2

example : pySorted [.num 2, .str [97], .num 1] = .error .typeError ∧ pySorted [.none, .none] = .error .typeError ∧
    pySorted [.num 2, .num 3, .num 1] = .ok [.num 1, .num 2, .num 3] ∧ pySorted [.none] = .ok [.none] := by decide +kernel

/-- where it succeeds on numbers or on strings, the order `sorted()` realises (`a ≤ b :⇔ not (b < a)`) is a total preorder
(frozensets are only partially ordered: that is C18-F2's subject) -/
theorem py_sorted_total_preorder (a b d : PyVal) (c : PyClass) (hc : c = .num ∨ c = .str)
    (ha : pyClass a = c) (hb : pyClass b = c) (hd : pyClass d = c) :
    (pyLe a b ∨ pyLe b a) ∧ (pyLe a b → pyLe b d → pyLe a d) ∧ pyLe a a :=
  pyLe_total_preorder a b d c hc ha hb hd

/-- whenever `sorted()` succeeds it returns as many values, all of the one class -/
theorem py_sorted_ok_of_one_class {c : PyClass} (hc : c ≠ .none) (l : List PyVal) (h : ∀ v ∈ l, pyClass v = c) :
    ∃ out, pySorted l = .ok out ∧ (∀ v ∈ out, pyClass v = c) ∧ out.length = l.length :=
  pySorted_ok_of_oneClass hc l h


/-- **`sorted()` returns a permutation of its input** (CPython's `count_run` + `binarysort`, any values, whenever it does not
raise): no x label of `raw_contrast`'s table is lost, duplicated or invented by the final sort. Unconditional. -/
theorem py_sorted_perm (l out : List PyVal) (h : pySorted l = .ok out) : out.Perm l :=
  pySorted_perm l out h

/-- **and the result is sorted**: on numbers / strings every earlier value is `≤` every later one in the order `sorted()`
realises (`a ≤ b :⇔ not (b < a)`) — the binary search of `binarysort` keeps the prefix sorted (invariant: everything left of
`l` is `≤ pivot`, everything from `r` on is `≥ pivot`), the initial run is sorted (reversed when strictly descending). Any length. -/
theorem py_sorted_sorted (l out : List PyVal) (hn : ∀ v ∈ l, pyClass v = .num ∨ pyClass v = .str)
    (h : pySorted l = .ok out) : out.Pairwise pyLe :=
  pySorted_sorted l out hn h

example : ([PyVal.num 1, .num 1, .num 2, .num 3]).Pairwise pyLe :=
  py_sorted_sorted [.num 3, .num 1, .num 2, .num 1] _ (by simp [pyClass]) (by decide +kernel)

/-- the hypothesis "numbers or strings" is forced: frozensets are sorted without `TypeError`, but `<` (proper subset) is
only a partial order there, so the result need not be ordered and depends on the arrival order (C18-F2's subject):
`[{1,2},{3},{1}]` is one ascending run for `count_run` (`{3} < {1,2}` and `{1} < {3}` are both false) and comes back as it is,
although `{1} < {1,2}`; the arrangement `[{1},{1,2},{3}]` of the same values comes back as it is, too. -/
theorem py_sorted_fset_counterexample :
    pySorted [.fset [1, 2], .fset [3], .fset [1]] = .ok [.fset [1, 2], .fset [3], .fset [1]] ∧
    pyLt (.fset [1]) (.fset [1, 2]) = .ok true ∧   -- i.e. `¬ pyLe {1,2} {1}`: the result is not `Pairwise pyLe`
    pySorted [.fset [1], .fset [1, 2], .fset [3]] = .ok [.fset [1], .fset [1, 2], .fset [3]] := by decide +kernel

/-- **the outcome of `sorted()` does not depend on the order in which the values arrive** (numbers / strings): two
arrangements of the same values give the same list, and one raises iff the other does — so the hash-dependent insertion
order of the dict `XY` inside `raw_contrast` cannot influence its table. -/
theorem py_sorted_order_independent (l1 l2 : List PyVal) (hp : l1.Perm l2) :
    ((∃ o, pySorted l1 = .ok o) ↔ (∃ o, pySorted l2 = .ok o)) ∧
    ((∀ v ∈ l1, pyClass v = .num ∨ pyClass v = .str) → ∀ o1 o2, pySorted l1 = .ok o1 → pySorted l2 = .ok o2 → o1 = o2) :=
  ⟨pySorted_ok_perm l1 l2 hp, fun hn o1 o2 h1 h2 => pySorted_order_independent l1 l2 o1 o2 hp hn h1 h2⟩

/-- lifted to `raw_contrast`'s final `sorted(XY.items())`: for any two fill orders of `XY` (same entries; the x labels are
distinct dict keys, numbers / strings) the sorted table is the same. -/
theorem raw_contrast_sort_order_independent (labs : List ((Key × Key) × PyVal))
    (raw1 raw2 o1 o2 : List ((Key × Key) × List (Rat × Rat))) (hp : raw1.Perm raw2)
    (hnd : (raw1.map (fun e => labOf labs e.1)).Nodup)
    (hn : ∀ e ∈ raw1, pyClass (labOf labs e.1) = .num ∨ pyClass (labOf labs e.1) = .str)
    (h1 : orderRawPy labs raw1 = .ok o1) (h2 : orderRawPy labs raw2 = .ok o2) : o1 = o2 :=
  orderRawPy_perm labs raw1 raw2 o1 o2 hp hnd hn h1 h2


/-! ### incrementally built Results (round g) -/

/-- A table built by any schedule of in-index-order `Table.insert` batches with read-only analysis calls (which fill the
cache of group boundaries) in between — starting from the empty indexed table, with the code's rule "every insert clears
the cache" — holds exactly the rows of the Result built in one go, and every later analysis call sees exactly the groups
of that one-shot Result.  For all schedules. (All analysis functions of the model are functions of these rows / groups.) -/
theorem incremental_eq_oneshot (ops : List IncOp) :
    (runInc true ops ⟨[], none⟩).rows = insertedRows ops ∧
    (runInc true ops ⟨[], none⟩).groups = (runInc true [] ⟨insertedRows ops, none⟩).groups :=
  incremental_eq_oneshot' ops

/-- the hypothesis "insert clears the cache" is forced: keeping the cache for in-order inserts (seeded change C18-gm4)
leaves the appended evaluation invisible on the schedule insert / look / insert -/
theorem stale_cache_counterexample :
    (runInc false cexInc ⟨[], none⟩).groups.length = 1 ∧ (runs (insertedRows cexInc)).length = 2 ∧
    (runInc true cexInc ⟨[], none⟩).groups.length = 2 :=
  stale_cache_counterexample'

/-! ### Phase 5: `sorted(XY.items())` inside the model (the x order is no longer an input) -/

/-- `raw_contrast` *with* its final `sorted(XY.items())` (CPython's `list.sort` over the labels as Python values, mixed-type
x columns included) over the code's values = over directly computed averages, errors (`TypeError`) included -/
theorem raw_contrast_py_eq_spec (r : Result) (sels1 sels2 : List (List (Tbl × Option Nat × Int))) (pc : List Col)
    (x : XSpec) (span : Option Nat) (labs : List ((Key × Key) × PyVal)) :
    rawContrastPy r sels1 sels2 pc x span labs = rawContrastPyS r sels1 sels2 pc x span labs :=
  rawContrastPy_eq_spec r sels1 sels2 pc x span labs

/-- the same for everything `plot_contrast` computes before drawing, over the table that `raw_contrast` sorted itself -/
theorem plot_contrast_py_eq_spec (r : Result) (sels1 sels2 : List (List (Tbl × Option Nat × Int))) (pc : List Col)
    (x : XSpec) (span : Option Nat) (labs : List ((Key × Key) × PyVal)) (mode : CMode) (ci : Option CiFn)
    (errevery : Option Nat) (kind : XKind) :
    plotContrastPy r sels1 sels2 pc x span labs mode ci errevery kind =
    plotContrastPyS r sels1 sels2 pc x span labs mode ci errevery kind :=
  plotContrastPy_eq_spec r sels1 sels2 pc x span labs mode ci errevery kind

/-- `TypeError` iff: when the pairing yields the entries `raw` (≥ 2 of them, parameter x), `raw_contrast` returns a table
**iff** all x labels are Python values of one class other than `None` (all numbers, all strings, all frozensets) — for
every Result, selection, pairing and assignment of Python values to the labels; and whatever table it returns consists of
entries formed by the pairing, x label and pairs untouched (`x='index'` included) -/
theorem raw_contrast_py_sorted (r : Result) (sels1 sels2 : List (List (Tbl × Option Nat × Int))) (pc : List Col)
    (x : XSpec) (span : Option Nat) (labs : List ((Key × Key) × PyVal)) (raw : List ((Key × Key) × List (Rat × Rat)))
    (hraw : rawContrast r sels1 sels2 pc x span true = .ok raw) :
    (x ≠ .index → 2 ≤ raw.length →
      ((∃ tbl, rawContrastPy r sels1 sels2 pc x span labs = .ok tbl) ↔
        ∃ c, c ≠ PyClass.none ∧ ∀ e ∈ raw, pyClass (labOf labs e.1) = c)) ∧
    (∀ tbl, rawContrastPy r sels1 sels2 pc x span labs = .ok tbl → ∀ q ∈ tbl, q ∈ raw) :=
  rawContrastPy_sorted' r sels1 sels2 pc x span labs raw hraw

/-- the hypotheses are satisfiable and both outcomes occur: two labels of one class are sorted (descending input reversed),
a number next to a string raises -/
example : ((orderRawPy [((([1] : Key), ([1] : Key)), .num 5), (([2], [2]), .num 3)] [(([1], [1]), [(1, 2)]), (([2], [2]), [(0, 1)])]).toOption.map
      (fun t => t.map (·.1))) = some [(([2] : Key), ([2] : Key)), ([1], [1])] ∧
    (match orderRawPy [((([1] : Key), ([1] : Key)), .num 5), (([2], [1]), .str [51, 45, 53])] [(([1], [1]), [(1, 2)]), (([2], [1]), [(0, 1)])] with
      | .error .typeError => true | _ => false) = true := by decide +kernel

/-- `errEveryOf` models `int(n*0.05)` as `n / 20`.  On binary64 this is NOT true for every `n < 2^53`: the exact set where it
differs is `{n | 3·2^51 ≤ n ∧ n % 20 = 19}` (there `int(n*0.05) = n/20 + 1`; found by analysis: `0.05` is `1/20 + 1/(5·2^56)`, the
product `k + 19/20 + n/(5·2^56)` reaches the rounding midpoint `k + 31/32` exactly at `n = 3·2^51`; confirmed on 4·10^5 sampled `n`).
Kernel-checked witnesses on the real binary64: the first differing `n = 3·2^51 + 15` gives `n/20 + 1`, its neighbours
(`n - 20`, `n - 1`) agree with `n/20`.  The general statement for `n < 3·2^51` under a round-to-nearest law is open (notes). -/
theorem int_mul_005_boundary_counterexample : ((6755399441055759 : Float) * 0.05 == 337769972052788) = true ∧
    ((6755399441055739 : Float) * 0.05 < 337769972052787) = true ∧
    ((6755399441055739 : Float) * 0.05 ≥ 337769972052786) = true ∧
    ((6755399441055758 : Float) * 0.05 < 337769972052788) = true ∧
    (6755399441055759 / 20 = 337769972052787) ∧ (6755399441055739 / 20 = 337769972052786) ∧
    6755399441055744 = 3 * 2 ^ 51 :=
  int_mul_005_boundary'

/-- **`int(n*0.05) = n // 20` for every `n < 3·2^51`**, for every rounding function obeying the round-to-nearest law
(`FloatLaw`: never crosses a representable value; not farther above `x` than a representable value below `x` is below it —
no tie rule needed): the rounded product `fl(n · 0.05)` (with `0.05` the binary64 `3602879701896397/2^56`) lies in
`[n/20, n/20 + 1)`, so its truncation is `n/20` — what `errEveryOf` uses.  The bound is sharp:
`int_mul_005_boundary_counterexample` (first differing `n = 3·2^51 + 15`, on the kernel's binary64). -/
theorem int_mul_005_eq_div20 (fl : Rat → Rat) (h : FloatLaw fl) (n : Nat) (hn : n < int005Bound) :
    (((n / 20 : Nat) : Rat) ≤ fl ((n : Rat) * c05)) ∧ fl ((n : Rat) * c05) < ((n / 20 : Nat) : Rat) + 1 :=
  int_mul_005_eq_div20' fl h n hn

/-- the same as a statement about `floor` (`int()` of a non-negative float) -/
theorem int_mul_005_floor (fl : Rat → Rat) (h : FloatLaw fl) (n : Nat) (hn : n < int005Bound) :
    ⌊fl ((n : Rat) * c05)⌋ = ((n / 20 : Nat) : Int) :=
  int_mul_005_floor' fl h n hn

/-- the law is satisfiable (exact arithmetic obeys it; binary64's round-to-nearest does by definition of "nearest") and the
bound is the literal `3·2^51`; the default `errevery` of the model is `max (n/20) 1` -/
example : FloatLaw (fun x => x) ∧ int005Bound = 3 * 2 ^ 51 ∧ (19 : Nat) < int005Bound := ⟨floatLaw_id, by decide, by decide⟩

theorem errevery_default_eq (n : Nat) : errEveryDefault n = max (n / 20) 1 :=
  errEveryDefault_eq n

/-- translator obligation: the defaults of `where_fin`/`filter_fin`/`where_best`/`filter_best`/`raw_learners`/`raw_contrast`/
`plot_learners`/`plot_contrast` (n, l, p, x, y, span, full_l, full_p, mode, err, errevery) in the CURRENT source are the ones
model and harness assume ("by default environments", "by default every learner") -/
theorem analysis_defaults_match : Coba.Generated.C18.analysisDefaults = analysisDefaultsM :=
  analysis_defaults_match'

/-- translator obligation: `_confidence` maps `err` strings to interval classes as assumed (order included), and its
strings are the accepted `err` names of the model -/
theorem confidence_dispatch_match : Coba.Generated.C18.confDispatch = confDispatchM ∧
    Coba.Generated.C18.confDispatch.map (·.1) = errNamesM :=
  confidence_dispatch_match'

end Coba.C18
