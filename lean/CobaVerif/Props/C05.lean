/-
C05 — Random streams are a pure, contract-respecting function of the seed.
Property theorems only (helper lemmas live in `Lemmas/C05.lean`).
-/
import CobaVerif.Lemmas.C05
import CobaVerif.Lemmas.C05Real
import CobaVerif.Lemmas.C05Period
import CobaVerif.Generated.LcgConsts
import CobaVerif.Lemmas.C05Module
import CobaVerif.Generated.C05Source
import CobaVerif.Lemmas.C05Reservoir
import CobaVerif.Generated.C05Reservoir
import CobaVerif.Lemmas.C05Filters
import CobaVerif.Generated.C05Filters

namespace Coba.C05

/-- translator obligation: the constants in coba/random.py are the ones the model uses -/
theorem lcg_consts_match :
    Coba.Generated.lcgA = A ∧ Coba.Generated.lcgC = C ∧ Coba.Generated.lcgM = M := by decide

/-- Hull–Dobell conditions for full period 2^30 (so every one of the 2^30 states is visited,
including the state whose uniform is exactly 0) -/
theorem lcg_params_ok : A % 4 = 1 ∧ C % 2 = 1 ∧ M = 2 ^ 30 := by decide

/-- every state is in range -/
theorem state_lt (s : Nat) : next s < M := next_lt s

/-- every uniform lies in [0,1) — for all 2^30 states, all seeds -/
theorem uniform_mem (s : Nat) : 0 ≤ u s ∧ u s < 1 := ⟨u_nonneg s, u_lt_one s⟩

/-- the uniform 0 does occur: it is the first draw of `CobaRandom(482549499)` -/
theorem zero_state_reachable : unum (normInt 482549499) = 0 := by decide

/-- the LCG step is injective on states (the multiplier is odd): streams never merge, every
state has exactly one predecessor -/
theorem next_injective (s t : Nat) (hs : s < M) (ht : t < M) (h : next s = next t) : s = t :=
  next_injective' s t hs ht h

/-- exactly one state in [0,2^30) is followed by the uniform 0.0 — the boundary the corpus
computes by modular inverse is THE boundary -/
theorem zero_uniform_unique (s t : Nat) (hs : s < M) (ht : t < M) (h1 : unum s = 0) (h2 : unum t = 0) : s = t :=
  zero_uniform_unique' s t hs ht h1 h2

/-- **full period (Hull–Dobell for m = 2^30, proved directly):** for EVERY seed the stream returns to
its starting state after exactly the multiples of 2^30 draws — no seed has a short cycle -/
theorem period (s : Nat) (hs : s < M) (n : Nat) : next^[n] s = s ↔ M ∣ n := period' s hs n

/-- the first 2^30 states of every stream are pairwise different -/
theorem states_distinct (s : Nat) (hs : s < M) (i j : Nat) (hi : i < M) (hj : j < M)
    (h : next^[i] s = next^[j] s) : i = j := states_distinct' s hs i j hi hj h

/-- every one of the 2^30 states is visited by every seed within one period -/
theorem visits_every_state (s : Nat) (hs : s < M) (t : Nat) (ht : t < M) :
    ∃ i, i < M ∧ next^[i] s = t := visits_every_state' s hs t ht

/-- **exact equidistribution over a period:** for every seed and every `k < 2^30` the draw `k/2^30`
occurs exactly once among the first 2^30 uniforms (so `random()` is exactly uniform on its grid over
a period, and the zero uniform occurs exactly once per period for every seed) -/
theorem uniform_each_once (s : Nat) (hs : s < M) (k : Nat) (hk : k < M) :
    ∃ i, i < M ∧ unum (next^[i] s) = k ∧ ∀ j, j < M → unum (next^[j] s) = k → j = i :=
  uniform_each_once' s hs k hk

/-- the hypotheses are met by every normalised seed, e.g. the corpus boundary seed -/
example : normInt 482549499 < M ∧ unum (next^[0] (normInt 482549499)) = 0 := by decide

/-- a zero uniform is never followed by another one (the `while U == 0` loop in
`_next_gaussian` runs at most once) -/
theorem redraw_nonzero (s : Nat) (h : unum s = 0) : unum (next s) ≠ 0 := redraw_nonzero' s h

/-- `random(min,max) ∈ [min,max)` over exact arithmetic, for every state and all bounds -/
theorem random_mem (s : Nat) (lo hi : Rat) (h : lo < hi) :
    lo ≤ (random s lo hi).2 ∧ (random s lo hi).2 < hi := random_mem' s lo hi h

theorem randoms_mem (s n : Nat) (lo hi : Rat) (h : lo < hi) :
    (randoms s n lo hi).2.length = n ∧ ∀ x ∈ (randoms s n lo hi).2, lo ≤ x ∧ x < hi :=
  randoms_mem' s n lo hi h

/-- `randint(a,b) ∈ [a,b]` -/
theorem randint_mem (s : Nat) (a b : Int) (h : a ≤ b) :
    a ≤ (randint s a b).2 ∧ (randint s a b).2 ≤ b := randint_mem' s a b h

theorem randints_mem (s n : Nat) (a b : Int) (h : a ≤ b) :
    (randints s n a b).2.length = n ∧ ∀ x ∈ (randints s n a b).2, a ≤ x ∧ x ≤ b :=
  randints_mem' s n a b h

/-- shuffle returns a permutation of its input, for every state and every list -/
theorem shuffle_perm {α} (s : Nat) (xs : List α) : (shuffle s xs).2.Perm xs := shuffle_perm' s xs

/-- the loop of `CobaRandom.shuffle` as written in Python (for i = 0 … n-2: j = i + floor((n-i)·u);
swap l[i], l[j]) — which is what the driver runs — computes exactly the recursive formulation the
permutation and draw-count theorems are stated about -/
theorem shuffleLoop_eq_shuffle {α} (s : Nat) (l : List α) : shuffleLoop s l = shuffle s l :=
  shuffleLoop_eq_shuffle' s l

theorem shuffleLoop_perm {α} (s : Nat) (xs : List α) : (shuffleLoop s xs).2.Perm xs := by
  rw [shuffleLoop_eq_shuffle]; exact shuffle_perm' s xs

/-- shuffle consumes exactly `len-1` uniforms (none for lists shorter than 2) -/
theorem shuffle_draws {α} (s : Nat) (xs : List α) :
    (shuffle s xs).1 = Nat.iterate next (xs.length - 1) s := shuffle_draws' s xs

/-- weighted choice: for non-negative weights with positive sum and matching length the call
succeeds, consumes one uniform, and the chosen member has strictly positive weight -/
theorem choice_pos_weight (s n : Nat) (ws : List Rat) (hlen : ws.length = n)
    (hnn : ∀ w ∈ ws, 0 ≤ w) (hpos : 0 < sum ws) :
    ∃ i, choice s n (some ws) = .ok (next s, i) ∧ i < n ∧ ∃ w, ws[i]? = some w ∧ 0 < w :=
  choice_pos_weight' s n ws hlen hnn hpos

/-- unweighted choice returns a valid index -/
theorem choice_uniform_mem (s n : Nat) (hn : 0 < n) :
    ∃ i, choice s n none = .ok (next s, i) ∧ i < n := choice_uniform_mem' s n hn

/-- choicew reports exactly the chosen member's weight -/
theorem choicew_weight (s n : Nat) (ws : List Rat) (hlen : ws.length = n)
    (hnn : ∀ w ∈ ws, 0 ≤ w) (hpos : 0 < sum ws) :
    ∃ i w, choicew s n (some ws) = .ok (next s, i, w) ∧ ws[i]? = some w ∧ 0 < w :=
  choicew_weight' s n ws hlen hnn hpos

/-- documented rejections -/
theorem choice_rejects (s n : Nat) (ws : List Rat) :
    (ws ≠ [] ∧ ws.length ≠ n) ∨ sum ws = 0 → choice s n (some ws) = .error .valueError :=
  choice_rejects' s n ws

/-- Box–Muller never takes `log 0`: the first uniform of every pair is non-zero, for every
state (gauss is total in the model; finiteness of the value is then libm's) -/
theorem gauss_log_arg_pos (g : Gen) (h : g.buf = none) : 0 < (gauss1 g).2.k1 ∧ (gauss1 g).2.k1 < M :=
  gauss_log_arg_pos' g h

/-- the buffered member of a pair is returned next and consumes no uniform -/
theorem gauss_pair (g : Gen) (h : g.buf = none) :
    let (g1, d1) := gauss1 g
    let (g2, d2) := gauss1 g1
    d1.isCos = true ∧ d2 = { d1 with isCos := false } ∧ g2.s = g1.s ∧ g2.buf = none :=
  gauss_pair' g h

/-- frame / purity: in any interleaving of calls on any family of instances, the outputs of
instance `i` are exactly those of running `i`'s calls alone -/
theorem frame (st : Nat → Gen) (h : Hist) (i : Nat) :
    ((run st h).filter (·.1 = i)).map (·.2) = runOne (st i) ((h.filter (·.1 = i)).map (·.2)) :=
  frame' st h i

/-- seed normalisation: integer seeds that agree mod 2^30 give the same stream, and the
state after normalisation is what Python's `(a*seed+c) & (m-1)` computes from the raw seed -/
theorem seed_norm_int (seed : Int) :
    ((next (normInt seed) : Nat) : Int) = ((A : Int) * seed + (C : Int)) % (M : Int) :=
  seed_norm_int' seed

/-- gauss is finite, with the transcendental functions modelled by their real counterparts:
for every pair of uniforms Box–Muller can be fed (first numerator in [1,2^30) by
`gauss_log_arg_pos`) the value is bounded by sqrt(60 ln 2) ≈ 6.45 -/
theorem gauss_finite_real (k1 k2 : Nat) (isCos : Bool) (h1 : 0 < k1) (h2 : k1 < M) :
    |boxMuller k1 k2 isCos| ≤ Real.sqrt (60 * Real.log 2) := boxMuller_bound' k1 k2 isCos h1 h2

/-- `randint` under the standard model of floating-point arithmetic (relative error ≤ 2^-53 on
the int→float conversion of the range and on the product): the product never reaches the
range, for every range, state and admissible rounding error — so `floor` stays ≤ range-1 -/
theorem randint_float_model (n : Rat) (s : Nat) (e1 e2 : Rat) (hn : 0 < n)
    (h1 : |e1| ≤ 1 / 2 ^ 53) (h2 : |e2| ≤ 1 / 2 ^ 53) :
    0 ≤ n * (1 + e1) * u s * (1 + e2) ∧ n * (1 + e1) * u s * (1 + e2) < n :=
  randint_float_model' n s e1 e2 hn h1 h2

example : (0 : Nat) < 5 ∧ 5 < M := by decide

/-- IEEE-754 witness for the recorded finding C05-F3: with `min = 2^20-2^-20`, `max = 2^20`
and the largest uniform `(2^30-1)/2^30` the double result of `min+(max-min)*u` *is* `max`.
(`decide +kernel` on a closed `Float` term; no extra axioms.) -/
theorem random_float_rounds_to_max :
    ((1048576.0 - 1.0/1048576.0) + (1048576.0 - (1048576.0 - 1.0/1048576.0)) * (1073741823.0 / 1073741824.0) : Float) == 1048576.0 := by
  decide +kernel

/-! ## Phase 4 -/

/-- translator obligation: the seed-normalisation branches of `CobaRandom.__init__` (which types go
through `int(seed)`, the `float.is_integer` guard, `str`/`utf-8`/`big`/`% 2**20`, the falsy fallback),
the step/yield of `_next_uniform` (`& (m-1)`, `/ m`), the comparator of the weighted `choice`, what
`__reduce__` stores, `seed()` replacing the global, the nine delegating module functions, default
bounds, Box–Muller coefficients and the zero guard — as read off coba/random.py by `ast` on this run —
are the ones the model is written for -/
theorem source_facts_match :
    Coba.Generated.C05.srcFacts = srcFacts ∧ Coba.Generated.C05.srcNums = srcNums := by decide

/-- the model's byte-seed modulus is the extracted `2**20`, and big-endian means base 256 from the left -/
theorem normBytes_def (bs : List Nat) : normBytes bs = fromBytes bs % strMod ∧
    fromBytes (bs ++ [0]) = 256 * fromBytes bs := by
  refine ⟨rfl, ?_⟩
  simp [fromBytes, List.foldl_append, Nat.mul_comm]

/-- **module functions = methods on the global:** `coba.random.f(args)` returns what
`_random.f(args)` returns and advances the global exactly as the method does -/
theorem module_call_eq_method (x : Inst) (o : Op) :
    cstep x (.op o) = ({ x with g := (step x.g o).1 }, some (step x.g o).2) := module_call_eq_method' x o

/-- **`coba.random.seed(s)` followed by any history of module calls = `CobaRandom(s)` with that
history** — whatever the global was before (position, buffered gaussian, earlier seeds) -/
theorem seed_then_history (x : Inst) (s : Nat) (ops : List Op) :
    crunOne x (.reseed s :: ops.map .op) = runOne { s := s } ops := seed_then_history' x s ops

/-- nothing done before a `seed(s)` call (incl. earlier re-seeds and pickling) is visible after it -/
theorem seed_forgets_past (x : Inst) (pre : List Call) (s : Nat) (post : List Call) :
    crunOne x (pre ++ .reseed s :: post) = crunOne x pre ++ crunOne (fresh s) post :=
  seed_forgets_past' x pre s post

/-- **pickling restores the seed, not the position:** after any history of method calls the unpickled
object answers like a brand-new `CobaRandom(seed)` -/
theorem pickle_restores_seed (s : Nat) (ops : List Op) (post : List Call) :
    crunOne (fresh s) (ops.map .op ++ .repickle :: post)
      = runOne { s := s } ops ++ crunOne (fresh s) post := pickle_restores_seed' s ops post

/-- pickling an unused generator is the identity (what multiprocessing relies on) -/
theorem pickle_fresh_noop (s : Nat) (post : List Call) :
    crunOne (fresh s) (.repickle :: post) = crunOne (fresh s) post := pickle_fresh_noop' s post

/-- the position IS lost: seed 1, one draw, pickle round trip — the copy repeats the first uniform
(`922/2^30`-style numerators compared), the original would have moved on -/
theorem pickle_loses_position_counterexample :
    unum (cafter (fresh 1) [.op (.random 0 1), .repickle]).g.s ≠ unum (cafter (fresh 1) [.op (.random 0 1)]).g.s := by
  decide

/-- what `__reduce__` stores (`self._seed`) rebuilds the same start state for every kind of seed
(int, integral float, str/other) — so an unpickled generator IS the generator of the original seed -/
theorem reduce_seed_roundtrip (sd : SeedObj) : normInt (seedAttr sd) = seedState sd :=
  reduce_seed_roundtrip' sd

theorem seed_state_lt (sd : SeedObj) : seedState sd < M := seedState_lt sd

/-- int seeds that agree modulo 2^30 are the same generator (huge and negative seeds included) -/
theorem seed_norm_periodic (z k : Int) : normInt (z + k * (M : Int)) = normInt z := normInt_add_mul z k

/-- frame / purity with re-seeding and pickling in the history: the outputs of object `i` (an instance
or the module global) under any interleaving equal those of its own calls alone -/
theorem frame_calls (st : Nat → Inst) (h : List (Nat × Call)) (i : Nat) :
    ((crun st h).filter (·.1 = i)).map (·.2) = crunOne (st i) ((h.filter (·.1 = i)).map (·.2)) :=
  frame_calls' st h i

/-- on histories of plain method calls the extended runner (what the driver runs) is `run` -/
theorem crun_ops_eq_run (st : Nat → Inst) (h : Hist) :
    crun st (h.map (fun p => (p.1, Call.op p.2))) = run (fun i => (st i).g) h := crun_ops_eq_run' st h

/-- `random(x,x) = x`; `random(min,max)` with `max < min` does not raise and lies in `(max,min]` -/
theorem random_degenerate (s : Nat) (lo : Rat) : (random s lo lo).2 = lo := random_degenerate' s lo

theorem random_reversed (s : Nat) (lo hi : Rat) (h : hi < lo) :
    hi < (random s lo hi).2 ∧ (random s lo hi).2 ≤ lo := random_reversed' s lo hi h

example : (3 : Rat) < 5 := by decide

/-- `randint(a,a) = a` -/
theorem randint_eq (s : Nat) (a : Int) : (randint s a a).2 = a := randint_eq' s a

/-- `randint(a,b)` with `a > b` does not raise; the value lies in `[b+1,a]` -/
theorem randint_reversed (s : Nat) (a b : Int) (h : b < a) :
    b + 1 ≤ (randint s a b).2 ∧ (randint s a b).2 ≤ a := randint_reversed' s a b h

example : (2 : Int) < 7 := by decide

/-- `n = 0`: no value, no uniform consumed; in general exactly `n` uniforms are consumed -/
theorem randoms_zero (s : Nat) (lo hi : Rat) : randoms s 0 lo hi = (s, []) := randoms_zero' s lo hi
theorem randints_zero (s : Nat) (a b : Int) : randints s 0 a b = (s, []) := randints_zero' s a b
theorem randoms_draws (s n : Nat) (lo hi : Rat) : (randoms s n lo hi).1 = next^[n] s := randoms_draws' s n lo hi
theorem randints_draws (s n : Nat) (a b : Int) : (randints s n a b).1 = next^[n] s := randints_draws' s n a b

/-- **`gausses(n)` = n × `gauss()`**: same values and same generator afterwards (state and buffered
second Box–Muller value), for every generator incl. one with a buffered value -/
theorem gausses_eq_iterated_gauss (g : Gen) (n : Nat) : gaussIter g n = gausses g n :=
  gausses_eq_iterated_gauss' g n

theorem gausses_zero (g : Gen) : gausses g 0 = (g, []) := gausses_zero' g
theorem gausses_length (g : Gen) (n : Nat) : (gausses g n).2.length = n := gausses_length' g n

/-- one element: it is returned whatever its positive weight, and `choicew` reports that weight -/
theorem choice_single (s : Nat) (w : Rat) (hw : 0 < w) :
    choice s 1 (some [w]) = .ok (next s, 0) ∧ choicew s 1 (some [w]) = .ok (next s, 0, w) :=
  choice_single' s w hw

example : (0 : Rat) < 1 / 2 := by decide +kernel

theorem choice_single_unweighted (s : Nat) : choice s 1 none = .ok (next s, 0) := choice_single_unweighted' s

/-- zero total weight is rejected before a uniform is drawn: the stream is where it was -/
theorem choice_zero_total_keeps_state (g : Gen) (n : Nat) (ws : List Rat) (h : sum ws = 0) :
    step g (.choice n (some ws)) = (g, .err .valueError) := choice_zero_total_keeps_state' g n ws h

example : sum [0, 0] = 0 := by decide +kernel

/-- weights of ANY sign: as long as the lengths match and the total is positive the call succeeds
and the chosen member's weight is strictly positive — non-negativity of the individual weights
(`hnn` of `choice_pos_weight`) is not needed for this clause -/
theorem choice_pos_weight_any_sign (s n : Nat) (ws : List Rat) (hlen : ws.length = n) (hpos : 0 < sum ws) :
    ∃ i, choice s n (some ws) = .ok (next s, i) ∧ i < n ∧ ∃ w, ws[i]? = some w ∧ 0 < w :=
  choice_pos_weight_any_sign' s n ws hlen hpos

example : ([3, -1, 2] : List Rat).length = 3 ∧ 0 < sum [3, -1, 2] := by decide +kernel

/-- …but the total must be positive: with a negative total nothing is found and the bare
`StopIteration` of `next(compress(…))` escapes (outside the contract; replayed by the corpus) -/
theorem choice_negative_total_counterexample :
    choice (normInt 1) 1 (some [-1]) = .error .stopIteration := by decide +kernel

/-! ## Phase 4 (continued): error paths -/

/-- **`choice_error_state`: exactly which error paths consume a draw.**  For every generator, sequence
length and weights argument, a `choice` call either answers `ValueError` — precisely when the weights
have the wrong length or total zero — and then the generator is untouched (rejected before the draw);
or (success, `IndexError` on an empty sequence, bare `StopIteration` when nothing is found) exactly one
uniform has been consumed and the gaussian buffer is unchanged -/
theorem choice_error_state (g : Gen) (n : Nat) (w : Option (List Rat)) :
    ((stepE g (.choice n w)).2 = .err .valueError ∧ (stepE g (.choice n w)).1 = g ∧
        ∃ ws, w = some ws ∧ ((ws ≠ [] ∧ ws.length ≠ n) ∨ sum ws = 0)) ∨
    ((stepE g (.choice n w)).2 ≠ .err .valueError ∧ (stepE g (.choice n w)).1 = { g with s := next g.s }) :=
  choice_error_state' g n w

/-- the same for `choicew` (its errors are exactly `choice`'s) -/
theorem choicew_error_state (g : Gen) (n : Nat) (w : Option (List Rat)) :
    ((stepE g (.choicew n w)).2 = .err .valueError ∧ (stepE g (.choicew n w)).1 = g ∧
        ∃ ws, w = some ws ∧ ((ws ≠ [] ∧ ws.length ≠ n) ∨ sum ws = 0)) ∨
    ((stepE g (.choicew n w)).2 ≠ .err .valueError ∧ (stepE g (.choicew n w)).1 = { g with s := next g.s }) :=
  choicew_error_state' g n w

/-- `choicew` has no error of its own: `1/len(seq)` and `weights[i]` are never reached with bad arguments -/
theorem choicew_no_own_error (s n : Nat) (w : Option (List Rat)) (e : Err) (h : choicew s n w = .error e) :
    e ≠ .zeroDivision := choicew_no_own_error' s n w e h

/-- the exact semantics differs from the phase-1 `step` only on calls that end in `StopIteration` -/
theorem stepE_eq_step (g : Gen) (o : Op) (h : (stepE g o).2 ≠ .err .stopIteration) : stepE g o = step g o :=
  stepE_eq_step' g o h

/-- both branches of `choice_error_state` occur: zero total is rejected without a draw, a negative total
ends in StopIteration after the draw -/
example : (stepE { s := 1 } (.choice 2 (some [0, 0]))).1.s = 1 ∧
    (stepE { s := 1 } (.choice 1 (some [-1]))).1.s = next 1 := by decide +kernel

/-- frame / purity for the exact semantics (`f = stepE` is what the driver runs; `f = step` gives `frame_calls`):
with failing calls, re-seeding and pickling anywhere in the history, the outputs of object `i` under any
interleaving equal those of its own calls alone — the stream position after an error is part of the object's own state -/
theorem frame_calls_exact (f : Gen → Op → Gen × Out) (st : Nat → Inst) (h : List (Nat × Call)) (i : Nat) :
    ((crunW f st h).filter (·.1 = i)).map (·.2) = crunOneW f (st i) ((h.filter (·.1 = i)).map (·.2)) :=
  frame_callsW' f st h i

theorem seed_then_history_exact (f : Gen → Op → Gen × Out) (x : Inst) (s : Nat) (ops : List Op) :
    crunOneW f x (.reseed s :: ops.map .op) = runOneW f { s := s } ops := seed_then_historyW' f x s ops

theorem seed_forgets_past_exact (f : Gen → Op → Gen × Out) (x : Inst) (pre : List Call) (s : Nat) (post : List Call) :
    crunOneW f x (pre ++ .reseed s :: post) = crunOneW f x pre ++ crunOneW f (fresh s) post :=
  seed_forgets_pastW' f x pre s post

theorem pickle_restores_seed_exact (f : Gen → Op → Gen × Out) (s : Nat) (ops : List Op) (post : List Call) :
    crunOneW f (fresh s) (ops.map .op ++ .repickle :: post)
      = runOneW f { s := s } ops ++ crunOneW f (fresh s) post := pickle_restores_seedW' f s ops post

/-- the parametrised runner instantiated with `step` is the phase-4 runner -/
theorem crunW_step (st : Nat → Inst) (h : List (Nat × Call)) : crunW step st h = crun st h := crunW_step' st h

/-! ### Phase 5: a caller that walks the stream in batches (`pipes.filters.Reservoir`) -/

/-- translator obligation: the literals of `Reservoir.filter` (draw `3*batch_size` uniforms, `range(0,3*batch_size,3)`,
slices `[i:i+3]`, three loop targets, `batched_randoms_forever(20)`, in-place shuffle first) as read off
coba/pipes/filters.py by `ast` on this run are the ones the model is written for -/
theorem reservoir_source_match : Coba.Generated.C05.resNums = resNums ∧ resBatch = 20 := by decide

/-- translator obligation: the Box–Muller EXPRESSIONS (sqrt of `-2`·log of the first uniform, `2`·pi·the second uniform, cosine value
yielded before the sine value, `mu+sigma*g`, `gauss` = first element of `gausses(1)`) as read off coba/random.py on this run are the
ones `gauss1`/`GaussDesc` and `Lemmas/C05Real.lean` are written for -/
theorem gauss_source_match : Coba.Generated.C05.gaussShape = srcGauss := by decide

/-- for EVERY batch size, generator state and number of batches: batches of `3*b` uniforms handed out in threes are
exactly the consecutive triples of the seed's stream (no uniform skipped, none used twice, across every batch border) -/
theorem reservoir_walk_is_stream (b s k : Nat) : batchedTriples (3 * b) s k = streamTriples s (b * k) :=
  reservoir_walk_is_stream' b s k

theorem reservoir_walk_length (b s k : Nat) : (batchedTriples (3 * b) s k).length = b * k :=
  reservoir_walk_length' b s k

/-- what Reservoir(count,seed) consumes is the model's shuffle of its first `count` items followed by the stream
from where the shuffle left it (the driver runs `reservoirWalk`) -/
theorem reservoir_consumes_stream (s count b k : Nat) :
    reservoirWalk s count b k =
      ((shuffle s (List.range count)).2, streamTriples (shuffle s (List.range count)).1 (b * k)) :=
  reservoir_consumes_stream' s count b k

/-- `randoms(n)` hands out exactly the next `n` uniforms and leaves the generator `n` steps further -/
theorem randoms_eq_unums (s n : Nat) :
    randoms s n 0 1 = (adv s n, (unums s n).map (fun k => (k : Rat) / (M : Rat))) := randoms_eq_unums' s n

theorem adv_eq_iterate (s n : Nat) : adv s n = next^[n] s := adv_eq_iterate' s n

/-- the hypothesis "batch = multiple of three" is needed: 64 uniforms per batch walked in threes (seeded change C05-hm3)
drop one uniform per batch; replayed on the real code by the corpus (Reservoir runs of > 21 and > 42 replacements) -/
theorem reservoir_walk_counterexample : batchedTriples 64 1 2 ≠ streamTriples 1 42 := reservoir_walk_counterexample'

example : (batchedTriples (3 * 20) 1 3).length = 60 := by decide +kernel

/-! ### Phase 6: the filters that own a generator (`pipes.filters.Shuffle`, every path of `pipes.filters.Reservoir`) and histories of
`filter` calls (read, abandon, read again, read a sibling) -/

/-- translator obligation: what the model assumes about `Shuffle.filter` and `Reservoir.filter` (generator created inside the call from
`self._seed`; `Shuffle` copies its input and shuffles the copy in place; `count == 0` tested first; `count is None` shuffles a copy;
`islice(items,count)` fills the reservoir; `len(reservoir) < count` → `[] if strict else` in-place shuffle) as read off
coba/pipes/filters.py by `ast` on this run -/
theorem filters_source_match : Coba.Generated.C05.fltNums = fltNums := by decide

/-- `Shuffle(seed).filter(range(n))` is what the method `shuffle` of a NEW `CobaRandom(seed)` returns, and a permutation of its input -/
theorem shuffle_filter_is_seed_stream (s n : Nat) :
    fltOut (.shuffle s) n = .items (shuffleFilter s n) ∧
    (step (fresh s).g (.shuffle n)).2 = .perm (shuffleFilter s n) ∧ (shuffleFilter s n).Perm (List.range n) :=
  shuffle_filter_is_seed_stream' s n

/-- `Reservoir(None,strict,seed)` is `Shuffle(seed)`, for every input length and either `strict` -/
theorem reservoir_none_is_shuffle (strict : Bool) (s n : Nat) :
    fltOut (.reservoir none strict s) n = fltOut (.shuffle s) n := reservoir_none' strict s n

/-- `Reservoir(0,…)` yields nothing -/
theorem reservoir_zero_empty (strict : Bool) (s n : Nat) : fltOut (.reservoir (some 0) strict s) n = .items [] :=
  reservoir_zero' strict s n

/-- fewer items than `count`: the non-strict reservoir is `Shuffle(seed)` of what there is, the strict one is empty -/
theorem reservoir_short (c s n : Nat) (h : n < c) :
    fltOut (.reservoir (some c) false s) n = fltOut (.shuffle s) n ∧ fltOut (.reservoir (some c) true s) n = .items [] :=
  reservoir_short' c s n h
example : (3 : Nat) < 5 := by decide

/-- at least `count` items (strict or not): the reservoir starts as the seed's shuffle of the first `count` items — a permutation of
them — and Algorithm L is fed with the consecutive triples of the seed's stream from where the shuffle left it (`count-1` draws in),
for every batch size and number of batches -/
theorem reservoir_full_walk (c : Nat) (strict : Bool) (s n b k : Nat) (hc : 0 < c) (h : c ≤ n) :
    fltOut (.reservoir (some c) strict s) n = .walk (reservoirWalk s c b k).1 (adv s (c - 1)) ∧
    (reservoirWalk s c b k).2 = streamTriples (adv s (c - 1)) (b * k) ∧
    (reservoirWalk s c b k).1.Perm (List.range c) := reservoir_full' c strict s n b k hc h
example : (0 : Nat) < 3 ∧ (3 : Nat) ≤ 3 := by decide

/-- the hypothesis `count ≤ n` of `reservoir_full_walk` is needed: with fewer items there is no walk -/
theorem reservoir_full_walk_counterexample : fltOut (.reservoir (some 3) false 1) 2 = .items (shuffleFilter 1 2) :=
  (reservoir_short' 3 1 2 (by decide)).1

/-- histories of `filter` calls on any collection of filter objects: the answer to every call is the answer of that object to that
input, whatever calls (finished or abandoned, on the same object, on a sibling with the same or another seed) surround it -/
theorem filter_history_pure (objs : List Flt) (pre post : List (Nat × Nat)) (o n : Nat) :
    fltRun objs (pre ++ (o, n) :: post) = fltRun objs pre ++ fltAt objs o n :: fltRun objs post :=
  filter_history_pure' objs pre post o n

theorem filter_history_length (objs : List Flt) (h : List (Nat × Nat)) : (fltRun objs h).length = h.length :=
  filter_history_length' objs h

/-- whatever list a filter hands out is empty or a permutation of its whole input (nothing invented, lost or duplicated) -/
theorem filter_items_perm (f : Flt) (n : Nat) (l : List Nat) (h : fltOut f n = .items l) : l = [] ∨ l.Perm (List.range n) :=
  fltOut_items_sub' f n l h
example : fltOut (.shuffle 1) 3 = .items (shuffleFilter 1 3) := rfl

end Coba.C05
