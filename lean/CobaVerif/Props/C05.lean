/-
C05 — Random streams are a pure, contract-respecting function of the seed.
Property theorems only (helper lemmas live in `Lemmas/C05.lean`).
-/
import CobaVerif.Lemmas.C05
import CobaVerif.Lemmas.C05Real
import CobaVerif.Lemmas.C05Period
import CobaVerif.Generated.LcgConsts

namespace Coba.C05

/-- translator obligation: the constants in coba/random.py are the ones the model uses -/
theorem lcg_consts_match :
    Coba.Generated.lcgA = A ∧ Coba.Generated.lcgC = C ∧ Coba.Generated.lcgM = M := by decide

/-- Hull–Dobell conditions for full period 2^30 (so every one of the 2^30 states is visited,
including the state whose uniform is exactly 0) -/
theorem lcg_params_ok : A % 4 = 1 ∧ C % 2 = 1 ∧ M = 2 ^ 30 := by decide

/-- every state is in range -/
theorem state_lt (s : Nat) : next s < M := next_lt s

/-- every uniform lies in [0,1) — for all 2^30 states, all seeds -/
theorem uniform_mem (s : Nat) : 0 ≤ u s ∧ u s < 1 := ⟨u_nonneg s, u_lt_one s⟩

/-- the uniform 0 does occur: it is the first draw of `CobaRandom(482549499)` -/
theorem zero_state_reachable : unum (normInt 482549499) = 0 := by decide

/-- the LCG step is injective on states (the multiplier is odd): streams never merge, every
state has exactly one predecessor -/
theorem next_injective (s t : Nat) (hs : s < M) (ht : t < M) (h : next s = next t) : s = t :=
  next_injective' s t hs ht h

/-- exactly one state in [0,2^30) is followed by the uniform 0.0 — the boundary the corpus
computes by modular inverse is THE boundary -/
theorem zero_uniform_unique (s t : Nat) (hs : s < M) (ht : t < M) (h1 : unum s = 0) (h2 : unum t = 0) : s = t :=
  zero_uniform_unique' s t hs ht h1 h2

/-- **full period (Hull–Dobell for m = 2^30, proved directly):** for EVERY seed the stream returns to
its starting state after exactly the multiples of 2^30 draws — no seed has a short cycle -/
theorem period (s : Nat) (hs : s < M) (n : Nat) : next^[n] s = s ↔ M ∣ n := period' s hs n

/-- the first 2^30 states of every stream are pairwise different -/
theorem states_distinct (s : Nat) (hs : s < M) (i j : Nat) (hi : i < M) (hj : j < M)
    (h : next^[i] s = next^[j] s) : i = j := states_distinct' s hs i j hi hj h

/-- every one of the 2^30 states is visited by every seed within one period -/
theorem visits_every_state (s : Nat) (hs : s < M) (t : Nat) (ht : t < M) :
    ∃ i, i < M ∧ next^[i] s = t := visits_every_state' s hs t ht

/-- **exact equidistribution over a period:** for every seed and every `k < 2^30` the draw `k/2^30`
occurs exactly once among the first 2^30 uniforms (so `random()` is exactly uniform on its grid over
a period, and the zero uniform occurs exactly once per period for every seed) -/
theorem uniform_each_once (s : Nat) (hs : s < M) (k : Nat) (hk : k < M) :
    ∃ i, i < M ∧ unum (next^[i] s) = k ∧ ∀ j, j < M → unum (next^[j] s) = k → j = i :=
  uniform_each_once' s hs k hk

/-- the hypotheses are met by every normalised seed, e.g. the corpus boundary seed -/
example : normInt 482549499 < M ∧ unum (next^[0] (normInt 482549499)) = 0 := by decide

/-- a zero uniform is never followed by another one (the `while U == 0` loop in
`_next_gaussian` runs at most once) -/
theorem redraw_nonzero (s : Nat) (h : unum s = 0) : unum (next s) ≠ 0 := redraw_nonzero' s h

/-- `random(min,max) ∈ [min,max)` over exact arithmetic, for every state and all bounds -/
theorem random_mem (s : Nat) (lo hi : Rat) (h : lo < hi) :
    lo ≤ (random s lo hi).2 ∧ (random s lo hi).2 < hi := random_mem' s lo hi h

theorem randoms_mem (s n : Nat) (lo hi : Rat) (h : lo < hi) :
    (randoms s n lo hi).2.length = n ∧ ∀ x ∈ (randoms s n lo hi).2, lo ≤ x ∧ x < hi :=
  randoms_mem' s n lo hi h

/-- `randint(a,b) ∈ [a,b]` -/
theorem randint_mem (s : Nat) (a b : Int) (h : a ≤ b) :
    a ≤ (randint s a b).2 ∧ (randint s a b).2 ≤ b := randint_mem' s a b h

theorem randints_mem (s n : Nat) (a b : Int) (h : a ≤ b) :
    (randints s n a b).2.length = n ∧ ∀ x ∈ (randints s n a b).2, a ≤ x ∧ x ≤ b :=
  randints_mem' s n a b h

/-- shuffle returns a permutation of its input, for every state and every list -/
theorem shuffle_perm {α} (s : Nat) (xs : List α) : (shuffle s xs).2.Perm xs := shuffle_perm' s xs

/-- the loop of `CobaRandom.shuffle` as written in Python (for i = 0 … n-2: j = i + floor((n-i)·u);
swap l[i], l[j]) — which is what the driver runs — computes exactly the recursive formulation the
permutation and draw-count theorems are stated about -/
theorem shuffleLoop_eq_shuffle {α} (s : Nat) (l : List α) : shuffleLoop s l = shuffle s l :=
  shuffleLoop_eq_shuffle' s l

theorem shuffleLoop_perm {α} (s : Nat) (xs : List α) : (shuffleLoop s xs).2.Perm xs := by
  rw [shuffleLoop_eq_shuffle]; exact shuffle_perm' s xs

/-- shuffle consumes exactly `len-1` uniforms (none for lists shorter than 2) -/
theorem shuffle_draws {α} (s : Nat) (xs : List α) :
    (shuffle s xs).1 = Nat.iterate next (xs.length - 1) s := shuffle_draws' s xs

/-- weighted choice: for non-negative weights with positive sum and matching length the call
succeeds, consumes one uniform, and the chosen member has strictly positive weight -/
theorem choice_pos_weight (s n : Nat) (ws : List Rat) (hlen : ws.length = n)
    (hnn : ∀ w ∈ ws, 0 ≤ w) (hpos : 0 < sum ws) :
    ∃ i, choice s n (some ws) = .ok (next s, i) ∧ i < n ∧ ∃ w, ws[i]? = some w ∧ 0 < w :=
  choice_pos_weight' s n ws hlen hnn hpos

/-- unweighted choice returns a valid index -/
theorem choice_uniform_mem (s n : Nat) (hn : 0 < n) :
    ∃ i, choice s n none = .ok (next s, i) ∧ i < n := choice_uniform_mem' s n hn

/-- choicew reports exactly the chosen member's weight -/
theorem choicew_weight (s n : Nat) (ws : List Rat) (hlen : ws.length = n)
    (hnn : ∀ w ∈ ws, 0 ≤ w) (hpos : 0 < sum ws) :
    ∃ i w, choicew s n (some ws) = .ok (next s, i, w) ∧ ws[i]? = some w ∧ 0 < w :=
  choicew_weight' s n ws hlen hnn hpos

/-- documented rejections -/
theorem choice_rejects (s n : Nat) (ws : List Rat) :
    (ws ≠ [] ∧ ws.length ≠ n) ∨ sum ws = 0 → choice s n (some ws) = .error .valueError :=
  choice_rejects' s n ws

/-- Box–Muller never takes `log 0`: the first uniform of every pair is non-zero, for every
state (gauss is total in the model; finiteness of the value is then libm's) -/
theorem gauss_log_arg_pos (g : Gen) (h : g.buf = none) : 0 < (gauss1 g).2.k1 ∧ (gauss1 g).2.k1 < M :=
  gauss_log_arg_pos' g h

/-- the buffered member of a pair is returned next and consumes no uniform -/
theorem gauss_pair (g : Gen) (h : g.buf = none) :
    let (g1, d1) := gauss1 g
    let (g2, d2) := gauss1 g1
    d1.isCos = true ∧ d2 = { d1 with isCos := false } ∧ g2.s = g1.s ∧ g2.buf = none :=
  gauss_pair' g h

/-- frame / purity: in any interleaving of calls on any family of instances, the outputs of
instance `i` are exactly those of running `i`'s calls alone -/
theorem frame (st : Nat → Gen) (h : Hist) (i : Nat) :
    ((run st h).filter (·.1 = i)).map (·.2) = runOne (st i) ((h.filter (·.1 = i)).map (·.2)) :=
  frame' st h i

/-- seed normalisation: integer seeds that agree mod 2^30 give the same stream, and the
state after normalisation is what Python's `(a*seed+c) & (m-1)` computes from the raw seed -/
theorem seed_norm_int (seed : Int) :
    ((next (normInt seed) : Nat) : Int) = ((A : Int) * seed + (C : Int)) % (M : Int) :=
  seed_norm_int' seed

/-- gauss is finite, with the transcendental functions modelled by their real counterparts:
for every pair of uniforms Box–Muller can be fed (first numerator in [1,2^30) by
`gauss_log_arg_pos`) the value is bounded by sqrt(60 ln 2) ≈ 6.45 -/
theorem gauss_finite_real (k1 k2 : Nat) (isCos : Bool) (h1 : 0 < k1) (h2 : k1 < M) :
    |boxMuller k1 k2 isCos| ≤ Real.sqrt (60 * Real.log 2) := boxMuller_bound' k1 k2 isCos h1 h2

/-- `randint` under the standard model of floating-point arithmetic (relative error ≤ 2^-53 on
the int→float conversion of the range and on the product): the product never reaches the
range, for every range, state and admissible rounding error — so `floor` stays ≤ range-1 -/
theorem randint_float_model (n : Rat) (s : Nat) (e1 e2 : Rat) (hn : 0 < n)
    (h1 : |e1| ≤ 1 / 2 ^ 53) (h2 : |e2| ≤ 1 / 2 ^ 53) :
    0 ≤ n * (1 + e1) * u s * (1 + e2) ∧ n * (1 + e1) * u s * (1 + e2) < n :=
  randint_float_model' n s e1 e2 hn h1 h2

example : (0 : Nat) < 5 ∧ 5 < M := by decide

/-- IEEE-754 witness for the recorded finding C05-F3: with `min = 2^20-2^-20`, `max = 2^20`
and the largest uniform `(2^30-1)/2^30` the double result of `min+(max-min)*u` *is* `max`.
(`decide +kernel` on a closed `Float` term; no extra axioms.) -/
theorem random_float_rounds_to_max :
    ((1048576.0 - 1.0/1048576.0) + (1048576.0 - (1048576.0 - 1.0/1048576.0)) * (1073741823.0 / 1073741824.0) : Float) == 1048576.0 := by
  decide +kernel

end Coba.C05
