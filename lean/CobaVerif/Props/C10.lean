import CobaVerif.Lemmas.C10
namespace Coba.C10
theorem placeholder : True := trivial
end Coba.C10
