/-
C10 — Changing representation never changes which action earns which reward.
Property theorems only (helper lemmas live in `Lemmas/C10.lean`, the model in `Model/C10.lean`).

Reading of the statement:  for an interaction `I` and its image `J` under a filter (chain),
`alignedB I J` says `[rewards'(a') for a' in actions'] = [rewards(a) for a in actions]` (a list
`rewards` is its own observable), the same for `feedbacks`, `actions'.index(action') =
actions.index(action)` for a logged action that is a member, and `reward`, `probability` unchanged.
`Cfg.fixed` is the code with the proposed repairs `fixes/C10-*.diff`; `Cfg.asIs` the pinned commit.
-/
import CobaVerif.Lemmas.C10

namespace Coba.C10

/-! ### reward look-up -/

/-- `DiscreteReward(as, rs)(as[i]) = rs[i]` on an action *set* -/
theorem discrete_reward_lookup {as : List Val} {rs : List Rat} (d : Rat) (hd : Distinct as)
    {i : Nat} {a : Val} {x : Rat} (h : as[i]? = some a) (hx : rs[i]? = some x) :
    callRew (.discrete as rs d false) a = .ok x := callRew_discrete_of_distinct d hd h hx

/-- `[DiscreteReward(as, rs)(a) for a in as] = rs` -/
theorem discrete_reward_obs {as : List Val} {rs : List Rat} (d : Rat) (hd : Distinct as)
    (hl : as.length = rs.length) : obsOf (.discrete as rs d false) as = rs.map Except.ok := obsOf_discrete d hd hl

example : Distinct [catA, catB] := (distinctB_iff _).mp (by decide +kernel)

/-! ### the re-keying mechanisms -/

/-- Flatten / Sparsify / Densify / Noise / Repr's default branch:
`DiscreteReward(new_actions, [old(a) for a in old_actions])` gives the i-th new action the reward
of the i-th old action whenever the new representation is injective on the action set -/
theorem rekey_generic_aligned {r r' : Rew} {old new : List Val} (h : genericRew r old new = .ok r')
    (hd : Distinct new) : obsEq (obsOf r old) (obsOf r' new) = true := genericRew_aligned h hd

/-- Repr's `BinaryReward` branch: the argmax is moved to the re-represented member -/
theorem repr_binary_aligned {am : Val} {v : Rat} {old new : List Val} {r' : Rew} {fd : Bool}
    (h : rekey (.reprStyle fd) (.binary am v) old new = .ok r')
    (hdo : Distinct old) (hdn : Distinct new) (hl : old.length = new.length) (hm : am ∈ old) :
    obsEq (obsOf (.binary am v) old) (obsOf r' new) = true := binary_remap_aligned h hdo hdn hl hm

/-- Finalize's `DiscreteReward(actions, list_of_rewards)` -/
theorem finalize_wrap_obs {b : Bool} {rs : List Rat} {old new : List Val} {r' : Rew}
    (h : rekey .wrapSeq (.seq b rs) old new = .ok r') (hd : Distinct new) (hl : old.length = new.length) :
    obsEq (obsOf (.seq b rs) old) (obsOf r' new) = true :=
  rekey_aligned (by simpa [targetHypB] using (distinctB_iff _).mpr hd) hl h

/-- every policy a filter can choose keeps the observable, under that policy's hypothesis -/
theorem rekey_policy_aligned {p : Policy} {r r' : Rew} {old new : List Val}
    (hh : targetHypB p (some r) old new = true) (hl : old.length = new.length)
    (h : rekey p r old new = .ok r') : obsEq (obsOf r old) (obsOf r' new) = true := rekey_aligned hh hl h

/-! ### logged interactions -/

/-- the logged action stays the same member of the action set -/
theorem logged_action_index {old new : List Val} {a a' : Val} {k : Nat}
    (hh : loggedHypB old new (some a) (some a') = true) (hk : indexOf old a = some k) :
    indexOf new a' = some k := logged_index_kept hh hk

/-! ### one interaction, one filter, a chain -/

theorem plan_aligned {I J : Inter} {p : Plan} (hh : planHypB I p = true) (h : applyPlan I p = .ok J) :
    alignedB I J = true := applyPlan_aligned hh h

theorem step_aligned (cfg : Cfg) (st : Step) {S S' : State}
    (hh : (match st with
           | .batch _ => true
           | .unbatch => true
           | _ => primsHypB cfg (expandStep st) S.stream) = true)
    (h : runStep cfg st S = .ok S') (hs : alignedStreamB S.stream S.stream = true) :
    alignedStreamB S.stream S'.stream = true := runStep_aligned cfg st hh h hs

/-- Repr, in every pair of modes (as-is or repaired): aligned whenever the encoding is injective on each
action set (`primsHypB` spells this out per interaction: `distinctB` of the new actions, the
BinaryReward argmax a member, the logged action re-represented as its member) -/
theorem repr_aligned (cfg : Cfg) (cc ca : Option Mode) {s s' : List Inter}
    (hh : primsHypB cfg [.repr cc ca] s = true) (h : runPrim cfg (.repr cc ca) s = .ok s')
    (hs : alignedStreamB s s = true) : alignedStreamB s s' = true := runPrim_aligned cfg _ hh h hs

theorem flatten_aligned (cfg : Cfg) {s s' : List Inter}
    (hh : primsHypB cfg [.flatten] s = true) (h : runPrim cfg .flatten s = .ok s')
    (hs : alignedStreamB s s = true) : alignedStreamB s s' = true := runPrim_aligned cfg _ hh h hs

/-- Densify, look-up or hashing (for *every* hash table): aligned unless two actions collide -/
theorem densify_aligned (cfg : Cfg) (n : Nat) (m : DMethod) (c a : Bool) {s s' : List Inter}
    (hh : primsHypB cfg [.densify n m c a] s = true) (h : runPrim cfg (.densify n m c a) s = .ok s')
    (hs : alignedStreamB s s = true) : alignedStreamB s s' = true := runPrim_aligned cfg _ hh h hs

/-- Noise on contexts/actions, for every noise function and every drawn value -/
theorem noise_actions_aligned (cfg : Cfg) (nc na : Option NoiseSpec) (drawn : List Rat) {s s' : List Inter}
    (hh : primsHypB cfg [.noise nc na drawn] s = true) (h : runPrim cfg (.noise nc na drawn) s = .ok s')
    (hs : alignedStreamB s s = true) : alignedStreamB s s' = true := runPrim_aligned cfg _ hh h hs

theorem finalize_aligned (cfg : Cfg) {s s' : List Inter}
    (hh : primsHypB cfg (expandStep .finalize) s = true) (h : runPrims cfg (expandStep .finalize) s = .ok s')
    (hs : alignedStreamB s s = true) : alignedStreamB s s' = true := finalize_aligned' cfg hh h hs

/-- alignment is preserved by every chain of representation filters (induction over the chain),
for the code as it is and for the repaired code alike, as long as each step's encoding stays
injective on each action set (`chainHypB`, evaluated by the driver on every generated case) -/
theorem chain_aligned (cfg : Cfg) (chain : List Step) {S S' : State}
    (hh : chainHypB cfg chain S = true) (h : runChain cfg chain S = .ok S')
    (hs : alignedStreamB S.stream S.stream = true) :
    alignedStreamB S.stream S'.stream = true := runChain_aligned cfg chain hh h hs

/-- non-vacuity: a two-filter chain on a categorical action set meets the hypotheses -/
example : chainHypB Cfg.fixed [.repr none (some .onehot), .sparsify true true] { stream := wRekey ++ wReprDiscrete } = true
    ∧ alignedStreamB (wRekey ++ wReprDiscrete) (wRekey ++ wReprDiscrete) = true := by decide +kernel

/-! ### Sparsify and Finalize end to end (repaired code) -/

theorem sparsify_aligned (c a : Bool) (s s' : List Inter)
    (hself : alignedStreamB s s = true)
    (hhomR : ∀ I ∈ s, ∀ r, I.rewards = some r → r.isCallable = true → firstCallable (·.rewards) s = true)
    (hhomF : ∀ I ∈ s, ∀ r, I.feedbacks = some r → r.isCallable = true → firstCallable (·.feedbacks) s = true)
    (hinj : ∀ I ∈ s, ∀ as, I.actions = some as → Distinct (sparsifyActs a as))
    (hlog : ∀ I ∈ s, ∀ a0 as k, I.action = some a0 → I.actions = some as → indexOf as a0 = some k → as[k]? = some a0)
    (hrun : runPrim Cfg.fixed (.sparsify c a) s = .ok s') : alignedStreamB s s' = true :=
  sparsify_aligned' c a s s' hself hhomR hhomF hinj hlog hrun

theorem finalize_wrap_aligned (s s' : List Inter)
    (hself : alignedStreamB s s = true)
    (hacts : ∀ I ∈ s, ∃ as, I.actions = some as)
    (hinj : ∀ I ∈ s, ∀ as, I.actions = some as → Distinct as)
    (hlog : ∀ I ∈ s, ∀ a0 as k, I.action = some a0 → I.actions = some as → indexOf as a0 = some k → as[k]? = some a0)
    (hrun : runPrim Cfg.fixed .wrapSeqs s = .ok s') : alignedStreamB s s' = true :=
  finalize_wrap_aligned' s s' hself hacts hinj hlog hrun

/-! ### injectivity of the categorical encodings -/

/-- one-hot tuples and strings compare exactly like the categoricals they encode -/
theorem categorical_encoding_injective {m : Mode} {s t : String} {ls : List String} {a b : Val}
    (ha : encodeValue m (.cat s ls) = .ok a) (hb : encodeValue m (.cat t ls) = .ok b) :
    pyEq a b = pyEq (.cat s ls) (.cat t ls) := encodeValue_pyEq ha hb

/-- a set of categorical actions over one level list stays a set under every mode of Repr -/
theorem repr_scalar_actions_distinct {m : Mode} {ls : List String} {rows enc : List Val}
    (hcat : ∀ r ∈ rows, ∃ s, r = Val.cat s ls) (h : mapM' (encodeValue m) rows = .ok enc)
    (hd : Distinct rows) : Distinct enc := encodeValues_distinct hcat h hd

/-! ### Batch / Unbatch -/

/-- the batches partition the stream: their sizes add up to its length … -/
theorem batch_sizes_sum (k : Nat) (hk : 0 < k) (len : Nat) : (chunkSizes k len len).sum = len :=
  chunkSizes_sum k hk len len (Nat.le_refl _)

/-- … and every batch is non-empty and at most `k` long -/
theorem batch_sizes_bound (k : Nat) (hk : 0 < k) (len : Nat) : ∀ x ∈ chunkSizes k len len, 0 < x ∧ x ≤ k :=
  chunkSizes_bound k hk len len

/-- Batch and Unbatch never touch the interactions themselves -/
theorem batch_unbatch_stream (cfg : Cfg) (n : Option Nat) (S S1 S2 : State)
    (h1 : runStep cfg (.batch n) S = .ok S1) (h2 : runStep cfg .unbatch S1 = .ok S2) :
    S2.stream = S.stream ∧ S2.sizes = none := batch_unbatch_stream' cfg n S S1 S2 h1 h2

/-! ### the pinned commit violates the property: witnesses (replayed on the real code) -/

/-- P18: Sparsify(action=True) keeps `BinaryReward(2)` keyed on the old actions -/
theorem sparsify_counterexample : keepsAligned Cfg.asIs [.sparsify false true] wRekey = false := by decide +kernel
example : keepsAligned Cfg.fixed [.sparsify false true] wRekey = true := by decide +kernel

/-- P19: Repr('string','onehot') encodes the logged action with the context mode -/
theorem repr_logged_counterexample :
    keepsAligned Cfg.asIs [.repr (some .string) (some .onehot)] wReprLogged = false := by decide +kernel
example : keepsAligned Cfg.fixed [.repr (some .string) (some .onehot)] wReprLogged = true := by decide +kernel

/-- Repr re-keys a DiscreteReward positionally -/
theorem repr_discrete_counterexample :
    keepsAligned Cfg.asIs [.repr none (some .onehot)] wReprDiscrete = false := by decide +kernel
example : keepsAligned Cfg.fixed [.repr none (some .onehot)] wReprDiscrete = true := by decide +kernel

/-- Noise(action) leaves the logged action un-noised … -/
theorem noise_logged_counterexample :
    keepsAligned Cfg.asIs [.noise none (some (.affine 1 10)) []] wNoiseLogged = false := by decide +kernel
example : keepsAligned Cfg.fixed [.noise none (some (.affine 1 10)) []] wNoiseLogged = true := by decide +kernel

/-- … and functional feedbacks keyed on the un-noised actions -/
theorem noise_feedbacks_counterexample :
    keepsAligned Cfg.asIs [.noise none (some (.affine 1 10)) []] wNoiseFeedbacks = false := by decide +kernel
example : keepsAligned Cfg.fixed [.noise none (some (.affine 1 10)) []] wNoiseFeedbacks = true := by decide +kernel

/-- Flatten does not flatten the logged action -/
theorem flatten_logged_counterexample : keepsAligned Cfg.asIs [.flatten] wFlattenLogged = false := by decide +kernel
example : keepsAligned Cfg.fixed [.flatten] wFlattenLogged = true := by decide +kernel

end Coba.C10
