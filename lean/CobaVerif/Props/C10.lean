/-
C10 — Changing representation never changes which action earns which reward.
Property theorems only (helper lemmas live in `Lemmas/C10.lean`, the model in `Model/C10.lean`).

Reading of the statement:  for an interaction `I` and its image `J` under a filter (chain),
`alignedB I J` says `[rewards'(a') for a' in actions'] = [rewards(a) for a in actions]` (a list
`rewards` is its own observable), the same for `feedbacks`, `actions'.index(action') =
actions.index(action)` for a logged action that is a member, and `reward`, `probability` unchanged.
`Cfg.fixed` is the code with the proposed repairs `fixes/C10-*.diff`; `Cfg.asIs` the pinned commit.
-/
import CobaVerif.Lemmas.C10

namespace Coba.C10

/-! ### reward look-up -/

/-- `DiscreteReward(as, rs)(as[i]) = rs[i]` on an action *set* -/
theorem discrete_reward_lookup {as : List Val} {rs : List Rat} (d : Rat) (hd : Distinct as)
    {i : Nat} {a : Val} {x : Rat} (h : as[i]? = some a) (hx : rs[i]? = some x) :
    callRew (.discrete as rs d false) a = .ok x := callRew_discrete_of_distinct d hd h hx

/-- `[DiscreteReward(as, rs)(a) for a in as] = rs` -/
theorem discrete_reward_obs {as : List Val} {rs : List Rat} (d : Rat) (hd : Distinct as)
    (hl : as.length = rs.length) : obsOf (.discrete as rs d false) as = rs.map Except.ok := obsOf_discrete d hd hl

example : Distinct [catA, catB] := (distinctB_iff _).mp (by decide +kernel)

/-! ### the re-keying mechanisms -/

/-- Flatten / Sparsify / Densify / Noise / Repr's default branch:
`DiscreteReward(new_actions, [old(a) for a in old_actions])` gives the i-th new action the reward
of the i-th old action whenever the new representation is injective on the action set -/
theorem rekey_generic_aligned {r r' : Rew} {old new : List Val} (h : genericRew r old new = .ok r')
    (hd : Distinct new) : obsEq (obsOf r old) (obsOf r' new) = true := genericRew_aligned h hd

/-- Repr's `BinaryReward` branch: the argmax is moved to the re-represented member -/
theorem repr_binary_aligned {am : Val} {v : Rat} {old new : List Val} {r' : Rew} {fd : Bool}
    (h : rekey (.reprStyle fd) (.binary am v) old new = .ok r')
    (hdo : Distinct old) (hdn : Distinct new) (hl : old.length = new.length) (hm : am ∈ old) :
    obsEq (obsOf (.binary am v) old) (obsOf r' new) = true := binary_remap_aligned h hdo hdn hl hm

/-- Finalize's `DiscreteReward(actions, list_of_rewards)` -/
theorem finalize_wrap_obs {b : Bool} {rs : List Rat} {old new : List Val} {r' : Rew}
    (h : rekey .wrapSeq (.seq b rs) old new = .ok r') (hd : Distinct new) (hl : old.length = new.length) :
    obsEq (obsOf (.seq b rs) old) (obsOf r' new) = true :=
  rekey_aligned (by simpa [targetHypB] using (distinctB_iff _).mpr hd) hl h

/-- every policy a filter can choose keeps the observable, under that policy's hypothesis -/
theorem rekey_policy_aligned {p : Policy} {r r' : Rew} {old new : List Val}
    (hh : targetHypB p (some r) old new = true) (hl : old.length = new.length)
    (h : rekey p r old new = .ok r') : obsEq (obsOf r old) (obsOf r' new) = true := rekey_aligned hh hl h

/-! ### logged interactions -/

/-- the logged action stays the same member of the action set -/
theorem logged_action_index {old new : List Val} {a a' : Val} {k : Nat}
    (hh : loggedHypB old new (some a) (some a') = true) (hk : indexOf old a = some k) :
    indexOf new a' = some k := logged_index_kept hh hk

/-! ### one interaction, one filter, a chain -/

theorem plan_aligned {I J : Inter} {p : Plan} (hh : planHypB I p = true) (h : applyPlan I p = .ok J) :
    alignedB I J = true := applyPlan_aligned hh h

theorem step_aligned (cfg : Cfg) (st : Step) {S S' : State}
    (hh : (match st with
           | .batch _ => true
           | .unbatch => true
           | _ => primsHypB cfg (expandStep st) S.stream) = true)
    (h : runStep cfg st S = .ok S') (hs : alignedStreamB S.stream S.stream = true) :
    alignedStreamB S.stream S'.stream = true := runStep_aligned cfg st hh h hs

/-- Repr, in every pair of modes (as-is or repaired): aligned whenever the encoding is injective on each
action set (`primsHypB` spells this out per interaction: `distinctB` of the new actions, the
BinaryReward argmax a member, the logged action re-represented as its member) -/
theorem repr_aligned (cfg : Cfg) (cc ca : Option Mode) {s s' : List Inter}
    (hh : primsHypB cfg [.repr cc ca] s = true) (h : runPrim cfg (.repr cc ca) s = .ok s')
    (hs : alignedStreamB s s = true) : alignedStreamB s s' = true := runPrim_aligned cfg _ hh h hs

theorem flatten_aligned (cfg : Cfg) {s s' : List Inter}
    (hh : primsHypB cfg [.flatten] s = true) (h : runPrim cfg .flatten s = .ok s')
    (hs : alignedStreamB s s = true) : alignedStreamB s s' = true := runPrim_aligned cfg _ hh h hs

/-- Densify, look-up or hashing (for *every* hash table): aligned unless two actions collide -/
theorem densify_aligned (cfg : Cfg) (n : Nat) (m : DMethod) (c a : Bool) {s s' : List Inter}
    (hh : primsHypB cfg [.densify n m c a] s = true) (h : runPrim cfg (.densify n m c a) s = .ok s')
    (hs : alignedStreamB s s = true) : alignedStreamB s s' = true := runPrim_aligned cfg _ hh h hs

/-- Noise on contexts/actions, for every noise function and every drawn value -/
theorem noise_actions_aligned (cfg : Cfg) (nc na : Option NoiseSpec) (drawn : List Rat) {s s' : List Inter}
    (hh : primsHypB cfg [.noise nc na drawn] s = true) (h : runPrim cfg (.noise nc na drawn) s = .ok s')
    (hs : alignedStreamB s s = true) : alignedStreamB s s' = true := runPrim_aligned cfg _ hh h hs

theorem finalize_aligned (cfg : Cfg) {s s' : List Inter}
    (hh : primsHypB cfg (expandStep .finalize) s = true) (h : runPrims cfg (expandStep .finalize) s = .ok s')
    (hs : alignedStreamB s s = true) : alignedStreamB s s' = true := finalize_aligned' cfg hh h hs

/-- alignment is preserved by every chain of representation filters (induction over the chain),
for the code as it is and for the repaired code alike, as long as each step's encoding stays
injective on each action set (`chainHypB`, evaluated by the driver on every generated case) -/
theorem chain_aligned (cfg : Cfg) (chain : List Step) {S S' : State}
    (hh : chainHypB cfg chain S = true) (h : runChain cfg chain S = .ok S')
    (hs : alignedStreamB S.stream S.stream = true) :
    alignedStreamB S.stream S'.stream = true := runChain_aligned cfg chain hh h hs

/-- non-vacuity: a two-filter chain on a categorical action set meets the hypotheses -/
example : chainHypB Cfg.fixed [.repr none (some .onehot), .sparsify true true] { stream := wRekey ++ wReprDiscrete } = true
    ∧ alignedStreamB (wRekey ++ wReprDiscrete) (wRekey ++ wReprDiscrete) = true := by decide +kernel

/-! ### Sparsify and Finalize end to end (repaired code) -/

theorem sparsify_aligned (c a : Bool) (s s' : List Inter)
    (hself : alignedStreamB s s = true)
    (hhomR : ∀ I ∈ s, ∀ r, I.rewards = some r → r.isCallable = true → firstCallable (·.rewards) s = true)
    (hhomF : ∀ I ∈ s, ∀ r, I.feedbacks = some r → r.isCallable = true → firstCallable (·.feedbacks) s = true)
    (hinj : ∀ I ∈ s, ∀ as, I.actions = some as → Distinct (sparsifyActs a as))
    (hlog : ∀ I ∈ s, ∀ a0 as k, I.action = some a0 → I.actions = some as → indexOf as a0 = some k → as[k]? = some a0)
    (hrun : runPrim Cfg.fixed (.sparsify c a) s = .ok s') : alignedStreamB s s' = true :=
  sparsify_aligned' c a s s' hself hhomR hhomF hinj hlog hrun

theorem finalize_wrap_aligned (s s' : List Inter)
    (hself : alignedStreamB s s = true)
    (hacts : ∀ I ∈ s, ∃ as, I.actions = some as)
    (hinj : ∀ I ∈ s, ∀ as, I.actions = some as → Distinct as)
    (hlog : ∀ I ∈ s, ∀ a0 as k, I.action = some a0 → I.actions = some as → indexOf as a0 = some k → as[k]? = some a0)
    (hrun : runPrim Cfg.fixed .wrapSeqs s = .ok s') : alignedStreamB s s' = true :=
  finalize_wrap_aligned' s s' hself hacts hinj hlog hrun

/-! ### injectivity of the categorical encodings -/

/-- one-hot tuples and strings compare exactly like the categoricals they encode -/
theorem categorical_encoding_injective {m : Mode} {s t : String} {ls : List String} {a b : Val}
    (ha : encodeValue m (.cat s ls) = .ok a) (hb : encodeValue m (.cat t ls) = .ok b) :
    pyEq a b = pyEq (.cat s ls) (.cat t ls) := encodeValue_pyEq ha hb

/-- a set of categorical actions over one level list stays a set under every mode of Repr -/
theorem repr_scalar_actions_distinct {m : Mode} {ls : List String} {rows enc : List Val}
    (hcat : ∀ r ∈ rows, ∃ s, r = Val.cat s ls) (h : mapM' (encodeValue m) rows = .ok enc)
    (hd : Distinct rows) : Distinct enc := encodeValues_distinct hcat h hd

/-! ### Batch / Unbatch -/

/-- the batches partition the stream: their sizes add up to its length … -/
theorem batch_sizes_sum (k : Nat) (hk : 0 < k) (len : Nat) : (chunkSizes k len len).sum = len :=
  chunkSizes_sum k hk len len (Nat.le_refl _)

/-- … and every batch is non-empty and at most `k` long -/
theorem batch_sizes_bound (k : Nat) (hk : 0 < k) (len : Nat) : ∀ x ∈ chunkSizes k len len, 0 < x ∧ x ≤ k :=
  chunkSizes_bound k hk len len

/-- Batch and Unbatch never touch the interactions themselves -/
theorem batch_unbatch_stream (cfg : Cfg) (n : Option Nat) (S S1 S2 : State)
    (h1 : runStep cfg (.batch n) S = .ok S1) (h2 : runStep cfg .unbatch S1 = .ok S2) :
    S2.stream = S.stream ∧ S2.sizes = none := batch_unbatch_stream' cfg n S S1 S2 h1 h2

/-! ### the pinned commit violates the property: witnesses (replayed on the real code) -/

/-- P18: Sparsify(action=True) keeps `BinaryReward(2)` keyed on the old actions -/
theorem sparsify_counterexample : keepsAligned Cfg.asIs [.sparsify false true] wRekey = false := by decide +kernel
example : keepsAligned Cfg.fixed [.sparsify false true] wRekey = true := by decide +kernel

/-- P19: Repr('string','onehot') encodes the logged action with the context mode -/
theorem repr_logged_counterexample :
    keepsAligned Cfg.asIs [.repr (some .string) (some .onehot)] wReprLogged = false := by decide +kernel
example : keepsAligned Cfg.fixed [.repr (some .string) (some .onehot)] wReprLogged = true := by decide +kernel

/-- Repr re-keys a DiscreteReward positionally -/
theorem repr_discrete_counterexample :
    keepsAligned Cfg.asIs [.repr none (some .onehot)] wReprDiscrete = false := by decide +kernel
example : keepsAligned Cfg.fixed [.repr none (some .onehot)] wReprDiscrete = true := by decide +kernel

/-- Noise(action) leaves the logged action un-noised … -/
theorem noise_logged_counterexample :
    keepsAligned Cfg.asIs [.noise none (some (.affine 1 10)) []] wNoiseLogged = false := by decide +kernel
example : keepsAligned Cfg.fixed [.noise none (some (.affine 1 10)) []] wNoiseLogged = true := by decide +kernel

/-- … and functional feedbacks keyed on the un-noised actions -/
theorem noise_feedbacks_counterexample :
    keepsAligned Cfg.asIs [.noise none (some (.affine 1 10)) []] wNoiseFeedbacks = false := by decide +kernel
example : keepsAligned Cfg.fixed [.noise none (some (.affine 1 10)) []] wNoiseFeedbacks = true := by decide +kernel

/-- Flatten does not flatten the logged action -/
theorem flatten_logged_counterexample : keepsAligned Cfg.asIs [.flatten] wFlattenLogged = false := by decide +kernel
example : keepsAligned Cfg.fixed [.flatten] wFlattenLogged = true := by decide +kernel


/-! ## Phase 2 -/

/-! ### injectivity of the encodings on row-valued actions (the hypotheses `distinctB new` of `chain_aligned`, discharged) -/

/-- Repr, any mode, on two dense rows (tuples or lists) of one shape whose categorical cells are at the
top level: the encoded rows compare exactly as the rows did -/
theorem repr_row_pyEq (m : Mode) (ns : List Nat) (first r1 r2 e1 e2 : Val) (hd : descending ns = true)
    (s1 : sameDenseCatShape ns first r1 = true) (s2 : sameDenseCatShape ns first r2 = true)
    (h1 : catset m (prepRow r1) (.l (ns.map CK.i)) = .ok e1) (h2 : catset m (prepRow r2) (.l (ns.map CK.i)) = .ok e2) :
    pyEq e1 e2 = pyEq r1 r2 := reprRow_pyEq m ns first r1 r2 e1 e2 hd s1 s2 h1 h2

/-- … hence `EncodeCatRows` keeps an action set of dense rows a set (explicit shape hypothesis `denseCatShapeB`) -/
theorem repr_dense_rows_distinct (m : Mode) (rows enc : List Val) (hs : denseCatShapeB rows = true)
    (h : encodeRows (some m) rows = .ok enc) (hd : Distinct rows) : Distinct enc := encodeRows_dense_distinct m rows enc hs h hd

/-- Flatten on two rows of one nesting shape: the flat rows compare exactly as the nested ones -/
theorem flatten_row_pyEq (flags : List Bool) (xs ys o1 o2 : List Val) (hf : flags.length = xs.length)
    (hl : xs.length = ys.length) (hs : sameNestShape flags xs ys = true)
    (h1 : flatterList flags xs = .ok o1) (h2 : flatterList flags ys = .ok o2) :
    pyEqL o1 o2 = pyEqL xs ys ∧ o1.length = o2.length := flatterList_pyEq flags xs ys o1 o2 hf hl hs h1 h2

/-- … hence `pipes.Flatten` keeps an action set of equally shaped dense rows a set -/
theorem flatten_dense_rows_distinct (rows enc : List Val) (hs : flattenShapeB rows = true)
    (h : flattenRows rows = .ok enc) (hd : Distinct rows) : Distinct enc := flattenRows_dense_distinct rows enc hs h hd

/-- the shape hypothesis is needed: `((1,),(2,3))` and `((1,2),(3,))` are two actions with one flattening -/
theorem flatten_shape_counterexample :
    distinctB wFlattenShape = true ∧ flattenShapeB wFlattenShape = false ∧
    (match flattenRows wFlattenShape with | .ok enc => distinctB enc | .error _ => true) = false := by decide +kernel

/-- an affine noiser with non-zero slope is injective on numeric actions -/
theorem noise_affine_injective (m b : Rat) (hm : m ≠ 0) (orc : List Rat) (x y : Rat) (a' b' : Val) (o1 o2 : List Rat)
    (h1 : noises (some (.affine m b)) orc (.num x) = .ok (o1, a')) (h2 : noises (some (.affine m b)) orc (.num y) = .ok (o2, b')) :
    pyEq a' b' = pyEq (.num x) (.num y) := noise_affine_scalar_pyEq m b hm orc x y a' b' o1 o2 h1 h2

/-- Noise re-keys by position, but the positions are looked up through the noisy actions: a noiser that
merges two actions (slope 0) breaks the alignment — the distinctness hypothesis is necessary -/
theorem noise_collision_counterexample :
    keepsAligned Cfg.fixed [.noise none (some (.affine 0 5)) []] wRekey = false := by decide +kernel

/-- **Noise end to end (repaired code)**: every plan Noise decides meets the plan hypotheses as soon as the noisy
action lists are sets — no semantic (`keep`) hypothesis is left -/
theorem noise_plans_explicit (nc na : Option NoiseSpec) (rC fC : Bool) (s : List Inter) (orc : List Rat) (ps : List Plan)
    (h : noisePlans.go Cfg.fixed nc na rC fC orc s = .ok ps)
    (hself : ∀ I ∈ s, alignedB I I = true)
    (hhom : ∀ I ∈ s, ∀ r, I.feedbacks = some r → r.isCallable = true → fC = true)
    (hact : ∀ I ∈ s, I.actions = none → I.rewards = none)
    (hdist : ∀ p ∈ ps, ∀ as, p.actions = some as → Distinct as) : plansHypB s ps = true :=
  noise_go_hyp nc na rC fC s orc ps h hself hhom hact hdist

/-! ### Python `==` -/

/-- `==` is reflexive on every value Python can build from numbers, strings, categoricals, lists, tuples and dicts -/
theorem pyEq_refl (a : Val) (h : wfNoLazy a = true) : pyEq a a = true := pyEq_refl_wf a h

/-- … and symmetric on the dense fragment (no dict, no SparseDense inside) -/
theorem pyEq_symm (a b : Val) (ha : denseOnly a = true) (hb : denseOnly b = true) : pyEq a b = pyEq b a :=
  pyEq_symm_dense a b ha hb

/-! ### filter objects: lazy delivery and reuse -/

/-- the model's filter applied to sequence `B` after sequence `A` equals the filter applied to `B` alone — for every
filter except Densify(lookup) -/
theorem filter_stateless_except_lookup (cfg : Cfg) (st : Step) (T : DState) (A B : List Inter)
    (hst : ∀ n p c a, st ≠ .densify n (.lookup p) c a) (hA : ∃ r, runPrimObj cfg st T A = .ok r) :
    runObjTwice cfg st T A B = runPrim cfg st B := filter_stateless_except_lookup' cfg st T A B hst hA

/-- Densify(lookup) carries exactly its key table: `B` after `A` = `B` with a table first asked for the keys of `A` -/
theorem densify_reuse_eq_prior (cfg : Cfg) (n : Nat) (p : List String) (c a : Bool) (T : DState) (A B : List Inter)
    (hT : primeKeys (.lookup []) (initDState n) p = .ok T)
    (hA : ∃ r, runPrimObj cfg (.densify n (.lookup p) c a) T A = .ok r) :
    runObjTwice cfg (.densify n (.lookup p) c a) T A B = runPrim cfg (.densify n (.lookup (p ++ keysAsked c a A)) c a) B :=
  densify_reuse_eq_prior' cfg n p c a T A B hT hA

/-- the table only grows at its end: a key keeps its slot for the life of the object -/
theorem densify_prior_monotone (cfg : Cfg) (m : DMethod) (n : Nat) (c a rC fC : Bool) (s : List Inter) (st st' : DState) (ps : List Plan)
    (h : densifyRun cfg m n c a rC fC st s = .ok (ps, st')) :
    (∃ ext, st'.table = st.table ++ ext) ∧ (∀ k i, assocGet k st.table = some i → assocGet k st'.table = some i) :=
  densify_prior_monotone' cfg m n c a rC fC s st st' ps h

/-- the state a Densify object is left in is its table asked for `keysAsked` (what the harness feeds back as `prior`) -/
theorem densify_state_is_keys (cfg : Cfg) (m : DMethod) (n : Nat) (c a rC fC : Bool) (s : List Inter) (st : DState) (ps : List Plan) (st' : DState)
    (h : densifyRun cfg m n c a rC fC st s = .ok (ps, st')) : primeKeys m st (keysAsked c a s) = .ok st' :=
  densifyRun_state cfg m n c a rC fC s st ps st' h

/-! ### Cycle: the one filter that moves rewards on purpose -/

/-- what "alignment" means for Cycle: the observable after the filter is the observable before, rotated by one
place (`l[-1%n:] + l[:-1%n]`), and it is still given by the action (a reward function answers for every action of the set) -/
theorem cycle_spec {n : Nat} {r r' : Rew} {acts : List Val}
    (h : rekey (.rotate n) r acts acts = .ok r') (hd : Distinct acts) :
    ∃ vals : List Rat, obsOf r acts = vals.map Except.ok ∧ obsOf r' acts = (rotList n vals).map Except.ok :=
  cycle_rekey_spec' h hd

/-- position by position: the j-th action earns what the (j-1)-th (cyclically) earned -/
theorem cycle_shift {α} (l : List α) (hl : 0 < l.length) (j : Nat) (hj : j < l.length) :
    (rotList l.length l)[j]? = l[(j + l.length - 1) % l.length]? := rotList_getElem? l hl j hj

example : keepsAligned Cfg.fixed [.cycle 0] wReprDiscrete = false := by decide +kernel
example : keepsAligned Cfg.fixed [.cycle 1] wReprDiscrete = true := by decide +kernel

/-! ### Batch → BatchSafe(Finalize) → Unbatch end to end (rewards, IGL feedbacks, logged interactions) -/

theorem batch_finalize_unbatch (cfg : Cfg) (k : Nat) (s : List Inter) (S' : State)
    (h : runChain cfg [.batch (some k), .finalize, .unbatch] { stream := s } = .ok S') :
    S'.sizes = none ∧ runPrims cfg (expandStep .finalize) s = .ok S'.stream ∧
    (primsHypB cfg (expandStep .finalize) s = true → alignedStreamB s s = true → alignedStreamB s S'.stream = true) :=
  batch_finalize_unbatch' cfg k s S' h

/-- Harden (inside Finalize) turns *every* action of a not materialised dense action list into a list: a plain
tuple next to SparseDense rows stops being the value its reward function is keyed on -/
theorem harden_mixed_counterexample : keepsAligned Cfg.asIs [.finalize] wHardenMixed = false := by decide +kernel
example : keepsAligned Cfg.fixed [.finalize] wHardenMixed = true := by decide +kernel

/-! ### collections of environments -/

/-- what every member of an `Environments` collection has to get from `.dense(…)`: the output of a *freshly constructed*
Densify object, which is `runPrim` on that member alone (the harness demands exactly this per member, in every reading order) -/
theorem fresh_densify_object (cfg : Cfg) (n : Nat) (c a : Bool) (s : List Inter) :
    (match runPrimObj cfg (.densify n (.lookup []) c a) (initDState n) s with
      | .ok (s', _) => Except.ok s'
      | .error e => .error e) = runPrim cfg (.densify n (.lookup []) c a) s := fresh_densify_object' cfg n c a s

/-! ## Phase 3 -/

/-! ### sets of actions without the built-in reflexivity -/

/-- `pyEq_refl` taken out of `distinctB`: for well-formed values (unique dict keys, no SparseDense) an action list is a set
as soon as its members are pairwise different -/
theorem distinct_of_pairwise_ne (as : List Val) (hwf : ∀ a ∈ as, wfNoLazy a = true) (h : pairwiseNeB as = true) :
    Distinct as := distinct_of_pairwiseNe as hwf h

example : Distinct [catA, catB] :=
  distinct_of_pairwise_ne _ (fun a ha => List.all_eq_true.mp (by decide +kernel : [catA, catB].all wfNoLazy = true) a ha) (by decide +kernel)

/-! ### more stages of `chainHypB` discharged / shown necessary -/

/-- Noise with an injective noiser (affine, slope ≠ 0) keeps a set of numeric actions a set, whatever the generator state -/
theorem noise_affine_nums_distinct (m b : Rat) (hm : m ≠ 0) (orc o' : List Rat) (xs : List Rat) (out : List Val)
    (h : noisesList (some (.affine m b)) orc (xs.map Val.num) = .ok (o', out)) (hd : Distinct (xs.map Val.num)) :
    Distinct out := noise_affine_nums_distinct' m b hm orc o' xs out h hd

example : (match noisesList (some (.affine 2 1)) [] ([1, 2, 3].map Val.num) with
            | .ok (_, out) => Val.sameL out [.num 3, .num 5, .num 7]
            | .error _ => false) = true
    ∧ distinctB ([1, 2, 3].map Val.num) = true := by decide +kernel

/-- Densify(hashing) genuinely fails when crc32 sends two keys to one slot: the two sparse actions become the same dense
row and the second earns the first one's reward — the injectivity hypothesis cannot be dropped for hashing -/
theorem densify_hashing_counterexample :
    keepsAligned Cfg.fixed [.densify 4 (.hashing [("a", 1), ("b", 1)]) false true] wHashCollision = false := by decide +kernel
example : keepsAligned Cfg.fixed [.densify 4 (.hashing [("a", 1), ("b", 2)]) false true] wHashCollision = true := by decide +kernel

/- `densify_lookup_injective` (distinct slots ⇒ distinct SparseDense rows), listed here as OPEN until phase 4, is proved in the Phase 5 section below
   together with the list-level `densify_actions_distinct` and the end-to-end `densify_sparse_aligned`. -/

/-! ### batched rewards: `Batch.Callable` -/

/-- member `k` of a batched call is member `k`'s function applied to member `k`'s action -/
theorem batch_call_member (fs : List Rew) (as : List Val) (k : Nat) (f : Rew) (a : Val)
    (hf : fs[k]? = some f) (ha : as[k]? = some a) : (batchCall fs as)[k]? = some (callRew f a) :=
  batchCall_getElem? fs as k f a hf ha

example : obsEq (batchCall [.binary (.num 1) 1, .l1 2] [.num 1, .num 5]) [.ok 1, .ok (-3)] = true := by decide +kernel

/-- the batched reward (or feedback) function of a batch, asked for the i-th action of every member, answers member by member
with what each member's own function says about its own i-th action -/
theorem batch_obs_member (get : Inter → Option Rew) (batch : List Inter) (i : Nat) (col : List (Except Err Rat))
    (h : batchObs get batch i = some col) (k : Nat) (I : Inter) (hk : batch[k]? = some I) :
    ∃ r as a, get I = some r ∧ I.actions = some as ∧ as[i]? = some a ∧ col[k]? = some (callRew r a) :=
  batchObs_member' get batch i col h k I hk

example : optObsEq (batchObs (·.rewards) (wRekey ++ wRekey) 1) (some [.ok 1, .ok 1]) = true := by decide +kernel

/-- BatchSafe: a representation filter on a batched stream is the filter on the un-batched stream, batched again — batching and
un-batching commute with every representation change (so, with `batch_obs_member` and `chain_aligned`, member k's function is
still applied to member k's action after any chain) -/
theorem batchsafe_commutes (cfg : Cfg) (st : Step) (s : List Inter) (k : Nat) (ks : List Nat)
    (hb : ∀ n, st ≠ .batch n) (hu : st ≠ .unbatch) :
    runStep cfg st { stream := s, sizes := some (k :: ks) } =
      (match runPrims cfg (expandStep st) s with
       | .error e => .error e
       | .ok s' => .ok { stream := s', sizes := some (chunkSizes k s'.length s'.length) }) :=
  batchsafe_commutes' cfg st s k ks hb hu

/-! ## Phase 4 -/

/-! ### Noise end to end for scalar actions: no run-time-evaluated hypothesis left -/

/-- **Noise on numeric actions (repaired code), end to end.**  For every context noiser, every action noiser that cannot merge
two numbers (`injNoiser`: none, or `x ↦ mul·x + add` with `mul ≠ 0`), every generator state and every stream meeting the
explicit decidable preconditions `noiseScalarHypB` (all about the *input*): after `Noise` the i-th action earns what the i-th
action earned before (rewards and IGL feedbacks, list or function) and the logged action is the same member.  This is
`noise_plans_explicit` ∘ `noise_affine_nums_distinct` ∘ `plan_aligned`, with `chainHypB` discharged. -/
theorem noise_scalar_aligned (nc na : Option NoiseSpec) (orc : List Rat) (s s' : List Inter)
    (hinj : injNoiser na = true) (hh : noiseScalarHypB s = true)
    (hrun : runPrim Cfg.fixed (.noise nc na orc) s = .ok s') : alignedStreamB s s' = true :=
  noise_scalar_aligned' nc na orc s s' hinj hh hrun

example : injNoiser (some (.affine 2 1)) = true ∧ noiseScalarHypB (wRekey ++ wNoiseLogged ++ wNoiseFeedbacks) = false
    ∧ noiseScalarHypB wNoiseLogged = true ∧ noiseScalarHypB (wRekey ++ wRekey) = true
    ∧ keepsAligned Cfg.fixed [.noise none (some (.affine 2 1)) []] (wRekey ++ wRekey) = true := by decide +kernel

/-- the noiser's injectivity cannot be dropped: slope 0 meets every other precondition and misaligns (`noise_collision_counterexample`) -/
theorem noise_scalar_counterexample :
    injNoiser (some (.affine 0 5)) = false ∧ noiseScalarHypB wRekey = true
    ∧ keepsAligned Cfg.fixed [.noise none (some (.affine 0 5)) []] wRekey = false := by decide +kernel

/-- an injective noiser keeps every set of numbers a set (no noise, or affine with non-zero slope), for every generator state -/
theorem noise_injective_nums_distinct (na : Option NoiseSpec) (hinj : injNoiser na = true) (orc o' : List Rat) (as out : List Val)
    (hnum : as.all isNum = true) (hd : Distinct as) (h : noisesList na orc as = .ok (o', out)) : Distinct out :=
  injNoiser_nums_distinct na hinj orc o' as out hnum hd h

/-! ### Cycle, negatively -/

/-- **Cycle changes which action earns which reward, by design**: whenever the rotation `l[-1%n:] + l[:-1%n]` (`cycle_shift`:
the j-th action gets what action `cycleSource n j = (j-1) mod n` earned) moves anything, the observable after Cycle differs from
the one before.  The property's statement lists the representation filters and leaves Cycle out; in the model a rotating Cycle
step is outside `chainHypB` (`cycle_outside_hyp`). -/
theorem cycle_misaligns {n : Nat} {r r' : Rew} {acts : List Val} (vals : List Rat)
    (h : rekey (.rotate n) r acts acts = .ok r') (hd : Distinct acts)
    (hv : obsOf r acts = vals.map Except.ok) (hne : rotList n vals ≠ vals) :
    obsEq (obsOf r acts) (obsOf r' acts) = false := cycle_misaligns' vals h hd hv hne

theorem cycle_outside_hyp (n : Nat) (r : Rew) (o nw : List Val) : targetHypB (.rotate n) (some r) o nw = false :=
  cycle_outside_hyp' n r o nw

theorem cycle_source {α} (l : List α) (hl : 0 < l.length) (j : Nat) (hj : j < l.length) :
    (rotList l.length l)[j]? = l[cycleSource l.length j]? := cycle_source_getElem? l hl j hj

/-- witness: three string actions with rewards `[1,2,3]` come out as `[3,1,2]` -/
theorem cycle_counterexample : keepsAligned Cfg.fixed [.cycle 0] wCycle = false
    ∧ (match runChain Cfg.fixed [.cycle 0] { stream := wCycle } with
       | .ok S => (match S.stream with
                   | [J] => optObsEq (obsRewards J) (some [.ok 3, .ok 1, .ok 2])
                   | _ => false)
       | .error _ => false) = true := by decide +kernel

/-! ### Python `==` as an equivalence -/

/-- `==` is transitive on every value built from numbers, strings, categoricals, lists, tuples and dicts with unique keys
(with `pyEq_refl`: a pre-order; with `pyEq_symm` an equivalence on the dense fragment) -/
theorem pyEq_trans (a b c : Val) (ha : wfNoLazy a = true) (hb : wfNoLazy b = true) (hc : wfNoLazy c = true)
    (h1 : pyEq a b = true) (h2 : pyEq b c = true) : pyEq a c = true := pyEq_trans_wf a b c ha hb hc h1 h2

example : wfNoLazy (.dict [("a", catA), ("b", .list [.num 1])]) = true
    ∧ pyEq (.dict [("a", catA), ("b", .list [.num 1])]) (.dict [("b", .list [.num 1]), ("a", .str "a")]) = true := by decide +kernel

/-- where Python's `==` stops being an equivalence inside coba's value domain: a SparseDense row equals both the list and the
tuple with its elements, which are different from each other (the other place is `nan != nan`, which the rational-valued model
and the generator exclude) -/
theorem pyEq_not_transitive_counterexample :
    pyEq wEqNotTrans.1 wEqNotTrans.2.1 = true ∧ pyEq wEqNotTrans.2.1 wEqNotTrans.2.2 = true ∧ pyEq wEqNotTrans.1 wEqNotTrans.2.2 = false :=
  pyEq_not_transitive_lazy'

/-! ### translator tie: constants extracted from the source under test equal the ones the model uses -/

/-- `Generated/C10Consts.lean` is rewritten from `coba/environments/filters.py` on every run (Finalize's `Repr("onehot","onehot")`,
Sparsify's default headers, the seed of Densify's slot generator, Cycle's `l[-1%n:] + l[:-1%n]` and `i >= after`) -/
theorem source_constants_match :
    Coba.Generated.C10.finalizeReprModes = finalizeReprModes ∧ Coba.Generated.C10.sparsifyHeaders = sparsifyHeaders ∧
    Coba.Generated.C10.densifySeed = densifySeed ∧ Coba.Generated.C10.cycleShifts = [cycleShift, cycleShift] ∧
    Coba.Generated.C10.cycleAfterInclusive = cycleRotatesAt 0 0 := source_constants_match'

/-- … and those named constants are the ones the model's filters really use -/
theorem model_uses_constants (n : Nat) :
    initDState n = { table := [], fresh := lookupStream n (if n == 0 then 0 else 192 / n + 2) (Coba.C05.normInt densifySeed) }
    ∧ (∀ (l : List Nat), rotList n l = if n == 0 then l else l.drop (n - cycleShift) ++ l.take (n - cycleShift))
    ∧ (match cyclePlans 1 (wCycle ++ wCycle ++ wCycle) with
       | .ok ps => ps.map (fun p => p.polR == .rotate 3)
       | .error _ => []) = [cycleRotatesAt 1 0, cycleRotatesAt 1 1, cycleRotatesAt 1 2] :=
  ⟨initDState_seed n, fun l => rotList_shift n l, cycle_after_used⟩

/-! ## Phase 5 -/

/-! ### Python `==` symmetric on dicts (pigeonhole on unique keys) -/

/-- pigeonhole: a list of unique keys contained in another list of the same length contains every key of that list
(`keys(d1) ⊆ keys(d2)` + `len(d1) == len(d2)` ⇒ equal key sets — what makes `dict.__eq__`, which only walks the left operand, symmetric) -/
theorem dict_keys_pigeonhole (l1 l2 : List String) (hu : uniqKeys l1 = true) (hs : ∀ k ∈ l1, k ∈ l2)
    (hl : l1.length = l2.length) : ∀ k ∈ l2, k ∈ l1 := uniq_subset_eq_length_superset l1 l2 hu hs hl

/-- **goal 2**: `==` is symmetric on every value built from numbers, strings, categoricals, lists, tuples and dicts with unique keys
(nested to any depth) — with `pyEq_refl` and `pyEq_trans` Python's `==` is an equivalence relation on the lazy-free value domain -/
theorem pyEq_symm_wf (a b : Val) (ha : wfNoLazy a = true) (hb : wfNoLazy b = true) : pyEq a b = pyEq b a :=
  pyEq_symm_wf' a b ha hb

example : wfNoLazy (.dict [("a", catA), ("b", .dict [("x", .num 1), ("y", .num 2)])]) = true
    ∧ pyEq (.dict [("b", .dict [("y", .num 2), ("x", .num 1)]), ("a", .str "a")]) (.dict [("a", catA), ("b", .dict [("x", .num 1), ("y", .num 2)])]) = true := by decide +kernel

/-- unique keys are needed: with a repeated key the left-walking comparison is one-sided (`[("a",1),("a",1)]` finds all its entries in
`[("a",1),("b",2)]`, not the other way round); Python cannot build such a dict, `wfNoLazy` excludes it -/
theorem pyEq_symm_counterexample :
    pyEq (.dict [("a", .num 1), ("a", .num 1)]) (.dict [("a", .num 1), ("b", .num 2)]) = true
    ∧ pyEq (.dict [("a", .num 1), ("b", .num 2)]) (.dict [("a", .num 1), ("a", .num 1)]) = false := by decide +kernel

/-! ### `==` on SparseDense rows -/

/-- **goal 2, SparseDense part**: on well-formed rows (`wfRow`: lazy-free values, or a SparseDense with one entry per slot, slots below its
length, lazy-free stored values — what `Densify` builds) `==` gives the same answer in both operand orders: SparseDense against list, tuple,
SparseDense, and the freak comparisons against str / dict -/
theorem pyEq_symm_rows (a b : Val) (ha : wfRow a = true) (hb : wfRow b = true) : pyEq a b = pyEq b a := pyEq_symm_rows' a b ha hb

example : wfRow (.lazy [(2, .num 5), (0, catA)] 3) = true
    ∧ pyEq (.lazy [(2, .num 5), (0, catA)] 3) (.tuple [.str "a", .num 0, .num 5]) = true
    ∧ pyEq (.tuple [.str "a", .num 0, .num 5]) (.lazy [(2, .num 5), (0, catA)] 3) = true := by decide +kernel

/-- two SparseDense rows are equal iff they have one length and are element-wise equal (stored value or implicit zero) -/
theorem sparsedense_eq_elementwise (k1 k2 : List (Nat × Val)) (n1 n2 : Nat) (h1 : lazyWf k1 n1 = true) :
    pyEq (.lazy k1 n1) (.lazy k2 n2) = true ↔ n2 = n1 ∧ ∀ i, i < n1 → pyEq (lazyAt k1 i) (lazyAt k2 i) = true :=
  pyEq_lazy_lazy_iff k1 k2 n1 n2 h1

/-! ### goal 1, Densify: distinct slots ⇒ distinct SparseDense rows ⇒ aligned, with no hypothesis on the output -/

/-- `_make_dense` is, for every method and every state of the filter object, "put value v at slot(k)" for the slot function of the
table the object ends up with (keys keep their slots while the table grows) -/
theorem densify_rows_are_slot_rows (m : DMethod) (n : Nat) (st st' : DState) (as as' : List Val)
    (h : makeDenseList m n st as = .ok (st', as')) : as' = as.map (denseOf (tableOf m st') n) :=
  makeDenseList_eq_map m n (tableOf m st') st as st' as' h (fun _ _ hk => hk)

/-- **densify_lookup_injective** (open since phase 2): a slot function that is injective on the keys of two sparse rows (unique keys,
no stored zero), all slots below `n_feats`, gives dense rows that compare exactly as the sparse rows did -/
theorem densify_lookup_injective (slot : String → Nat) (n : Nat) (d1 d2 : List (String × Val))
    (w1 : sparseRowWf d1 = true) (w2 : sparseRowWf d2 = true)
    (hlt : ∀ k ∈ d1.map (·.1) ++ d2.map (·.1), slot k < n)
    (hinj : ∀ k ∈ d1.map (·.1) ++ d2.map (·.1), ∀ k' ∈ d1.map (·.1) ++ d2.map (·.1), slot k = slot k' → k = k') :
    pyEq (.lazy (entsAcc slot d1 []) n) (.lazy (entsAcc slot d2 []) n) = pyEq (.dict d1) (.dict d2) :=
  densify_rows_pyEq slot n d1 d2 w1 w2 hlt hinj

/-- … hence Densify (look-up or hashing, any state of the object) keeps an action set of sparse rows a set as soon as the table gives
the keys of that set pairwise different slots below `n_feats` -/
theorem densify_actions_distinct (m : DMethod) (n : Nat) (st st' : DState) (as as' : List Val)
    (hrun : makeDenseList m n st as = .ok (st', as')) (hrows : sparseRowsB as = true)
    (hslots : slotsInjB (tableOf m st') (keysOfVals as) n = true) (hd : Distinct as) : Distinct as' :=
  densify_actions_distinct' m n st st' as as' hrun hrows hslots hd

/-- **Densify(action=True) on sparse actions (repaired code), end to end.**  For look-up (any history `prior` of the object) and hashing (any
crc32 table), with or without the context: if the *input* stream meets the explicit decidable preconditions `densifySparseHypB` — reward /
feedback functions answer for their own actions and are functional from the first interaction on, every action set is a set of sparse rows
(unique keys, no stored zero), the logged action is literally its member, and the slot table `densifyTable` (a function of the keys of the
input alone) gives the keys of each action set different slots below `n_feats` — then after Densify the i-th action earns what the i-th
action earned before and the logged action is the same member.  `chainHypB` is discharged: nothing is assumed about the output. -/
theorem densify_sparse_aligned (m : DMethod) (n : Nat) (c : Bool) (s s' : List Inter)
    (hh : densifySparseHypB (densifyTable m n c true s) n s = true)
    (hrun : runPrim Cfg.fixed (.densify n m c true) s = .ok s') : alignedStreamB s s' = true :=
  densify_sparse_aligned' m n c s s' hh hrun

example : densifySparseHypB (densifyTable (.hashing [("a", 1), ("b", 2)]) 4 false true wHashCollision) 4 wHashCollision = true
    ∧ densifySparseHypB (densifyTable (.lookup []) 4 true true wHashCollision) 4 wHashCollision = true
    ∧ densifySparseHypB (densifyTable (.lookup ["z", "y"]) 4 true true wHashCollision) 4 wHashCollision = true := by decide +kernel

/-- both excluded shapes are necessary: colliding slots (`densify_hashing_counterexample`: the precondition is false there) and a stored zero -/
theorem densify_sparse_counterexample :
    densifySparseHypB (densifyTable (.hashing [("a", 1), ("b", 1)]) 4 false true wHashCollision) 4 wHashCollision = false
    ∧ distinctB [.dict [("a", .num 0)], .dict []] = true
    ∧ densifySparseHypB (densifyTable (.lookup []) 4 false true wStoredZero) 4 wStoredZero = false
    ∧ keepsAligned Cfg.fixed [.densify 4 (.lookup []) false true] wStoredZero = false := by decide +kernel

/-! ### translator tie (goal 3): Repr's mode names and EncodeCatRows' dispatch, extracted from the source under test -/

/-- `Generated/C10ReprModes.lean` is rewritten on every run from `Repr.__init__`'s `Literal[...]` annotations (filters.py) and from
`EncodeCatRows.__init__` / `_encode_values` / `_encode_collection.catset` (pipes/rows.py): the accepted mode names and, as Lean functions,
the two `if / elif / else` chains on `self._tipe`.  They agree with the model's `modeName`, `valuesBranch`, `collBranch` on every mode. -/
theorem repr_modes_match_source :
    Coba.Generated.C10.reprContextModes = allModes.map modeName ∧ Coba.Generated.C10.reprActionModes = allModes.map modeName ∧
    Coba.Generated.C10.encodeModes = allModes.map modeName ∧
    (∀ m : Mode, Coba.Generated.C10.valuesBranch (modeName m) = valuesBranch m) ∧
    (∀ m : Mode, Coba.Generated.C10.collBranch (modeName m) = collBranch m) := repr_modes_match_source'

/-- … and those named tables are the ones the model (and the driver's parser) really use: the parser is the inverse of `modeName` and accepts
nothing else; a scalar categorical is converted by the branch `valuesBranch` names; the row encoder's three branches are told apart by `collBranch` -/
theorem model_uses_mode_dispatch :
    (∀ m, modeOfName (modeName m) = some m) ∧ (∀ s m, modeOfName s = some m → s = modeName m) ∧
    (∀ m v, encodeValue m v = if valuesBranch m = "str" then strOf v
                              else (match onehotOf v with | .ok h => .ok (.tuple h) | .error e => .error e)) ∧
    (∀ m m', collBranch m = collBranch m' → m = m') ∧ (∀ m, collBranch m = "str" ↔ m = .string) ∧ (∀ m, collBranch m = "flat" ↔ m = .onehot) :=
  ⟨modeOfName_modeName, modeOfName_sound, encodeValue_branch, collBranch_injective, encodeAt_string_iff, encodeAt_flat_iff⟩

/-! ## Phase 6: option handling — constructor calls with arguments left out -/

/-- `Generated/C10Options.lean` is rewritten from `coba/environments/filters.py` and `coba/environments/core.py` on every run: the default values of
`Sparsify.__init__`, `Densify.__init__`, `Repr.__init__`, `Cycle.__init__`, of the shortcuts `Environments.sparse / dense / repr`, the documented
method names of Densify and which of its own parameters each shortcut hands to the filter it builds — equal to the model's named defaults -/
theorem option_defaults_match_source :
    Coba.Generated.C10.sparsifyInitDefaults = [(sparsifyDefaults .filter).1, (sparsifyDefaults .filter).2] ∧
    Coba.Generated.C10.envSparseDefaults = [(sparsifyDefaults .env).1, (sparsifyDefaults .env).2] ∧
    Coba.Generated.C10.densifyInitFlagDefaults = [(densifyFlagDefaults .filter).1, (densifyFlagDefaults .filter).2] ∧
    Coba.Generated.C10.envDenseFlagDefaults = [(densifyFlagDefaults .env).1, (densifyFlagDefaults .env).2] ∧
    Coba.Generated.C10.densifyInitN = densifyDefaultN ∧ Coba.Generated.C10.densifyInitMethod = densifyDefaultMethod ∧
    Coba.Generated.C10.densifyMethodNames = densifyMethodNames ∧
    Coba.Generated.C10.reprInitDefaults = [optModeName (reprDefaults .filter).1, optModeName (reprDefaults .filter).2] ∧
    Coba.Generated.C10.envReprDefaults = [optModeName (reprDefaults .env).1, optModeName (reprDefaults .env).2] ∧
    Coba.Generated.C10.cycleInitAfter = cycleDefaultAfter ∧
    Coba.Generated.C10.envSparsePasses = ["context", "action"] ∧
    Coba.Generated.C10.envDensePasses = ["n_feats=n_feats", "method=method", "context=context", "action=action"] ∧
    Coba.Generated.C10.envReprPasses = ["cat_context", "cat_actions"] := option_defaults_match_source'

/-- `Densify._make_dense`'s dispatch on the method name, extracted from the source as a Lean function, is the model's for EVERY string -/
theorem method_dispatch_matches_source (m : String) : Coba.Generated.C10.densifyBranch m = methodBranch m :=
  method_dispatch_matches_source' m

/-- the driver's parser of method names: `'lookup'` (and only it) reads the object's table, every other name hashes -/
theorem methodOfName_lookup_iff (m : String) (prior : List String) (tbl : List (String × Nat)) :
    (methodOfName m prior tbl = .lookup prior ↔ m = "lookup") ∧ (m ≠ "lookup" → methodOfName m prior tbl = .hashing tbl) :=
  methodOfName_lookup_iff' m prior tbl

/-- what a constructor call without arguments builds: `Sparsify()` = `Sparsify(True, False)`, `Densify()` = `Densify(400,'lookup',True,False)`,
`Repr()` = `Repr(None, None)`, `envs.repr()` = the Repr inside Finalize, `Cycle()` = `Cycle(0)` -/
theorem default_ctor_steps (k : Ctor) (prior : List String) (tbl : List (String × Nat)) :
    mkSparsify k none none = .sparsify true false ∧
    mkDensify k none none none none prior tbl = .densify 400 (.lookup prior) true false ∧
    mkRepr .filter none none = .repr none none ∧
    [Step.harden, mkRepr .env none none, .wrapSeqs] = expandStep .finalize ∧
    mkCycle none = .cycle 0 := default_ctor_steps' k prior tbl

/-- `Sparsify(context=c)` / `Densify(n, m, context=c)` with the `action` flag left out — through the class or the Environments shortcut, for every
choice of the other arguments, every `Cfg` (repaired or not), every look-up history / hash table and EVERY stream: nothing but the contexts
changes — actions, logged action, reward functions, feedback functions, logged reward and probability are literally the input's -/
theorem default_action_flag_context_only (cfg : Cfg) (k : Ctor) (c : Option Bool) (n : Option Nat) (m : Option String)
    (prior : List String) (tbl : List (String × Nat)) (s s' : List Inter) :
    (runPrim cfg (mkSparsify k c none) s = .ok s' → s'.map nonContext = s.map nonContext) ∧
    (runPrim cfg (mkDensify k n m c none prior tbl) s = .ok s' → s'.map nonContext = s.map nonContext) :=
  default_action_flag_context_only' cfg k c n m prior tbl s s'

/-- the same for an explicit `action=False` (any `Cfg`, any method, any stream) -/
theorem sparsify_noaction_context_only (cfg : Cfg) (c : Bool) (s s' : List Inter)
    (hrun : runPrim cfg (.sparsify c false) s = .ok s') : s'.map nonContext = s.map nonContext :=
  sparsify_noaction_context_only' cfg c s s' hrun

theorem densify_noaction_context_only (cfg : Cfg) (n : Nat) (m : DMethod) (c : Bool) (s s' : List Inter)
    (hrun : runPrim cfg (.densify n m c false) s = .ok s') : s'.map nonContext = s.map nonContext :=
  densify_noaction_context_only' cfg n m c s s' hrun

/-- non-vacuity: the default `Sparsify()` runs on the phase-1 witness stream and really changes its context -/
example : (match runPrim Cfg.asIs (mkSparsify .env none none) [{ context := .num 3, actions := some [.num 1, .num 2], rewards := some (.binary (.num 2) 1) }] with
           | .ok [I] => pyEq I.context (.dict [("context", .num 3)]) && (match I.actions with | some [a, b] => pyEq a (.num 1) && pyEq b (.num 2) | _ => false)
           | _ => false) = true := by decide +kernel

/-! ## Phase 6: histories of reads of one filter object -/

/-- ONE `Densify(lookup)` object after ANY history of reads (any number of `filter()` calls in any order: complete sequences, the items an aborted
read got to before its source failed, the items an abandoned read got to before its consumer stopped), then applied to `B`: exactly what a
fresh object gives on `B` when its table was first asked for the keys of the whole history, in order — nothing else of the history survives.
(`densify_reuse_eq_prior` is the history of length one.) -/
theorem densify_history_eq_prior (cfg : Cfg) (n : Nat) (c a : Bool) (B : List Inter) (hist : List (List Inter)) (p : List String) (T : DState)
    (hT : primeKeys (.lookup []) (initDState n) p = .ok T)
    (hH : ∃ T', runObjHistory cfg (.densify n (.lookup p) c a) T hist = .ok T') :
    runObjAfter cfg (.densify n (.lookup p) c a) T hist B = runPrim cfg (.densify n (.lookup (p ++ historyKeys c a hist)) c a) B :=
  densify_history_eq_prior' cfg n c a B hist p T hT hH

/-- non-vacuity: a history of three reads (a, b | a | c) on a 4-slot object exists, leaves the table a, b, c and was asked for a, b, a, c -/
example : (match runObjHistory Cfg.fixed (.densify 4 (.lookup []) false true) (initDState 4)
      [[{ actions := some [.dict [("a", .num 1)], .dict [("b", .num 1)]] }], [{ actions := some [.dict [("a", .num 1)]] }],
       [{ actions := some [.dict [("c", .num 1)]] }]] with
    | .ok T' => T'.table.map (·.1) == ["a", "b", "c"]
    | .error _ => false) = true
    ∧ historyKeys false true [[{ actions := some [.dict [("a", .num 1)], .dict [("b", .num 1)]] }], [{ actions := some [.dict [("a", .num 1)]] }],
       [{ actions := some [.dict [("c", .num 1)]] }]] = ["a", "b", "a", "c"] := by decide +kernel

/-! ## Phase 6 (round i, im1): the re-keying of interaction k looks at interaction k only -/

/-- every filter of the model (`runPrim`, any step, any `Cfg`), every stream, every position k: the rewards / feedbacks interaction k comes out with are
`rekeyOpt` of ONE policy applied to interaction k's own reward function, its own old actions and its own new actions — no reward, argmax or action of any
other interaction of the stream enters (the filter's first-interaction decisions choose the policy, nothing else is carried along the stream);
logged reward and probability pass through.  A per-stream memo of translated argmaxes (seeded change im1) is exactly what this excludes. -/
theorem rekey_local (cfg : Cfg) (st : Step) (s s' : List Inter) (h : runPrim cfg st s = .ok s') (k : Nat) (I : Inter) (hk : s[k]? = some I) :
    ∃ J pR pF, s'[k]? = some J ∧ rekeyOpt pR I.rewards I.actions J.actions = .ok J.rewards ∧
      rekeyOpt pF I.feedbacks I.actions J.actions = .ok J.feedbacks ∧ J.reward = I.reward ∧ J.probability = I.probability :=
  rekey_local' cfg st s s' h k I hk

end Coba.C10
