/-
C12 — What coba reads from a dataset file is what the file says.
Property theorems only (definitions: `Model/C12.lean`, proofs: `Lemmas/C12.lean`).

Reading of the statement
  (a) delivery independence   `readFix D cs = readWhole D cs.flatten`   for every cutting `cs`
      of the (compressed) byte stream, every lawful streaming decompressor `D`;
      `readWhole` = decode the whole stream, then `splitlines` (= Python `str.splitlines`).
      `readFix` is `HttpSource._byte_it_` + `DelimSource.read` with the two proposed repairs
      (incremental UTF-8 decoder; carriage return / all line boundaries handled across chunks),
      `readCur` is the code as it stands: it satisfies the statement only on "good" cuts
      (`chunk_invariance_partial`), and the three `_counterexample`s show each restriction is needed.
  (b) framing                `diskRead (diskWrite lines) = lines`        plain and `.gz`
  (c) round trips            `csvReaderFix (write rows) = rows`  (RFC 4180 writer, any per-field
      quoting choice), `libsvmRead (write rows) = rows`, `manikRead (hdr :: write rows) = rows`,
      and the dense ARFF data line (`arff_dense_line_roundtrip`).
  (d) "never silently misread" over the other spellings is differential testing in the harness.
-/
import CobaVerif.Lemmas.C12
import CobaVerif.Generated.C12Readers

namespace Coba.C12

/-! ### (a) delivery independence -/

/-- the identity "decompressor" (`encoding=None`) is lawful -/
theorem identity_lawful : Decomp.identity.Lawful := ⟨fun _ => rfl, fun _ _ _ => rfl⟩

/-- UTF-8 decoding + line splitting of the repaired `_byte_it_` does not depend on how the
byte stream is cut into chunks: any number of chunks, any sizes (empty ones included), any
lawful streaming decompressor; errors included (an undecodable stream is an error either way) -/
theorem chunk_invariance {σ} (D : Decomp σ) (hD : D.Lawful) (cs : List (List Nat)) :
    readFix D cs = readWhole D cs.flatten := chunk_invariance' D hD cs

/-- … in particular for `b.read(size)` with every chunk size from 1 byte up (0 = all at once) -/
theorem chunk_size_invariance {σ} (D : Decomp σ) (hD : D.Lawful) (size : Nat) (bs : List Nat) :
    readFix D (chunksOf size bs) = readWhole D bs := by
  rw [chunk_invariance' D hD, chunksOf_flatten]

/-- `DelimSource` (repaired) on any sequence of text chunks yields the lines of the whole text -/
theorem delim_invariance (chunks : List Text) : delimFix chunks = splitlines chunks.flatten :=
  delimFix_eq' chunks

example : delimFix [[97, 13], [10, 98, 0x2028], [], [99]] = [[97], [98], [99]] := by decide

/-- the code as it stands is right when every decompressed chunk decodes on its own (no
multi-byte character is cut) and the cut is "good": no chunk ends in a line boundary other than
`\r`/`\n` and no `\r\n` pair is cut.
theorem chunk_invariance_full : readCur D cs = readWhole D cs.flatten   -- FALSE, see the counterexamples -/
theorem chunk_invariance_partial {σ} (D : Decomp σ) (hD : D.Lawful) (cs : List (List Nat)) (ts : List Text)
    (hdec : decodeChunksCur (decompChunks D D.init cs) = .ok ts) (hgood : goodCuts ts = true) :
    readCur D cs = readWhole D cs.flatten := chunk_invariance_partial' D hD cs ts hdec hgood

example : decodeChunksCur (decompChunks Decomp.identity () [[97, 195, 169], [13, 10, 98]]) = .ok [[97, 233], [13, 10, 98]]
    ∧ goodCuts [[97, 233], [13, 10, 98]] = true := by decide

/-- P22: a chunk boundary inside a multi-byte character (`é` = C3 A9) makes the current code
raise `UnicodeDecodeError` although the whole stream is valid -/
theorem chunk_utf8_counterexample :
    ¬ (∀ cs : List (List Nat), readCur Decomp.identity cs = readWhole Decomp.identity cs.flatten) :=
  fun h => by have := h [[0x61, 0xC3], [0xA9]]; rw [cex_utf8.1] at this; exact absurd this (by decide)

/-- P23: a chunk boundary between `\r` and `\n` yields a spurious empty line -/
theorem chunk_crlf_counterexample :
    readCur Decomp.identity [[0x61, 13], [10, 0x62]] = .ok [[0x61], [], [0x62]] ∧
    readWhole Decomp.identity [0x61, 13, 10, 0x62] = .ok [[0x61], [0x62]] := cex_crlf

/-- a chunk ending in U+2028 (or any boundary of `splitlines` other than `\r`, `\n`) glues two
lines together -/
theorem chunk_linebreak_counterexample :
    readCur Decomp.identity [[0x61, 0xE2, 0x80, 0xA8], [0x62]] = .ok [[0x61, 0x62]] ∧
    readWhole Decomp.identity [0x61, 0xE2, 0x80, 0xA8, 0x62] = .ok [[0x61], [0x62]] := cex_u2028

/-! ### (b) framing -/

/-- UTF-8: decoding what was encoded gives the text back (every scalar value, 1–4 bytes) -/
theorem utf8_roundtrip (t : Text) (bs : List Nat) (h : encode t = .ok bs) : decodeAll bs = .ok t :=
  decodeAll_encode t bs h

/-- every text of scalar values can be encoded (lone surrogates cannot: UnicodeEncodeError) -/
theorem utf8_encodable (t : Text) (h : ∀ c ∈ t, isScalar c = true) : ∃ bs, encode t = .ok bs :=
  encode_ok t h

/-- DiskSink → DiskSource, plain file: lines without `\r`/`\n` come back identically, for every
`batch` setting (the file is the concatenation of the batches) -/
theorem disk_roundtrip (batch : Option Nat) (lines : List Text)
    (hs : ∀ l ∈ lines, ∀ c ∈ l, isScalar c = true) (hn : ∀ l ∈ lines, noNl l = true) :
    ∃ parts, diskWriteParts batch lines = .ok parts ∧ diskRead parts.flatten = .ok lines :=
  disk_roundtrip' batch lines hs hn

/-- `.gz`: every batch is one gzip member; assuming only that reading a multi-member gzip file
yields the concatenation of the members' contents (trusted: gzip) -/
theorem disk_roundtrip_gz (gz gunzip : List Nat → List Nat)
    (hgz : ∀ parts : List (List Nat), gunzip (parts.map gz).flatten = parts.flatten)
    (batch : Option Nat) (lines : List Text)
    (hs : ∀ l ∈ lines, ∀ c ∈ l, isScalar c = true) (hn : ∀ l ∈ lines, noNl l = true) :
    ∃ parts, diskWriteParts batch lines = .ok parts ∧ diskRead (gunzip (parts.map gz).flatten) = .ok lines := by
  obtain ⟨parts, h1, h2⟩ := disk_roundtrip' batch lines hs hn
  exact ⟨parts, h1, by rw [hgz]; exact h2⟩

example : (∀ l ∈ [[97, 0xE9], [], [0x1F600, 32]], ∀ c ∈ l, isScalar c = true) ∧
    (∀ l ∈ [[97, 0xE9], [], [0x1F600, 32]], noNl l = true) := by decide

/-- the hypothesis is needed: a `\r` inside a line is read back as a line boundary
(text mode, universal newlines) -/
theorem disk_cr_counterexample :
    diskWriteParts none [[97, 13, 98]] = .ok [[97, 13, 98, 10]] ∧
    diskRead [97, 13, 98, 10] = .ok [[97], [98]] := by decide

/-! ### (c) CSV -/

/-- `CsvReader` (repaired: only line terminators stripped, empty input gives no rows) reads back
every table an RFC 4180 writer produces: any delimiter (not `"`, not a line break), any
per-field quoting choice beyond the mandatory one, doubled quotes; with or without header -/
theorem csv_roundtrip (delim : Nat) (hd1 : delim ≠ DQ) (hd2 : isNl delim = false) (hasHeader : Bool)
    (rows : List (List (Bool × Text))) (hok : ∀ r ∈ rows, csvRowOk r = true) :
    csvReaderFix (excel delim) hasHeader (rows.map (csvWriteRow delim)) =
      match rows.map (·.map (·.2)) with
      | [] => .ok (none, [])
      | first :: rest => if hasHeader then .ok (some first, rest) else .ok (none, first :: rest) :=
  csv_roundtrip' delim hasHeader rows hok hd1 hd2

example : csvRowOk [(false, [32, 97]), (true, [34, 44]), (false, [])] = true := by decide

/-- … and it does not matter how the written lines are framed when they reach the reader: with or
without their `\n` / `\r\n` (iterating an open file, `splitlines(keepends=True)`), with blank
lines between records or at the end — whatever is delivered, if stripping the terminators and
dropping the empty lines gives the written lines, the table comes back -/
theorem csv_roundtrip_any_framing (delim : Nat) (hd1 : delim ≠ DQ) (hd2 : isNl delim = false) (hasHeader : Bool)
    (rows : List (List (Bool × Text))) (hok : ∀ r ∈ rows, csvRowOk r = true) (delivered : List Text)
    (hdel : (delivered.map rstripNl).filter (· ≠ []) = rows.map (csvWriteRow delim)) :
    csvReaderFix (excel delim) hasHeader delivered =
      match rows.map (·.map (·.2)) with
      | [] => .ok (none, [])
      | first :: rest => if hasHeader then .ok (some first, rest) else .ok (none, first :: rest) :=
  csv_roundtrip_framing' delim hasHeader rows hok hd1 hd2 delivered hdel

/-- e.g. `a,b\r\n`, a blank `\r\n`, `c\n`, a blank `\n`, an empty string -/
example : (([[97, 44, 98, 13, 10], [13, 10], [99, 10], [10], []] : List Text).map rstripNl).filter (· ≠ [])
    = [[(false, [97]), (false, [98])], [(false, [99])]].map (csvWriteRow 44) := by decide

/-- the code as it stands: additionally no written line may begin or end with white space, and
an input without records raises StopIteration.
theorem csv_roundtrip_full : csvReaderCur … = rows   -- FALSE, see the counterexamples -/
theorem csv_roundtrip_partial (delim : Nat) (hd1 : delim ≠ DQ) (hd2 : isNl delim = false) (hasHeader : Bool)
    (rows : List (List (Bool × Text))) (hok : ∀ r ∈ rows, csvRowOk r = true)
    (hedge : ∀ r ∈ rows, strip (csvWriteRow delim r) = csvWriteRow delim r) :
    csvReaderCur (excel delim) hasHeader (rows.map (csvWriteRow delim)) =
      match rows.map (·.map (·.2)) with
      | [] => .error .stopIteration
      | first :: rest => if hasHeader then .ok (some first, rest) else .ok (none, first :: rest) :=
  csv_roundtrip_cur' delim hasHeader rows hok hd1 hd2 hedge

/-- `" a",b` written as ` a,b` (RFC 4180: spaces are part of the field) is read as `a`,`b` -/
theorem csv_strip_counterexample :
    csvReaderCur (excel 44) false [csvWriteRow 44 [(false, [32, 97]), (false, [98])]] = .ok (none, [[[97], [98]]]) := by
  decide

/-- tab-delimited: a trailing empty field disappears (`"x\t"` is stripped to `"x"`) -/
theorem csv_strip_tab_counterexample :
    csvReaderCur (excel 9) false [csvWriteRow 9 [(false, [120]), (false, [])]] = .ok (none, [[[120]]]) := by
  decide

/-- the empty table raises StopIteration instead of giving no rows -/
theorem csv_empty_counterexample : csvReaderCur (excel 44) false [] = .error .stopIteration := by decide

/-! ### (c) LibSVM / Manik -/

/-- `LibsvmReader` reads back every row a LibSVM writer produces (labels, indices and values as
tokens; converting the tokens with `int`/`float` is CPython's) -/
theorem libsvm_roundtrip (rows : List SvmRow) (hok : ∀ r ∈ rows, svmRowOk r = true) :
    libsvmRead (rows.map svmWriteRow) = .ok rows := libsvm_roundtrip' rows hok

/-- `ManikReader`: the same after the metadata line -/
theorem manik_roundtrip (first : Text) (rows : List SvmRow) (hok : ∀ r ∈ rows, svmRowOk r = true) :
    manikRead (first :: rows.map svmWriteRow) = .ok rows := manik_roundtrip' first rows hok

example : svmRowOk ⟨[[49], [50]], [([51], [52, 46, 53]), ([55], [])]⟩ = true := by decide

/-! ### (c) ARFF, dense data lines -/

/-- `ArffLineReader` (dense) reads back every data section the Weka / OpenML writer produces in
one quote style: `q` is the file's quote character (`'` or `"`), values are written bare or quoted
with backslash escapes (the quote character and the backslash always, any further characters the
writer likes — Weka also escapes the other quote and `%`), separated by a comma and any number of
blanks; the reader settles on the quote character at the first quoted value and on the comma at
the first line.  Hypothesis `arffRowOk`: no value holds the *other* quote character (see
C12-F11: such lines go to coba's fallback parser, which is not modelled) or a line break.
theorem arff_dense_roundtrip_full (without `arffRowOk`'s restriction to one quote character)   -- FALSE for the code: known finding C12-F11 -/
theorem arff_dense_roundtrip_partial (q : Nat) (hq : q = SQ ∨ q = DQ) (also : Nat → Bool) (n : Nat)
    (rows : List (Nat × List (Bool × Text))) (hok : ∀ r ∈ rows, arffRowOk q r.2 = true ∧ r.2.length = n) :
    arffLines n ALR.init (rows.map (fun r => arffWriteRow q also r.1 r.2)) = .ok (rows.map (·.2.map (·.2))) :=
  arffLines_written q hq also n rows hok ALR.init (Or.inl rfl)

example : arffRowOk SQ [(false, [49]), (false, [115, 32, 116, 39, 92]), (true, [])] = true ∧
    arffWriteRow SQ (fun c => c == 37) 1 [(false, [49]), (false, [115, 32, 116, 39, 92]), (true, [])]
      = [49, 44, 32, 39, 115, 32, 116, 92, 39, 92, 92, 39, 44, 32, 39, 39] := by decide

/-- the restriction is needed: Weka writes `x"y\z` as `'x\"y\\z'`; the line holds both quote
characters, which the modelled simple path refuses (coba's fallback parser then drops the backslash) -/
theorem arff_dense_other_quote_counterexample :
    arffLines 1 ALR.init [arffWriteRow SQ (fun c => c == DQ) 0 [(false, [120, DQ, 121, BS, 122])]] = .error .cobaException := by
  decide

/-! ### (a) once more: the three content encodings in one statement -/

/-- `HttpSource._byte_it_(encoding, 'utf-8', chunk, bites)` (repaired) for `encoding ∈ {None,
'gzip', 'deflate'}`: the decompressor enters only as an abstract streaming function `D`
(`lambda x: x`, `zlib.decompressobj(16+MAX_WBITS).decompress`, `zlib.decompressobj(-MAX_WBITS)
.decompress`) of which exactly two laws are assumed (`Decomp.Lawful`): (L1) feeding nothing
yields nothing and leaves the state unchanged, (L2) the output for `a ++ b` is the output for `a`
followed by the output for `b` from the state `a` left.  Then for every compressed stream `bs`:
every chunk size (`b.read(size)`, `size = 0` standing for `chunk=None`, all at once) and every
other way of cutting `bs` yields the lines of the whole decoded text, or the same error.
The identity instance is proved lawful (`identity_lawful`); for zlib the laws are trusted and the
harness checks on every case that the pieces its `decompressobj` returns concatenate to the plain text. -/
theorem delivery_invariance {σ} (D : Decomp σ) (hD : D.Lawful) (bs : List Nat) :
    (∀ size, readFix D (chunksOf size bs) = readWhole D bs) ∧
    (∀ cs : List (List Nat), cs.flatten = bs → readFix D cs = readWhole D bs) :=
  delivery_invariance' D hD bs

/-! ### (c) ARFF sparse rows -/

/-- `ArffLineReader._sparse` reads back every row `{i v,i v,…}` a sparse writer produces with bare
values: indices as decimal digits, distinct, inside `[0,n)`, a comma and any number of blanks
between items; values non-empty without white space or comma, not ending in a brace
(`sparseRowOk`).  Quoted values are outside: the reader has no quote handling (C12-F10).
theorem arff_sparse_roundtrip_full (values quoted as Weka writes them)   -- FALSE: C12-F10 -/
theorem arff_sparse_roundtrip_partial (n pad : Nat) (items : List (Text × Text)) (h : sparseRowOk n items = true) :
    arffSparseLine n (sparseWriteRow pad items) = .ok (items.map (fun p => (digitsVal p.1, p.2))) :=
  arffSparseLine_written n pad items h

example : sparseRowOk 4 [([48], [49, 46, 53]), ([51], [105, 116, 39, 115])] = true ∧
    sparseWriteRow 1 [([48], [49, 46, 53]), ([51], [105, 116, 39, 115])] =
      [123, 48, 32, 49, 46, 53, 44, 32, 51, 32, 105, 116, 39, 115, 125] := by decide

/-- C12-F10: Weka writes the value `s t` as `'s t'`; the tokenizer cuts it at the blank -/
theorem arff_sparse_quoted_counterexample :
    arffSparseLine 1 [123, 48, 32, 39, 115, 32, 116, 39, 125] = .error .valueError := by decide

/-! ### (d) respellings of an ARFF file that provably do not change what is read

`arffRead` is the whole `ArffReader` (header, data section, encoders, missing flags, dense and
sparse rows, fallback parser); `arffReadN` is the same on stripped non-empty lines. -/

/-- line framing: whatever is delivered, only the stripped non-empty lines matter … -/
theorem arff_framing_invariance (l1 l2 : List Text) (h : arffNormalize l1 = arffNormalize l2) :
    arffRead l1 = arffRead l2 := arff_framing' l1 l2 h

/-- … so a blank (or white-space only) line anywhere changes nothing … -/
theorem arff_blank_line_invariance (a c : List Text) (b : Text) (hb : strip b = []) :
    arffRead (a ++ b :: c) = arffRead (a ++ c) := arff_framing' _ _ (arffNormalize_blank a c b hb)

/-- … and neither does a line terminator left on a line (`\n`, `\r\n`: CRLF vs LF files,
`keepends` delivery) nor any other trailing white space -/
theorem arff_line_ending_invariance (a c : List Text) (l s : Text) (hs : ∀ x ∈ s, isPySpace x = true) :
    arffRead (a ++ (l ++ s) :: c) = arffRead (a ++ l :: c) := arff_framing' _ _ (arffNormalize_ws a c l s hs)

example : ∀ x ∈ [CR, LF], isPySpace x = true := by decide

/-- keyword case: `@data`, `@DATA`, `@Data` … (the first `@data` line of the file) -/
theorem arff_data_keyword_case (pre post : List Text) (d1 d2 : Text) (h1 : lowerAscii d1 = kwData) (h2 : lowerAscii d2 = kwData)
    (hpre : ∀ l ∈ pre, lowerAscii l ≠ kwData) :
    arffReadN (pre ++ d1 :: post) = arffReadN (pre ++ d2 :: post) := arff_data_keyword' pre post d1 d2 h1 h2 hpre

/-- keyword case: `@attribute` / `@ATTRIBUTE` … followed by any one separator character -/
theorem arff_attribute_keyword_case (pre post : List Text) (a1 a2 : Text)
    (h1 : lowerAscii (a1.take 10) = kwAttribute) (h2 : lowerAscii (a2.take 10) = kwAttribute) (hr : a1.drop 11 = a2.drop 11)
    (hpre : ∀ l ∈ pre, lowerAscii l ≠ kwData) :
    arffReadN (pre ++ a1 :: post) = arffReadN (pre ++ a2 :: post) := arff_attribute_keyword' pre post a1 a2 h1 h2 hr hpre

/-- keyword case of the type (`numeric`/`NUMERIC`/`Real`/`STRING`/`date …`) -/
theorem arff_type_keyword_case (isDense : Bool) (e1 e2 : Text) (h : lowerAscii e1 = lowerAscii e2)
    (h1 : e1.head? ≠ some LBRACE) (h2 : e2.head? ≠ some LBRACE) : arffEncoder isDense e1 = arffEncoder isDense e2 :=
  arff_type_keyword' isDense e1 e2 h h1 h2

/-- a `%` comment (or `@relation`, or anything that is not an attribute line) in the header is ignored -/
theorem arff_header_comment_invariance (pre post : List Text) (j : Text) (hj1 : lowerAscii j ≠ kwData)
    (hj2 : lowerAscii (j.take 5) ≠ kwAttr) (hpre : ∀ l ∈ pre, lowerAscii l ≠ kwData) :
    arffReadN (pre ++ j :: post) = arffReadN (pre ++ post) := arff_header_other_line' pre post j hj1 hj2 hpre

/-- a `%` comment line anywhere in the data section (before the first row, between rows, at the end) is ignored -/
theorem arff_data_comment_invariance (hdr a b : List Text) (kw c : Text) (hkw : lowerAscii kw = kwData)
    (hhdr : ∀ l ∈ hdr, lowerAscii l ≠ kwData) (hc : c.head? = some PCT) :
    arffReadN (hdr ++ kw :: (a ++ c :: b)) = arffReadN (hdr ++ kw :: (a ++ b)) := arff_data_comment' hdr a b kw c hkw hhdr hc

/-! ### (c) ARFF attribute header -/

/-- `ArffAttrReader` reads back every header a Weka / OpenML-style writer produces: per attribute
the keyword in any case, one separator character, the name (bare, or quoted with `q` and the
quote character backslash-escaped — plus any further characters the writer likes to escape),
white space, and the type: `numeric`/`integer`/`real`, `string`/`date …`/`relational` in any case,
or a nominal list `{l1, l2, …}` of bare or quoted levels with any number of blanks after the commas.
The reader returns exactly the names and, per attribute, the encoder with the levels in the
written order (sparse files: with coba's extra level `'0'` in front).
Hypotheses (`AttrW.ok`), each forced by a recorded finding: quoted names/levels hold no backslash
(C12-F8) and do not begin with white space, levels not with a comma (C12-F9, slightly
stronger: the code copes with `' B'`); bare ones hold no separator; names are distinct, the levels
of one attribute are distinct (and not `'0'` in a sparse file) — otherwise coba re-sorts them.
theorem arff_header_roundtrip_full (any name / level text)   -- FALSE: C12-F8, C12-F9 -/
theorem arff_header_roundtrip (isDense : Bool) (q : Nat) (hq : q = SQ ∨ q = DQ) (also : Nat → Bool) (attrs : List AttrW)
    (hok : ∀ a ∈ attrs, a.ok isDense = true) (hnd : (attrs.map (·.name.2)).Nodup) :
    arffAttrs isDense [] (attrs.map (·.line q also)) = .ok (attrs.map (fun a => (a.name.2, a.typ.enc isDense))) :=
  arffAttrs_written isDense q hq also attrs [] hok hnd (fun _ _ => by simp)

/-- the nominal level list alone: `_split(encoding[1:-1], r_comma)` -/
theorem arff_levels_roundtrip (q : Nat) (hq : q = SQ ∨ q = DQ) (also : Nat → Bool) (pad : Nat) (levels : List (Bool × Text))
    (hne : levels ≠ []) (hok : ∀ x ∈ levels, hdrTokOk true x = true) :
    arffSplit .comma none (hdrWriteLevels q also pad levels) = .ok (levels.map (·.2)) :=
  arffSplit_levels' q hq also pad levels hne hok

example : AttrW.ok true ⟨[64,65,84,84,82,73,66,85,84,69], 9, (true, [97, 32, 39, 98]), [32, 32],
    .nominal 1 [(false, [120]), (true, [121, 44, 32, 122]), (true, [])]⟩ = true := by decide

/-- C12-F8: Weka writes the name `a\b` as `'a\\b'`; the reader returns `ab` -/
theorem arff_header_backslash_counterexample :
    arffAttrs true [] [[64,97,116,116,114,105,98,117,116,101,32,39,97,92,92,98,39,32,110,117,109,101,114,105,99]] =
      .ok [([97, 98], .numeric)] := by decide

/-- C12-F9: the level `,x` written `',x'` raises IndexError -/
theorem arff_header_comma_level_counterexample :
    arffAttrs true [] [[64,97,116,116,114,105,98,117,116,101,32,97,32,123,39,44,120,39,44,121,125]] = .error .indexError := by
  decide

/-- C12-F13: with a level named `?` the missing marker is read as that level -/
theorem arff_level_qmark_counterexample :
    encodeCell (.nominal [[67], [63]]) [63] = .ok (.cat [63] [[67], [63]]) ∧ encodeCell (.nominal [[67]]) [63] = .ok .missing := by
  decide

/-! ### (c) whole dense ARFF files -/

/-- the whole `ArffReader` on a whole dense file of the Weka / OpenML-style writer: attribute lines
(`AttrW.line`), the `@data` line in any case, one line per row (`denseRowLine`: values bare or quoted
in the file's quote style, `?` for a missing cell, a comma and blanks between them).  The reader
returns the column names, and per row the encoded cells (floats as their literal, strings, `Categorical`
with the levels in written order, `None` for `?`) and the `missing` flag = "the row has a `?`".
By `arff_framing_invariance`, `arff_*_keyword_case` and the two comment theorems the same holds with
blank lines, kept terminators, comments and `@relation` lines added.
Hypotheses, each forced by a recorded finding or the format itself: the header hypotheses of
`arff_header_roundtrip` (F8, F9); `denseRowWOk`: cells fit their columns, one quote style and no
other-quote character (F11), strings/levels hold no `?` (F12, F15), no level is named `?` (F13), a
line does not begin with `%`; the first data line is not wrapped in braces (F17); at least one row
(no rows: the reader returns nothing, `ArffResult.empty`). -/
theorem arff_dense_table_roundtrip (q : Nat) (hq : q = SQ ∨ q = DQ) (also : Nat → Bool) (attrs : List AttrW) (dkw : Text)
    (rows : List (Nat × List (Bool × CellW)))
    (hattrs : attrs ≠ []) (hok : ∀ a ∈ attrs, a.ok true = true) (hnd : (attrs.map (·.name.2)).Nodup)
    (hdkw : lowerAscii dkw = kwData) (hne : rows ≠ [])
    (hrows : ∀ r ∈ rows, denseRowWOk q also r.1 (attrs.map (·.typ.enc true)) r.2 = true)
    (hfirst : ∀ r, rows.head? = some r → notBraced (denseRowLine q also r.1 r.2) = true) :
    arffReadN (attrs.map (·.line q also) ++ dkw :: rows.map (fun r => denseRowLine q also r.1 r.2)) =
      .ok (.dense (attrs.map (·.name.2))
        (rows.map fun r => ⟨rowOut (attrs.map (·.typ.enc true)) r.2, r.2.any (·.2.isMissing)⟩)) :=
  arff_dense_table' q hq also attrs dkw rows hattrs hok hnd hdkw hne hrows hfirst

example : denseRowWOk SQ (fun _ => false) 1 [.numeric, .str, .nominal [[120], [121, 32, 122]]]
    [(false, .num [49, 46, 53]), (true, .str [115, 32, 116]), (true, .cat [121, 32, 122])] = true ∧
    denseRowWOk SQ (fun _ => false) 0 [.numeric, .str, .nominal [[120], [121, 32, 122]]]
    [(false, .missing), (false, .str [97]), (false, .missing)] = true := by decide

/-- the `missing` flag of a written dense line is "some cell is the missing marker" -/
theorem arff_dense_missing_flag (q : Nat) (hq : q = SQ ∨ q = DQ) (also : Nat → Bool) (pad : Nat) (encs : List Enc)
    (row : List (Bool × CellW)) (hc : rowCellsOk encs row = true) :
    denseMissing (denseRowLine q also pad row) = row.any (·.2.isMissing) := denseMissing_written q hq also pad encs row hc

/-! ### (a) empty decompressor outputs in mid-stream -/

/-- a decompressor may return `b''` for any number of chunks (zlib does for the chunks that only
hold the gzip header, or the end of one member): `Decomp.skip n` swallows an `n`-byte header and is lawful -/
theorem skip_lawful (n : Nat) : (Decomp.skip n).Lawful := skip_lawful' n

/-- … so for such a stream, too, every cutting gives the lines of the whole decoded text: the loop
must go on after an empty decompressor output (the seeded change `while data := decomp(chunk)` stopped there) -/
theorem delivery_invariance_header_skip (n : Nat) (cs : List (List Nat)) :
    readFix (Decomp.skip n) cs = readWhole (Decomp.skip n) cs.flatten := chunk_invariance' (Decomp.skip n) (skip_lawful' n) cs

example : decompChunks (Decomp.skip 3) 3 [[1, 2], [3], [97, 10], [98]] = [[], [], [97, 10], [98]] ∧
    readFix (Decomp.skip 3) [[1, 2], [3], [97, 10], [98]] = .ok [[97], [98]] := by decide

/-- empty chunks / empty decompressed pieces anywhere in the stream change nothing -/
theorem delivery_empty_chunks_invariance {σ} (D : Decomp σ) (hD : D.Lawful) (cs : List (List Nat)) :
    readFix D (cs.filter (· ≠ [])) = readFix D cs := by
  rw [chunk_invariance' D hD, chunk_invariance' D hD, flatten_filter_ne_nil]

/-! ### reader objects: what is read from an input does not depend on what the object read before -/

/-- frame theorem for ONE reader object (`CsvReader(has_header, **dialect)`, `ArffReader()`, `LibsvmReader()`,
`ManikReader()`) used on any history of inputs, each read in full or abandoned after its first row: the
k-th use returns exactly what a fresh reader returns on input k.  (In the model a reader carries nothing
but its constructor arguments; that the real objects behave like this is what the `reuse` cases check —
the seeded change that cached the CSV header map on the instance breaks it.) -/
theorem reader_history_frame (r : ReaderKind) (hist : List (List Text × Bool)) :
    readerRun r hist = hist.map (fun i => if i.2 then none else some (readerParse r i.1)) := readerRun_frame' r hist

/-! ### (c) whole sparse ARFF files (phase 4) -/

/-- the whole `ArffReader` on a whole sparse file of the Weka / OpenML-style writer: attribute lines (`AttrW.line`), the
`@data` line in any case, one line `{i v, i v, …}` per row (`sparseRowLine`: decimal column index, one blank, the bare
value or `?`; a comma and any number of blanks between items; `{}` for the all-default row).  The reader returns the
column names and per row (`sparseRowOut`) the written items under their column names, encoded by the column's encoder
(nominal columns carry coba's extra level `'0'` in front), followed by the default entries of the columns that were
not written and do not read as numeric 0 (string columns read `'0'`, nominal columns the level `'0'` — coba's sparse
convention), and the `missing` flag = "some written item is `?`".
Hypotheses: those of `arff_header_roundtrip` (F8, F9); `sparseRowWOk`: indices decimal, distinct, inside the column
range, values bare tokens not ending in a brace (C12-F10: the sparse tokenizer has no quote handling), every cell fits
its column (float literal / level of the column / string without `?`: F12, F13); at least one row.
No hypothesis on the first line is needed (a written sparse row always begins with `{` and ends with `}`). -/
theorem arff_sparse_table_roundtrip (q : Nat) (hq : q = SQ ∨ q = DQ) (also : Nat → Bool) (attrs : List AttrW) (dkw : Text)
    (rows : List (Nat × List (Text × CellW)))
    (hattrs : attrs ≠ []) (hok : ∀ a ∈ attrs, a.ok false = true) (hnd : (attrs.map (·.name.2)).Nodup)
    (hdkw : lowerAscii dkw = kwData) (hne : rows ≠ [])
    (hrows : ∀ r ∈ rows, sparseRowWOk attrs.length (attrs.map (·.typ.enc false)) r.2 = true) :
    arffReadN (attrs.map (·.line q also) ++ dkw :: rows.map (fun r => sparseRowLine r.1 r.2)) =
      .ok (.sparse (attrs.map (·.name.2))
        (rows.map fun r => ⟨sparseRowOut (attrs.map (·.name.2)) (attrs.map (·.typ.enc false)) r.2, r.2.any (·.2.isMissing)⟩)) :=
  arff_sparse_table' q hq also attrs dkw rows hattrs hok hnd hdkw hne hrows

example : sparseRowWOk 3 [.numeric, .str, .nominal [[48], [120], [121]]]
    [([48], .num [49, 46, 53]), ([50], .cat [121])] = true ∧
    sparseRowWOk 3 [.numeric, .str, .nominal [[48], [120], [121]]] [([49], .missing)] = true ∧
    sparseRowWOk 3 [.numeric, .str, .nominal [[48], [120], [121]]] [] = true ∧
    sparseRowOut [[97], [98], [99]] [.numeric, .str, .nominal [[48], [120], [121]]] [([48], .num [49, 46, 53])] =
      [([97], .num [49, 46, 53]), ([98], .str [48]), ([99], .cat [48] [[48], [120], [121]])] := by decide

/-- the `missing` flag of a written sparse line is "some written item is the missing marker" -/
theorem arff_sparse_missing_flag (pad n : Nat) (encs : List Enc) (row : List (Text × CellW))
    (h : sparseRowWOk n encs row = true) :
    sparseMissing (sparseRowLine pad row) = row.any (·.2.isMissing) := sparseMissing_written pad n encs row h

/-- C12-F16 at the boundary of the writer: a blank before the closing brace (`{ 0 ? }`, as in coba's own `{ }` test)
hides the marker from `ArffDataReader._sparse` -/
theorem arff_sparse_missing_blank_counterexample :
    sparseMissing [123, 32, 48, 32, 63, 32, 125] = false ∧ sparseMissing (sparseRowLine 0 [([48], .missing)]) = true := by decide

/-! ### the tab path and the fallback parser `_dense_advanced` (phase 4) -/

/-- C12-F11 on the complete line reader: Weka writes `x"y\z` as `'x\"y\\z'`; the line holds both quote characters,
the reader goes to its fallback parser and returns `x"yz` — the backslash that was written is lost -/
theorem arff_fallback_backslash_counterexample :
    (arffLineStepF 1 ALRF.init (arffWriteRow SQ (fun c => c == DQ) 0 [(false, [120, DQ, 121, BS, 122])])).map (·.2) =
      .ok [[120, DQ, 121, 122]] := by decide

/-- C12-F14 on the complete line reader: the tab-delimited row `x<TAB>'y,'` (two columns) is split at the comma first
(the comma attempt yields two fields, the right count) -/
theorem arff_tab_comma_counterexample :
    (arffLineStepF 2 ALRF.init [120, TAB, SQ, 121, COMMA, SQ]).map (·.2) ≠ .ok [[120], [121, COMMA]] := by decide

/-! ### translator obligations: the tables of coba/pipes/readers.py (re-extracted with `ast` on every run into
`Generated/C12Readers.lean`) are the tables the model uses — an edit of the source breaks one of these proofs -/

section Translator
open Coba.Generated

/-- `numeric_types`, `string_types` of `ArffAttrReader._encoder`; the two patterns of `ArffDataReader._sparse`; the separators of
`LibsvmReader.filter` (`split(' ')`, `":" in items[0]`, `split(',')`, `split(":")`); `islice(lines,1,None)` of `ManikReader` -/
theorem readers_tables_match :
    C12Readers.numericTypes = kwNumeric ∧ C12Readers.stringTypes = kwString ∧
    C12Readers.sparseMissingIn = [32, QM, COMMA] ∧ C12Readers.sparseMissingEnd = [32, QM, RBRACE] ∧
    C12Readers.svmItemSep = [SP] ∧ C12Readers.svmNoLabelMark = [COLON] ∧ C12Readers.svmLabelSep = [COMMA] ∧
    C12Readers.svmKvSep = [COLON] ∧ C12Readers.manikSkip = 1 := by decide

/-- phase 5, `ArffLineReader._dense_advanced`: the delimiter guess `',' if len(line.split(',')) > len(line.split('\t')) else "\t"`
(`fallbackDelim`), the glue of `item += "," + d_line.popleft()` (`advLoop`), the character deleted by `item.replace('\\','')`
(`advClean`, `advLoop`) -/
theorem fallback_tables_match :
    C12Readers.fallbackThen = [COMMA] ∧ C12Readers.fallbackElse = [TAB] ∧ C12Readers.fallbackCountL = [COMMA] ∧
    C12Readers.fallbackCountR = [TAB] ∧ C12Readers.fallbackDeleted = [BS] ∧ C12Readers.fallbackGlue = [COMMA] ∧
    C12Readers.fallbackStrict = true := by decide

/-- `ArffDataReader._trans = str.maketrans('','',…)`: the deleted characters -/
theorem compact_uses_trans (t : Text) : compact t = t.filter (fun c => !C12Readers.transDeleted.contains c) := compact_eq_filter t
theorem sparse_missing_uses_patterns (l : Text) :
    sparseMissing l = (hasSub C12Readers.sparseMissingIn l || endsWith C12Readers.sparseMissingEnd l) := rfl
/-- `i.rstrip('\\r\\n')` in `CsvReader.filter` -/
theorem csv_rstrip_uses_chars (t : Text) : rstripNl t = (t.reverse.dropWhile (fun c => C12Readers.csvRstrip.contains c)).reverse :=
  rstripNl_eq_list t
/-- `line.strip("} {")` in `ArffLineReader._sparse` -/
theorem sparse_strip_uses_chars (t : Text) :
    stripBraces t = ((t.dropWhile (fun c => C12Readers.sparseStripChars.contains c)).reverse.dropWhile
      (fun c => C12Readers.sparseStripChars.contains c)).reverse := stripBraces_eq_list t
theorem manik_skip_uses (ls : List Text) : manikRead ls = libsvmRead (ls.drop C12Readers.manikSkip) := rfl
theorem encoder_uses_tables (isDense : Bool) (e : Text) :
    arffEncoder isDense e =
      (if C12Readers.numericTypes.contains (lowerAscii e) then .ok .numeric
       else if C12Readers.stringTypes.any (fun k => startsWith k (lowerAscii e)) then .ok .str
       else if e.head? = some LBRACE then
         match arffSplit .comma none e.tail.dropLast with
         | .error er => .error er
         | .ok cats => match catLevels (if isDense then cats else ZERO :: cats) with
           | .error er => .error er
           | .ok lv => .ok (.nominal lv)
       else .error .cobaException) := rfl

end Translator

/-! ### plain (unquoted) dense rows: the csv fast path and the fallback parser `_dense_advanced` agree -/

/-- for every row of `plainTok` values (written bare: no comma, quote character, backslash, line break; not empty; not starting
with white space), any number of blanks after the commas: a fresh line reader (fast path), a reader that has switched to the
fallback parser on an earlier comma-delimited line, and the fallback's `while d_line` loop itself all return exactly the written
values.  Outside `plainTok` the two paths differ (see the counterexamples; F11, F14 above). -/
theorem arff_fallback_agrees_plain (pad : Nat) (vs : List Text) (hne : vs ≠ []) (h : ∀ v ∈ vs, plainTok v = true) :
    (arffLineStepF vs.length ALRF.init (plainRowLine pad vs)).map (·.2) = .ok vs ∧
    (∀ s : ALRF, s.fallback = some COMMA → (arffAdvanced vs.length s (plainRowLine pad vs)).map (·.2) = .ok vs) ∧
    advLoop none (splitOn COMMA (plainRowLine pad vs)) = .ok vs := plain_paths_agree' pad vs hne h

example : plainTok [97, 32, 98] = true ∧ plainTok [63] = true ∧ plainTok [123, 120, 125] = true ∧ plainTok [9, 120] = false ∧
    plainTok [120, 92] = false ∧ plainTok [] = false := by decide

/-- the boundary of `plainTok`: a value starting with a tab (csv keeps the tab, the fallback `lstrip`s it), a backslash (the
fallback drops it), an empty value (the fallback raises IndexError on `item[0]`, csv returns `''`) -/
theorem arff_plain_boundary_counterexample :
    ((arffLineStepF 2 ALRF.init [9, 120, 44, 121]).map (·.2) = .ok [[9, 120], [121]] ∧
      advLoop none (splitOn COMMA [9, 120, 44, 121]) = .ok [[120], [121]]) ∧
    advLoop none (splitOn COMMA [120, 92, 44, 121]) = .ok [[120], [121]] ∧
    ((arffLineStepF 2 ALRF.init [44, 121]).map (·.2) = .ok [[], [121]] ∧
      advLoop none (splitOn COMMA [44, 121]) = .error .indexError) := by decide

/-! ### `int()` / `float()`: the enlarged readings are conservative -/

/-- on tokens without an underscore and without the separators `\x1c`–`\x1f`, `parseIntPy` / `isFloatLitPy` (CPython's
reading: PEP 515 underscores, `Py_ISSPACE` stripping) are the older `parseInt` / `isFloatLit` the whole-file model uses -/
theorem numerals_conservative (tok : Text) (hu : ¬ US ∈ tok) (hf : noFs tok = true) :
    parseIntPy tok = parseInt tok ∧ isFloatLitPy tok = isFloatLit tok := numerals_conservative' tok hu hf

example : ¬ US ∈ [32, 43, 49, 50, 9] ∧ noFs [32, 43, 49, 50, 9] = true ∧ parseIntPy [32, 43, 49, 50, 9] = some 12 := by decide

/-- both hypotheses are needed: `'\x0bNaN\x1c'` and `'1\x1c'` are accepted by the older functions (`str.strip()` removes
`\x1c`) but not by CPython's `float()`/`int()`; `1_0` is read by CPython as 10, by the older functions not at all -/
theorem numerals_fs_counterexample :
    (isFloatLit [11, 78, 97, 78, 28] = true ∧ isFloatLitPy [11, 78, 97, 78, 28] = false) ∧
    (parseInt [49, 28] = some 1 ∧ parseIntPy [49, 28] = none) ∧
    (parseInt [49, 95, 48] = none ∧ parseIntPy [49, 95, 48] = some 10 ∧ parseIntPy [49, 95, 95, 48] = none) := by decide

/-! ### phase 5: the whole ARFF reader over CPython's numerals (`arffReadPy`) -/

/-- `arffRead` (the model the whole-file theorems are about) is the instance of the parametrised reader `arffReadG`
with the older numeral functions -/
theorem arffRead_is_instance (lines : List Text) : arffReadG parseInt isFloatLit lines = arffRead lines :=
  arffReadG_old' lines

/-- the reader consults its numeral functions only on tokens built from characters of the file (plus `,` glued in by the
fallback parser, `\n` after an escape character at a line end, and the default `'0'`): two pairs of numeral functions that
agree on every token free of `_` and `\x1c`–`\x1f` give the same reading of every file free of these characters — for
all files, dense and sparse, every spelling, errors included -/
theorem arffRead_numerals_congr (pi pi' : Text → Option Int) (fl fl' : Text → Bool)
    (hpi : ∀ t, t.all numClean = true → pi t = pi' t) (hfl : ∀ t, t.all numClean = true → fl t = fl' t)
    (lines : List Text) (hl : linesNumClean lines = true) : arffReadG pi fl lines = arffReadG pi' fl' lines :=
  arffReadG_congr' pi pi' fl fl' hpi hfl lines hl

/-- goal 1 of phase 5: on every file free of underscores and of `\x1c`–`\x1f`, the reader over CPython's `int()` /
`float()` (`arffReadPy`, what the driver now runs against the real `ArffReader`) IS `arffRead` — so every whole-file
theorem above (`arff_dense_table_roundtrip`, `arff_sparse_table_roundtrip`, framing / keyword / comment invariance)
transfers to `arffReadPy` on such files -/
theorem arffReadPy_conservative (lines : List Text) (hl : linesNumClean lines = true) :
    arffReadPy lines = arffRead lines := arffReadPy_conservative' lines hl

example : linesNumClean [[64,97,116,116,114,105,98,117,116,101,32,97,32,110,117,109,101,114,105,99], [64,100,97,116,97], [49,46,53]] = true := by
  decide

/-- the hypothesis is needed, in both directions: `1_0` in a numeric column is read (CPython: 10.0) by `arffReadPy` and
rejected by `arffRead`; the quoted value `'1\x1c'` is rejected by `arffReadPy` (CPython's `float` does not skip `\x1c`)
and accepted by `arffRead` -/
theorem arffReadPy_counterexample :
    (arffReadPy [[64,97,116,116,114,105,98,117,116,101,32,97,32,110,117,109,101,114,105,99], [64,100,97,116,97], [49,95,48]]
        = .ok (.dense [[97]] [⟨[.num [49,95,48]], false⟩]) ∧
      arffRead [[64,97,116,116,114,105,98,117,116,101,32,97,32,110,117,109,101,114,105,99], [64,100,97,116,97], [49,95,48]]
        = .error .valueError) ∧
    (arffReadPy [[64,97,116,116,114,105,98,117,116,101,32,97,32,110,117,109,101,114,105,99], [64,100,97,116,97], [39,49,28,39]]
        = .error .valueError ∧
      arffRead [[64,97,116,116,114,105,98,117,116,101,32,97,32,110,117,109,101,114,105,99], [64,100,97,116,97], [39,49,28,39]]
        = .ok (.dense [[97]] [⟨[.num [49,28]], false⟩])) := by decide +kernel

/-! ### phase 5: the fallback parser on pieces that do not start with a quote character; `_fallback_delim` undecided -/

/-- exact result of the `while d_line` loop of `_dense_advanced` on every list of pieces none of which starts (after
`lstrip`) with a quote character: IndexError when some piece is blank, otherwise every piece `lstrip`ped with its
backslashes deleted — for all piece lists, quote characters and tabs further inside the pieces included -/
theorem arff_fallback_unquoted_exact (ps : List Text) (h : ps.all pieceUnquoted = true) :
    advLoop none ps = advUnquoted ps := advLoop_unquoted' ps h

/-- the fallback parser entered on the current line with `_fallback_delim` still undecided (a first data row holding both
quote characters, or a later row holding the other quote character): for EVERY line whose pieces under the delimiter chosen
on this line do not start with a quote character, the complete result (values, new reader state, IndexError / CobaException) -/
theorem arff_fallback_undecided_exact (n : Nat) (s : ALRF) (line : Text) (hs : s.fallback = none)
    (h : (splitOn (fallbackDelim line) line).all pieceUnquoted = true) :
    arffAdvanced n s line =
      (match advUnquoted (splitOn (fallbackDelim line) line) with
       | .error e => .error e
       | .ok parsed =>
         if parsed.length = n then .ok ({ s with advanced := true, fallback := some (fallbackDelim line) }, parsed)
         else .error .cobaException) := arffAdvanced_undecided' n s line hs h

/-- goal 2 of phase 5, the exact ("iff") characterisation: a row of `innerTok` values (not empty, no leading white space or
quote character, no comma, no backslash; tabs and quote characters allowed further in) joined by commas is read back by the
undecided fallback parser **iff** the line holds no tab or fewer tab pieces than values — otherwise the delimiter guess
`len(line.split(',')) > len(line.split('\t'))` picks the tab and the row is misread or rejected.
(`hq`: no tab piece starts with a quote character — there the quoted branch of the loop, where C12-F11 lives, takes over.) -/
theorem arff_fallback_undecided_iff (vs : List Text) (hne : vs ≠ []) (h : ∀ v ∈ vs, innerTok v = true)
    (s : ALRF) (hs : s.fallback = none)
    (hq : (splitOn TAB (joinWith COMMA vs)).all pieceUnquoted = true) :
    (arffAdvanced vs.length s (joinWith COMMA vs)).map (·.2) = .ok vs ↔
      (¬ TAB ∈ joinWith COMMA vs ∨ (splitOn TAB (joinWith COMMA vs)).length < vs.length) :=
  fallback_undecided_iff' vs hne h s hs hq

/-- non-vacuity and reachability: the first data row `it's,say"hi` holds both quote characters, so a fresh reader enters
the fallback with `_fallback_delim` undecided — and returns the two values; with a tab inside, `a<TAB>b,c,d` (2 tab pieces
< 3 values) is still read back -/
example :
    innerTok [105,116,39,115] = true ∧ innerTok [115,97,121,34,104,105] = true ∧
    (splitOn TAB (joinWith COMMA [[105,116,39,115], [115,97,121,34,104,105]])).all pieceUnquoted = true ∧
    (arffLineStepF 2 ALRF.init (joinWith COMMA [[105,116,39,115], [115,97,121,34,104,105]])).map (·.2)
      = .ok [[105,116,39,115], [115,97,121,34,104,105]] ∧
    (arffAdvanced 3 ⟨true, true, none, COMMA, none⟩ (joinWith COMMA [[97,9,98], [99], [100]])).map (·.2) = .ok [[97,9,98], [99], [100]] := by
  decide

/-- the right-hand side of the iff is needed: `a<TAB>b,c<TAB>d` (3 tab pieces ≥ 2 values) is split at the tabs and rejected,
`a<TAB>b,c` (2 tab pieces = 2 values) is silently misread as `a`, `b,c`; and outside `innerTok` a backslash is lost -/
theorem arff_fallback_undecided_counterexample :
    (arffAdvanced 2 ⟨true, true, none, COMMA, none⟩ (joinWith COMMA [[97,9,98], [99,9,100]])).map (·.2) = .error .cobaException ∧
    (arffAdvanced 2 ⟨true, true, none, COMMA, none⟩ (joinWith COMMA [[97,9,98], [99]])).map (·.2) = .ok [[97], [98,44,99]] ∧
    (arffAdvanced 2 ⟨true, true, none, COMMA, none⟩ (joinWith COMMA [[97,92,98], [99]])).map (·.2) = .ok [[97,98], [99]] := by
  decide

/-! ### phase 5: LibSVM / Manik with `int()` / `float()` of the tokens inside the model -/

/-- `LibsvmReader` with the conversions `int(k)` / `float(v)` as CPython reads them (`libsvmReadPy`): every file a LibSVM
writer produces (decimal indices, values `float()` accepts) is read back as index ↦ value dictionaries and label lists -/
theorem libsvm_roundtrip_py (rows : List SvmRow) (hok : ∀ r ∈ rows, svmRowOk r = true)
    (hnum : ∀ r ∈ rows, svmNumOk r = true) :
    libsvmReadPy (rows.map svmWriteRow) = .ok (rows.map svmRowOutPy) := libsvm_roundtrip_py' rows hok hnum

/-- `ManikReader`: the same after the metadata line -/
theorem manik_roundtrip_py (first : Text) (rows : List SvmRow) (hok : ∀ r ∈ rows, svmRowOk r = true)
    (hnum : ∀ r ∈ rows, svmNumOk r = true) :
    manikReadPy (first :: rows.map svmWriteRow) = .ok (rows.map svmRowOutPy) := manik_roundtrip_py' first rows hok hnum

example : svmRowOk ⟨[[49], [50]], [([51], [52, 46, 53]), ([55], [49, 101, 53])]⟩ = true ∧
    svmNumOk ⟨[[49], [50]], [([51], [52, 46, 53]), ([55], [49, 101, 53])]⟩ = true := by decide

/-- `svmNumOk` is needed and the numerals are CPython's: the index `1_0` is column 10, `1__0` / the value `1e` / the index
`3\x1c` are rejected with ValueError; a repeated index keeps its first position and its last value -/
theorem libsvm_numerals_counterexample :
    libsvmReadPy [[49, 32, 49, 95, 48, 58, 50]] = .ok [([(10, [50])], [[49]])] ∧
    libsvmReadPy [[49, 32, 49, 95, 95, 48, 58, 50]] = .error .valueError ∧
    libsvmReadPy [[49, 32, 51, 58, 49, 101]] = .error .valueError ∧
    libsvmReadPy [[49, 32, 51, 28, 58, 49]] = .error .valueError ∧
    libsvmReadPy [[49, 32, 51, 58, 49, 32, 52, 58, 50, 32, 51, 58, 57]] = .ok [([(3, [57]), (4, [50])], [[49]])] := by
  refine ⟨?_, ?_, ?_, ?_, ?_⟩ <;> rfl

/-! ### phase 6: histories of DiskSink / DiskSource operations over any number of files -/

/-- For EVERY history of `DiskSink(p, batch=b).write(lines)`, complete `DiskSource(p).read()` and reads abandoned after `k`
lines, over any number of paths, in any order (write/read/write/read; read, abandon, read again, read a sibling): every read
returns exactly the lines written to *that* path so far, in order (the first `k` of them when abandoned;
FileNotFoundError before the first write) — independent of every earlier read and of every operation on another path.
Lines are Python strings without `\r`/`\n` (`diskOpOk`); plain files. -/
theorem disk_history_roundtrip (ops : List DiskOp) (hok : ∀ op ∈ ops, diskOpOk op = true) :
    diskRun List.flatten [] ops = .ok (diskSpecRun [] ops) :=
  disk_history' List.flatten (fun _ => rfl) ops hok [] [] diskInv_empty

/-- the same for `.gz` paths: every batch of every write is one more gzip member; assumed of gzip only that reading a
multi-member file yields the concatenation of the members' contents (as in `disk_roundtrip_gz`) -/
theorem disk_history_roundtrip_gz (gz gunzip : List Nat → List Nat)
    (hgz : ∀ parts : List (List Nat), gunzip (parts.map gz).flatten = parts.flatten)
    (ops : List DiskOp) (hok : ∀ op ∈ ops, diskOpOk op = true) :
    diskRun (fun parts => gunzip (parts.map gz).flatten) [] ops = .ok (diskSpecRun [] ops) :=
  disk_history' _ hgz ops hok [] [] diskInv_empty

/-- non-vacuity: write `a` to path 0, read it, abandon a read, write `é` to the sibling path 1 and `b` to path 0 in batches
of 1, read both -/
example :
    let ops := [DiskOp.write 0 none [[97]], .read 0, .readk 0 0, .read 1, .write 1 (some 1) [[233]], .write 0 (some 1) [[98], []],
                .read 0, .readk 0 2, .read 1]
    (∀ op ∈ ops, diskOpOk op = true) ∧
    diskSpecRun [] ops = [.wrote, .lines (.ok [[97]]), .lines (.ok []), .nofile, .wrote, .wrote,
                          .lines (.ok [[97], [98], []]), .lines (.ok [[97], [98]]), .lines (.ok [[233]])] := by
  decide

/-- `diskOpOk` is needed: a `\r` inside a written line comes back as a line boundary in a later read of the history -/
theorem disk_history_cr_counterexample :
    diskRun List.flatten [] [.write 0 none [[97, 13, 98]], .read 0] = .ok [.wrote, .lines (.ok [[97], [98]])] ∧
    diskSpecRun [] [.write 0 none [[97, 13, 98]], .read 0] = [.wrote, .lines (.ok [[97, 13, 98]])] := by
  decide

/-! ### phase 6: the labelled CSV pipeline `CsvReader | LabelRows(label, tipe)` (label_col pass-through) -/

/-- Every table an RFC 4180 writer produces (hypotheses of `csv_roundtrip`; all records of one width `n`, with or without a
header record), read through `CsvReader(has_header) | LabelRows(label)`: for every label reference that names a column of
the table (`labelCol`: an index `0 ≤ i < n`, a negative index `-n ≤ i < 0` counted from the end, or a name in the header)
every data row comes back as (the other written cells in written order, the written cell of the label column). -/
theorem csv_label_roundtrip (delim : Nat) (hd1 : delim ≠ DQ) (hd2 : isNl delim = false)
    (hdr : Option (List (Bool × Text))) (rows : List (List (Bool × Text)))
    (hok : ∀ r ∈ hdr.toList ++ rows, csvRowOk r = true) (n : Nat) (hw : ∀ r ∈ hdr.toList ++ rows, r.length = n)
    (ref : LabelRef) (j : Nat) (hc : labelCol (hdr.map (·.map (·.2))) n ref = some j) :
    csvLabelRead (excel delim) hdr.isSome ref ((hdr.toList ++ rows).map (csvWriteRow delim)) =
      .ok (some ((rows.map (·.map (·.2))).map (labelSplit j))) :=
  csv_label_roundtrip' delim hd1 hd2 hdr rows hok n hw ref j hc

/-- the column found is inside the table, and a name reference finds a column carrying that name's index in the header dict -/
theorem csv_label_col_in_range (hdr : Option (List Text)) (n : Nat) (ref : LabelRef) (j : Nat)
    (hh : ∀ h, hdr = some h → h.length = n) (hc : labelCol hdr n ref = some j) : j < n :=
  (labelIndex_col hdr n ref j hh hc).2

/-- non-vacuity: header `a,b,y`, label `-1`, `0` and `y` -/
example :
    labelCol (some [[97], [98], [121]]) 3 (.idx (-1)) = some 2 ∧ labelCol (some [[97], [98], [121]]) 3 (.idx 0) = some 0 ∧
    labelCol (some [[97], [98], [121]]) 3 (.name [121]) = some 2 ∧
    labelSplit 2 [[49], [50], [51]] = ([[49], [50]], [51]) ∧ labelSplit 0 [[49], [50], [51]] = ([[50], [51]], [49]) := by
  decide

/-- outside `labelCol` the pipeline raises or picks by the header dict: index `n` and `-n-1` raise when the row is
materialised, a name without header / an unknown name raises, and of two columns with the same name the LAST is the label -/
theorem csv_label_boundary_counterexample :
    labelRows none (.idx 2) [[[49], [50]]] = none ∧ labelRows none (.idx (-3)) [[[49], [50]]] = none ∧
    labelRows none (.name [97]) [[[49], [50]]] = none ∧ labelRows (some [[97], [98]]) (.name [99]) [[[49], [50]]] = none ∧
    labelRows (some [[97], [97]]) (.name [97]) [[[49], [50]]] = some [([[49]], [50])] ∧
    labelRows none (.idx (-2)) [[[49], [50]]] = some [([[50]], [49])] := by
  decide

end Coba.C12
