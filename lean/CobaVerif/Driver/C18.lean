import CobaVerif.Driver.JsonUtil
import CobaVerif.Model.C18
open Lean Coba.J

namespace Coba.C18.Driver
open Coba.C18

def errName : Err → String
  | .indexError => "IndexError" | .keyError => "KeyError" | .zeroDivision => "ZeroDivisionError"
  | .typeError => "TypeError" | .assertion => "AssertionError" | .coba => "CobaException"
  | .statistics => "StatisticsError"

def exc {α} (f : α → Json) : Except Err α → Json
  | .ok a => obj [("ok", f a)]
  | .error e => obj [("err", Json.str (errName e))]

def parseCol (j : Json) : Except String Col := do
  match j with
  | .str "eid" => pure .eid
  | .str "lid" => pure .lid
  | .str "vid" => pure .vid
  | .arr #[.str "ep", n] => pure (.ep (← nat n))
  | .arr #[.str "lp", n] => pure (.lp (← nat n))
  | .arr #[.str "vp", n] => pure (.vp (← nat n))
  | _ => throw s!"bad column {j.compress}"

def parseCols (j : Json) : Except String (List Col) := do (← arr j).mapM parseCol

def parsePRow (j : Json) : Except String PRow := do
  match j with
  | .arr #[i, c] => pure { id := ← nat i, cells := ← intList c }
  | _ => throw "bad parameter row"

def parseIRow (j : Json) : Except String IRow := do
  match j with
  | .arr #[e, l, v, i, y] => pure { e := ← nat e, l := ← nat l, v := ← nat v, idx := ← nat i, y := ← int y }
  | _ => throw "bad interaction row"

def parseResult (j : Json) : Except String Result := do
  pure { envs := ← (← arr (← field j "envs")).mapM parsePRow,
         lrns := ← (← arr (← field j "lrns")).mapM parsePRow,
         evals := ← (← arr (← field j "evals")).mapM parsePRow,
         ints := ← (← arr (← field j "ints")).mapM parseIRow }

def pRowToJson (p : PRow) : Json := Json.arr #[ofNat p.id, ofList ofInt p.cells]
def iRowToJson (r : IRow) : Json := Json.arr #[ofNat r.e, ofNat r.l, ofNat r.v, ofNat r.idx, ofInt r.y]
def resultToJson (r : Result) : Json :=
  obj [("envs", ofList pRowToJson r.envs), ("lrns", ofList pRowToJson r.lrns),
       ("evals", ofList pRowToJson r.evals), ("ints", ofList iRowToJson r.ints)]

def parseN (j : Json) : Except String (Option NSpec) := do
  match j with
  | .null => pure none
  | .str "min" => pure (some .min)
  | _ => pure (some (.k (← nat j)))

def parseLP (j : Json) : Except String (Option (List Col × List Col)) := do
  if j.isNull then pure none
  else pure (some (← parseCols (← field j "l"), ← parseCols (← field j "p")))

def parseWeights (j : Json) : Except String Weights := do
  match j with
  | .null => pure .none
  | .str "exp" => pure .exp
  | _ => pure (.ws (← ratList j))

def parseX (j : Json) : Except String XSpec := do
  match j with
  | .str "index" => pure .index
  | _ => pure (.cols (← parseCols j))

def rawToJson (d : List ((Key × Key) × List Rat)) : Json :=
  ofList (fun (e : (Key × Key) × List Rat) =>
    Json.arr #[ofList ofInt e.1.1, ofList ofInt e.1.2, ofList ratToJson e.2]) d

def wf (r : Result) : Bool :=
  decide (SortedIds r.ints) && decide (UniqueIds r) && decide (RefsPresent r) && decide (IdxWF r.ints)

def parsePyVal (j : Json) : Except String PyVal := do
  match j with
  | .arr #[.str "none"] => pure PyVal.none
  | .arr #[.str "num", q] => pure (PyVal.num (← ratOfJson q))
  | .arr #[.str "str", cs] => pure (PyVal.str (← (← arr cs).mapM nat))
  | .arr #[.str "fset", cs] => pure (PyVal.fset (← (← arr cs).mapM nat))
  | _ => throw "bad PyVal"

/-- `labs`: array of `[x1, x2, pyval]` -/
def parseLabs (j : Json) : Except String (List ((Key × Key) × PyVal)) := do
  (← arr j).mapM (fun (t : Json) => do
    match t with
    | .arr #[a, b, v] => pure (((← intList a, ← intList b), ← parsePyVal v) : (Key × Key) × PyVal)
    | _ => throw "bad label")


/-- requests (field `kind`):
 `ma`    {vs, span, w}                     → model / spec of `moving_average`
 `fin`   {res, n, lp}                      → `where_fin`: model with and without the proposed fix, spec, hypotheses
 `where` {res, tbl, j, vals}               → simple `where`
 `raw`   {res, x, l, p, span}              → `raw_learners` model (both variants) and spec
 `remove`{ts, ids, cut}                    → `_remove` row numbers -/
def handle1 (req : Json) : Except String Json := do
  let kind ← str (← field req "kind")
  match kind with
  | "ma" =>
    let vs ← ratList (← field req "vs")
    let span ← opt nat (fieldD req "span" Json.null)
    let w ← parseWeights (fieldD req "w" Json.null)
    pure (obj [("model", exc (ofList ratToJson) (movingAverage vs span w)),
               ("spec", exc (ofList ratToJson) (movingAverageS vs span w))])
  | "fin" =>
    let r ← parseResult (← field req "res")
    let n ← parseN (fieldD req "n" Json.null)
    let lp ← parseLP (fieldD req "lp" Json.null)
    pure (obj [("model", exc resultToJson (filterFin true r n lp)),
               ("legacy", exc resultToJson (filterFin false r n lp)),
               ("spec", exc resultToJson (whereFinS r n lp)),
               ("joint", exc resultToJson (filterFinD r n lp)),
               ("specJ", exc resultToJson (whereFinJ r n lp)),
               ("hyp", Json.bool (wf r)),
               ("allref", Json.bool (decide (AllReferenced r)))])
  | "where" =>
    let r ← parseResult (← field req "res")
    let tb ← match (← str (← field req "tbl")) with
      | "env" => pure Tbl.env | "lrn" => pure Tbl.lrn | "val" => pure Tbl.val
      | s => throw s!"bad table {s}"
    let j ← opt nat (fieldD req "j" Json.null)
    let vals ← intList (← field req "vals")
    pure (obj [("model", obj [("ok", resultToJson (whereTbl r tb j vals))])])
  | "raw" =>
    let r ← parseResult (← field req "res")
    let x ← parseX (← field req "x")
    let lc ← parseCols (← field req "l")
    let pc ← opt parseCols (fieldD req "p" Json.null)
    let span ← opt nat (fieldD req "span" Json.null)
    pure (obj [("model", exc rawToJson (rawLearners true r x lc pc span)),
               ("legacy", exc rawToJson (rawLearners false r x lc pc span)),
               ("spec", exc rawToJson (rawLearnersS r x lc pc span)),
               ("hyp", Json.bool (wf r))])
  | "best" =>
    let r ← parseResult (← field req "res")
    let lc ← parseCols (← field req "l")
    let pc ← parseCols (← field req "p")
    let fl ← parseCols (← field req "fl")
    let fp ← parseCols (← field req "fp")
    let n ← opt nat (fieldD req "n" Json.null)
    let ord ← opt (fun j => do (← arr j).mapM (fun (t : Json) => do
      match t with
      | .arr #[a, b, c] => pure ((← nat a, ← nat b, ← nat c) : Triple)
      | _ => throw "bad triple")) (fieldD req "order" Json.null)
    let lv : List BEnt → List Key := match ord with | none => sortLv | some o => ordLv o
    pure (obj [("model", exc resultToJson (filterBestW lv r lc pc n fl fp)),
               ("spec", exc resultToJson (whereBestSW lv r lc pc n fl fp)),
               ("hyp", Json.bool (wf r))])
  | "contrast" =>
    let r ← parseResult (← field req "res")
    let parseSel := fun (j : Json) => do
      (← arr j).mapM (fun (e : Json) => do
        let tb ← match (← str (← field e "tbl")) with
          | "env" => pure Tbl.env | "lrn" => pure Tbl.lrn | "val" => pure Tbl.val
          | s => throw s!"bad table {s}"
        let jj ← opt nat (fieldD e "j" Json.null)
        let v ← int (← field e "v")
        pure (tb, jj, v))
    let sel1 ← (← arr (← field req "sels1")).mapM parseSel
    let sel2 ← (← arr (← field req "sels2")).mapM parseSel
    let strX ← bool (fieldD req "strx" (Json.bool true))
    let pc ← parseCols (← field req "p")
    let x ← parseX (← field req "x")
    let span ← opt nat (fieldD req "span" Json.null)
    let out := fun (d : List ((Key × Key) × List (Rat × Rat))) =>
      ofList (fun (e : (Key × Key) × List (Rat × Rat)) =>
        Json.arr #[ofList ofInt e.1.1, ofList ofInt e.1.2,
          ofList (fun (q : Rat × Rat) => Json.arr #[ratToJson q.1, ratToJson q.2]) e.2]) d
    let labs ← opt parseLabs (fieldD req "labs" Json.null)
    match labs with
    | some lb =>
      pure (obj [("modelpy", exc out (rawContrastPy r sel1 sel2 pc x span lb)),
                 ("specpy", exc out (rawContrastPyS r sel1 sel2 pc x span lb))])
    | none =>
      pure (obj [("model", exc out (rawContrast r sel1 sel2 pc x span strX)),
                 ("spec", exc out (rawContrastS r sel1 sel2 pc x span strX))])
  | "plotc" =>
    let r ← parseResult (← field req "res")
    let parseSel := fun (j : Json) => do
      (← arr j).mapM (fun (e : Json) => do
        let tb ← match (← str (← field e "tbl")) with
          | "env" => pure Tbl.env | "lrn" => pure Tbl.lrn | "val" => pure Tbl.val
          | s => throw s!"bad table {s}"
        let jj ← opt nat (fieldD e "j" Json.null)
        let v ← int (← field e "v")
        pure (tb, jj, v))
    let sel1 ← (← arr (← field req "sels1")).mapM parseSel
    let sel2 ← (← arr (← field req "sels2")).mapM parseSel
    let strX ← bool (fieldD req "strx" (Json.bool true))
    let pc ← parseCols (← field req "p")
    let x ← parseX (← field req "x")
    let span ← opt nat (fieldD req "span" Json.null)
    let mode ← match (← str (← field req "mode")) with
      | "diff" => pure CMode.diff | "prob" => pure CMode.prob | s => throw s!"bad mode {s}"
    let ci ← match (← str (← field req "ci")) with
      | "none" => pure (none : Option CiFn) | "range" => pure (some rangeCi) | s => throw s!"bad ci {s}"
    let errevery ← opt nat (fieldD req "errevery" Json.null)
    let kind ← match (← str (← field req "xkind")) with
      | "index" => pure XKind.index | "isL" => pure XKind.isL | "other" => pure XKind.other | s => throw s!"bad xkind {s}"
    let xord ← opt (fun j => do (← arr j).mapM (fun (t : Json) => do
      match t with
      | .arr #[a, b] => pure ((← intList a, ← intList b) : Key × Key)
      | _ => throw "bad x key")) (fieldD req "xord" Json.null)
    let out := fun (d : List (List CPoint)) =>
      ofList (fun (l : List CPoint) => ofList (fun (p : CPoint) =>
        Json.arr #[ofList ofInt p.x.1, ofList ofInt p.x.2, ratToJson p.y, ratToJson p.lo, ratToJson p.hi]) l) d
    let labs ← opt parseLabs (fieldD req "labs" Json.null)
    match labs with
    | some lb =>
      pure (obj [("model", exc out (plotContrastPy r sel1 sel2 pc x span lb mode ci errevery kind)),
                 ("spec", exc out (plotContrastPyS r sel1 sel2 pc x span lb mode ci errevery kind))])
    | none =>
      pure (obj [("model", exc out (plotContrast r sel1 sel2 pc x span strX xord mode ci errevery kind)),
                 ("spec", exc out (plotContrastS r sel1 sel2 pc x span strX xord mode ci errevery kind))])
  | "errevery" =>
    let ns ← (← arr (← field req "ns")).mapM nat
    pure (obj [("model", ofList ofNat (ns.map errEveryDefault)), ("bound", ofNat int005Bound)])
  | "pysort" =>
    let vals ← (← arr (← field req "vals")).mapM parsePyVal
    let out := fun (l : List PyVal) => ofList (fun (v : PyVal) =>
      match v with
      | .none => Json.arr #[Json.str "none"]
      | .num q => Json.arr #[Json.str "num", ratToJson q]
      | .str cs => Json.arr #[Json.str "str", ofList ofNat cs]
      | .fset cs => Json.arr #[Json.str "fset", ofList ofNat cs]) l
    pure (obj [("model", exc out (pySorted vals))])
  | "complete" =>
    let r ← parseResult (← field req "res")
    let lc ← parseCols (← field req "l")
    let pc ← parseCols (← field req "p")
    pure (obj [("model", exc Json.bool (pairingComplete r lc pc)),
               ("lengths", ofList ofNat ((runs r.ints).map (fun g => g.2.length)))])
  | "remove" =>
    let ts ← (← arr (← field req "ts")).mapM (fun j => do
      match j with
      | .arr #[a, b, c] => pure ((← nat a, ← nat b, ← nat c) : Triple)
      | _ => throw "bad triple")
    let ids ← (← arr (← field req "ids")).mapM (fun j => do
      match j with
      | .arr #[a, b, c] => pure ((← nat a, ← nat b, ← nat c) : Triple)
      | _ => throw "bad triple")
    let cut ← nat (fieldD req "cut" (ofNat 0))
    pure (obj [("model", exc (ofList ofNat) (remove ts ids cut))])
  | _ => throw s!"unknown kind {kind}"

/-- the request's `tok` is echoed so that the harness can re-synchronise after an abandoned request -/
def handle (req : Json) : Except String Json := do
  let r ← handle1 req
  pure (r.setObjVal! "tok" (fieldD req "tok" Json.null))

end Coba.C18.Driver
