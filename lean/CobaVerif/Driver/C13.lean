import CobaVerif.Driver.JsonUtil
import CobaVerif.Model.C13
open Lean Coba.J

namespace Coba.C13.Driver
open Coba.C13

def parseVal (j : Json) : Except String Val := do
  if j.isNull then return .none
  match j with
  | .num _ => return .int (← int j)
  | .str s => return .str s
  | _ =>
    match j.getObjVal? "cat" with
    | .ok c => return .cat (← str c) (← strList (← field j "lv"))
    | .error _ =>
      match j.getObjVal? "tup" with
      | .ok t => return .tup (← intList t)
      | .error _ => throw s!"cell expected, got {j.compress}"

def parseKey (j : Json) : Except String Key := do
  match j with
  | .num _ => return .pos (← nat j)
  | .str s => return .name s
  | _ => throw s!"key expected, got {j.compress}"

def parseEnc (j : Json) : Except String Enc := do
  match j with
  | .str "id" => return .ident
  | .str "int" => return .toInt
  | .str "str" => return .toStr
  | .str "inc" => return .inc
  | .str "dbl" => return .dbl
  | .str "anum" => return .anum
  | .str "astr" => return .astr
  | _ =>
    match j.getObjVal? "acat" with
    | .ok l => return .acat (← strList l)
    | .error _ => throw s!"encoder expected, got {j.compress}"

def pair {α β} (f : Json → Except String α) (g : Json → Except String β) (j : Json) : Except String (α × β) := do
  match (← arr j) with
  | [a, b] => return (← f a, ← g b)
  | _ => throw s!"pair expected, got {j.compress}"

def listOf {α} (f : Json → Except String α) (j : Json) : Except String (List α) := do (← arr j).mapM f

def parseCol (j : Json) : Except String Col := do
  let name ← str (← field j "name")
  let t ← str (← field j "t")
  match t with
  | "num" => return ⟨name, .num⟩
  | "str" => return ⟨name, .str⟩
  | "cat" => return ⟨name, .cat (← strList (← field j "lv"))⟩
  | _ => throw s!"column type {t}"

def parsePred (j : Json) : Except String (Option Pred) := do
  if j.isNull then return none
  match (← str (← field j "p")) with
  | "missing" => return some .missing
  | "eq" => return some (.cellEq (← parseKey (← field j "k")) (← parseVal (← field j "v")))
  | p => throw s!"predicate {p}"

def parseMode (j : Json) : Except String (Option CatMode) := do
  if j.isNull then return none
  match (← str j) with
  | "onehot" => return some .onehot
  | "onehot_tuple" => return some .onehotTuple
  | "string" => return some .string
  | m => throw s!"mode {m}"

def parseStage (j : Json) : Except String Stage := do
  match (← str (← field j "op")) with
  | "head" =>
    match j.getObjVal? "map" with
    | .ok m => return .headMap (← listOf (pair str parseKey) m)
    | .error _ => return .headNames (← strList (← field j "names"))
  | "encode" =>
    match j.getObjVal? "map" with
    | .ok m => return .encodeMap (← listOf (pair parseKey parseEnc) m)
    | .error _ => return .encodeSeq (← listOf parseEnc (← field j "seq"))
  | "drop" => return .drop (← listOf parseKey (← field j "cols")) (← parsePred (fieldD j "pred" Json.null))
  | "label" => return .label (← parseKey (← field j "k")) (← opt str (fieldD j "t" Json.null))
  | "enccat" => return .enccat (← parseMode (fieldD j "t" Json.null))
  | o => throw s!"stage {o}"

partial def parseAcc (dense : Bool) (j : Json) : Except String (Option Acc) := do
  match (← str (← field j "a")) with
  | "pos" => return some (.pos (← nat (← field j "i")))
  | "name" => return some (.name (← parseKey (← field j "k")))
  | "iter" => return some .iter
  | "len" => return some .len
  | "keys" => return some .keys
  | "items" => return some .items
  | "copy" => return some .copy
  | "headers" => return some .headers
  | "label" => return some .label
  | "tipe" => return some .tipe
  | "eq" =>
    match j.getObjVal? "other" with
    | .error _ => return none
    | .ok o =>
      if o.isNull then return none
      else if dense then return some (.eq (.list (← listOf parseVal o)))
      else return some (.eq (.dict (← listOf (pair parseKey parseVal) o)))
  | "feats" =>
    match (← parseAcc dense (← field j "sub")) with
    | some s => return some (.feats s)
    | none => return none
  | "clone" =>
    match (← parseAcc dense (← field j "sub")) with
    | some s => return some (.clone s)
    | none => return none
  | "skip" => return none
  | a => throw s!"access {a}"

def num (i : Int) : Json := Json.arr #[Json.str "n", ofInt i, ofNat 1]

def valJ : Val → Json
  | .none => Json.null
  | .int i => num i
  | .str s => Json.arr #[Json.str "s", Json.str s]
  | .cat s lv => Json.arr #[Json.str "c", Json.str s, ofList Json.str lv]
  | .tup l => Json.arr #[Json.str "t", ofList num l]
  | .flt i => num i

def keyJ : Key → Json
  | .pos n => num n
  | .name s => Json.arr #[Json.str "s", Json.str s]

def v (j : Json) : Json := obj [("v", j)]

def obsJ : Obs → Json
  | .val x => v (valJ x)
  | .vals l => v (ofList valJ l)
  | .nat n => v (ofNat n)
  | .keys l => v (ofList keyJ l)
  | .dict d => v (ofList (fun p => Json.arr #[keyJ p.1, valJ p.2]) d)
  | .hdr h => v (ofList (fun p => Json.arr #[Json.arr #[Json.str "s", Json.str p.1], ofNat p.2]) h)
  | .bool b => v (Json.bool b)
  | .ostr none => v Json.null
  | .ostr (some s) => v (Json.arr #[Json.str "s", Json.str s])
  | .err => obj [("e", ofNat 1)]
  | .undef => obj [("u", ofNat 1)]

def obsOpt {ρ} (f : ρ → Acc → Obs) (r : ρ) : Option Acc → Json
  | some a => obsJ (f r a)
  | none => obsJ .undef

/-- answer for one table: model side, spec side, stateful run -/
def errName : Err → String
  | .indexError => "IndexError" | .keyError => "KeyError" | .typeError => "TypeError" | .valueError => "ValueError"
  | .attrError => "AttributeError" | .cobaError => "CobaException"

def errOpt {ρ} (f : ρ → Acc → Option Err) (r : ρ) : Option Acc → Json
  | some a => match f r a with | some e => Json.str (errName e) | none => Json.null
  | none => Json.null

def answer {ρ ε} (table : Res (List ρ)) (etable : Res (List ε)) (ri : Nat) (accs : List (Option Acc))
    (obs : ρ → Acc → Obs) (eobs : ε → Acc → Obs) (run : ρ → List Acc → List Obs)
    (errf : ρ → Acc → Option Err) (eerrf : ε → Acc → Option Err) : Json :=
  let model := match table with
    | .error _ => obj [("pipe_err", ofNat 1)]
    | .ok rs =>
      match rs[ri]? with
      | none => obj [("n", ofNat rs.length), ("no_row", Json.bool true)]
      | some r =>
        let plainAccs := accs.filterMap id
        obj [("n", ofNat rs.length), ("first", ofList (obsOpt obs r) accs), ("errs", ofList (errOpt errf r) accs),
             ("run", ofList obsJ (run r (plainAccs ++ plainAccs)))]
  let (spec, hyp) := match etable with
    | .error _ => (Json.null, false)
    | .ok es =>
      match es[ri]? with
      | none => (obj [("n", ofNat es.length), ("no_row", Json.bool true)], true)
      | some e => (obj [("n", ofNat es.length), ("first", ofList (obsOpt eobs e) accs), ("errs", ofList (errOpt eerrf e) accs)], true)
  obj [("model", model), ("spec", spec), ("hyp", Json.bool hyp)]

/-- a parsed table of a request: the model's table and what is needed to answer for it -/
structure Parsed where
  table : Table
  ri : Nat
  accs : List (Option Acc)

def parseTable (c : Json) : Except String Parsed := do
  let kind ← str (← field c "kind")
  let base ← field c "base"
  let wrap ← str (← field base "wrap")
  let ri ← nat (← field c "ri")
  let rows ← arr (← field c "rows")
  let miss ← listOf bool (← field c "miss")
  let loader := match (fieldD base "loader" Json.null).getBool? with | .ok b => b | .error _ => false
  let hdr ← opt strList (fieldD base "hdr" Json.null)
  let pre ← match c.getObjVal? "pre" with | .ok p => listOf parseStage p | .error _ => pure []
  if kind == "dense" then
    let accs ← listOf (parseAcc true) (← field c "acc")
    let enc ← opt (listOf parseEnc) (fieldD base "enc" Json.null)
    let bases ← (rows.zip miss).mapM (fun (p : Json × Bool) => do
      let vals ← listOf parseVal p.1
      match wrap with
      | "plain" => pure (DBase.plain vals)
      | "tuple" => pure (DBase.plain vals)
      | "lazy" => pure (DBase.lazy vals loader enc hdr p.2)
      | "arff" => pure (DBase.arff (← listOf parseCol (← field base "cols")) vals p.2)
      | w => throw s!"wrap {w}")
    pure ⟨.dense pre bases, ri, accs⟩
  else
    let accs ← listOf (parseAcc false) (← field c "acc")
    let enc ← opt (listOf (pair parseKey parseEnc)) (fieldD base "enc" Json.null)
    let bases ← (rows.zip miss).mapM (fun (p : Json × Bool) => do
      let d ← listOf (pair parseKey parseVal) p.1
      match wrap with
      | "plain" => pure (SBase.plain d)
      | "lazy" => pure (SBase.lazy d loader (enc.getD []) hdr p.2)
      | "arff" => pure (SBase.arff (← listOf parseCol (← field base "cols")) d p.2)
      | w => throw s!"wrap {w}")
    pure ⟨.sparse pre bases, ri, accs⟩

def missJ : Res Bool → Json
  | .ok b => v (Json.bool b)
  | .error _ => obj [("e", ofNat 1)]

/-- Phase 5: `headers` / `missing` (dense), `_inv` / `missing` (sparse) of the observed row seen through d = 0..3 extra `EncodeRows({})` views (`probeD` / `probeS`) -/
def probeDJ (t : Res (List DRow)) (ri : Nat) : Json :=
  match t with
  | .ok rs => match rs[ri]? with
    | some r => ofList (fun d => obj [("headers", obsJ (ofRes .hdr (probeD d r).headers)), ("missing", missJ (probeD d r).missing), ("len", ofNat (probeD d r).len)]) [0, 1, 2, 3]
    | none => Json.null
  | .error _ => Json.null

def probeSJ (t : Res (List SRow)) (ri : Nat) : Json :=
  match t with
  | .ok rs => match rs[ri]? with
    | some r => ofList (fun d => obj [("inv", ofList (fun (p : Key × Key) => Json.arr #[keyJ p.1, keyJ p.2]) (probeS d r).invOf), ("missing", missJ (probeS d r).missing)]) [0, 1, 2, 3]
    | none => Json.null
  | .error _ => Json.null

/-- per access: is it an `==` on which the length-blind comparison `eqPadded` answers differently from the model's `==` (tags only) -/
def padJ (t : Res (List DRow)) (ri : Nat) (accs : List (Option Acc)) : Json :=
  match t with
  | .ok rs => match rs[ri]? with
    | some r => ofList (fun (a : Option Acc) => match a with
        | some (.eq (.list o)) => (match r.iter with | .ok xs => Json.bool (eqPadded xs o != r.eqList o) | .error _ => Json.bool false)
        | _ => Json.bool false) accs
    | none => Json.null
  | .error _ => Json.null

/-- Phase 6: the observed row iterated element by element: `takeN n` (`pull n stream`) for n = 0 .. length+1, of the row and of `row.feats`;
`after` = the same after an abandoned partial iteration (`stepTake`) -/
def errJ : Option Err → Json
  | some e => Json.str (errName e)
  | none => Json.null

def takeJ (p : List Val × Option Err) : Json := obj [("vals", ofList valJ p.1), ("err", errJ p.2)]

def walkOf (r : DRow) : Json := ofList (fun n => takeJ (r.takeN n)) (List.range (r.stream.length + 2))

def walkDJ (t : Res (List DRow)) (ri : Nat) : Json :=
  match t with
  | .ok rs => match rs[ri]? with
    | some r => obj [("row", walkOf r), ("after", walkOf (stepTake r 1).2),
                     ("feats", match r.feats with | .ok f => walkOf f | .error _ => Json.null)]
    | none => Json.null
  | .error _ => Json.null

/-- the answer for one table from what `session` produced for it -/
def answerOf (stages : List Stage) (p : Parsed) (out : TableOut) : Json :=
  match p.table, out with
  | .dense pre bases, .dense t =>
    -- hypothesis of `first_row_irrelevant`: every row looks like the first one at every stage
    (answer t (eagerTableD (pre ++ stages) bases) p.ri p.accs obsD eagerObsD runD errD eagerErrD).setObjVal! "uniform" (Json.bool (uniformRun (pre ++ stages) (bases.map baseD)))
      |>.setObjVal! "probe" (probeDJ t p.ri) |>.setObjVal! "pad" (padJ t p.ri p.accs) |>.setObjVal! "walk" (walkDJ t p.ri)
  | .sparse pre bases, .sparse t =>
    -- hypotheses of the sparse theorems: no stage addresses a hidden raw key of a header-mapped base
    let safe := bases.all (fun b => leakSafe (!(baseS b).leak.isEmpty) (pre ++ stages))
    -- hypothesis of `first_row_irrelevant_sparse`: every dict looks like the first one at every stage
    ((answer t (eagerTableS (pre ++ stages) bases) p.ri p.accs obsS eagerObsS runS errS eagerErrS).setObjVal! "leak_safe" (Json.bool safe)).setObjVal!
      "uniform" (Json.bool (uniformRunS (pre ++ stages) (bases.map baseS))) |>.setObjVal! "probe" (probeSJ t p.ri)
  | _, _ => obj [("model", obj [("pipe_err", ofNat 1)]), ("spec", Json.null), ("hyp", Json.bool false)]

/-- request `{"case": table}` or `{"tables": [table…], "stages": […]}`: the tables go through `session`
(one set of filter objects, one table after the other); one answer per table -/
def handle (req : Json) : Except String Json := do
  match req.getObjVal? "tables" with
  | .ok ts =>
    let stages ← listOf parseStage (← field req "stages")
    let ps ← (← arr ts).mapM parseTable
    let outs := session stages (ps.map (·.table))
    pure (ofList id ((ps.zip outs).map (fun (q : Parsed × TableOut) => answerOf stages q.1 q.2)))
  | .error _ =>
    let c ← field req "case"
    let stages ← listOf parseStage (← field c "stages")
    let p ← parseTable c
    match session stages [p.table] with
    | [out] => pure (answerOf stages p out)
    | _ => throw "session"

end Coba.C13.Driver
