import CobaVerif.Driver.JsonUtil
import CobaVerif.Model.C09
open Lean Coba.J

namespace Coba.C09.Driver
open Coba.C09

structure Item where
  id : Nat
  logged : Bool
  hasCtx : Bool
  ctx : Ctx
  nact : Nat
  record : Rec Nat

def errName : Err → String
  | .typeError => "TypeError" | .indexError => "IndexError" | .valueError => "ValueError"
  | .zeroDivision => "ZeroDivisionError" | .keyError => "KeyError" | .stepsExhausted => "StepsExhausted"

def errOfName : String → Err
  | "TypeError" => .typeError | "IndexError" => .indexError | "ValueError" => .valueError
  | "ZeroDivisionError" => .zeroDivision | "KeyError" => .keyError | _ => .valueError

def parseVal (j : Json) : Except String Val := do
  match j.getObjVal? "n" with
  | .ok v => pure (.num (← ratOfJson v))
  | .error _ => pure (.str (← natList (← field j "s")))

def parseCtx (j : Json) : Except String Ctx := do
  if j.isNull then pure .none else
  match j.getObjVal? "d" with
  | .ok v => pure (.dense (← (← arr v).mapM parseVal))
  | .error _ =>
    match j.getObjVal? "sp" with
    | .ok v => pure (.sparse (← (← arr v).mapM (fun p => do
        match p with
        | .arr #[a, b] => pure (← parseVal a, ← parseVal b)
        | _ => throw "pair expected")))
    | .error _ => pure (.scalar (← parseVal j))

def parseItem (j : Json) : Except String Item := do
  let id ← nat (← field j "id")
  let logged ← bool (fieldD j "logged" (Json.bool false))
  let hasCtx ← bool (fieldD j "hasCtx" (Json.bool true))
  let ctx ← parseCtx (fieldD j "ctx" Json.null)
  let nact ← nat (fieldD j "nact" (ofNat 0))
  let record ← (← arr (fieldD j "rec" (Json.arr #[]))).mapM (fun p => do
    match p with
    | .arr #[k, v] => pure (← str k, ← nat v)
    | _ => throw "key/token pair expected")
  pure { id, logged, hasCtx, ctx, nact, record }

def parseSeed (j : Json) : Except String Nat := do
  match (j.getObjVal? "int") with
  | .ok v => pure (C05.normInt (← int v))
  | .error _ => pure (C05.normBytes (← natList (← field j "bytes")))

def parseRange (j : Json) : Except String Range := do
  match j with
  | .arr #[a, b] => pure (← opt nat a, ← opt nat b)
  | _ => throw "range [min,max] expected"

def parseStep (j : Json) : Except String Step := do
  match j with
  | .arr #[a, b] => pure (.skip (← nat a) (← nat b))
  | _ => pure (.raise (errOfName (← str (← field j "raise"))))

def ids (l : List Item) : Json := ofList (fun (i : Item) => ofNat i.id) l

def outIds (r : Except Err (List Item)) : Json :=
  match r with
  | .ok l => obj [("out", ids l)]
  | .error e => obj [("err", Json.str (errName e))]

def recJson (r : Rec Nat) : Json := ofList (fun (p : String × Nat) => Json.arr #[Json.str p.1, ofNat p.2]) r

def batchedJson : Batched Nat → Json
  | .plain r => obj [("plain", recJson r)]
  | .batch cols => obj [("batch", ofList (fun (p : String × List Nat) => Json.arr #[Json.str p.1, ofList ofNat p.2]) cols)]

def handle (req : Json) : Except String Json := do
  let op ← str (← field req "op")
  let items ← (← arr (← field req "items")).mapM parseItem
  match op with
  | "pshuffle" =>
    let s ← parseSeed (← field req "seed")
    pure (obj [("out", ids (pShuffle s items))])
  | "eshuffle" =>
    let s ← parseSeed (← field req "seed")
    let ls ← parseSeed (← field req "lseed")
    pure (obj [("out", ids (eShuffle (·.logged) s ls items))])
  | "take" =>
    let c ← opt nat (fieldD req "count" Json.null)
    let strict ← bool (← field req "strict")
    pure (obj [("out", ids (take c strict items)), ("spec", ids (takeSpec c strict items))])
  | "slice" =>
    let a ← opt nat (fieldD req "start" Json.null)
    let b ← opt nat (fieldD req "stop" Json.null)
    let st ← nat (← field req "step")
    pure (obj [("out", ids (slice a b st items)), ("spec", ids (sliceSpec a b st items))])
  | "reservoir" =>
    let c ← opt nat (fieldD req "count" Json.null)
    let strict ← bool (← field req "strict")
    let s ← parseSeed (← field req "seed")
    let steps ← (← arr (← field req "steps")).mapM parseStep
    let r := reservoir c strict s steps items
    let base := match r with
      | .ok l => [("out", ids l)]
      | .error e => [("err", Json.str (errName e))]
    pure (obj (base ++ [("state", ofNat (reservoirState c s items)), ("seedstate", ofNat s)]))
  | "sort" =>
    let keys ← (← arr (← field req "keys")).mapM parseVal
    pure (outIds (sortF (·.hasCtx) (·.ctx) keys items))
  | "where" =>
    let ni ← parseRange (← field req "nint")
    let na ← parseRange (← field req "nact")
    let nf ← parseRange (← field req "nfet")
    let fl := fun (i : Item) => ctxLen i.ctx
    pure (obj [("out", ids (whereF fl (·.nact) ni na nf items)),
               ("spec", ids (whereSpec fl (·.nact) ni na nf items))])
  | "riffle" =>
    let sp ← nat (← field req "spacing")
    let s ← parseSeed (← field req "seed")
    pure (obj [("out", ids (riffle sp s items))])
  | "batch" =>
    let size ← nat (← field req "size")
    match batchF size (items.map (·.record)) with
    | .error e => pure (obj [("err", Json.str (errName e))])
    | .ok bs => pure (obj [("batches", ofList batchedJson bs), ("unbatched", ofList recJson (unbatchF bs))])
  | "cache" =>
    let ns ← nat (← field req "nslice")
    let reads ← (← arr (← field req "reads")).mapM (opt nat)
    pure (obj [("reads", ofList ids (cacheRun ns items none reads))])
  | "identity" => pure (obj [("out", ids (identityF items))])
  | _ => throw s!"unknown op {op}"

end Coba.C09.Driver
