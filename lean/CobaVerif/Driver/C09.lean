import CobaVerif.Driver.JsonUtil
import CobaVerif.Model.C09
open Lean Coba.J

namespace Coba.C09.Driver
open Coba.C09

structure Item where
  id : Nat
  logged : Bool
  hasCtx : Bool
  ctx : Ctx
  nact : Nat
  record : Rec Nat

def errName : Err → String
  | .typeError => "TypeError" | .indexError => "IndexError" | .valueError => "ValueError"
  | .zeroDivision => "ZeroDivisionError" | .keyError => "KeyError" | .attributeError => "AttributeError"
  | .stepsExhausted => "StepsExhausted"

def errOfName : String → Err
  | "TypeError" => .typeError | "IndexError" => .indexError | "ValueError" => .valueError
  | "ZeroDivisionError" => .zeroDivision | "KeyError" => .keyError | _ => .valueError

def parseVal (j : Json) : Except String Val := do
  match j.getObjVal? "n" with
  | .ok v => pure (.num (← ratOfJson v))
  | .error _ => pure (.str (← natList (← field j "s")))

def parseCtx (j : Json) : Except String Ctx := do
  if j.isNull then pure .none else
  match j.getObjVal? "d" with
  | .ok v => pure (.dense (← (← arr v).mapM parseVal))
  | .error _ =>
    match j.getObjVal? "sp" with
    | .ok v => pure (.sparse (← (← arr v).mapM (fun p => do
        match p with
        | .arr #[a, b] => pure (← parseVal a, ← parseVal b)
        | _ => throw "pair expected")))
    | .error _ => pure (.scalar (← parseVal j))

def parseItem (j : Json) : Except String Item := do
  let id ← nat (← field j "id")
  let logged ← bool (fieldD j "logged" (Json.bool false))
  let hasCtx ← bool (fieldD j "hasCtx" (Json.bool true))
  let ctx ← parseCtx (fieldD j "ctx" Json.null)
  let nact ← nat (fieldD j "nact" (ofNat 0))
  let record ← (← arr (fieldD j "rec" (Json.arr #[]))).mapM (fun p => do
    match p with
    | .arr #[k, v] => pure (← str k, ← nat v)
    | _ => throw "key/token pair expected")
  pure { id, logged, hasCtx, ctx, nact, record }

def parseSeed (j : Json) : Except String Seed := do
  match (j.getObjVal? "int") with
  | .ok v => pure (.int (← int v))
  | .error _ => pure (.bytes (← natList (← field j "bytes")))

def parseRange (j : Json) : Except String Range := do
  match j with
  | .arr #[a, b] => pure (← opt nat a, ← opt nat b)
  | _ => throw "range [min,max] expected"

def parseStep (j : Json) : Except String Step := do
  match j with
  | .arr #[a, b] => pure (.skip (← nat a) (← nat b))
  | _ => pure (.raise (errOfName (← str (← field j "raise"))))

def ids (l : List Item) : Json := ofList (fun (i : Item) => ofNat i.id) l

def outIds (r : Except Err (List Item)) : Json :=
  match r with
  | .ok l => obj [("out", ids l)]
  | .error e => obj [("err", Json.str (errName e))]

def recJson (r : Rec Nat) : Json := ofList (fun (p : String × Nat) => Json.arr #[Json.str p.1, ofNat p.2]) r

def batchedJson : Batched Nat → Json
  | .plain r => obj [("plain", recJson r)]
  | .batch cols => obj [("batch", ofList (fun (p : String × List Nat) => Json.arr #[Json.str p.1, ofList ofNat p.2]) cols)]

/-- the loop's arithmetic on IEEE doubles (the C library's `log`/`pow`, as CPython uses them) -/
def floatOps : FloatOps Float where
  ofUnif k := Float.ofNat k / 1073741824.0
  one := 1.0
  inv n := 1.0 / Float.ofNat n
  mul a b := a * b
  pw r x := Float.pow r x
  oneMinus w := 1.0 - w
  lg r := Float.log r
  pos x := decide (x > 0.0)
  isZero x := x == 0.0
  quotFloor a b := (Float.floor (a / b)).toUInt64.toNat
  slot r n := (r * Float.ofNat n).toUInt64.toNat

def stepJson : Step → Json
  | .skip S slot => Json.arr #[ofNat S, ofNat slot]
  | .raise e => obj [("raise", Json.str (errName e))]

/-- parameters of a single-filter request -> the modelled filter as a function on items -/
def parseInner (req : Json) : Except String (List Item → Except Err (List Item)) := do
  let op ← str (← field req "op")
  match op with
  | "pshuffle" =>
    let s ← parseSeed (← field req "seed")
    pure (fun items => .ok (shuffleSeeded s items))
  | "eshuffle" =>
    let s ← parseSeed (← field req "seed")
    let ls ← parseSeed (← field req "lseed")
    pure (fun items => .ok (eShuffleSeeded (·.logged) s ls items))
  | "take" =>
    let c ← opt nat (fieldD req "count" Json.null)
    let strict ← bool (← field req "strict")
    pure (fun items => .ok (take c strict items))
  | "slice" =>
    let a ← opt nat (fieldD req "start" Json.null)
    let b ← opt nat (fieldD req "stop" Json.null)
    let st ← nat (← field req "step")
    pure (fun items => .ok (slice a b st items))
  | "reservoir" =>
    let c ← opt nat (fieldD req "count" Json.null)
    let strict ← bool (← field req "strict")
    let s ← parseSeed (← field req "seed")
    pure (fun items => reservoirF floatOps c strict s.norm (items.length + 12) items)
  | "sort" =>
    let keys ← (← arr (← field req "keys")).mapM parseVal
    pure (fun items => sortF (·.hasCtx) (·.ctx) keys items)
  | "where" =>
    let ni ← parseRange (← field req "nint")
    let na ← parseRange (← field req "nact")
    let nf ← parseRange (← field req "nfet")
    pure (fun items => .ok (whereF (fun (i : Item) => ctxLen i.ctx) (·.nact) ni na nf items))
  | "riffle" =>
    let sp ← nat (← field req "spacing")
    let s ← parseSeed (← field req "seed")
    pure (fun items => .ok (riffleSeeded sp s items))
  | "identity" => pure (fun items => .ok (identityF items))
  | _ => throw s!"unknown inner op {op}"

def dummyItem : Item := { id := 0, logged := false, hasCtx := false, ctx := .none, nact := 0, record := [] }

partial def parsePV (j : Json) : Except String PV := do
  match j with
  | .arr xs => pure (.seq (← xs.toList.mapM parsePV))
  | _ => pure (.atom (← nat j))

def parseCell (j : Json) : Except String Cell := do
  match j.getObjVal? "col" with
  | .ok v => pure (.col (← (← arr v).mapM parsePV))
  | .error _ => pure (.val (← parsePV (← field j "val")))

partial def pvJson : PV → Json
  | .atom t => ofNat t
  | .seq vs => Json.arr (vs.map pvJson).toArray

def cellJson : Cell → Json
  | .val v => obj [("val", pvJson v)]
  | .col vs => obj [("col", ofList pvJson vs)]

def crecJson (r : CRec) : Json := ofList (fun (kv : String × Cell) => Json.arr #[Json.str kv.1, cellJson kv.2]) r

/-- cut the records into consecutive batches of the given sizes (0 = an empty batch) -/
def cutBatches (keys : List String) : List Nat → List (Rec Nat) → Except Err (List (Batched Nat))
  | [], _ => .ok []
  | sz :: szs, recs =>
    match (if sz = 0 then .ok (emptyBatch keys) else (batchCols keys (recs.take sz)).map Batched.batch), cutBatches keys szs (recs.drop sz) with
    | .ok b, .ok bs => .ok (b :: bs)
    | .error e, _ => .error e
    | _, .error e => .error e

/-- parameters of a single-filter request -> the filter as an `FOp` (phase 6; `pipeline` / `Pipe` run these) -/
def parseOp (req : Json) : Except String FOp := do
  let op ← str (← field req "op")
  match op with
  | "pshuffle" => pure (.pshuffle (← parseSeed (← field req "seed")))
  | "eshuffle" => pure (.eshuffle (← parseSeed (← field req "seed")) (← parseSeed (← field req "lseed")))
  | "take" => pure (.take (← opt nat (fieldD req "count" Json.null)) (← bool (← field req "strict")))
  | "slice" => pure (.slice (← opt nat (fieldD req "start" Json.null)) (← opt nat (fieldD req "stop" Json.null)) (← nat (← field req "step")))
  | "reservoir" =>
    pure (.reservoir (← opt nat (fieldD req "count" Json.null)) (← bool (← field req "strict")) (← parseSeed (← field req "seed")))
  | "sort" => pure (.sort (← (← arr (← field req "keys")).mapM parseVal))
  | "where" => pure (.whereOp (← parseRange (← field req "nint")) (← parseRange (← field req "nact")) (← parseRange (← field req "nfet")))
  | "riffle" => pure (.riffle (← nat (← field req "spacing")) (← parseSeed (← field req "seed")))
  | "identity" => pure .identity
  | _ => throw s!"unknown filter op {op}"

def itemAcc : Acc Item := ⟨(·.logged), (·.hasCtx), (·.ctx), (·.nact)⟩

/-- a nested join: a JSON array is a joined pipe, an object one filter -/
partial def parsePipe (j : Json) : Except String (Pipe Item) := do
  match j with
  | .arr xs => pure (.joined (← xs.toList.mapM parsePipe))
  | o => pure (.one (FOp.run floatOps itemAcc 12 (← parseOp o)))

def handle (req : Json) : Except String Json := do
  let op ← str (← field req "op")
  let items ← (← arr (← field req "items")).mapM parseItem
  match op with
  | "pshuffle" =>
    let s ← parseSeed (← field req "seed")
    pure (obj [("out", ids (shuffleSeeded s items))])
  | "eshuffle" =>
    let s ← parseSeed (← field req "seed")
    let ls ← parseSeed (← field req "lseed")
    pure (obj [("out", ids (eShuffleSeeded (·.logged) s ls items))])
  | "take" =>
    let c ← opt nat (fieldD req "count" Json.null)
    let strict ← bool (← field req "strict")
    pure (obj [("out", ids (take c strict items)), ("spec", ids (takeSpec c strict items))])
  | "slice" =>
    let a ← opt nat (fieldD req "start" Json.null)
    let b ← opt nat (fieldD req "stop" Json.null)
    let st ← nat (← field req "step")
    pure (obj [("out", ids (slice a b st items)), ("spec", ids (sliceSpec a b st items))])
  | "reservoir" =>
    let c ← opt nat (fieldD req "count" Json.null)
    let strict ← bool (← field req "strict")
    let sd ← parseSeed (← field req "seed")
    let s := sd.norm
    -- the steps are the model's own (float formulas on the LCG uniforms after the initial shuffle);
    -- `steps` in the request (optional) replaces them: the harness's recomputation, for cross-checking
    let st := reservoirState c s items
    let own := match c with
      | some n => floatSteps floatOps n floatOps.one (triples st (items.length + 12))
      | none => []
    let r := reservoirF floatOps c strict s (items.length + 12) items
    let base := match r with
      | .ok l => [("out", ids l)]
      | .error e => [("err", Json.str (errName e))]
    let given ← match req.getObjVal? "steps" with
      | .ok v => do
        let steps ← (← arr v).mapM parseStep
        pure (match reservoir c strict s steps items with
          | .ok l => [("out_given", ids l)]
          | .error e => [("err_given", Json.str (errName e))])
      | .error _ => pure []
    let givenOk ← match req.getObjVal? "steps" with
      | .ok v => do
        let steps ← (← arr v).mapM parseStep
        pure [("runok_given", Json.bool (reservoirOk c steps items.length))]
      | .error _ => pure []
    pure (obj (base ++ given ++ givenOk ++ [("state", ofNat st), ("seedstate", ofNat s), ("steps", ofList stepJson own),
      ("runok", Json.bool (reservoirOk c own items.length))]))
  | "sort" =>
    let keys ← (← arr (← field req "keys")).mapM parseVal
    pure (outIds (sortF (·.hasCtx) (·.ctx) keys items))
  | "where" =>
    let ni ← parseRange (← field req "nint")
    let na ← parseRange (← field req "nact")
    let nf ← parseRange (← field req "nfet")
    let fl := fun (i : Item) => ctxLen i.ctx
    pure (obj [("out", ids (whereF fl (·.nact) ni na nf items)),
               ("spec", ids (whereSpec fl (·.nact) ni na nf items))])
  | "riffle" =>
    let sp ← nat (← field req "spacing")
    let s ← parseSeed (← field req "seed")
    pure (obj [("out", ids (riffleSeeded sp s items))])
  | "batchsafe" =>
    -- BatchSafe(inner filter) on the items as they are (size 0) or batched by Batch(size)
    let size ← nat (← field req "size")
    let inner ← parseInner (← field req "inner")
    let itemOf := fun (r : Rec Nat) => match r with
      | [] => dummyItem
      | (_, t) :: _ => (items.find? (fun i => i.id == t / 64)).getD dummyItem
    let F : List (Rec Nat) → Except Err (List (Rec Nat)) := fun recs =>
      match inner (recs.map itemOf) with
      | .error e => .error e
      | .ok l => .ok (l.map (·.record))
    let input : Except Err (List (Batched Nat)) :=
      if size = 0 then .ok (items.map (fun i => Batched.plain i.record)) else batchF size (items.map (·.record))
    match input with
    | .error e => pure (obj [("err", Json.str (errName e))])
    | .ok xs =>
      match batchSafe (liftF F) xs with
      | .error e => pure (obj [("err", Json.str (errName e))])
      | .ok bs => pure (obj [("batches", ofList batchedJson bs), ("unbatched", ofList recJson (unbatchF bs))])
  | "batchsafe2" =>
    -- BatchSafe(inner) on hand-made batches of the given sizes; the inner filter treats what it gets as opaque items
    let sizes ← natList (← field req "sizes")
    let keys ← strList (← field req "keys")
    let inner ← parseInner (← field req "inner")
    let itemOf := fun (r : Rec Nat) => match r with
      | [] => dummyItem
      | (_, t) :: _ => (items.find? (fun (i : Item) => i.id == t / 64)).getD dummyItem
    let G : List (Batched Nat) → Except Err (List (Batched Nat)) := fun ys =>
      let pseudo := ys.zipIdx.map (fun (p : Batched Nat × Nat) => match p.1 with
        | .plain r => { itemOf r with id := p.2 }
        | .batch cols => { dummyItem with id := p.2, logged := cols.any (·.1 == "action") && cols.any (·.1 == "reward") })
      match inner pseudo with
      | .error e => .error e
      | .ok l => .ok (l.filterMap (fun (i : Item) => ys[i.id]?))
    match cutBatches keys sizes (items.map (·.record)) with
    | .error e => pure (obj [("err", Json.str (errName e))])
    | .ok xs =>
      match batchSafe G xs with
      | .error e => pure (obj [("err", Json.str (errName e))])
      | .ok bs => pure (obj [("batches", ofList batchedJson bs), ("unbatched", ofList recJson (unbatchF bs))])
  | "unbatchg" =>
    let recs ← (← arr (← field req "recs")).mapM (fun r => do (← arr r).mapM (fun p => do
      match p with
      | .arr #[k, c] => pure (← str k, ← parseCell c)
      | _ => throw "key/cell pair expected"))
    match unbatchG recs with
    | .error e => pure (obj [("err", Json.str (errName e))])
    | .ok out => pure (obj [("out", ofList crecJson out)])
  | "product" =>
    -- Environments(env_0 …).filter([f_0 …]) / .shuffle(seeds=[…]): members = environments × filters
    let envs ← (← arr (← field req "envs")).mapM (fun e => do (← arr e).mapM parseItem)
    let inners ← (← arr (← field req "inners")).mapM parseInner
    let order ← (← arr (← field req "order")).mapM (fun p => do
      match p with
      | .arr #[k, c] => pure (← nat k, ← opt nat c)
      | _ => throw "read [member, consumed] expected")
    let sorted ← bool (fieldD req "sorted" (Json.bool false))
    let seedKeys ← natList (fieldD req "seedkeys" (Json.arr #[]))
    let members := if sorted then sortedMembers (fun j => seedKeys.getD j 0) envs.length inners.length
                   else productMembers envs.length inners.length
    let envOf := fun k => envs.getD k []
    let filtOf := fun j => inners.getD j (fun _ => .ok [])
    let outs := runColl (statelessFilt (fun (p : List Item × (List Item → Except Err (List Item))) => p.2 p.1))
      (memberEnv envOf filtOf members (0, 0)) (fun _ => ()) order
    pure (obj [("members", ofList (fun (m : Nat × Nat) => Json.arr #[ofNat m.1, ofNat m.2]) members),
               ("reads", ofList (fun (p : Nat × Except Err (List Item)) => Json.arr #[ofNat p.1, outIds p.2]) outs)])
  | "collection" =>
    -- Environments(env_0, env_1, …).<shortcut>() read in a given order; a fresh filter object per environment
    let envs ← (← arr (← field req "envs")).mapM (fun e => do (← arr e).mapM parseItem)
    let order ← (← arr (← field req "order")).mapM (fun p => do
      match p with
      | .arr #[k, c] => pure (← nat k, ← opt nat c)
      | _ => throw "read [env, consumed] expected")
    let envOf := fun k => envs.getD k []
    let innerReq ← field req "inner"
    let name ← str (← field innerReq "op")
    if name == "cache" then
      let outs := runColl (cacheFilt (← nat (fieldD innerReq "nslice" (ofNat 25)))) envOf (fun _ => none) order
      pure (obj [("reads", ofList (fun (p : Nat × List Item) => Json.arr #[ofNat p.1, obj [("out", ids p.2)]]) outs)])
    else
      let inner ← parseInner innerReq
      let outs := runColl (statelessFilt inner) envOf (fun _ => ()) order
      pure (obj [("reads", ofList (fun (p : Nat × Except Err (List Item)) => Json.arr #[ofNat p.1, outIds p.2]) outs)])
  | "batch" =>
    let size ← nat (← field req "size")
    match batchF size (items.map (·.record)) with
    | .error e => pure (obj [("err", Json.str (errName e))])
    | .ok bs => pure (obj [("batches", ofList batchedJson bs), ("unbatched", ofList recJson (unbatchF bs))])
  | "cachepipe" =>
    -- pipelines  env → [pre] → shared Cache(nslice) → D_i  read in a given order; a read = [inner|null, need|null, consumed|null]
    let ns ← nat (← field req "nslice")
    let base ← match req.getObjVal? "pre" with
      | .ok Json.null => pure items
      | .ok p => do
        let f ← parseInner p
        match f items with
        | .ok l => pure l
        | .error e => throw s!"pre filter raised {errName e}"
      | .error _ => pure items
    let reads ← (← arr (← field req "reads")).mapM (fun p => do
      match p with
      | .arr #[inner, need, c] =>
        let f ← match inner with
          | Json.null => pure (fun (xs : List Item) => (Except.ok xs : Except Err (List Item)))
          | j => parseInner j
        let c ← opt nat c
        let D : List Item → Except Err (List Item) := fun xs => match f xs, c with
          | .ok l, some k => .ok (l.take k)
          | r, _ => r
        pure (← opt nat need, D)
      | _ => throw "read [inner, need, consumed] expected")
    pure (obj [("reads", ofList outIds (cachedRun ns base none reads)), ("base", ids base)])
  | "shufcall" =>
    -- Environments(e_0 … e_{nenv-1}).shuffle(<call form>): the seeds (model function AND the interpreted program) and the members
    let call ← field req "call"
    let parseRow := fun (j : Json) => do (← arr j).mapM (fun (x : Json) => match x with
      | .arr vs => do pure (SeedArg.seq (← vs.toList.mapM nat))
      | v => do pure (SeedArg.num (← nat v)))
    let c ← match call.getObjVal? "n", call.getObjVal? "int", call.getObjVal? "row", call.getObjVal? "args" with
      | .ok k, _, _, _ => do pure (ShuffleCall.n (← nat k))
      | _, .ok v, _, _ => do pure (ShuffleCall.kwInt (← nat v))
      | _, _, .ok r, _ => do pure (ShuffleCall.kwRow (← parseRow r))
      | _, _, _, .ok r => do pure (ShuffleCall.args (← parseRow r))
      | _, _, _, _ => throw "call form expected"
    let nenv ← nat (← field req "nenv")
    let seeds := shuffleSeeds c
    let ran := match runShuffle c 20 shuffleProgram none with
      | some l => ofList ofNat l
      | none => Json.null
    let members := sortedMembers (fun j => seeds.getD j 0) nenv seeds.length
    pure (obj [("seeds", ofList ofNat seeds), ("ran", ran),
               ("members", ofList (fun (m : Nat × Nat) => Json.arr #[ofNat m.1, ofNat (seeds.getD m.2 0)]) members),
               ("chunk_true", ofList Json.str (chunkFilters true)), ("chunk_false", ofList Json.str (chunkFilters false)),
               ("chunk_ran_true", match runChunk true chunkProgram with | some l => ofList Json.str l | none => Json.null)])
  | "cachemulti" =>
    -- Environments(e_0, e_1, …).cache(): own Cache(nslice) per environment, downstream pipelines per environment;
    -- a read = [env, inner|null, need|null or "eager"/"onFirst"/"never" (then the MODEL computes the pull), consumed|null]
    let ns ← nat (← field req "nslice")
    let envs ← (← arr (← field req "envs")).mapM (fun e => do (← arr e).mapM parseItem)
    let envOf := fun (e : Nat) => envs.getD e []
    let reads ← (← arr (← field req "reads")).mapM (fun p => do
      match p with
      | .arr #[e, inner, need, c] =>
        let f ← match inner with
          | Json.null => pure (fun (xs : List Item) => (Except.ok xs : Except Err (List Item)))
          | j => parseInner j
        let c ← opt nat c
        let nd ← match need with
          | Json.str "eager" => pure (pullNeed .eager c)
          | Json.str "onFirst" => pure (pullNeed .onFirst c)
          | Json.str "never" => pure (pullNeed .never c)
          | j => opt nat j
        pure (← nat e, nd, fun xs => consume c (f xs))
      | _ => throw "read [env, inner, need, consumed] expected")
    pure (obj [("reads", ofList outIds (multiCachedRun ns envOf (fun _ => none) reads)),
               ("needs", ofList (fun (r : Nat × Option Nat × (List Item → Except Err (List Item))) => match r.2.1 with | some n => ofNat n | none => Json.null) reads)])
  | "cache" =>
    let ns ← nat (← field req "nslice")
    let reads ← (← arr (← field req "reads")).mapM (opt nat)
    pure (obj [("reads", ofList ids (cacheRun ns items none reads))])
  | "chain" =>
    -- a pipeline of filters: flat (`pipeline`), every prefix of it (the stages), and as a nested join (`Pipe`)
    let fops ← (← arr (← field req "ops")).mapM parseOp
    let tree ← parsePipe (← field req "tree")
    let stages := (List.range (fops.length + 1)).map (fun k => outIds (pipeline floatOps itemAcc 12 (fops.take k) items))
    pure (obj [("flat", outIds (pipeline floatOps itemAcc 12 fops items)), ("stages", Json.arr stages.toArray),
               ("joined", outIds (tree.runFlat items)), ("unit", outIds (tree.run items)),
               ("nfilters", ofNat tree.filters.length),
               -- the interpreter of the method bodies (model programs) on the spliced filter list
               ("ran_filter", match runPipeProgram tree.filters items filtersFilterProgram [("items", .ok items)] with
                 | some r => outIds r | none => Json.null),
               ("ran_read", match runPipeProgram tree.filters items sourceReadProgram [] with
                 | some r => outIds r | none => Json.null)])
  | "identity" => pure (obj [("out", ids (identityF items))])
  | _ => throw s!"unknown op {op}"

end Coba.C09.Driver
