import CobaVerif.Driver.JsonUtil
import CobaVerif.Model.C02
import CobaVerif.Generated.C02GzPredicates
import CobaVerif.Generated.C02ScanConsts
import CobaVerif.Generated.C02MaxChunker
import CobaVerif.Generated.C02SinkLoop
import CobaVerif.Generated.C02Config
open Lean Coba.J

namespace Coba.C02.Driver
open Coba.C02

def parseKey (kind : String) (a b c : Nat) : Except String Key :=
  match kind with
  | "ver" => pure .ver
  | "exp" => pure .exp
  | "E" => pure (.env a)
  | "L" => pure (.lrn a)
  | "V" => pure (.val a)
  | "I" => pure (.int a b c)
  | _ => throw s!"unknown record kind {kind}"

/-- `[kind, a, b, c, rows, body, [bytes…]]` -/
def parseEntry (j : Json) : Except String (Rec × Bytes) := do
  match (← arr j) with
  | [k, a, b, c, rows, body, bytes] =>
    let key ← parseKey (← str k) (← nat a) (← nat b) (← nat c)
    pure (⟨key, ← nat rows, ← nat body⟩, ← natList bytes)
  | _ => throw "table entry: 7 fields expected"

def parseTriple (j : Json) : Except String (Nat × Nat × Nat) := do
  match (← natList j) with
  | [e, l, v] => pure (e, l, v)
  | _ => throw "triple: 3 fields expected"

def taskToJson : Task → Json
  | .penv i => Json.arr #[Json.str "E", ofNat i, ofNat 0, ofNat 0]
  | .plrn i => Json.arr #[Json.str "L", ofNat i, ofNat 0, ofNat 0]
  | .pval i => Json.arr #[Json.str "V", ofNat i, ofNat 0, ofNat 0]
  | .eval e l v => Json.arr #[Json.str "I", ofNat e, ofNat l, ofNat v]

def idxOfRec (tbl : List (Rec × Bytes)) (r : Rec) : Json := ofNat ((tbl.map (·.1)).idxOf r)

/-- decidable forms of the theorems' hypotheses -/
def validLogB (w : World) (L : List Rec) : Bool :=
  keysNodup L && L.all (fun r => w.universe.contains r) &&
  (match L with | [] => true | r :: _ => decide (r = w.ver))

def nonEmptyIB (w : World) : Bool :=
  w.universe.all (fun r => match r.key with | .int .. => decide (0 < r.rows) | _ => true)

def permB (A B : List Rec) : Bool := A.all (fun r => B.contains r) && B.all (fun r => A.contains r) && A.length == B.length

def outcomeJson (tbl : List (Rec × Bytes)) (w : World) (L : List Rec) (file : Option Bytes) (fl : Flags)
    (extra : List (String × Json) := []) : Json :=
  match file with
  | none => obj ([("restore", Json.str "raise")] ++ extra)
  | some f =>
  match resume fl w (some f) with
  | none => obj ([("restore", Json.str "raise")] ++ extra)
  | some o =>
    let F := o.restored.K ++ o.appended
    let completeLines := ((splitNL f).1).filterMap w.c.dec
    obj (extra ++ [("restore", Json.str "ok"),
         ("kept", ofNat o.restored.file1.length),
         ("K", ofList (idxOfRec tbl) o.restored.K),
         ("tasks", ofList taskToJson o.tasks),
         ("appended", ofList (idxOfRec tbl) o.appended),
         ("final", Json.str (if o.final.isSome then "ok" else "raise")),
         ("file_len", ofNat o.file.length),
         -- same set of records as the uninterrupted run (identical duplicates fold to the same Result)
         ("result_equal", Json.bool (o.final.isSome && F.all (fun r => w.universe.contains r) && w.universe.all (fun r => F.contains r))),
         -- spec side (what the theorems promise under their hypotheses)
         ("spec", obj [
            ("final_is_log", Json.bool (o.final == some F)),
            ("fresh_line", Json.bool (o.file == logFile w F)),
            ("valid", Json.bool (validLogB w F)),
            ("perm_universe", Json.bool (permB F w.universe && keysNodup F)),
            ("prefix", Json.bool (o.restored.K.isPrefixOf L)),
            ("no_reeval", Json.bool (o.tasks.all (fun t => completeLines.all (fun r => decide (r.key ≠ t.key)))))])])

/-- request: {"tbl":[entry…], "ver":i, "exp":i, "triples":[[e,l,v]…], "flags":[b,b,b], "log":[i…],
"gz":bool, "cuts":[k…] | [[j,torn]…]} -/
def handle (req : Json) : Except String Json := do
  let tbl ← (← arr (← field req "tbl")).mapM parseEntry
  let recAt : Nat → Except String Rec := fun i =>
    match tbl[i]? with | some p => pure p.1 | none => throw s!"record index {i} out of range"
  let ver ← recAt (← nat (← field req "ver"))
  let exp ← recAt (← nat (← field req "exp"))
  let triples ← (← arr (← field req "triples")).mapM parseTriple
  let fl ← match (← (← arr (← field req "flags")).mapM bool) with
    | [a, b, c, d] => pure (Flags.mk a b c d)
    | [a, b, c] => pure (Flags.mk a b c false)
    | _ => throw "flags: 4 booleans expected"
  let L ← (← natList (← field req "log")).mapM recAt
  let gz ← bool (fieldD req "gz" (Json.bool false))
  let w := tableWorld tbl ver exp triples
  let texts := L.map w.c.enc
  let cuts ← arr (← field req "cuts")
  -- `.gz`: the members of the real file: [record index or -1 for an empty payload, compressed bytes]
  let mtbl ← (← arr (fieldD req "mtbl" (Json.arr #[]))).mapM (fun j => do
    match (← arr j) with
    | [i, b] =>
      let i ← int i
      let payload ← if i < 0 then pure [] else do pure ((← recAt i.toNat) |> w.c.enc |> (· ++ [NL]))
      pure (Member.mk payload (← natList b))
    | _ => throw "member: [record index, bytes] expected")
  let ms ← (← natList (fieldD req "mlog" (Json.arr #[]))).mapM (fun i =>
    match mtbl[i]? with | some m => pure m | none => throw s!"member index {i} out of range")
  let scan := tableScan mtbl
  -- phase 4: the scan as written (chunked), for the extracted read size and the extra sizes the harness asks for
  let zs := tableZ mtbl
  let extraSizes ← natList (fieldD req "chunk_sizes" (Json.arr #[]))
  let chunkCap ← nat (fieldD req "chunk_cap" (ofNat 0))
  -- phase 4: the shape test; `exp_shape` = (n_learners, n_environments) of the real experiment line (-1 = key missing)
  let optN (j : Json) : Except String (Option Nat) := do let i ← int j; pure (if i < 0 then none else some i.toNat)
  let expShape ← match (← arr (fieldD req "exp_shape" (Json.arr #[ofInt (-1), ofInt (-1)]))) with
    | [a, b] => do pure ((← optN a), (← optN b))
    | _ => throw "exp_shape: 2 fields expected"
  let shapeOf : Rec → Option Nat × Option Nat := fun r => if r == exp then expShape else (none, none)
  let given := givenShape triples
  let altGiven ← match (← natList (fieldD req "alt_given" (Json.arr #[ofNat given.1, ofNat given.2]))) with
    | [a, b] => pure (a, b)
    | _ => throw "alt_given: 2 fields expected"
  -- phase 4: ChunkTasks/ProcessTasks order; `chunk_of`[env id] = id of the Chunk pipe or -1, `max_tasks` = maxtasksperchunk
  let chunkIds ← (← arr (fieldD req "chunk_of" (Json.arr #[]))).mapM int
  let chunkOf : Nat → Option Nat := fun e => match chunkIds[e]? with | some i => (if i < 0 then none else some i.toNat) | none => none
  let maxTasks0 ← nat (fieldD req "max_tasks" (ofNat 0))
  -- phase 6: how the configuration reaches the run: {"stored":[p,c,t],"args":[p,c,t],"ctx":[p,c,t]} (-1 = None); when given,
  -- maxtasksperchunk of the run is COMPUTED by the model (`runCfg`) instead of being told
  let route : Option RunConfig ← match (fieldD req "route" Json.null) with
    | Json.null => pure none
    | r => do
      let st ← (← arr (← field r "stored")).mapM optN
      let ar ← (← arr (← field r "args")).mapM optN
      let cx ← natList (← field r "ctx")
      match st, ar, cx with
      | [s0, s1, s2], [a0, a1, a2], [c0, c1, c2] => pure (some ⟨⟨s0, a0, c0⟩, ⟨s1, a1, c1⟩, ⟨s2, a2, c2⟩⟩)
      | _, _, _ => throw "route: three triples expected"
  let maxTasks := match route with | some rc => runCfg rc.mt | none => maxTasks0
  let ordered (data : Option Bytes) : List (String × Json) :=
    match data with
    | none => []
    | some f => match restore fl w.c (some f) with
      | none => []
      | some R =>
        let tasks := makeTasks fl.finishedFix R.K w.triples
        let app := preamble fl w.ver w.exp R.K ++ (runOrder chunkOf maxTasks tasks).filterMap w.out
        let chunks := chunkTasks chunkOf maxTasks tasks
        [("appended_ordered", ofList (idxOfRec tbl) app),
         -- phase 5: sizes of the chunks ChunkTasks hands on; `_max_chunker` run as the EXTRACTED program on the whole task list
         ("chunk_lens", ofList (fun c => ofNat c.length) chunks),
         -- phase 5: the records of every chunk in ProcessTasks order (multi-process runs: each must be a subsequence of the file)
         ("chunk_seqs", ofList (fun c => ofList (idxOfRec tbl) ((processOrder c).filterMap w.out)) chunks),
         ("chunker_prog_same", Json.bool (runChunker Coba.Generated.C02Chunker.prog maxTasks tasks == batches maxTasks tasks)),
         -- phase 5: lines per `with self:` of DiskSink.write (= per gzip member) for the records this run appends, with the
         -- batch size EXTRACTED from Experiment.run
         ("sink_shape", ofList (fun g => ofNat g.length) (sinkWrite Coba.Generated.C02Sink.batch (app.map w.c.enc)))]
  let mism (data : Option Bytes) : List (String × Json) :=
    match data with
    | none => []
    | some f => match resumeChecked fl w shapeOf given (some f), resumeChecked fl w shapeOf altGiven (some f) with
      | some (m, _), some (ma, oa) => [("mismatch", Json.bool m), ("mismatch_alt", Json.bool ma), ("alt_appended", ofNat oa.appended.length)]
      | _, _ => []
  let winSizes ← natList (fieldD req "win_sizes" (Json.arr #[]))
  let chunkerProbe ← (← arr (fieldD req "chunker_probe" (Json.arr #[]))).mapM natList
  let name ← natList (fieldD req "name" (Json.arr #[]))
  -- entry point: the gzip test is the one extracted from the sink; when it disagrees with what the real sink wrote (reported
  -- by the harness as A:gz-decision-sink) the data is interpreted the way the real file is
  let isGz : GzPred := if Coba.Generated.C02Gz.sinkPred.eval name == gz then Coba.Generated.C02Gz.sinkPred
                       else (if gz then GzPred.contains [] else GzPred.endsWith (name ++ [0]))
  let textOf (data : Bytes) : Option Bytes := (entryText fl isGz scan ⟨name, true, some data⟩).join
  let outs ← cuts.mapM (fun c => do
    if gz then
      if ms.isEmpty then
        match (← arr c) with
        | [j, t] => pure (outcomeJson tbl w L (gzView fl texts (← nat j) (← bool t)) fl)
        | _ => throw "gz cut: [j, torn] expected"
      else
        let data := (flatM ms).take (← nat c)
        let sizes := if data.length ≤ chunkCap then Coba.Generated.C02Scan.readSize :: extraSizes else []
        pure (outcomeJson tbl w L (textOf data) fl ([("good", ofNat (memberScan scan data)),
          ("good_chunked", ofList (fun c => Json.arr #[ofNat c, ofNat (chunkScan zs c data)]) sizes)] ++ mism (textOf data) ++ ordered (textOf data)))
    else
      let data := cut w L (← nat c)
      pure (outcomeJson tbl w L (textOf data) fl ([("n_complete", ofNat (nCompleteB w.c L data)),
        ("from_file_cut", Json.bool (fromFile w.c isGz scan name data).isSome),
        -- phase 5: the universal-newline reader on the same bytes
        ("from_file_cut_u", Json.bool (decodeAllU w.c data).isSome),
        ("univ_same", Json.bool (decodeAllU w.c data == decodeAll w.c data)),
        ("win_same", ofList (fun W => Json.arr #[ofNat W, Json.bool (repairWin w.c W data == repair w.c data),
                                                  Json.bool (decide (NL ∈ data.drop (data.length - W)) || decide (data.length ≤ W))]) winSizes)]
        ++ mism (textOf data) ++ ordered (textOf data))))
  let wholeFile : Bytes := if gz && !ms.isEmpty then flatM ms else logFile w L
  let nodir := (runEntry fl w isGz scan ⟨name, false, none⟩).isNone
  let fromFileLog := fromFile w.c isGz scan name wholeFile
  pure (obj [("hyp", obj [("world_ok", Json.bool (tableWorldOK tbl ver exp triples)),
                          ("valid_log", Json.bool (validLogB w L)),
                          ("nonempty_i", Json.bool (nonEmptyIB w)),
                          ("member_table_ok", Json.bool (memberTableOK mtbl)),
                          ("payload_log", Json.bool (payloadsM ms == logFile w L &&
                             ms.all (fun m => m.payload.isEmpty || L.any (fun r => m.payload == w.c.enc r ++ [NL]))))]),
             ("gz_decision", Json.arr #[Json.bool (Coba.Generated.C02Gz.sinkPred.eval name), Json.bool (Coba.Generated.C02Gz.sourcePred.eval name), Json.bool (Coba.Generated.C02Gz.repairPred.eval name)]),
             ("gz_extracted", Json.bool Coba.Generated.C02Gz.extracted),
             ("log_len", ofNat (logFile w L).length),
             ("given_shape", Json.arr #[ofNat given.1, ofNat given.2]),
             ("read_size", ofNat Coba.Generated.C02Scan.readSize),
             ("scan_extracted", Json.bool Coba.Generated.C02Scan.extracted),
             ("nodir_raises", Json.bool nodir),
             ("no_cr", Json.bool (L.all (fun r => !(w.c.enc r).contains CR))),
             ("chunker_extracted", Json.bool Coba.Generated.C02Chunker.extracted),
             ("sink_extracted", Json.bool Coba.Generated.C02Sink.extracted),
             ("sink_batch", ofNat Coba.Generated.C02Sink.batch),
             ("config_extracted", Json.bool Coba.Generated.C02Config.extracted),
             ("eff_cfg", match route with
                | some rc => Json.arr #[ofNat rc.eff.1, ofNat rc.eff.2.1, ofNat rc.eff.2.2,
                                        Json.bool (isMultiproc rc.eff.1 rc.eff.2.1)]
                | none => Json.null),
             ("chunker_probe", ofList (fun nm => match nm with
                | [n, m] => Json.arr #[ofNat n, ofNat m,
                    ofList (fun (b : List Task) => ofNat b.length) (runChunker Coba.Generated.C02Chunker.prog m ((List.range n).map Task.pval)),
                    Json.bool (runChunker Coba.Generated.C02Chunker.prog m ((List.range n).map Task.pval) == batches m ((List.range n).map Task.pval))]
                | _ => Json.null) chunkerProbe),
             ("from_file", Json.str (match fromFileLog with | none => "raise" | some F => if F == L then "log" else "other")),
             ("cuts", Json.arr outs.toArray)])

end Coba.C02.Driver
