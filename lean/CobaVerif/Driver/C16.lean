import CobaVerif.Driver.JsonUtil
import CobaVerif.Model.C16
open Lean Coba.J

namespace Coba.C16.Driver
open Coba.C16

def errName : PErr → String
  | .rng .valueError => "ValueError" | .rng .indexError => "IndexError"
  | .rng .stopIteration => "StopIteration" | .rng .zeroDivision => "ZeroDivisionError"
  | .keyError => "KeyError" | .valueError => "ValueError" | .zeroDivision => "ZeroDivisionError"
  | .indexError => "IndexError" | .assertion => "AssertionError"

def parseSeed (j : Json) : Except String Nat := do
  match (j.getObjVal? "int") with
  | .ok v => pure (Coba.C05.normInt (← int v))
  | .error _ => pure (Coba.C05.normBytes (← natList (← field j "bytes")))

def ratPair (j : Json) : Except String (Rat × Rat) := do
  match (← arr j) with
  | [a, b] => pure (← ratOfJson a, ← ratOfJson b)
  | _ => throw "pair expected"

def parseLearner (j : Json) : Except String Learner := do
  let mis ← (← arr (fieldD j "mis" (Json.arr #[]))).mapM ratPair
  let rng ← parseSeed (← field j "seed")
  let ty ← str (← field j "type")
  let kind ← match ty with
    | "eps" => pure (Kind.eps { eps := ← ratOfJson (← field j "eps") })
    | "ucb" => pure (Kind.ucb {})
    | "fixed" => pure (Kind.fixed (← ratList (← field j "pmf")))
    | "random" => pure Kind.random
    | _ => throw s!"unknown learner type {ty}"
  pure { mis := mis, kind := kind, rng := rng }

def parseOp (j : Json) : Except String Op := do
  let name ← str (← field j "op")
  match name with
  | "predict" => pure (.predict (← natList (← field j "actions")))
  | "score" => pure (.score (← natList (← field j "actions")) (← nat (← field j "a")))
  | "learn" => pure (.learn (← nat (← field j "a")) (← ratOfJson (← field j "r")))
  | _ => throw s!"unknown op {name}"

/-- the UCB index table of a call: `[[action, value], …]` (absent → 0) -/
def parseVals (j : Json) : Except String (List (Nat × Rat)) := do
  (← arr (fieldD j "vals" (Json.arr #[]))).mapM (fun p => do
    match (← arr p) with
    | [a, v] => pure (← nat a, ← ratOfJson v)
    | _ => throw "val pair expected")

def outToJson : Out → Json
  | .pred i p pmf => obj [("pred", Json.arr #[ofNat i, ratToJson p]), ("pmf", ofList ratToJson pmf)]
  | .score p => obj [("score", ratToJson p)]
  | .learned => obj [("learned", Json.bool true)]
  | .err e => obj [("err", Json.str (errName e))]

def corralToJson (c : Corral) : Json :=
  obj [("gamma", ratToJson c.gamma), ("beta", ratToJson c.beta), ("imp", Json.bool c.importance),
       ("ps", ofList ratToJson c.ps), ("pbars", ofList ratToJson c.pbars), ("etas", ofList ratToJson c.etas),
       ("rhos", ofList ratToJson c.rhos), ("rng", ofNat c.rng)]

def parseCorral (j : Json) : Except String Corral := do
  pure { gamma := ← ratOfJson (← field j "gamma"), beta := ← ratOfJson (← field j "beta"),
         importance := ← bool (← field j "imp"), ps := ← ratList (← field j "ps"),
         pbars := ← ratList (← field j "pbars"), etas := ← ratList (← field j "etas"),
         rhos := ← ratList (← field j "rhos"), rng := ← nat (← field j "rng") }

def parseCOp (j : Json) : Except String COp := do
  let name ← str (← field j "op")
  match name with
  | "predict" => pure (.predict (← natList (← field j "actions")) (← natList (← field j "bacts")))
  | "score" => pure (.score (← natList (← field j "actions")) (← natList (← field j "bacts")) (← nat (← field j "a")))
  | "learn" => pure (.learn (← natList (← field j "bacts")) (← nat (← field j "a")) (← ratOfJson (← field j "r")) (← ratOfJson (← field j "p")))
  | _ => throw s!"unknown op {name}"

def fbToJson (t : Act × Rat × Rat) : Json := Json.arr #[ofNat t.1, ratToJson t.2.1, ratToJson t.2.2]

/-- a plain learner inside a tower with the table of UCB indexes of each of its predict calls -/
def parseLeaf (j : Json) : Except String Leaf := do
  let L ← parseLearner (← field j "leaf")
  let tables ← (← arr (fieldD j "vals" (Json.arr #[]))).mapM (fun t => do
    (← arr t).mapM (fun p => do
      match (← arr p) with
      | [a, v] => pure (← nat a, ← ratOfJson v)
      | _ => throw "val pair expected"))
  let val : Nat → Act → Rat := fun k a =>
    match (tables.getD k []).find? (fun p => p.1 == a) with
    | some p => p.2
    | none => 0
  pure { L := L, val := val }

def parseCorralInit (j : Json) : Except String Corral := do
  pure (Corral.init flDouble (← nat (← field j "M")) (← ratOfJson (← field j "eta")) (← ratOfJson (← field j "gamma"))
    (← ratOfJson (← field j "beta")) (← bool (← field j "imp")) (← parseSeed (← field j "seed")))

def parseNode1 (j : Json) : Except String (CNode Leaf) := do
  pure { mis := ← (← arr (fieldD j "mis" (Json.arr #[]))).mapM ratPair, c := ← parseCorralInit (← field j "corral"),
         bases := ← (← arr (← field j "bases")).mapM parseLeaf }

def parseBase1 (j : Json) : Except String (tower flDouble 1).σ := do
  match j.getObjVal? "corral" with
  | .ok _ => pure (Sum.inr (← parseNode1 j))
  | .error _ => pure (Sum.inl (← parseLeaf j))

/-- dumps are rounded to doubles (the exact rationals of a whole history have thousands of digits) -/
def ratToJsonF (x : Rat) : Json := ratToJson (flDouble x)

def leafDump (l : Leaf) : Json :=
  match l.L.kind with
  | .eps st => obj [("Q", ofList (fun (p : Act × Rat) => Json.arr #[ofNat p.1, ratToJsonF p.2]) st.Q)]
  | .ucb st => obj [("t", ofNat st.t)]
  | _ => Json.null

def node1Dump (n : CNode Leaf) : Json :=
  obj [("ps", ofList ratToJsonF n.c.ps), ("pbars", ofList ratToJsonF n.c.pbars), ("lastActs", ofList ofNat n.lastActs),
       ("lastProbs", ofList ratToJsonF n.lastProbs), ("leaves", ofList leafDump n.bases)]

def base1Dump (b : (tower flDouble 1).σ) : Json :=
  match b with
  | Sum.inl l => obj [("leaf", leafDump l)]
  | Sum.inr n => node1Dump n

def topDump (n : CNode (tower flDouble 1).σ) : Json :=
  obj [("ps", ofList ratToJsonF n.c.ps), ("pbars", ofList ratToJsonF n.c.pbars), ("lastActs", ofList ofNat n.lastActs),
       ("lastProbs", ofList ratToJsonF n.lastProbs), ("bases", ofList base1Dump n.bases)]

/-- a whole history on `tower flDouble 2` -/
def towerRun : (tower flDouble 2).σ → List Json → Except String (List Json)
  | _, [] => pure []
  | s, opj :: rest => do
    let name ← str (← field opj "op")
    let dump (s : (tower flDouble 2).σ) : Json := match s with | Sum.inr n => topDump n | Sum.inl _ => Json.null
    match name with
    | "predict" =>
      match (tower flDouble 2).predict s (← natList (← field opj "actions")) with
      | .error e => pure [obj [("err", Json.str (errName e))]]
      | .ok (s', a, p) => do
        let more ← towerRun s' rest
        pure (obj [("a", ofNat a), ("p", ratToJsonF p), ("dump", dump s')] :: more)
    | "learn" =>
      match (tower flDouble 2).learn s (← nat (← field opj "a")) (← ratOfJson (← field opj "r")) (← ratOfJson (← field opj "p")) with
      | .error e => pure [obj [("err", Json.str (errName e))]]
      | .ok s' => do
        let more ← towerRun s' rest
        pure (obj [("dump", dump s')] :: more)
    | _ => throw s!"unknown op {name}"

def parseScalar (j : Json) : Except String Scalar := do
  match (← arr j) with
  | [t, v] =>
    match (← str t) with
    | "n" => pure (.num (← ratOfJson v))
    | "s" => pure (.str (← str v))
    | x => throw s!"scalar tag {x}"
  | _ => throw "scalar expected"

def parsePyAct (j : Json) : Except String PyAct := do
  match (← arr j) with
  | [t, v] => do
    let _ ← str t
    pure (.scalar (← parseScalar (Json.arr #[t, v])))
  | [t, f, v] =>
    match (← str t) with
    | "D" =>
      let fl ← match (← str f) with
        | "list" => pure DFlav.list | "tuple" => pure DFlav.tuple | "row" => pure DFlav.row | x => throw s!"dense flavour {x}"
      pure (.dense fl (← (← arr v).mapM parseScalar))
    | "S" =>
      let fl ← match (← str f) with
        | "dict" => pure SFlav.dict | "odict" => pure SFlav.odict | "mapping" => pure SFlav.mapping | x => throw s!"sparse flavour {x}"
      pure (.sparse fl (← (← arr v).mapM (fun p => do
        match (← arr p) with
        | [k, w] => pure (← parseScalar k, ← parseScalar w)
        | _ => throw "item expected")))
    | x => throw s!"action tag {x}"
  | _ => throw "action expected"

def handle (req : Json) : Except String Json := do
  let kind ← str (← field req "kind")
  match kind with
  | "bandit" =>
    let L ← parseLearner (← field req "learner")
    let hist ← arr (← field req "hist")
    let ops ← hist.mapM parseOp
    let tables ← hist.mapM parseVals
    let val : Nat → Act → Rat := fun k a =>
      match (tables.getD k []).find? (fun p => p.1 == a) with
      | some p => p.2
      | none => 0
    pure (obj [("outs", ofList outToJson (runL flDouble val 0 L ops)),
               ("pmfF", ofList (ofList ratToJson) (runLF flDouble val 0 L ops))])
  | "corral_init" =>
    let c := Corral.init flDouble (← nat (← field req "M")) (← ratOfJson (← field req "eta")) (← ratOfJson (← field req "gamma"))
      (← ratOfJson (← field req "beta")) (← bool (← field req "imp")) (← parseSeed (← field req "seed"))
    pure (obj [("state", corralToJson c)])
  | "corral" =>
    let c ← parseCorral (← field req "state")
    let opj ← field req "op"
    let op ← parseCOp opj
    let (c', o) := stepC c op
    let extra : List (String × Json) ← match op with
      | .learn bacts a r p => do
        let bprobs ← ratList (fieldD opj "bprobs" (Json.arr #[]))
        let losses := corralLosses bacts a r p
        pure [("lam", ratToJson (omdLambda c.ps c.etas losses)),
              ("halted", Json.bool (omdHalted c.ps c.etas losses)),
              ("losses", ofList ratToJson losses),
              ("feedback", ofList fbToJson (corralFeedback c.importance bacts bprobs a r p))]
      | _ => pure []
    pure (obj ([("out", outToJson o), ("state", corralToJson c')] ++ extra))
  | "accepts" =>
    -- phase 5: does a depth-2 tower accept the feedback (a, r, p)?  (`acceptsB`: the decidable recursive predicate `corral_nested_valid` needs)
    let dummy : Leaf := { L := { kind := .random, rng := 0 }, val := fun _ _ => 0 }
    let parseInner (j : Json) : Except String (CNode Leaf) := do
      let mis ← (← arr (fieldD j "mis" (Json.arr #[]))).mapM ratPair
      let c ← parseCorral (← field j "state")
      pure { mis := mis, c := c, lastActs := ← natList (← field j "lastActs"), lastProbs := ← ratList (← field j "lastProbs"),
             bases := List.replicate c.ps.length dummy }
    let nodej ← field req "node"
    let bases ← (← arr (← field nodej "bases")).mapM (fun (b : Json) => do
      match b.getObjVal? "state" with
      | .ok _ => pure ((Sum.inr (← parseInner b)) : (tower flDouble 1).σ)
      | .error _ => pure ((Sum.inl dummy) : (tower flDouble 1).σ))
    let top : CNode (tower flDouble 1).σ :=
      { mis := ← (← arr (fieldD nodej "mis" (Json.arr #[]))).mapM ratPair, c := ← parseCorral (← field nodej "state"),
        lastActs := ← natList (← field nodej "lastActs"), lastProbs := ← ratList (← field nodej "lastProbs"), bases := bases }
    let a ← nat (← field req "a")
    let r ← ratOfJson (← field req "r")
    let p ← ratOfJson (← field req "p")
    let learns := match (tower flDouble 2).learn (Sum.inr top) a r p with
      | .error e => Json.str (errName e)
      | .ok _ => Json.null
    pure (obj [("accepts", Json.bool (acceptsB flDouble 2 (Sum.inr top) a r p)), ("learn_err", learns)])
  | "nested_learn" =>
    -- one `learn` of a depth-2 tower: a Corral whose base learners are plain learners or Corrals over plain learners
    let dummy : Leaf := { L := { kind := .random, rng := 0 }, val := fun _ _ => 0 }
    let parseInner (j : Json) : Except String (CNode Leaf) := do
      let mis ← (← arr (fieldD j "mis" (Json.arr #[]))).mapM ratPair
      let c ← parseCorral (← field j "state")
      pure { mis := mis, c := c, lastActs := ← natList (← field j "lastActs"), lastProbs := ← ratList (← field j "lastProbs"),
             bases := List.replicate c.ps.length dummy }
    let nodej ← field req "node"
    let bases ← (← arr (← field nodej "bases")).mapM (fun (b : Json) => do
      match b.getObjVal? "state" with
      | .ok _ => pure ((Sum.inr (← parseInner b)) : (tower flDouble 1).σ)
      | .error _ => pure ((Sum.inl dummy) : (tower flDouble 1).σ))
    let top : CNode (tower flDouble 1).σ :=
      { mis := ← (← arr (fieldD nodej "mis" (Json.arr #[]))).mapM ratPair, c := ← parseCorral (← field nodej "state"),
        lastActs := ← natList (← field nodej "lastActs"), lastProbs := ← ratList (← field nodej "lastProbs"), bases := bases }
    let res := (tower flDouble 2).learn (Sum.inr top) (← nat (← field req "a")) (← ratOfJson (← field req "r")) (← ratOfJson (← field req "p"))
    match res with
    | .error e => pure (obj [("err", Json.str (errName e))])
    | .ok (Sum.inl _) => throw "impossible"
    | .ok (Sum.inr top') =>
      let inner := top'.bases.map (fun (b : (tower flDouble 1).σ) =>
        match b with
        | Sum.inl _ => Json.null
        | Sum.inr n => corralToJson n.c)
      pure (obj [("state", corralToJson top'.c), ("inner", Json.arr inner.toArray)])
  | "omdF" =>
    match omdF flDouble 3000 (← ratList (← field req "ps")) (← ratList (← field req "etas")) (← ratList (← field req "losses")) with
    | none => pure (obj [("err", Json.str "TypeError")])
    | some (ws, halted) => pure (obj [("ps", ofList ratToJson ws), ("halted", Json.bool halted)])
  | "corral_runF" =>
    -- a whole history of `learn` calls on the float-faithful Corral state (`Corral.learnF flDouble`)
    let c ← parseCorral (← field req "state")
    let ops ← (← arr (← field req "ops")).mapM (fun (o : Json) => do
      pure ((← natList (← field o "bacts")), (← nat (← field o "a")), (← ratOfJson (← field o "r")), (← ratOfJson (← field o "p"))))
    let outs := (runCF flDouble 3000 c ops).map (fun (x : Except PErr (Corral × Bool)) =>
      match x with
      | .error e => obj [("err", Json.str (errName e))]
      | .ok (c', h) => obj [("ps", ofList ratToJson c'.ps), ("pbars", ofList ratToJson c'.pbars), ("etas", ofList ratToJson c'.etas),
                            ("rhos", ofList ratToJson c'.rhos), ("halted", Json.bool h)])
    pure (obj [("outs", Json.arr outs.toArray)])
  | "welford" =>
    let vs ← ratList (← field req "xs")
    let w := Welford.run flDouble vs
    pure (obj [("var", ofOpt ratToJson w.var), ("mean", ratToJson w.mean)])
  | "tower_run" =>
    let nodej ← field req "node"
    let top : CNode (tower flDouble 1).σ :=
      { mis := ← (← arr (fieldD nodej "mis" (Json.arr #[]))).mapM ratPair, c := ← parseCorralInit (← field nodej "corral"),
        bases := ← (← arr (← field nodej "bases")).mapM parseBase1 }
    pure (obj [("outs", Json.arr (← towerRun (Sum.inr top) (← arr (← field req "hist"))).toArray)])
  | "keyeq" =>
    let pairs ← (← arr (← field req "pairs")).mapM (fun p => do
      match (← arr p) with
      | [a, b] => pure (← parsePyAct a, ← parsePyAct b)
      | _ => throw "pair expected")
    pure (obj [("res", ofList (fun (p : PyAct × PyAct) =>
      Json.arr #[Json.bool (Key.same (makeHashable p.1) (makeHashable p.2)), Json.bool (pyEq p.1 p.2)]) pairs)])
  | "fl" =>
    pure (obj [("fl", ofList ratToJson ((← ratList (← field req "xs")).map flDouble))])
  | _ => throw s!"unknown kind {kind}"

end Coba.C16.Driver
