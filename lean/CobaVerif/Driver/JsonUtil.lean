/-
JSON helpers shared by the per-property driver handlers.  Not part of any proof.
Rationals travel as `[num, den]`.
-/
import Lean.Data.Json
open Lean

namespace Coba.J

def ratToJson (q : Rat) : Json := Json.arr #[Json.num (JsonNumber.fromInt q.num), Json.num (JsonNumber.fromNat q.den)]

def ratOfJson (j : Json) : Except String Rat := do
  match j with
  | .arr #[n, d] =>
    let n ← n.getInt?
    let d ← d.getInt?
    if d = 0 then throw "zero denominator" else pure ((n : Rat) / (d : Rat))
  | .num _ => do let n ← j.getInt?; pure (n : Rat)
  | _ => throw s!"rat expected, got {j.compress}"

def arr (j : Json) : Except String (List Json) := do pure (← j.getArr?).toList
def field (j : Json) (k : String) : Except String Json := j.getObjVal? k
def fieldD (j : Json) (k : String) (d : Json) : Json := match j.getObjVal? k with | .ok v => v | .error _ => d
def nat (j : Json) : Except String Nat := j.getNat?
def int (j : Json) : Except String Int := j.getInt?
def str (j : Json) : Except String String := j.getStr?
def bool (j : Json) : Except String Bool := j.getBool?
def natList (j : Json) : Except String (List Nat) := do (← arr j).mapM nat
def intList (j : Json) : Except String (List Int) := do (← arr j).mapM int
def ratList (j : Json) : Except String (List Rat) := do (← arr j).mapM ratOfJson
def strList (j : Json) : Except String (List String) := do (← arr j).mapM str
def opt {α} (f : Json → Except String α) (j : Json) : Except String (Option α) :=
  if j.isNull then pure none else some <$> f j

def ofNat (n : Nat) : Json := Json.num (JsonNumber.fromNat n)
def ofInt (n : Int) : Json := Json.num (JsonNumber.fromInt n)
def ofList {α} (f : α → Json) (l : List α) : Json := Json.arr (l.map f).toArray
def ofOpt {α} (f : α → Json) : Option α → Json | none => Json.null | some a => f a
def obj (kvs : List (String × Json)) : Json := Json.mkObj kvs

end Coba.J
