import CobaVerif.Driver.JsonUtil
import CobaVerif.Model.C06
open Lean Coba.J

namespace Coba.C06.Driver
open Coba.C06

/-- opaque values travel as canonical strings (the harness' `json.dumps(canon(x))`) -/
abbrev V := String

/-- reward-function objects: a finite table over the actions that can occur in the case + default -/
structure RTab where
  name : String
  tbl : List (String × Rat)
  dflt : Rat

def RTab.app (t : RTab) (a : V) : Rat :=
  match t.tbl.lookup a with
  | some r => r
  | none => t.dflt

instance : RewardFn RTab V := ⟨RTab.app⟩

/-- Python's `v[i]` on a canonical value: works for lists/tuples (`["l",[…]]`) and strings (`["s","…"]`) within range -/
def idxCanon (v : V) (i : Nat) : Option V :=
  match Json.parse v with
  | .ok (.arr #[.str "l", .arr xs]) => (xs[i]?).map Json.compress
  | .ok (.arr #[.str "s", .str t]) => (t.toList[i]?).map (fun ch => (Json.arr #[Json.str "s", Json.str (String.singleton ch)]).compress)
  | _ => none

instance : Subscript V := ⟨idxCanon⟩

def parseFld (j : Json) : Except String (Fld V RTab) := do
  let t ← str (← field j "t")
  match t with
  | "val" => pure (.val (← str (← field j "v")))
  | "none" => pure .none
  | "acts" => pure (.acts (← strList (← field j "v")))
  | "num" => pure (.num (← ratOfJson (← field j "v")))
  | "rlist" => pure (.rlist (← ratList (← field j "v")))
  | "rfn" => do
    let tbl ← (← arr (← field j "tbl")).mapM (fun p => do
      match p with
      | .arr #[a, r] => pure ((← str a), (← ratOfJson r))
      | _ => throw "rfn table entry")
    pure (.rfn { name := (← str (← field j "name")), tbl := tbl, dflt := (← ratOfJson (← field j "dflt")) })
  | _ => throw s!"unknown field type {t}"

def parseDict (j : Json) : Except String (Dict (Fld V RTab)) := do
  (← arr j).mapM (fun p => do
    match p with
    | .arr #[k, f] => pure ((← str k), (← parseFld f))
    | _ => throw "dict entry")

def parseLearn (j : Json) : Except String LearnMode :=
  if j.isNull then pure .none else do
    match (← str j) with
    | "on" => pure .on | "off" => pure .off | "ips" => pure .ips
    | s => throw s!"learn mode {s}"

def parseEval (j : Json) : Except String EvalMode :=
  if j.isNull then pure .none else do
    match (← str j) with
    | "on" => pure .on | "ips" => pure .ips
    | s => throw s!"eval mode {s}"

def parseLearnX (j : Json) : Except String LearnModeX :=
  if j.isNull then pure .none else do
    match (← str j) with
    | "on" => pure .on | "off" => pure .off | "ips" => pure .ips | "dr" => pure .dr | "dm" => pure .dm
    | s => throw s!"learn mode {s}"

def parseEvalX (j : Json) : Except String EvalModeX :=
  if j.isNull then pure .none else do
    match (← str j) with
    | "on" => pure .on | "ips" => pure .ips | "dr" => pure .dr | "dm" => pure .dm
    | s => throw s!"eval mode {s}"

def opeTypeStr : OpeType → String
  | .ips => "IPS" | .dr => "DR" | .dm => "DM"

structure Entry where
  idx : Nat
  free : V
  p : Option Rat
  kw : Dict V
  s : Rat
  ip : Dict V := []
  il : Dict V := []
  pm : List (Nat × List Rat) := []     -- PMF answers: for n actions the weights to answer with

def parseEntry (j : Json) : Except String Entry := do
  let kw ← (← arr (← field j "kw")).mapM (fun p => do
    match p with
    | .arr #[k, v] => pure ((← str k), (← str v))
    | _ => throw "kw entry")
  let kvs (name : String) : Except String (Dict V) := do
    match j.getObjVal? name with
    | .ok (.arr ps) => ps.toList.mapM (fun p => do
        match p with
        | .arr #[k, v] => pure ((← str k), (← str v))
        | _ => throw "info entry")
    | _ => pure []
  pure { idx := (← nat (← field j "idx")), free := (← str (← field j "free")),
         p := (← opt ratOfJson (fieldD j "p" Json.null)), kw := kw, s := (← ratOfJson (← field j "s")),
         ip := (← kvs "ip"), il := (← kvs "il"),
         pm := (← match j.getObjVal? "pm" with
           | .ok (.arr ps) => ps.toList.mapM (fun p => do
               match p with
               | .arr #[n, ws] => pure ((← nat n), (← ratList ws))
               | _ => throw "pm entry")
           | _ => pure []) }

/-- the scripted learner: state = (number of predicts, number of scores) answered so far -/
def scripted (script : List Entry) (hasScore : Bool) : Learner (Nat × Nat) V :=
  let entry (k : Nat) : Entry := script.getD (k % script.length) { idx := 0, free := "null", p := none, kw := [], s := 0 }
  { hasScore := hasScore,
    predict := fun st _ acts =>
      let e := entry st.1
      let a := match acts with
        | some (x :: xs) => (x :: xs).getD (e.idx % (x :: xs).length) x
        | _ => e.free
      ((st.1 + 1, st.2), { action := a, prob := e.p, kw := e.kw }),
    score := fun st _ _ _ => ((st.1, st.2 + 1), (entry st.2).s),
    learn := fun st _ _ _ _ _ => st }

/-- the scripted learner also writing `learning_info`: `predict` writes the `ip` of the entry it answers with, `learn`
writes the `il` of the entry at the current script position -/
def scriptedI (script : List Entry) (hasScore : Bool) : InfoLearner (Nat × Nat) V :=
  let entry (k : Nat) : Entry := script.getD (k % script.length) { idx := 0, free := "null", p := none, kw := [], s := 0 }
  { toLearner := scripted script hasScore,
    pinfo := fun st _ _ => (entry st.1).ip,
    linfo := fun st _ _ _ _ _ => (entry st.1).il }

/-- the scripted learner answering with PMFs (`{'pmf': …}` with or without kwargs) -/
def scriptedPmf (script : List Entry) (hasScore : Bool) : PmfLearner (Nat × Nat) V :=
  let entry (k : Nat) : Entry := script.getD (k % script.length) { idx := 0, free := "null", p := none, kw := [], s := 0 }
  { hasScore := hasScore,
    predict := fun st _ acts =>
      let e := entry st.1
      let n := match acts with
        | some as => as.length
        | none => 0
      ((st.1 + 1, st.2), (match e.pm.lookup n with
        | some ws => ws
        | none => []), e.kw),
    score := fun st _ _ _ => ((st.1, st.2 + 1), (entry st.2).s),
    learn := fun st _ _ _ _ _ => st }

def optStr : Option V → Json
  | none => Json.null
  | some v => Json.str v

def optRat : Option Rat → Json
  | none => Json.null
  | some q => ratToJson q

def kwJson (kw : Dict V) : Json := ofList (fun (p : String × V) => Json.arr #[Json.str p.1, Json.str p.2]) kw

def optActs : Option (List V) → Json
  | none => Json.null
  | some as => ofList Json.str as

def callJson : Call V → Json
  | .predict ctx acts => obj [("m", Json.str "predict"), ("ctx", optStr ctx), ("acts", optActs acts)]
  | .score ctx acts a => obj [("m", Json.str "score"), ("ctx", optStr ctx), ("acts", optActs acts), ("a", optStr a)]
  | .learn ctx a r p kw => obj [("m", Json.str "learn"), ("ctx", optStr ctx), ("a", optStr a), ("r", optRat r),
                                ("p", optRat p), ("kw", kwJson kw)]

def fldJson : Fld V RTab → Json
  | .val v => obj [("t", Json.str "val"), ("v", Json.str v)]
  | .none => obj [("t", Json.str "none")]
  | .acts as => obj [("t", Json.str "acts"), ("v", ofList Json.str as)]
  | .num q => obj [("t", Json.str "num"), ("v", ratToJson q)]
  | .rlist rs => obj [("t", Json.str "rlist"), ("v", ofList ratToJson rs)]
  | .rfn f => obj [("t", Json.str "fn"), ("name", Json.str f.name)]
  | .disc _ _ => obj [("t", Json.str "fn"), ("name", Json.str "DiscreteReward")]
  | .ips _ _ => obj [("t", Json.str "fn"), ("name", Json.str "BinaryReward")]

def cellJson : Cell V RTab → Json
  | .val v => obj [("t", Json.str "oval"), ("v", optStr v)]
  | .acts as => obj [("t", Json.str "oacts"), ("v", optActs as)]
  | .num q => obj [("t", Json.str "onum"), ("v", optRat q)]
  | .nums qs => obj [("t", Json.str "nums"), ("v", ofList ratToJson qs)]
  | .fld f => fldJson f

def rowJson (r : Row V RTab) : Json :=
  ofList (fun (p : String × Cell V RTab) => Json.arr #[Json.str p.1, cellJson p.2]) r

def errJson : Err → Json
  | .keyError k => obj [("kind", Json.str "error"), ("err", Json.str "KeyError"), ("key", Json.str k)]
  | .badField k => obj [("kind", Json.str "error"), ("err", Json.str "badField"), ("key", Json.str k)]
  | .rewardsMismatch => obj [("kind", Json.str "error"), ("err", Json.str "rewardsMismatch")]
  | .notCallable => obj [("kind", Json.str "error"), ("err", Json.str "notCallable")]

def outJson : Outcome ((Nat × Nat) × List (Call V) × List (Row V RTab)) → Json
  | .rejected ks => obj [("kind", Json.str "error"), ("err", Json.str "missing"), ("missing", ofList Json.str ks)]
  | .crashed e => errJson e
  | .ok (st, cs, rs) => obj [("kind", Json.str "ok"), ("calls", ofList callJson cs), ("rows", ofList rowJson rs),
                            ("state", Json.arr #[ofNat st.1, ofNat st.2])]

/-- request: {"cfg":{learn,eval,record}, "batch":null|n, "env":[[[key,fld]…]…], "learner":{has_score, script},
"s0":[p,s] (optional: script position of the learner when the evaluation starts — later evaluations of a history)}
answer: model output, the spec's output on the same case (unbatched reading) and whether the
hypotheses of the refinement theorem hold for the case -/
def handleX (req : Json) (xj : Json) : Except String Json := do
  let cfg : ConfigX := { learn := (← parseLearnX (fieldD xj "learn" Json.null)),
                         eval := (← parseEvalX (fieldD xj "eval" Json.null)),
                         record := (← strList (← field xj "record")) }
  let vw ← bool (fieldD req "vw" (Json.bool false))
  let bs ← opt nat (fieldD req "batch" Json.null)
  let env ← (← arr (← field req "env")).mapM parseDict
  let lj ← field req "learner"
  let script ← (← arr (← field lj "script")).mapM parseEntry
  let L := scripted script (← bool (← field lj "has_score"))
  let s0 : Nat × Nat ← match fieldD req "s0" Json.null with
    | .arr #[a, b] => do pure ((← nat a), (← nat b))
    | _ => pure (0, 0)
  let out : Json := match evaluateX vw cfg L bs env s0 with
    | .done o => outJson o
    | .packageMissing t tg => obj [("kind", Json.str "error"), ("err", Json.str "package"), ("type", Json.str (opeTypeStr t)),
                                   ("target", Json.str tg)]
    | .notModelled => obj [("kind", Json.str "notModelled")]
  pure (obj [("modelX", out),
             ("requiredX", ofList Json.str (requiredX cfg L.hasScore)),
             ("requiredSX", ofList Json.str (requiredSX cfg L.hasScore)),
             ("shouldPredX", Json.bool (shouldPredX cfg L.hasScore)),
             ("evalTargetX", Json.str (evalTargetX cfg)),
             ("opeFilters", ofList (fun (tt : OpeType × String) => Json.arr #[Json.str (opeTypeStr tt.1), Json.str tt.2]) (opeFilters cfg)),
             ("base", Json.bool cfg.base.isSome)])

def handle (req : Json) : Except String Json := do
  match req.getObjVal? "xcfg" with
  | .ok xj => handleX req xj
  | .error _ =>
  let cfgj ← field req "cfg"
  let cfg : Config := { learn := (← parseLearn (fieldD cfgj "learn" Json.null)),
                        eval := (← parseEval (fieldD cfgj "eval" Json.null)),
                        record := (← strList (← field cfgj "record")) }
  let bs ← opt nat (fieldD req "batch" Json.null)
  let env ← (← arr (← field req "env")).mapM parseDict
  let lj ← field req "learner"
  let script ← (← arr (← field lj "script")).mapM parseEntry
  let L := scripted script (← bool (← field lj "has_score"))
  let s0 : Nat × Nat ← match fieldD req "s0" Json.null with
    | .arr #[a, b] => do pure ((← nat a), (← nat b))
    | _ => pure (0, 0)
  let model := evaluate cfg L bs env s0
  let hyp := wfEnv env && (match env with
    | [] => true
    | first :: _ => (missingKeys cfg L.hasScore first).isEmpty)
  let spec : Option Json := match env with
    | [] => some (outJson (.ok (s0, [], [])))
    | first :: _ =>
      (specRun cfg (mkFlags first) L s0 (env.map view)).map (fun r =>
        outJson (.ok (r.1, r.2.1, r.2.2.filter (fun o => !o.isEmpty))))
  let modelU := evaluate cfg L none env s0
  let specB : Option Json := match env, bs with
    | first :: _, some n =>
      (specRunB cfg (mkFlags first) L s0 ((chunks n env).map (List.map view))).map (fun r =>
        outJson (.ok (r.1, r.2.1, r.2.2.filter (fun o => !o.isEmpty))))
    | _, _ => none
  -- a whole history in one request: {"history":[{"cfg","batch","env"}…]} evaluated by `runHistory` from s0
  let hist : Json ← match req.getObjVal? "history" with
    | .ok (.arr eps) => do
      let es ← eps.toList.mapM (fun e => do
        let cj ← field e "cfg"
        let c : Config := { learn := (← parseLearn (fieldD cj "learn" Json.null)),
                            eval := (← parseEval (fieldD cj "eval" Json.null)), record := (← strList (← field cj "record")) }
        let b ← opt nat (fieldD e "batch" Json.null)
        let ev ← (← arr (← field e "env")).mapM parseDict
        pure ({ cfg := c, bs := b, env := ev } : Episode V RTab))
      pure (ofList outJson (runHistory L s0 es))
    | _ => pure Json.null
  -- phase 6: the consumer closes the generator after the rows of j passes: {"stop":{"j":…,"full":[…the whole environment…]}}
  let stopped : Json ← match req.getObjVal? "stop" with
    | .ok sj => do
      let j ← nat (← field sj "j")
      let full ← (← arr (← field sj "full")).mapM parseDict
      let st := evaluateStopped cfg L bs full s0 j
      let resumed : Json := match st with
        | .ok r => outJson (resumeStopped cfg L bs full j r)
        | _ => Json.null
      pure (obj [("stopped", outJson st), ("resumed", resumed), ("fullModel", outJson (evaluate cfg L bs full s0))])
    | .error _ => pure Json.null
  -- … and inside a history: entries may carry "stop": j and "full": the whole environment (their "env" is what was got through)
  let histS : Json ← match req.getObjVal? "history" with
    | .ok (.arr eps) => do
      let es ← eps.toList.mapM (fun e => do
        let cj ← field e "cfg"
        let c : Config := { learn := (← parseLearn (fieldD cj "learn" Json.null)),
                            eval := (← parseEval (fieldD cj "eval" Json.null)), record := (← strList (← field cj "record")) }
        let b ← opt nat (fieldD e "batch" Json.null)
        let st ← opt nat (fieldD e "stop" Json.null)
        let ev ← (← arr (← field e (if st.isSome then "full" else "env"))).mapM parseDict
        pure ({ cfg := c, bs := b, env := ev, stop := st } : EpisodeS V RTab))
      pure (if es.any (fun e => e.stop.isSome) then ofList outJson (runHistoryS L s0 es) else Json.null)
    | _ => pure Json.null
  let modelI : Json := match evaluateI cfg (scriptedI script L.hasScore) env s0 with
    | .ok r => outJson (.ok (r.1, r.2.1, r.2.2.1))
    | .rejected ks => outJson (.rejected ks)
    | .crashed e => outJson (.crashed e)
  let modelIB : Json := match bs with
    | some n => outJson (evaluateIB cfg (scriptedI script L.hasScore) n env s0)
    | none => Json.null
  -- PMF learner: SafeLearner(learner, seed) draws with CobaRandom(seed), fresh for every evaluation
  let modelP : Json ← match lj.getObjVal? "pmf_seed" with
    | .ok sj => do
      let seed ← int sj
      let LP := wrapPmf (scriptedPmf script L.hasScore) "null"
      pure (match evaluate cfg LP bs env (s0, Coba.C05.normInt seed) with
        | .ok r => outJson (.ok (r.1.1, r.2.1, r.2.2))
        | .rejected ks => outJson (.rejected ks)
        | .crashed e => outJson (.crashed e))
    | .error _ => pure Json.null
  -- heterogeneous environments: the first interaction lacking a key the code subscripts, and the evaluation of the prefix before it
  let bad : Json := match env with
    | [] => Json.null
    | first :: _ => match firstBad cfg (mkFlags first) env with
      | some (i, ks) => obj [("at", ofNat i), ("keys", ofList Json.str ks), ("shapeOk", Json.bool (env.all (shapeOk (mkFlags first)))),
                             ("prefix", outJson (evaluate cfg L none (env.take i) s0))]
      | none => Json.null
  let rkeys : Json := match env with
    | [] => Json.null
    | first :: _ =>
      let sp := shouldPred cfg L.hasScore
      Json.arr #[ofList Json.str (recordKeys cfg (mkFlags first) sp bs.isSome false),
                 ofList Json.str (recordKeys cfg (mkFlags first) sp bs.isSome true)]
  -- phase 5: every call the learner OBJECT receives (SafeLearner's call discipline), and the loop's own skeleton
  let methStr : Meth → String := fun m => match m with | .predict => "predict" | .score => "score" | .learn => "learn"
  let rawJson : RawCall → Json := fun r => match r with
    | .scoreProbe => Json.arr #[Json.str "probe"]
    | .batch m rows ok => Json.arr #[Json.str "batch", Json.str (methStr m), ofList ofNat rows, Json.bool ok]
    | .row m i => Json.arr #[Json.str "row", Json.str (methStr m), ofNat i]
    | .orient i => Json.arr #[Json.str "orient", ofNat i]
  let raw : Json ← match lj.getObjVal? "raw" with
    | .ok rj => do
      let aware ← bool (← field rj "aware")
      let width ← opt nat (fieldD rj "width" Json.null)
      let missing := match env with
        | [] => false
        | first :: _ => !(missingKeys cfg L.hasScore first).isEmpty
      let cs := match bs with
        | some n => chunks n (List.range env.length)
        | none => chunks 1 (List.range env.length)
      pure (obj [("calls", ofList rawJson (callsSeen cfg L.hasScore aware width bs env.length missing)),
                 ("skeleton", ofList (fun (mi : Meth × Nat) => Json.arr #[Json.str (methStr mi.1), ofNat mi.2]) (skeleton (phasesOf cfg L.hasScore) cs)),
                 ("modelMeths", match model with
                    | .ok r => ofList (fun (cl : Call V) => Json.str (methStr cl.meth)) r.2.1
                    | _ => Json.null)])
    | .error _ => pure Json.null
  pure (obj [("model", outJson model), ("hyp", Json.bool hyp), ("raw", raw), ("firstBad", bad), ("recordKeys", rkeys), ("spec", ofOpt id spec), ("specB", ofOpt id specB),
             ("modelI", modelI), ("modelIB", modelIB), ("modelP", modelP),
             ("history", hist), ("historyS", histS), ("stop", stopped),
             ("unbatched", outJson modelU),
             ("required", ofList Json.str (required cfg L.hasScore)),
             ("requiredS", ofList Json.str (requiredS cfg L.hasScore))])

end Coba.C06.Driver
