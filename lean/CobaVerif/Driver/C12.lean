import CobaVerif.Driver.JsonUtil
import CobaVerif.Model.C12
open Lean Coba.J

namespace Coba.C12.Driver
open Coba.C12

def errName : Err → String
  | .unicodeDecode => "UnicodeDecodeError" | .unicodeEncode => "UnicodeEncodeError"
  | .stopIteration => "StopIteration" | .csvError => "Error" | .valueError => "ValueError"
  | .indexError => "IndexError" | .cobaException => "CobaException" | .typeError => "TypeError"

def textJ (t : Text) : Json := ofList ofNat t
def linesJ (ls : List Text) : Json := ofList textJ ls
def exJ {α} (f : α → Json) : Except Err α → Json
  | .ok a => obj [("ok", f a)]
  | .error e => obj [("err", Json.str (errName e))]

def texts (j : Json) : Except String (List Text) := do (← arr j).mapM natList

def svmRowJ (r : SvmRow) : Json :=
  obj [("labels", linesJ r.labels), ("feats", ofList (fun (kv : Text × Text) => Json.arr #[textJ kv.1, textJ kv.2]) r.feats)]

def csvJ (r : Option (List Text) × List (List Text)) : Json :=
  obj [("header", ofOpt linesJ r.1), ("rows", ofList linesJ r.2)]

def cellJ : Cell → Json
  | .missing => Json.arr #[Json.str "missing"]
  | .num t => Json.arr #[Json.str "num", textJ t]
  | .str t => Json.arr #[Json.str "str", textJ t]
  | .cat t lv => Json.arr #[Json.str "cat", textJ t, linesJ lv]

def arffJ : ArffResult → Json
  | .empty => obj [("kind", Json.str "empty")]
  | .dense names rows => obj [("kind", Json.str "dense"), ("names", linesJ names),
      ("rows", ofList (fun (r : DenseRow) => obj [("cells", ofList cellJ r.cells), ("missing", Json.bool r.missing)]) rows)]
  | .sparse names rows => obj [("kind", Json.str "sparse"), ("names", linesJ names),
      ("rows", ofList (fun (r : SparseRow) => obj [("items", ofList (fun (p : Text × Cell) => Json.arr #[textJ p.1, cellJ p.2]) r.items),
                                                   ("missing", Json.bool r.missing)]) rows)]

def encJ : Enc → Json
  | .numeric => Json.arr #[Json.str "numeric"]
  | .str => Json.arr #[Json.str "str"]
  | .nominal lv => Json.arr #[Json.str "nominal", linesJ lv]

def parseTok (x : Json) : Except String (Bool × Text) := do
  let qd ← bool (← field x "q"); let f ← natList (← field x "f"); pure (qd, f)

def parseTypeW (j : Json) : Except String TypeW := do
  let k ← str (← field j "k")
  match k with
  | "numeric" => pure (.numeric (← natList (← field j "w")))
  | "string" => pure (.string (← natList (← field j "w")))
  | _ => do
    let pad ← nat (← field j "pad")
    let lv ← (← arr (← field j "levels")).mapM parseTok
    pure (.nominal pad lv)

def parseDialect (j : Json) : Except String Dialect := do
  let delim ← nat (← field j "delim")
  let quote ← opt nat (fieldD j "quote" (ofNat 34))
  let esc ← opt nat (fieldD j "esc" Json.null)
  let dqt ← bool (fieldD j "doublequote" (Json.bool true))
  let ski ← bool (fieldD j "skipinitialspace" (Json.bool false))
  pure ⟨delim, quote, esc, dqt, ski⟩

/-- requests: {"op": "chunk"|"delim"|"splitlines"|"disk"|"diskread"|"csv"|"svm"|"arffline", …} -/
def handle (req : Json) : Except String Json := do
  let op ← str (← field req "op")
  match op with
  | "chunk" =>
    -- "pieces": the decompressed stream in the pieces the decompressor returned them
    let cs ← texts (← field req "pieces")
    let cur := readCur Decomp.identity cs
    let good := match decodeChunksCur cs with | .ok ts => goodCuts ts | .error _ => false
    pure (obj [("cur", exJ linesJ cur), ("fix", exJ linesJ (readFix Decomp.identity cs)),
               ("whole", exJ linesJ (readWhole Decomp.identity cs.flatten)), ("good", Json.bool good)])
  | "delim" =>
    let ts ← texts (← field req "chunks")
    pure (obj [("cur", linesJ (delimCur ts)), ("fix", linesJ (delimFix ts)),
               ("whole", linesJ (splitlines ts.flatten)), ("good", Json.bool (goodCuts ts))])
  | "splitlines" =>
    let t ← natList (← field req "text")
    pure (obj [("lines", linesJ (splitlines t))])
  | "disk" =>
    let ls ← texts (← field req "lines")
    let batch ← opt nat (fieldD req "batch" Json.null)
    let parts := diskWriteParts batch ls
    let back := match parts with | .ok ps => diskRead ps.flatten | .error e => .error e
    let hyp := ls.all (fun l => noNl l && l.all isScalar)
    pure (obj [("parts", exJ (ofList textJ) parts), ("read", exJ linesJ back), ("hyp", Json.bool hyp)])
  | "diskhist" =>
    -- a history of DiskSink / DiskSource operations over several paths (phase 6)
    let ops ← (← arr (← field req "ops")).mapM (fun o => do
      let k ← str (← field o "o")
      let p ← nat (← field o "p")
      match k with
      | "w" => do
        let ls ← texts (← field o "lines")
        let b ← opt nat (fieldD o "batch" Json.null)
        pure (DiskOp.write p b ls)
      | "k" => do pure (DiskOp.readk p (← nat (← field o "k")))
      | _ => pure (DiskOp.read p))
    let outJ : DiskOut → Json := fun
      | .wrote => Json.str "wrote"
      | .nofile => Json.str "nofile"
      | .lines r => obj [("lines", exJ linesJ r)]
    let hyp := ops.all diskOpOk
    pure (obj [("run", exJ (ofList outJ) (diskRun List.flatten [] ops)),
               ("spec", ofList outJ (diskSpecRun [] ops)), ("hyp", Json.bool hyp)])
  | "diskread" =>
    let bs ← natList (← field req "bytes")
    pure (obj [("read", exJ linesJ (diskRead bs))])
  | "csv" =>
    let ls ← texts (← field req "lines")
    let d ← parseDialect req
    let hdr ← bool (fieldD req "header" (Json.bool false))
    pure (obj [("cur", exJ csvJ (csvReaderCur d hdr ls)), ("fix", exJ csvJ (csvReaderFix d hdr ls))])
  | "csvlabel" =>
    -- CsvReader(has_header, delimiter) | LabelRows(label): (features, label) per row (phase 6)
    let ls ← texts (← field req "lines")
    let d ← parseDialect req
    let hdr ← bool (fieldD req "header" (Json.bool false))
    let rj ← field req "ref"
    let ref ← match rj.getObjVal? "idx" with
      | .ok i => do pure (LabelRef.idx (← int i))
      | .error _ => do pure (LabelRef.name (← natList (← field rj "name")))
    let names ← opt texts (fieldD req "names" Json.null)
    let n ← nat (← field req "n")
    let pairJ : List Text × Text → Json := fun x => Json.arr #[linesJ x.1, textJ x.2]
    pure (obj [("read", exJ (ofOpt (ofList pairJ)) (csvLabelRead d hdr ref ls)),
               ("col", ofOpt ofNat (labelCol names n ref))])
  | "csvwrite" =>
    -- spec side: rows of (quote?, field) → lines of the RFC 4180 writer, and whether the theorem's hypotheses hold
    let delim ← nat (← field req "delim")
    let rows ← (← arr (← field req "rows")).mapM (fun r => do
      (← arr r).mapM (fun x => do
        let q ← bool (← field x "q"); let f ← natList (← field x "f"); pure (q, f)))
    let ls := rows.map (csvWriteRow delim)
    let hyp := rows.all csvRowOk && delim != DQ && !isNl delim
    let edge := ls.all (fun l => strip l == l) && !rows.isEmpty
    pure (obj [("lines", linesJ ls), ("hyp", Json.bool hyp), ("hypcur", Json.bool (hyp && edge))])
  | "svm" =>
    let ls ← texts (← field req "lines")
    let manik ← bool (fieldD req "manik" (Json.bool false))
    let r := if manik then manikRead ls else libsvmRead ls
    -- phase 5: `py` = the same with int()/float() of the tokens inside the model (`libsvmReadPy` / `manikReadPy`)
    let rp := if manik then manikReadPy ls else libsvmReadPy ls
    let rowPyJ := fun (x : List (Int × Text) × List Text) =>
      obj [("feats", ofList (fun (kv : Int × Text) => Json.arr #[ofInt kv.1, textJ kv.2]) x.1), ("labels", linesJ x.2)]
    let hyp := match r with | .ok rows => rows.all svmNumOk | .error _ => false
    pure (obj [("rows", exJ (ofList svmRowJ) r), ("py", exJ (ofList rowPyJ) rp), ("numok", Json.bool hyp)])
  | "arffread" =>
    -- the whole ArffReader on the lines of a file
    -- phase 5: `result` is the reader over CPython's numerals (`arffReadPy`); `result0` the older `arffRead` the
    -- whole-file theorems are about; `clean` = hypothesis of `arffReadPy_conservative` (then both must agree)
    let ls ← texts (← field req "lines")
    pure (obj [("result", exJ arffJ (arffReadPy ls)), ("result0", exJ arffJ (arffRead ls)),
               ("clean", Json.bool (linesNumClean ls))])
  | "arffsparseline" =>
    let l ← natList (← field req "line")
    let n ← nat (← field req "n")
    pure (obj [("items", exJ (ofList (fun (p : Int × Text) => Json.arr #[ofInt p.1, textJ p.2])) (arffSparseLine n l)),
               ("missing", Json.bool (sparseMissing l))])
  | "sparsewrite" =>
    let pad ← nat (← field req "pad")
    let n ← nat (← field req "n")
    let items ← (← arr (← field req "items")).mapM (fun x => do
      let d ← natList (← field x "d"); let v ← natList (← field x "v"); pure (d, v))
    pure (obj [("line", textJ (sparseWriteRow pad items)), ("hyp", Json.bool (sparseRowOk n items)),
               ("want", ofList (fun (p : Text × Text) => Json.arr #[ofInt (digitsVal p.1), textJ p.2]) items)])
  | "hdrwrite" =>
    -- spec side of the header: attribute specs → lines of the Weka/OpenML writer, theorem hypotheses, expected and model result
    let q ← nat (← field req "q")
    let also ← natList (← field req "also")
    let dense ← bool (← field req "dense")
    let attrs ← (← arr (← field req "attrs")).mapM (fun a => do
      let kw ← natList (← field a "kw"); let sep ← nat (← field a "sep"); let name ← parseTok (← field a "name")
      let gap ← natList (← field a "gap"); let typ ← parseTypeW (← field a "typ")
      pure (⟨kw, sep, name, gap, typ⟩ : AttrW))
    let alsoF := fun c => also.contains c
    let ls := attrs.map (·.line q alsoF)
    let hyp := (q == SQ || q == DQ) && attrs.all (·.ok dense) && (attrs.map (·.name.2)).Nodup
    let pairJ := fun (p : Text × Enc) => Json.arr #[textJ p.1, encJ p.2]
    pure (obj [("lines", linesJ ls), ("hyp", Json.bool hyp),
               ("want", ofList pairJ (attrs.map (fun a => (a.name.2, a.typ.enc dense)))),
               ("model", exJ (ofList pairJ) (arffAttrs dense [] ls))])
  | "tablewrite" =>
    -- spec side of a whole dense file: header + @data + rows → lines, hypotheses of arff_dense_table_roundtrip, expected and model result
    let q ← nat (← field req "q")
    let also ← natList (← field req "also")
    let dkw ← natList (← field req "dkw")
    let attrs ← (← arr (← field req "attrs")).mapM (fun a => do
      let kw ← natList (← field a "kw"); let sep ← nat (← field a "sep"); let name ← parseTok (← field a "name")
      let gap ← natList (← field a "gap"); let typ ← parseTypeW (← field a "typ")
      pure (⟨kw, sep, name, gap, typ⟩ : AttrW))
    let rows ← (← arr (← field req "rows")).mapM (fun r => do
      let pad ← nat (← field r "pad")
      let cells ← (← arr (← field r "cells")).mapM (fun c => do
        let qd ← bool (← field c "q")
        let k ← str (← field c "k")
        let t ← natList (fieldD c "t" (Json.arr #[]))
        let cw : CellW := match k with | "missing" => .missing | "num" => .num t | "str" => .str t | _ => .cat t
        pure (qd, cw))
      pure (pad, cells))
    let alsoF := fun c => also.contains c
    let encs := attrs.map (·.typ.enc true)
    let ls := attrs.map (·.line q alsoF) ++ dkw :: rows.map (fun r => denseRowLine q alsoF r.1 r.2)
    let hyp := (q == SQ || q == DQ) && !attrs.isEmpty && attrs.all (·.ok true) && (attrs.map (·.name.2)).Nodup &&
      lowerAscii dkw == kwData && !rows.isEmpty && rows.all (fun r => denseRowWOk q alsoF r.1 encs r.2) &&
      (match rows with | r :: _ => notBraced (denseRowLine q alsoF r.1 r.2) | [] => true)
    let want := ArffResult.dense (attrs.map (·.name.2)) (rows.map fun r => ⟨rowOut encs r.2, r.2.any (·.2.isMissing)⟩)
    pure (obj [("lines", linesJ ls), ("hyp", Json.bool hyp), ("want", arffJ want), ("model", exJ arffJ (arffReadN ls))])
  | "sparsetable" =>
    -- spec side of a whole sparse file: header + @data + rows → lines, hypotheses of arff_sparse_table_roundtrip, expected and model result
    let q ← nat (← field req "q")
    let also ← natList (← field req "also")
    let dkw ← natList (← field req "dkw")
    let attrs ← (← arr (← field req "attrs")).mapM (fun a => do
      let kw ← natList (← field a "kw"); let sep ← nat (← field a "sep"); let name ← parseTok (← field a "name")
      let gap ← natList (← field a "gap"); let typ ← parseTypeW (← field a "typ")
      pure (⟨kw, sep, name, gap, typ⟩ : AttrW))
    let rows ← (← arr (← field req "rows")).mapM (fun r => do
      let pad ← nat (← field r "pad")
      let cells ← (← arr (← field r "cells")).mapM (fun c => do
        let d ← natList (← field c "d")
        let k ← str (← field c "k")
        let t ← natList (fieldD c "t" (Json.arr #[]))
        let cw : CellW := match k with | "missing" => .missing | "num" => .num t | "str" => .str t | _ => .cat t
        pure (d, cw))
      pure (pad, cells))
    let alsoF := fun c => also.contains c
    let encs := attrs.map (·.typ.enc false)
    let names := attrs.map (·.name.2)
    let ls := attrs.map (·.line q alsoF) ++ dkw :: rows.map (fun r => sparseRowLine r.1 r.2)
    let hyp := (q == SQ || q == DQ) && !attrs.isEmpty && attrs.all (·.ok false) && names.Nodup &&
      lowerAscii dkw == kwData && !rows.isEmpty && rows.all (fun r => sparseRowWOk attrs.length encs r.2)
    let want := ArffResult.sparse names (rows.map fun r => ⟨sparseRowOut names encs r.2, r.2.any (·.2.isMissing)⟩)
    let flags := rows.map (fun r => Json.arr #[Json.bool (sparseMissing (sparseRowLine r.1 r.2)), Json.bool (r.2.any (·.2.isMissing))])
    pure (obj [("lines", linesJ ls), ("hyp", Json.bool hyp), ("want", arffJ want), ("model", exJ arffJ (arffReadN ls)),
               ("flags", Json.arr flags.toArray)])
  | "undecided" =>
    -- phase 5: a comma-joined row through the fallback parser with `_fallback_delim` undecided (fresh reader, `_dense_advanced`
    -- called on it) and through a fresh reader's `filter`; the hypotheses / right-hand sides of the two theorems
    let vs ← texts (← field req "values")
    let line := joinWith COMMA vs
    let n := vs.length
    let s0 : ALRF := ⟨true, true, none, COMMA, none⟩
    let adv := match arffAdvanced n s0 line with | .ok r => Except.ok r.2 | .error e => .error e
    let fd := match arffAdvanced n s0 line with | .ok r => r.1.fallback | .error _ => none
    let first := match arffLineStepF n ALRF.init line with | .ok r => Except.ok r.2 | .error e => .error e
    let unq := (splitOn (fallbackDelim line) line).all pieceUnquoted
    let pred : Except Err (List Text) := match advUnquoted (splitOn (fallbackDelim line) line) with
      | .error e => .error e
      | .ok parsed => if parsed.length = n then .ok parsed else .error .cobaException
    let hyp := !vs.isEmpty && vs.all innerTok && (splitOn TAB line).all pieceUnquoted
    let rhs := !line.contains TAB || decide ((splitOn TAB line).length < n)
    pure (obj [("line", textJ line), ("adv", exJ linesJ adv), ("first", exJ linesJ first), ("unq", Json.bool unq),
               ("pred", exJ linesJ pred), ("hyp", Json.bool hyp), ("rhs", Json.bool rhs),
               ("delim", ofOpt ofNat fd), ("guess", ofNat (fallbackDelim line))])
  | "numlit" =>
    -- `int(tok)` / `float(tok)` as CPython reads them (underscores, sign, white space, inf/nan) and the older ASCII approximations
    let t ← natList (← field req "tok")
    pure (obj [("int", ofOpt ofInt (parseIntPy t)), ("float", Json.bool (isFloatLitPy t)),
               ("int0", ofOpt ofInt (parseInt t)), ("float0", Json.bool (isFloatLit t))])
  | "plainline" =>
    -- an unquoted dense row: the csv fast path and the fallback parser (reader already switched by `first`) on the same line
    let vs ← texts (← field req "values")
    let pad ← nat (← field req "pad")
    let first ← natList (← field req "first")
    let line := plainRowLine pad vs
    let n := vs.length
    let fast := match arffLineStepF n ALRF.init line with | .ok r => Except.ok r.2 | .error e => .error e
    let slow := match arffLineStepF n ALRF.init first with
      | .error e => Except.error e
      | .ok (s, _) => match arffLineStepF n s line with | .ok r => .ok (r.2, s.advanced) | .error e => .error e
    let adv := match arffLineStepF n ALRF.init first with | .ok (s, _) => s.advanced | .error _ => false
    let slowR := match slow with | .ok (r, _) => Except.ok r | .error e => .error e
    pure (obj [("line", textJ line), ("hyp", Json.bool (vs.all plainTok && !vs.isEmpty)), ("fast", exJ linesJ fast),
               ("slow", exJ linesJ slowR), ("advanced", Json.bool adv), ("loop", exJ linesJ (advLoop none (splitOn COMMA line)))])
  | "chunkskip" =>
    -- a stream with an n-byte header the decompressor swallows (empty outputs for the first chunks)
    let cs ← texts (← field req "chunks")
    let n ← nat (← field req "n")
    pure (obj [("fix", exJ linesJ (readFix (Decomp.skip n) cs)), ("whole", exJ linesJ (readWhole (Decomp.skip n) cs.flatten)),
               ("pieces", ofList textJ (decompChunks (Decomp.skip n) n cs))])
  | "readerrun" =>
    -- one reader object on a history of inputs
    let kind ← str (← field req "kind")
    let rk : ReaderKind ← (match kind with
      | "csv" => do
        let d ← parseDialect req
        let h ← bool (fieldD req "header" (Json.bool false))
        pure (ReaderKind.csv d h)
      | "arff" => pure ReaderKind.arff
      | "manik" => pure ReaderKind.manik
      | _ => pure ReaderKind.libsvm)
    let hist ← (← arr (← field req "inputs")).mapM (fun i => do
      let ls ← texts (← field i "lines"); let ab ← bool (← field i "abandon"); pure (ls, ab))
    let resJ : Option ReadResult → Json
      | none => Json.null
      | some (.csv r) => exJ csvJ r
      | some (.arff r) => exJ arffJ r
      | some (.svm r) => exJ (ofList svmRowJ) r
    pure (obj [("results", ofList resJ (readerRun rk hist))])
  | "arffdense" =>
    -- data lines of a dense ARFF file through one ArffLineReader (simple path only)
    let ls ← texts (← field req "lines")
    let n ← nat (← field req "n")
    pure (obj [("rows", exJ (ofList linesJ) (arffLines n ALR.init ls))])
  | "arffwrite" =>
    let q ← nat (← field req "q")
    let also ← natList (← field req "also")
    let rows ← (← arr (← field req "rows")).mapM (fun r => do
      let pad ← nat (← field r "pad")
      let toks ← (← arr (← field r "toks")).mapM (fun x => do
        let qd ← bool (← field x "q"); let f ← natList (← field x "f"); pure (qd, f))
      pure (pad, toks))
    let n := match rows with | r :: _ => r.2.length | [] => 0
    let hyp := (q == SQ || q == DQ) && rows.all (fun r => arffRowOk q r.2 && r.2.length == n)
    pure (obj [("lines", linesJ (rows.map (fun r => arffWriteRow q (fun c => also.contains c) r.1 r.2))), ("hyp", Json.bool hyp)])
  | _ => throw s!"unknown op {op}"

end Coba.C12.Driver
