import CobaVerif.Driver.JsonUtil
import CobaVerif.Model.C04
import CobaVerif.Driver.C09
import CobaVerif.Driver.C10
open Lean Coba.J

namespace Coba.C04.Driver
open Coba.C04

def ofNatListJson (l : List Nat) : Json := ofList ofNat l

/-- identifier that no interned interaction has: "the model cannot say" -/
def poison : Nat := 4000000000

/-- a stateless filter given by its input→output table on the inputs it was observed on; filters
that work item by item additionally come with their item→item map (`elem`), which answers for
inputs in another order / sub-sequences (needed only by the as-is variant) -/
def tableF (table : List (List Nat × List Nat)) (elem : List (Nat × Nat)) (xs : List Nat) : List Nat :=
  match table.find? (fun p => p.1 == xs) with
  | some (_, out) => out
  | none =>
    if xs.isEmpty then []
    else
      match xs.mapM (fun x => (elem.find? (fun p => p.1 == x)).map (·.2)) with
      | some ys => ys
      | none => [poison]

/-- `islice(items, n)`: never pulls more than `n` items, sees the end only when there are fewer -/
def prefixDem (n : Nat) (u : List Nat) (d : Demand) : Demand :=
  let cap (k : Nat) : Demand := if n = 0 then .none else if u.length < k then .all else .pull (min k n)
  match d with
  | .none => .none
  | .pull k => if n ≤ k then cap n else .pull k
  | .all => if u.length < n then .all else cap n

def demOf (name : String) (n : Nat) : List Nat → Demand → Demand :=
  match name with
  | "eager" => fun _ d => if d.isNone then .none else .all
  | "calltime" => fun _ _ => .all
  | "prefix" => prefixDem n
  | "prefixcall" => fun u _ => prefixDem n u .all      -- `list(islice(items,n))` when read() is called
  | _ => fun _ d => d

def parseTable (j : Json) : Except String (List (List Nat × List Nat)) := do
  (← arr j).mapM (fun e => do
    match (← arr e) with
    | [a, b] => pure ((← natList a), (← natList b))
    | _ => throw "table entry must be [in,out]")

def parsePure (j : Json) : Except String PureSt := do
  let table ← parseTable (← field j "table")
  let elem ← (← arr (fieldD j "elem" (Json.arr #[]))).mapM (fun e => do
    match (← arr e) with
    | [a, b] => pure ((← nat a), (← nat b))
    | _ => throw "elem entry must be [in,out]")
  let dem ← str (fieldD j "dem" (Json.str "lazy"))
  let par ← natList (fieldD j "par" (Json.arr #[]))
  let n ← nat (fieldD j "n" (Json.num 0))
  pure { f := tableF table elem, dem := demOf dem n, par := par }

def parseVariant (s : String) : Variant := if s == "asis" then .asis else .fixed

/-- nodes are built source-first; `u` is the denotation of what is already built (needed for the
initial state of caches that were filled while the pipeline was constructed) -/
def parseAttr (j : Json) : Except String (Nat × Attr) := do
  let id ← nat (← field j "id")
  pure (id, { logged := (← bool (fieldD j "logged" (Json.bool false))),
              hasCtx := (← bool (fieldD j "hasCtx" (Json.bool true))),
              ctx := (← C09.Driver.parseCtx (fieldD j "ctx" Json.null)),
              nact := (← nat (fieldD j "nact" (ofNat 0))) })

def attrOf (tbl : List (Nat × Attr)) (i : Nat) : Attr :=
  match tbl.find? (fun p => p.1 == i) with
  | some (_, a) => a
  | none => { logged := false, hasCtx := false, ctx := .none, nact := 0 }

/-- a built-in filter as the real function of `Model/C09` (nothing about its output comes from the code) -/
def parseFilt (att : Nat → Attr) (j : Json) : Except String PureSt := do
  let op ← str (← field j "op")
  let par ← natList (fieldD j "par" (Json.arr #[]))
  match op with
  | "take" => pure ((Filt.take (← opt nat (fieldD j "count" Json.null)) (← bool (← field j "strict"))).toPure att par)
  | "slice" =>
    pure ((Filt.slice (← opt nat (fieldD j "start" Json.null)) (← opt nat (fieldD j "stop" Json.null)) (← nat (← field j "step"))).toPure att par)
  | "shuffle" =>
    pure ((Filt.shuffle (← C09.Driver.parseSeed (← field j "seed")) (← C09.Driver.parseSeed (← field j "lseed"))).toPure att par)
  | "riffle" => pure ((Filt.riffle (← nat (← field j "spacing")) (← C09.Driver.parseSeed (← field j "seed"))).toPure att par)
  | "sort" => pure ((Filt.sort (← (← arr (← field j "keys")).mapM C09.Driver.parseVal)).toPure att par)
  | "where" =>
    pure ((Filt.wher (← C09.Driver.parseRange (← field j "nint")) (← C09.Driver.parseRange (← field j "nact"))
      (← C09.Driver.parseRange (← field j "nfet"))).toPure att par)
  | "reservoir" =>
    let c ← opt nat (fieldD j "count" Json.null)
    let strict ← bool (← field j "strict")
    let sd ← C09.Driver.parseSeed (← field j "seed")
    let f : List Nat → List Nat := fun xs =>
      match C09.reservoirF C09.Driver.floatOps c strict sd.norm (xs.length + 12) xs with
      | .ok r => r
      | .error _ => [poison]
    pure { f := f, dem := fun _ d => if d.isNone then .none else .all, par := par }
  | "map" =>
    let elem ← (← arr (← field j "elem")).mapM (fun e => do
      match (← arr e) with
      | [a, b] => pure ((← nat a), (← nat b))
      | _ => throw "elem entry must be [in,out]")
    let g : Nat → Nat := fun x => match elem.find? (fun p => p.1 == x) with | some (_, y) => y | none => poison
    pure ((Filt.mapE g).toPure att par)
  | _ => throw s!"unknown filter {op}"

/-- dict entries sorted by key, lazy rows by index: the order of a dict is not part of what is compared -/
partial def canonVal : C10.Val → C10.Val
  | .list xs => .list (xs.map canonVal)
  | .tuple xs => .tuple (xs.map canonVal)
  | .dict kvs => .dict ((kvs.map (fun p => (p.1, canonVal p.2))).mergeSort (fun a b => decide (a.1 ≤ b.1)))
  | .lazy kvs n =>
    -- a lazy dense row is (Python-)equal to the list of its values: interactions are interned at that level
    .list ((List.range n).map (fun i => match kvs.find? (fun p => p.1 == i) with | some (_, v) => canonVal v | none => .num 0))
  | v => v

/-- what is observable of an interaction (values, rewards and feedbacks evaluated on every action), as a key -/
def contentKey (I : C10.Inter) : String :=
  let J : C10.Inter := { I with context := canonVal I.context, actions := I.actions.map (·.map canonVal), action := I.action.map canonVal }
  -- the observables are computed on the interaction itself (reward functions are keyed by the actions as they are)
  let base := C10.Driver.interToJson I
  let shown := C10.Driver.interToJson J
  (Json.mkObj [("v", Json.mkObj [("context", fieldD shown "context" Json.null), ("actions", fieldD shown "actions" Json.null),
                                  ("action", fieldD shown "action" Json.null)]),
               ("index", fieldD base "index" Json.null), ("reward", fieldD base "reward" Json.null),
               ("probability", fieldD base "probability" Json.null),
               ("obs_rewards", fieldD base "obs_rewards" Json.null), ("obs_feedbacks", fieldD base "obs_feedbacks" Json.null)]).compress

def parseContentTable (j : Json) : Except String (List (Nat × C10.Inter)) := do
  (← arr j).mapM (fun e => do
    match (← arr e) with
    | [a, b] => pure ((← nat a), (← C10.Driver.parseInter b))
    | _ => throw "content entry must be [id, interaction]")

/-- a content-rewriting filter as the real function of `Model/C10` between interned contents -/
def parseContent (j : Json) : Except String PureSt := do
  let st ← C10.Driver.parseStep (← field j "step")
  let cfg ← C10.Driver.parseCfg (fieldD j "cfg" (Json.mkObj []))
  let ins ← parseContentTable (← field j "in")
  let outs ← parseContentTable (← field j "out")
  let keys := outs.map (fun p => (contentKey p.2, p.1))
  let dec : Nat → C10.Inter := fun i => match ins.find? (fun p => p.1 == i) with | some (_, I) => I | none => {}
  let enc : C10.Inter → Nat := fun I => match keys.lookup (contentKey I) with | some i => i | none => poison
  pure (contentPure dec enc cfg st (← natList (fieldD j "par" (Json.arr #[]))))

def parseNode (att : Nat → Attr) (fin : PureSt) (u : List Nat) (j : Json) : Except String Node := do
  let k ← str (← field j "k")
  match k with
  | "pure" => pure (.pure (← parsePure j))
  | "filt" => pure (.pure (← parseFilt att j))
  | "content" => pure (.pure (← parseContent j))
  | "shuffle" =>
    let perms ← (← arr (← field j "perms")).mapM natList
    let pars ← (← arr (← field j "par")).mapM natList
    let lg ← bool (← field j "logged")
    let v := parseVariant (← str (← field j "v"))
    let perm : Nat → List Nat → List Nat := fun d xs =>
      match perms[d]? with
      | some p => applyPerm p xs
      | none => [poison]
    let par : Nat → List Nat := fun d => match pars[d]? with | some p => p | none => [poison]
    pure (.shuffle v perm lg par 0)
  | "cache" =>
    let sz ← opt nat (fieldD j "sz" Json.null)
    let prot ← bool (fieldD j "prot" (Json.bool false))
    let st ← str (fieldD j "st" (Json.str "unread"))
    pure (.cache sz prot (if st == "done" then .done u else .unread))
  | "finalize" =>
    let rd ← bool (fieldD j "read" (Json.bool false))
    pure (.finalize fin (if rd then some (u == []) else none))
  | _ => throw s!"unknown node kind {k}"

def parseNodes (att : Nat → Attr) (fin : PureSt) : List Nat → List Json → Except String (List Node)
  | _, [] => pure []
  | u, j :: js => do
    let n ← parseNode att fin u j
    let rest ← parseNodes att fin (nodeDen n u) js
    pure (n :: rest)

def parseOp (j : Json) : Except String Op := do
  let name ← str (← field j "op")
  let on ← nat (← field j "on")
  match name with
  | "full" => pure (.full on)
  | "partial" => pure (.part on (← nat (← field j "k")))
  | "params" => pure (.params on)
  | "materialize" => pure (.materialize on)
  | "cache" => pure (.cache on)
  | "chunk" => pure (.chunk on)
  | "pickle" => pure (.pickle on)
  | "save" => pure (.save on)
  | _ => throw s!"unknown op {name}"

def outToJson : Out → Json
  | .items xs => obj [("items", ofList ofNat xs)]
  | .params ts => obj [("params", ofList ofNat ts)]
  | .derived => Json.str "derived"
  | .err => Json.str "err"
  | .skip => Json.str "skip"

def nodeFixedB : Node → Bool
  | .shuffle .asis _ _ _ _ => false
  | _ => true

/-- decidable part of `WorldGood` for the single object a request describes (the initial cache /
EmptyCheck states are consistent by construction of `parseNodes`) -/
def hypB (w : World) (o : Obj) : Bool :=
  (w.variant == .fixed) && !o.src.once && o.nodes.all nodeFixedB && o.nodes.any isFinalize &&
  (finF w.fin o.den == o.den) &&
  (!o.ownFin || (match o.nodes.getLast? with
                 | some (.finalize _ _) => !(o.nodes.dropLast.any isFinalize)
                 | _ => false))

def parseObj (att : Nat → Attr) (fin : PureSt) (j : Json) : Except String Obj := do
  let sj ← field j "src"
  let items ← natList (← field sj "items")
  let src : Src := {
    once := (← bool (← field sj "once")), items := items, rem := items,
    started := (← bool (fieldD sj "started" (Json.bool false))),
    parPre := (← natList (← field sj "parPre")), parPost := (← natList (← field sj "parPost")) }
  let nodes ← parseNodes att fin items (← arr (← field j "nodes"))
  pure { src := src, nodes := nodes, ownFin := (← bool (← field j "ownFin")) }

/-- `GroundedFeedback`: request {"memo":{"cap":n|null,"insts":[{"seed":Seed,"ngood":n,"nbad":n,"argmax":a}],"reads":[[[inst,arg],…],…]}}.
The k-th draw of an instance is `CobaRandom(seed).choice(words)` at its k-th call: index `floor(len*u_k)` into the good
words when the argument is the argmax, else into the bad words (bad words are numbered after the good ones). -/
def handleMemo (j : Json) : Except String Json := do
  let cap ← opt nat (fieldD j "cap" Json.null)
  let insts ← (← arr (← field j "insts")).mapM (fun e => do
    pure ((← C09.Driver.parseSeed (← field e "seed")).norm, (← nat (← field e "ngood")), (← nat (← field e "nbad")), (← nat (← field e "argmax")), (← bool (← field e "normal"))))
  let reads ← (← arr (← field j "reads")).mapM (fun r => do
    (← arr r).mapM (fun q => do
      match (← arr q) with
      | [a, b] => pure ((← nat a), (← nat b))
      | _ => throw "query must be [inst,arg]"))
  -- `Grounded.filter`: `userid,normal = rng.choice(userid_isnormal)` once per interaction with `rng = CobaRandom(self._seed)`
  let users ← match j.getObjVal? "users" with
    | .ok u => do pure (some ((← C09.Driver.parseSeed (← field u "seed")).norm, (← nat (← field u "n")), (← nat (← field u "normal"))))
    | .error _ => pure none
  let userOf : Nat → Nat := fun t => match users with
    | some (s0, n, _) => C05.scaled ((List.range t).foldl (fun st _ => C05.next st) s0) n
    | none => 0
  let insts := match users with
    | some (_, _, nn) => insts.mapIdx (fun t (p : Nat × Nat × Nat × Nat × Bool) => (p.1, p.2.1, p.2.2.1, p.2.2.2.1, decide (userOf t < nn)))
    | none => insts
  let draw : Nat → Nat → Nat → Nat := fun i k a =>
    match insts[i]? with
    | none => poison
    | some (s0, ngood, nbad, argmax, normal) =>
      let s := (List.range k).foldl (fun st _ => C05.next st) s0
      -- normal users answer the argmax with a good word, the others with a bad one
      let useGood := (a == argmax) == normal
      if useGood then C05.scaled s ngood else ngood + C05.scaled s nbad
  pure (obj [("values", ofList (ofList ofNat) (Memo.reads cap draw ⟨[], []⟩ reads)),
             ("userids", ofNatListJson ((List.range insts.length).map userOf)),
             ("normals", ofList (fun (p : Nat × Nat × Nat × Nat × Bool) => Json.bool p.2.2.2.2) insts)])

/-- aliasing model: {"alias":{"stages":["share"|"copy"|"inplace"…],"store":[…],"held":[…],"mul":k}}: two reads of the held
objects through stages that rewrite a value v to v*mul+1 -/
def handleAlias (j : Json) : Except String Json := do
  let mul ← nat (fieldD j "mul" (ofNat 2))
  let g : Nat → Nat := fun v => v * mul + 1
  let stages ← (← arr (← field j "stages")).mapM (fun e => do
    match (← str e) with
    | "share" => pure AStage.share
    | "copy" => pure (AStage.copyMap g)
    | "inplace" => pure (AStage.inPlace g)
    | x => throw s!"unknown stage kind {x}")
  let st ← natList (← field j "store")
  let held ← natList (← field j "held")
  let r1 := readOnce stages st held
  let r2 := readOnce stages r1.1 held
  pure (obj [("first", ofNatListJson (deliver r1)), ("second", ofNatListJson (deliver r2)),
             ("heldAfter1", ofNatListJson (held.map (fun a => r1.1.getD a 0))),
             ("heldAfter2", ofNatListJson (held.map (fun a => r2.1.getD a 0))),
             ("noWriter", Json.bool (stages.all (fun s => !s.writesInput)))])


/-! ### Phase 5: the stage table.  `{"stages": {"obs": [[mro, attr], …]}}` → the table, the constants the model uses, and for every
observed (class names of an object, attribute that changed between reads) whether the table allows it -/
def repName : StateRep → String
  | .cacheSt => "cacheSt" | .isempty => "isempty" | .lookup => "lookup" | .started => "started" | .unobserved => "unobserved"

def cacheNodeJson : Node → Json
  | .cache sz prot st => obj [("sz", ofOpt ofNat sz), ("prot", Json.bool prot), ("unread", Json.bool (match st with | .unread => true | _ => false))]
  | _ => Json.null

def handleStages (q : Json) : Except String Json := do
  let obs ← (← arr (fieldD q "obs" (Json.arr #[]))).mapM (fun e => do
    match (← arr e) with
    | [m, a] => pure ((← strList m), (← str a))
    | _ => throw "obs must be [mro, attr]")
  pure (obj [("table", ofList (fun (r : StageRow) => obj [("file", Json.str r.file), ("cls", Json.str r.cls),
                ("attrs", ofList Json.str r.attrs), ("rep", Json.str (repName r.rep))]) stageTable),
             ("allowed", ofList (fun (p : List String × String) => Json.bool (stateAllowed p.1 p.2)) obs),
             ("classes", ofList Json.str modelEnvClasses),
             ("shortcutCache", cacheNodeJson shortcutCacheNode),
             ("materializeCache", cacheNodeJson materializeCacheNode),
             ("saveBatch", ofNat (saveBatchModel + 1)),
             ("loggedFactor", ofList ofNat [loggedSeedFactor.1, loggedSeedFactor.2])])

/-! ### Phase 4: fitting-window stages on content, general aliasing stages -/

/-- stand-in for `statistics.stdev` (the theorems are generic in `sd`): sample standard deviation, root to 20 decimals -/
def sdApprox (xs : List Rat) : Rat :=
  let v : Rat := C11.variance xs
  if xs.length < 2 ∨ v ≤ 0 then 0
  else
    let scaled : Nat := (v.num.toNat * 10 ^ 40) / v.den
    ((Nat.sqrt scaled : Nat) : Rat) / ((10 ^ 20 : Nat) : Rat)

def c11ValOfJson (j : Json) : Except String C11.Val := do
  if j.isNull then pure .nil
  else match j with
    | .str "nan" => pure .nan
    | .arr _ => pure (.num (← ratOfJson j))
    | _ => pure (.str (← str (← field j "s")))

def c11ValToJson : C11.Val → Json
  | .nil => Json.null
  | .nan => Json.str "nan"
  | .num q => ratToJson q
  | .str s => obj [("s", Json.str s)]

def c11CtxsOfJson (kind : String) (j : Json) : Except String C11.Ctxs := do
  let rows ← arr j
  match kind with
  | "dense" => pure (.dense (← rows.mapM (fun r => do (← arr r).mapM c11ValOfJson)))
  | "sparse" => pure (.sparse (← rows.mapM (fun r => do (← arr r).mapM (fun kv => do
      match (← arr kv) with
      | [k, v] => pure ((← str k), (← c11ValOfJson v))
      | _ => throw "pair expected"))))
  | "scalar" => pure (.scalar (← rows.mapM c11ValOfJson))
  | _ => throw s!"unknown kind {kind}"

def c11CtxsToJson : C11.Ctxs → Json
  | .dense rows => obj [("kind", Json.str "dense"), ("rows", ofList (ofList c11ValToJson) rows)]
  | .sparse rows => obj [("kind", Json.str "sparse"),
      ("rows", ofList (ofList (fun (kv : String × C11.Val) => Json.arr #[Json.str kv.1, c11ValToJson kv.2])) rows)]
  | .scalar rows => obj [("kind", Json.str "scalar"), ("rows", ofList c11ValToJson rows)]

def parseFitStage (j : Json) : Except String FitStage := do
  let u ← opt nat (fieldD j "using" Json.null)
  match (← str (← field j "k")) with
  | "scale" =>
    let sh : C11.Shift ← (match (← field j "shift") with
      | .str "min" => pure .min | .str "mean" => pure .mean | .str "med" => pure .median | .str "median" => pure .median
      | .str x => throw s!"unknown shift {x}"
      | q => do pure (.num (← ratOfJson q)))
    let sc : C11.Scl ← (match (← field j "scale") with
      | .str "minmax" => pure .minmax | .str "std" => pure .std | .str "iqr" => pure .iqr | .str "maxabs" => pure .maxabs
      | .str x => throw s!"unknown scale {x}"
      | q => do pure (.num (← ratOfJson q)))
    pure (.scale ⟨⟨sh, sc, u⟩, (← str (fieldD j "target" (Json.str "context")))⟩)
  | "impute" =>
    let st : C11.Stat ← (match (← str (← field j "stat")) with
      | "mean" => pure .mean | "median" => pure .median | "mode" => pure .mode | x => throw s!"unknown stat {x}")
    pure (.impute st (← bool (← field j "ind")) u)
  | "noise" => pure (FitStage.noiseInt (← int (← field j "seed")) (← int (← field j "lo")) (← int (← field j "hi")))
  | x => throw s!"unknown fit stage {x}"

def parseDemand (j : Json) : Except String Demand := do
  if j.isNull then pure .none
  else match j with
    | .str _ => pure .all
    | _ => pure (.pull (← nat j))

/-- {"fit":{"kind","rows","stages":[…],"reads":[null | k | "all"]}}: every read of the pipeline of fitting-window stages, as
the model delivers it (a fresh upstream iterator per read), and what a stage keeping its iterator would deliver (one stage only) -/
def handleFit (j : Json) : Except String Json := do
  let c ← c11CtxsOfJson (← str (← field j "kind")) (← field j "rows")
  let stages ← (← arr (← field j "stages")).mapM parseFitStage
  let ds ← (← arr (← field j "reads")).mapM parseDemand
  let den := fitDen sdApprox stages c
  let reads := ds.map (fun d => demTake d den)
  let kept := match stages with
    | [s] => fitReadsKept sdApprox s c 0 ds
    | _ => []
  let pulled := match stages with
    | s :: _ => ds.map (fun d => fitPulled s.window (ctxsLen c) d)
    | [] => []
  pure (obj [("reads", ofList c11CtxsToJson reads), ("kept", ofList c11CtxsToJson kept), ("pulled", ofNatListJson pulled),
             ("same", Json.bool (match stages with | [s] => (fitReadsFresh sdApprox s c ds).length == ds.length | _ => true))])

/-! ### Phase 6: what runs when a read is abandoned.  `{"abandon": {"obs": [[file, fn, kind], …], "cache": {"sz": n | null, "n": N,
"reads": [null | k | "all"]}}}` → for every observed source line that ran while a dropped read was closed whether the model's
`abandonTable` allows it, and the fields of a `pipes.Cache` over `range(N)` after each session (`cacheSessX .nothing`) with what the next read delivers -/
def cacheStJson (sz : Option Nat) (u : List Nat) (st : CacheSt) : Json :=
  let (c, it) : Option Nat × Bool := match st with
    | .unread => (none, false)
    | .prog c _ => (some c.length, true)
    | .done c => (some c.length, false)
  obj [("cache", ofOpt ofNat c), ("iter", Json.bool it), ("next", ofNatListJson (nodeView (.cache sz false st) u))]

def scanl' {α β} (f : β → α → β) : β → List α → List β
  | _, [] => []
  | b, a :: as => f b a :: scanl' f (f b a) as

def handleAbandon (q : Json) : Except String Json := do
  let obs ← (← arr (fieldD q "obs" (Json.arr #[]))).mapM (fun e => do
    match (← arr e) with
    | [f, g, k] => pure ((← str f), (← str g), (← str k))
    | _ => throw "obs must be [file, fn, kind]")
  let cacheJ ← match q.getObjVal? "cache" with
    | .ok c => do
      let sz ← match fieldD c "sz" Json.null with
        | .null => pure none
        | j => do pure (some (← nat j))
      let u := List.range (← nat (← field c "n"))
      let ds ← (← arr (← field c "reads")).mapM parseDemand
      pure (ofList (cacheStJson sz u) (scanl' (cacheSessX .nothing sz u) .unread ds))
    | .error _ => pure Json.null
  pure (obj [("allowed", ofList (fun (p : String × String × String) => Json.bool (abandonObsAllowed p.1 p.2.1 p.2.2)) obs),
             ("rows", ofNat abandonTable.length),
             ("cache", cacheJ)])

/-- {"galias":{"n":N,"stages":["share" | "alloc" | "write" | {"take":k} | {"pick":[i…]}]}}: one read and a second read of N held
objects (values 100+i) through the general aliasing stages; which delivered objects are held objects (address) and which are new (null) -/
def handleGAlias (j : Json) : Except String Json := do
  let n ← nat (← field j "n")
  let stages ← (← arr (← field j "stages")).mapM (fun e => do
    match e with
    | .str "share" => pure (GStage.share : GStage Nat)
    | .str "alloc" => pure (GStage.alloc (List.map (· * 2 + 1)))
    | .str "write" => pure (GStage.write (List.map (· * 2 + 1)))
    | _ => match e.getObjVal? "take" with
      | .ok k => do let k ← nat k; pure (GStage.pick (fun m => List.range (min k m)))
      | .error _ => do let idx ← natList (← field e "pick"); pure (GStage.pick (fun _ => idx)))
  let st : List Nat := (List.range n).map (· + 100)
  let held := List.range n
  let r1 := greadOnce 0 stages st held
  let r2 := greadOnce 0 stages r1.1 held
  pure (obj [("pattern1", ofList (ofOpt ofNat) (identityPattern n r1.2)),
             ("pattern2", ofList (ofOpt ofNat) (identityPattern n r2.2)),
             ("heldUnchanged", Json.bool (r1.1.take n == st && r2.1.take n == st)),
             ("sameValues", Json.bool (gdeliver 0 r1 == gdeliver 0 r2)),
             ("noWriter", Json.bool (stages.all (fun s => !s.writesInput)))])

/-- request: {"variant","fin":{table},"attrs":[…],"objs":[{src,nodes,ownFin}…] (or a single "src"/"nodes"/"ownFin"),
"caller":[[tokens]…],"hist":[…]}; answer: model outputs per operation, per object the denotation and denoted
params, whether the hypotheses of `reread` hold, and the caller-owned cells after the history -/
def handle (req : Json) : Except String Json := do
  match req.getObjVal? "alias" with
  | .ok a => handleAlias a
  | .error _ =>
  match req.getObjVal? "fit" with
  | .ok a => handleFit a
  | .error _ =>
  match req.getObjVal? "galias" with
  | .ok a => handleGAlias a
  | .error _ =>
  match req.getObjVal? "memo" with
  | .ok m => handleMemo m
  | .error _ =>
  match req.getObjVal? "stages" with
  | .ok q => handleStages q
  | .error _ =>
  match req.getObjVal? "abandon" with
  | .ok q => handleAbandon q
  | .error _ =>
  let variant := parseVariant (← str (← field req "variant"))
  let finJ ← field req "fin"
  -- Finalize's stateless part: Model/C10's function on content when the request carries the content, else its table
  let fin ← match finJ.getObjVal? "content" with
    | .ok c => parseContent c
    | .error _ => parsePure finJ
  let attrs ← (← arr (fieldD req "attrs" (Json.arr #[]))).mapM parseAttr
  let att := attrOf attrs
  let objs ← match req.getObjVal? "objs" with
    | .ok os => (← arr os).mapM (parseObj att fin)
    | .error _ => do pure [← parseObj att fin req]
  let w : World := { fin := fin, variant := variant, objs := objs.map some }
  let caller ← (← arr (fieldD req "caller" (Json.arr #[]))).mapM natList
  let h : HWorld := { w := w, caller := caller, argEdit := fun _ => none }
  let ops ← (← arr (← field req "hist")).mapM parseOp
  let outs := hrun h ops
  let o0 := objs.headD { src := { once := false, items := [], rem := [], started := false, parPre := [], parPost := [] }, nodes := [], ownFin := false }
  pure (obj [("model", ofList outToJson outs),
             ("den", ofNatListJson o0.den),
             ("denParams", ofNatListJson o0.denParams),
             ("dens", ofList (fun (o : Obj) => ofNatListJson o.den) objs),
             ("hyp", Json.bool (objs.all (hypB w))),
             ("caller", ofList ofNatListJson (hrunW h ops).caller),
             ("saveBatches", ofList (fun (o : Obj) => ofNat (saveBatches saveBatchModel o.den).length) objs),
             ("saveRoundTrip", Json.bool (objs.all (fun o => loadBatches (saveBatches saveBatchModel o.den) == o.den)))])

end Coba.C04.Driver
