import CobaVerif.Driver.JsonUtil
import CobaVerif.Model.C04
open Lean Coba.J

namespace Coba.C04.Driver
open Coba.C04

/-- identifier that no interned interaction has: "the model cannot say" -/
def poison : Nat := 4000000000

/-- a stateless filter given by its input→output table on the inputs it was observed on; filters
that work item by item additionally come with their item→item map (`elem`), which answers for
inputs in another order / sub-sequences (needed only by the as-is variant) -/
def tableF (table : List (List Nat × List Nat)) (elem : List (Nat × Nat)) (xs : List Nat) : List Nat :=
  match table.find? (fun p => p.1 == xs) with
  | some (_, out) => out
  | none =>
    if xs.isEmpty then []
    else
      match xs.mapM (fun x => (elem.find? (fun p => p.1 == x)).map (·.2)) with
      | some ys => ys
      | none => [poison]

/-- `islice(items, n)`: never pulls more than `n` items, sees the end only when there are fewer -/
def prefixDem (n : Nat) (u : List Nat) (d : Demand) : Demand :=
  let cap (k : Nat) : Demand := if n = 0 then .none else if u.length < k then .all else .pull (min k n)
  match d with
  | .none => .none
  | .pull k => if n ≤ k then cap n else .pull k
  | .all => if u.length < n then .all else cap n

def demOf (name : String) (n : Nat) : List Nat → Demand → Demand :=
  match name with
  | "eager" => fun _ d => if d.isNone then .none else .all
  | "calltime" => fun _ _ => .all
  | "prefix" => prefixDem n
  | "prefixcall" => fun u _ => prefixDem n u .all      -- `list(islice(items,n))` when read() is called
  | _ => fun _ d => d

def parseTable (j : Json) : Except String (List (List Nat × List Nat)) := do
  (← arr j).mapM (fun e => do
    match (← arr e) with
    | [a, b] => pure ((← natList a), (← natList b))
    | _ => throw "table entry must be [in,out]")

def parsePure (j : Json) : Except String PureSt := do
  let table ← parseTable (← field j "table")
  let elem ← (← arr (fieldD j "elem" (Json.arr #[]))).mapM (fun e => do
    match (← arr e) with
    | [a, b] => pure ((← nat a), (← nat b))
    | _ => throw "elem entry must be [in,out]")
  let dem ← str (fieldD j "dem" (Json.str "lazy"))
  let par ← natList (fieldD j "par" (Json.arr #[]))
  let n ← nat (fieldD j "n" (Json.num 0))
  pure { f := tableF table elem, dem := demOf dem n, par := par }

def parseVariant (s : String) : Variant := if s == "asis" then .asis else .fixed

/-- nodes are built source-first; `u` is the denotation of what is already built (needed for the
initial state of caches that were filled while the pipeline was constructed) -/
def parseNode (fin : PureSt) (u : List Nat) (j : Json) : Except String Node := do
  let k ← str (← field j "k")
  match k with
  | "pure" => pure (.pure (← parsePure j))
  | "shuffle" =>
    let perms ← (← arr (← field j "perms")).mapM natList
    let pars ← (← arr (← field j "par")).mapM natList
    let lg ← bool (← field j "logged")
    let v := parseVariant (← str (← field j "v"))
    let perm : Nat → List Nat → List Nat := fun d xs =>
      match perms[d]? with
      | some p => applyPerm p xs
      | none => [poison]
    let par : Nat → List Nat := fun d => match pars[d]? with | some p => p | none => [poison]
    pure (.shuffle v perm lg par 0)
  | "cache" =>
    let sz ← opt nat (fieldD j "sz" Json.null)
    let prot ← bool (fieldD j "prot" (Json.bool false))
    let st ← str (fieldD j "st" (Json.str "unread"))
    pure (.cache sz prot (if st == "done" then .done u else .unread))
  | "finalize" =>
    let rd ← bool (fieldD j "read" (Json.bool false))
    pure (.finalize fin (if rd then some (u == []) else none))
  | _ => throw s!"unknown node kind {k}"

def parseNodes (fin : PureSt) : List Nat → List Json → Except String (List Node)
  | _, [] => pure []
  | u, j :: js => do
    let n ← parseNode fin u j
    let rest ← parseNodes fin (nodeDen n u) js
    pure (n :: rest)

def parseOp (j : Json) : Except String Op := do
  let name ← str (← field j "op")
  let on ← nat (← field j "on")
  match name with
  | "full" => pure (.full on)
  | "partial" => pure (.part on (← nat (← field j "k")))
  | "params" => pure (.params on)
  | "materialize" => pure (.materialize on)
  | "cache" => pure (.cache on)
  | "chunk" => pure (.chunk on)
  | "pickle" => pure (.pickle on)
  | "save" => pure (.save on)
  | _ => throw s!"unknown op {name}"

def outToJson : Out → Json
  | .items xs => obj [("items", ofList ofNat xs)]
  | .params ts => obj [("params", ofList ofNat ts)]
  | .derived => Json.str "derived"
  | .err => Json.str "err"
  | .skip => Json.str "skip"

def nodeFixedB : Node → Bool
  | .shuffle .asis _ _ _ _ => false
  | _ => true

/-- decidable part of `WorldGood` for the single object a request describes (the initial cache /
EmptyCheck states are consistent by construction of `parseNodes`) -/
def hypB (w : World) (o : Obj) : Bool :=
  (w.variant == .fixed) && !o.src.once && o.nodes.all nodeFixedB && o.nodes.any isFinalize &&
  (finF w.fin o.den == o.den) &&
  (!o.ownFin || (match o.nodes.getLast? with
                 | some (.finalize _ _) => !(o.nodes.dropLast.any isFinalize)
                 | _ => false))

/-- request: {"variant","fin":{table},"src":{once,items,parPre,parPost},"nodes":[…],"ownFin","hist":[…]}
answer: model outputs per operation, the denotation and denoted params, and whether the hypotheses
of `reread` hold for the request -/
def handle (req : Json) : Except String Json := do
  let variant := parseVariant (← str (← field req "variant"))
  let fin ← parsePure (← field req "fin")
  let sj ← field req "src"
  let items ← natList (← field sj "items")
  let src : Src := {
    once := (← bool (← field sj "once")), items := items, rem := items,
    started := (← bool (fieldD sj "started" (Json.bool false))),
    parPre := (← natList (← field sj "parPre")), parPost := (← natList (← field sj "parPost")) }
  let nodes ← parseNodes fin items (← arr (← field req "nodes"))
  let o : Obj := { src := src, nodes := nodes, ownFin := (← bool (← field req "ownFin")) }
  let w : World := { fin := fin, variant := variant, objs := [some o] }
  let ops ← (← arr (← field req "hist")).mapM parseOp
  let outs := run w ops
  pure (obj [("model", ofList outToJson outs),
             ("den", ofList ofNat o.den),
             ("denParams", ofList ofNat o.denParams),
             ("hyp", Json.bool (hypB w o))])

end Coba.C04.Driver
