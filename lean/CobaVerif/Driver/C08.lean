import CobaVerif.Driver.JsonUtil
import CobaVerif.Model.C08
open Lean Coba.J

namespace Coba.C08.Driver
open Coba.C08

def parseItem (j : Json) : Except String ItemSpec := do
  pure { id := ← nat (← field j "id"), outs := ← natList (← field j "outs"),
         err := ← opt nat (fieldD j "err" Json.null), perr := ← opt nat (fieldD j "perr" Json.null) }

def parseCfg (j : Json) : Except String Cfg := do
  pure { n := ← nat (← field j "n"), m := ← nat (← field j "m"),
         items := ← (← arr (← field j "items")).mapM parseItem,
         timeouts := (match (fieldD j "timeouts" (Json.bool false)).getBool? with | .ok b => b | .error _ => false) }

def parseAction (j : Json) : Except String Action := do
  let name ← str (← field j "a")
  let w : Except String Nat := do nat (← field j "w")
  match name with
  | "loadTake" => pure .loadTake | "loadPut" => pure .loadPut | "loadFinish" => pure .loadFinish
  | "wBegin" => pure (.wBegin (← w)) | "wGet" => pure (.wGet (← w)) | "wPut" => pure (.wPut (← w))
  | "wRaise" => pure (.wRaise (← w)) | "wRetire" => pure (.wRetire (← w)) | "wCallback" => pure (.wCallback (← w))
  | "mEvent" => pure .mEvent | "cGet" => pure .cGet | "cAbandon" => pure .cAbandon
  | "drainIn" => pure .drainIn | "drainOut" => pure .drainOut | "mDone" => pure .mDone
  | _ => throw s!"unknown action {name}"

def phaseName : Phase → String
  | .waitEvent => "waitEvent" | .consuming => "consuming" | .fin => "fin" | .done => "done"

def elemJson : Option ItemSpec → Json
  | some x => ofNat x.id
  | none => ofInt (-1)

def wJson : W → Json
  | .spawned => Json.str "spawned"
  | .run k pend e => obj [("run", ofNat k), ("pend", ofList ofNat pend), ("err", ofOpt ofNat e)]
  | .exited p e => obj [("exited", Json.bool p), ("err", ofOpt ofNat e)]
  | .dead => Json.str "dead"

def woutcomeJson : WOutcome → Json
  | .ok o => obj [("kind", Json.str "ok"), ("outs", ofList ofNat o)]
  | .raised e o => obj [("kind", Json.str "raised"), ("err", ofNat e), ("outs", ofList ofNat o)]
  | .exit e o => obj [("kind", Json.str "exit"), ("err", ofNat e), ("outs", ofList ofNat o)]
  | .closed o => obj [("kind", Json.str "closed"), ("outs", ofList ofNat o)]

def outcomeJson : Outcome → Json
  | .ok o => obj [("kind", Json.str "ok"), ("outs", ofList ofNat o)]
  | .raised e o => obj [("kind", Json.str "raised"), ("err", ofNat e), ("outs", ofList ofNat o)]
  | .closed o => obj [("kind", Json.str "closed"), ("outs", ofList ofNat o)]

def stateJson (c : Cfg) (s : State) : Json :=
  obj [("todo", ofList elemJson s.todo), ("infl", ofOpt elemJson s.infl), ("lphase", Json.bool s.lphase),
       ("inq", ofList elemJson s.inq), ("outq", ofList (fun o => match o with | some v => ofInt v | none => ofInt (-1)) s.outq),
       ("ws", ofList wJson s.ws), ("nprocs", ofNat s.nprocs), ("excs", ofList ofNat s.excs),
       ("event", Json.bool s.event), ("recv", ofList ofNat s.recv), ("main", Json.str (phaseName s.main)),
       ("abandoned", Json.bool s.abandoned), ("lexc", ofOpt ofNat s.lexc), ("mu", ofNat (mu c s))]

/-- the value an action is about to move, as the harness observes it (−1 = pill) -/
def observed (s : State) : Action → Option Int
  | .loadTake => match s.todo with | some x :: _ => some x.id | none :: _ => some (-1) | [] => none
  | .loadPut => match s.infl with | some (some x) => some x.id | some none => some (-1) | none => none
  | .wGet _ => match s.inq with | some x :: _ => some x.id | none :: _ => some (-1) | [] => none
  | .wPut w => match s.ws[w]? with | some (.run _ (o :: _) _) => some o | _ => none
  | .wRaise w => match s.ws[w]? with | some (.run _ _ (some e)) => some e | _ => none
  | .cGet => match s.outq with | some o :: _ => some o | none :: _ => some (-1) | [] => none
  | _ => none

structure Res where
  steps : Nat
  fail  : Option (Nat × String)
  st    : State
  muOk  : Bool

def replay (c : Cfg) : Nat → State → List Json → Bool → Except String Res
  | i, s, [], ok => pure ⟨i, none, s, ok⟩
  | i, s, j :: js, ok => do
    let isTo : Bool := (match j.getObjVal? "a" with | .ok (Json.str "putTimeout") => true | _ => false)
    if isTo then
      if !enabledT c s .putTimeout then pure ⟨i, some (i, "not-enabled"), s, ok⟩
      else
        let s' := stepT c s .putTimeout
        replay c (i + 1) s' js (ok && mu c s' < mu c s)
    else
    let a ← parseAction j
    if !enabled c s a then
      pure ⟨i, some (i, "not-enabled"), s, ok⟩
    else
      let obsOk : Bool := match j.getObjVal? "x" with
        | .ok v => (match v.getInt? with | .ok x => observed s a == some x | .error _ => true)
        | .error _ => true
      if !obsOk then pure ⟨i, some (i, "value-mismatch"), s, ok⟩ else
      let s' := step c s a
      let npOk : Bool := match j.getObjVal? "np" with
        | .ok v => (match v.getNat? with | .ok x => s'.nprocs == x | .error _ => true)
        | .error _ => true
      if !npOk then pure ⟨i, some (i, "nprocs-mismatch"), s', ok⟩ else
      -- at a `cAbandon`: the caller's own steps (`finishSeq`) must be a possible schedule that ends the call with empty queues
      let finOk : Bool := if a == .cAbandon then
          (match runTrace c s (finishSeq s) with
           | some t => t.main == .done && t.inq.isEmpty && t.outq.isEmpty && (List.range c.n).all (fun w => !enabled c t (.wGet w))
           | none => false)
        else true
      replay c (i + 1) s' js (ok && mu c s' < mu c s && finOk)

structure ResF where
  steps : Nat
  fail  : Option (Nat × String)
  st    : FState
  muOk  : Bool
  invOk : Bool := true    -- phase 5: at every state "not done ⇒ some step of the code is enabled" and "recv + lost ≤ all outputs"

/-- the conclusions of `deadlock_free_faults` / `stuck_done_faults` / `never_duplicated_faults` on one state -/
def faultInvOk (c : Cfg) (s : FState) : Bool :=
  (s.b.main == .done || !stuckF c s) &&
  (s.b.recv ++ s.lostOuts).all (fun o => s.b.recv.count o + s.lostOuts.count o ≤ (allOuts c).count o)

/-- replay through the fault extension (`enabledF`/`stepF`): `{"a":"wCrash","w":i}` = the process of lineage i died -/
def replayF (c : Cfg) : Nat → FState → List Json → Bool → (iv : Bool := true) → Except String ResF
  | i, s, [], ok, iv => pure ⟨i, none, s, ok, iv && faultInvOk c s⟩
  | i, s, j :: js, ok, iv => do
    let isCrash : Bool := (match j.getObjVal? "a" with | .ok (Json.str "wCrash") => true | _ => false)
    let a : ActionF ← (if isCrash then do pure (ActionF.wCrash (← nat (← field j "w"))) else do pure (ActionF.base (← parseAction j)))
    if !enabledF c s a then pure ⟨i, some (i, "not-enabled"), s, ok, iv⟩ else
    let obsOk : Bool := match a, j.getObjVal? "x" with
      | .base b, .ok v => (match v.getInt? with | .ok x => observed s.b b == some x | .error _ => true)
      | _, _ => true
    if !obsOk then pure ⟨i, some (i, "value-mismatch"), s, ok, iv⟩ else
    let s' := stepF c s a
    let npOk : Bool := match j.getObjVal? "np" with
      | .ok v => (match v.getNat? with | .ok x => s'.b.nprocs == x | .error _ => true)
      | .error _ => true
    if !npOk then pure ⟨i, some (i, "nprocs-mismatch"), s', ok, iv⟩ else
    replayF c (i + 1) s' js (ok && muF c s' < muF c s && maxTasksOk c s'.b) (iv && faultInvOk c s)

structure ResR where
  steps : Nat
  fail  : Option (Nat × String)
  st    : RState
  muOk  : Bool

def parseActionR (j : Json) : Except String ActionR := do
  match (← str (← field j "a")) with
  | "wKey" => pure (.wKey (← nat (← field j "w")))
  | "cKey" => pure .cKey
  | "drainKey" => pure .drainKey
  | _ => pure (.base (← parseAction j))

/-- replay through the `read_wait` layer (`enabledR`/`stepR`); (C): `muR` decreases, `b.outq` stays the key-free part of `routq` -/
def replayR (c : Cfg) (rw : Bool) : Nat → RState → List Json → Bool → Except String ResR
  | i, s, [], ok => pure ⟨i, none, s, ok⟩
  | i, s, j :: js, ok => do
    let a ← parseActionR j
    if !enabledR c s a then pure ⟨i, some (i, "not-enabled"), s, ok⟩ else
    let obsOk : Bool := match a, j.getObjVal? "x" with
      | .base b, .ok v => (match v.getInt? with | .ok x => observed s.b b == some x | .error _ => true)
      | _, _ => true
    let keyOk : Bool := match a, j.getObjVal? "w" with
      | .cKey, .ok v => (match v.getNat?, s.routq with | .ok w, .key w' :: _ => w == w' | _, _ => true)
      | _, _ => true
    if !(obsOk && keyOk) then pure ⟨i, some (i, "value-mismatch"), s, ok⟩ else
    let s' := stepR c rw s a
    let npOk : Bool := match j.getObjVal? "np" with
      | .ok v => (match v.getNat? with | .ok x => s'.b.nprocs == x | .error _ => true)
      | .error _ => true
    if !npOk then pure ⟨i, some (i, "nprocs-mismatch"), s', ok⟩ else
    replayR c rw (i + 1) s' js (ok && muR c s' < muR c s && s'.b.outq == s'.routq.filterMap ROut.proj && maxTasksOk c s'.b)

structure ResRF where
  steps : Nat
  fail  : Option (Nat × String)
  st    : RFState
  muOk  : Bool

/-- phase 5: replay through crash × read_wait (`enabledRF`/`stepRF`): `{"a":"wCrashKey","w":i}` = the waiting process of lineage i died -/
def replayRF (c : Cfg) (rw : Bool) : Nat → RFState → List Json → Bool → Except String ResRF
  | i, s, [], ok => pure ⟨i, none, s, ok⟩
  | i, s, j :: js, ok => do
    let isCrash : Bool := (match j.getObjVal? "a" with | .ok (Json.str "wCrashKey") => true | _ => false)
    let a : ActionRF ← (if isCrash then do pure (ActionRF.wCrashKey (← nat (← field j "w"))) else do pure (ActionRF.r (← parseActionR j)))
    if !enabledRF c s a then pure ⟨i, some (i, "not-enabled"), s, ok⟩ else
    let obsOk : Bool := match a, j.getObjVal? "x" with
      | .r (.base b), .ok v => (match v.getInt? with | .ok x => observed s.r.b b == some x | .error _ => true)
      | _, _ => true
    let keyOk : Bool := match a, j.getObjVal? "w" with
      | .r .cKey, .ok v => (match v.getNat?, s.r.routq with | .ok w, .key w' :: _ => w == w' | _, _ => true)
      | _, _ => true
    if !(obsOk && keyOk) then pure ⟨i, some (i, "value-mismatch"), s, ok⟩ else
    let s' := stepRF c rw s a
    let npOk : Bool := match j.getObjVal? "np" with
      | .ok v => (match v.getNat? with | .ok x => s'.r.b.nprocs == x | .error _ => true)
      | .error _ => true
    if !npOk then pure ⟨i, some (i, "nprocs-mismatch"), s', ok⟩ else
    replayRF c rw (i + 1) s' js (ok && muR c s'.r < muR c s.r && s'.r.b.outq == s'.r.routq.filterMap ROut.proj && maxTasksOk c s'.r.b
                                  && s'.r.b.recv.all (fun o => s'.r.b.recv.count o ≤ (allOuts c).count o))

/-- multiset equality of two lists of naturals (run-time check (C)) -/
def sameMultiset (a b : List Nat) : Bool :=
  a.length == b.length && a.all (fun x => a.count x == b.count x)

def _root_.Coba.C08.FState.recv_sub_ok (s : FState) (c : Cfg) : Bool :=
  s.b.recv.all (fun o => s.b.recv.count o ≤ (allOuts c).count o) &&
  (match s.b.excs with | e :: _ => (allErrs c).contains e | [] => true)

/-- phase 6: replay of a joint trace through the product system; -> (index of the first rejected step, final state, accepted) -/
def replay2 (c1 c2 : Cfg) : Nat → State × State → List Action2 → Nat × (State × State) × Bool
  | i, s, [] => (i, s, true)
  | i, s, a :: as => if enabled2 c1 c2 s a then replay2 c1 c2 (i + 1) (step2 c1 c2 s a) as else (i, s, false)

/-- request {"op":"trace","cfg":…,"trace":[…]} or {"op":"inproc","cfg":…} -/
def handle (req : Json) : Except String Json := do
  let c ← parseCfg (← field req "cfg")
  match (← str (← field req "op")) with
  | "inproc" =>
    let r := inproc c.items
    pure (obj [("outs", ofList ofNat r.1), ("err", ofOpt ofNat r.2),
               ("spec_outs", ofList ofNat (allOuts c)), ("spec_errs", ofList ofNat (allErrs c)),
               ("wrapper_skips", Json.bool (wrapperSkips c.items))])
  | "indep" =>
    -- the independence table, evaluated on pairs of actions the harness met (its sleep sets use a Python copy of it)
    let ps ← arr (← field req "pairs")
    let rs ← ps.mapM (fun p => do
      match (← arr p) with
      | [a, b] => pure (Json.bool (indep (← parseAction a) (← parseAction b)))
      | _ => throw "pair expected")
    let rs2 ← ps.mapM (fun p => do
      match (← arr p) with
      | [a, b] => pure (Json.bool (indep2 (← parseAction a) (← parseAction b)))
      | _ => throw "pair expected")
    pure (obj [("indep", Json.arr rs.toArray), ("indep2", Json.arr rs2.toArray)])
  | "trace" =>
    let tr ← arr (← field req "trace")
    -- error ids the CobaMultiprocessor wrapper turns into CobaExit (none for the filter's own errors in the fixed code)
    let boot : List Nat ← (match req.getObjVal? "boot" with | .ok j => natList j | .error _ => pure [])
    -- what the previous call on the same object left behind (histories); `startCall` re-assigns all of it
    let o : Obj ← (match req.getObjVal? "obj" with
      | .ok j => do pure { nprocs := ← nat (← field j "nprocs"), excs := ← natList (← field j "excs") }
      | .error _ => pure { nprocs := 0, excs := [] })
    let r ← replay c 0 (startCall o c) tr true
    let s := r.st
    let fin := s.main == .done
    -- (C): the theorems' conclusions evaluated on the final state
    let specHolds : Bool :=
      if !fin then true
      else if s.abandoned then (s.recv.all (fun o => s.recv.count o ≤ (allOuts c).count o))
      else if (allErrs c).isEmpty then s.excs.isEmpty && sameMultiset s.recv (allOuts c)
      else (match s.excs with | e :: _ => (allErrs c).contains e | [] => false)
    pure (obj [("steps", ofNat r.steps),
               ("fail", match r.fail with | some (i, why) => obj [("at", ofNat i), ("why", Json.str why)] | none => Json.null),
               ("state", stateJson c s), ("outcome", outcomeJson (outcome s)), ("done", Json.bool fin),
               ("wrapped", woutcomeJson (wrapOutcome (fun e => boot.contains e) (outcome s))),
               ("wrapper_input", ofList ofNat (wrapperInput (c.items.map (·.id)))),
               ("mu_decreasing", Json.bool r.muOk), ("mu0", ofNat (mu c (init c))),
               ("spec_outs", ofList ofNat (allOuts c)), ("spec_errs", ofList ofNat (allErrs c)),
               ("spec_holds", Json.bool specHolds)])
  | "traceF" =>
    -- fault extension: the trace may contain `wCrash`; `faults` = the budget (number of crashes the harness injected)
    let tr ← arr (← field req "trace")
    let f ← nat (← field req "faults")
    let r ← replayF c 0 (initF c f) tr true
    let s := r.st
    let fin := s.b.main == .done
    -- (C): conclusions that hold with faults: nothing duplicated / foreign, whatever is missing is what the dead processes held or
    -- what was never taken; errors raised are genuine; the run is within the proved bound
    let lostOk : Bool := s.recv_sub_ok c
    pure (obj [("steps", ofNat r.steps),
               ("fail", match r.fail with | some (i, why) => obj [("at", ofNat i), ("why", Json.str why)] | none => Json.null),
               ("state", stateJson c s.b), ("outcome", outcomeJson (outcome s.b)), ("done", Json.bool fin),
               ("main_err", Json.bool s.mainErr), ("skipped", Json.bool s.skipped), ("lost_outs", ofList ofNat s.lostOuts),
               ("lost_errs", ofList ofNat s.lostErrs), ("budget_left", ofNat s.budget),
               ("mu_decreasing", Json.bool r.muOk), ("mu0", ofNat (muF c (initF c f))),
               ("within_bound", Json.bool (r.steps ≤ mu c (init c) + 3 * f)),
               ("fault_inv", Json.bool r.invOk), ("stuck", Json.bool (stuckF c s)),
               ("code_enabled", ofNat ((codeActions c).filter (fun a => enabledF c s (.base a))).length),
               ("spec_outs", ofList ofNat (allOuts c)), ("spec_errs", ofList ofNat (allErrs c)),
               ("spec_holds", Json.bool lostOk)])
  | "traceR" =>
    -- `read_wait` layer: the trace may contain `wKey` / `cKey` / `drainKey`
    let tr ← arr (← field req "trace")
    let rw : Bool := (match (fieldD req "read_wait" (Json.bool false)).getBool? with | .ok b => b | .error _ => false)
    let r ← replayR c rw 0 (initR c) tr true
    let s := r.st.b
    let fin := s.main == .done
    -- (C): by `readwait_refines` the base theorems' conclusions hold for `s.b`
    let specHolds : Bool :=
      if !fin then true
      else if s.abandoned then (s.recv.all (fun o => s.recv.count o ≤ (allOuts c).count o))
      else if (allErrs c).isEmpty then s.excs.isEmpty && sameMultiset s.recv (allOuts c) && r.st.keyPending.isEmpty && r.st.keyWait.isEmpty
      else (match s.excs with | e :: _ => (allErrs c).contains e | [] => false)
    pure (obj [("steps", ofNat r.steps),
               ("fail", match r.fail with | some (i, why) => obj [("at", ofNat i), ("why", Json.str why)] | none => Json.null),
               ("state", stateJson c s), ("outcome", outcomeJson (outcome s)), ("done", Json.bool fin),
               ("key_pending", ofList ofNat r.st.keyPending), ("key_wait", ofList ofNat r.st.keyWait),
               ("mu_decreasing", Json.bool r.muOk), ("mu0", ofNat (muR c (initR c))),
               ("within_bound", Json.bool (r.steps ≤ 6 * mu c (init c))),
               ("spec_outs", ofList ofNat (allOuts c)), ("spec_errs", ofList ofNat (allErrs c)),
               ("spec_holds", Json.bool specHolds)])
  | "traceRF" =>
    -- phase 5: crash × read_wait; `faults` = number of `wCrashKey` in the trace
    let tr ← arr (← field req "trace")
    let f ← nat (← field req "faults")
    let r ← replayRF c true 0 (initRF c f) tr true
    let s := r.st.r.b
    pure (obj [("steps", ofNat r.steps),
               ("fail", match r.fail with | some (i, why) => obj [("at", ofNat i), ("why", Json.str why)] | none => Json.null),
               ("state", stateJson c s), ("outcome", outcomeJson (outcome s)), ("done", Json.bool (s.main == .done)),
               ("key_pending", ofList ofNat r.st.r.keyPending), ("key_wait", ofList ofNat r.st.r.keyWait),
               ("main_err", Json.bool r.st.mainErr), ("skipped", Json.bool r.st.skipped), ("budget_left", ofNat r.st.budget),
               ("mu_decreasing", Json.bool r.muOk), ("within_bound", Json.bool (r.steps ≤ 6 * mu c (init c)))])
  | "trace2" =>
    -- phase 6: the joint log of two calls alive together on one object (`c` = 0 / 1 on every action) through the product system
    let c2 ← parseCfg (← field req "cfg2")
    let tr ← arr (← field req "trace")
    let acts ← tr.mapM (fun j => do
      let a ← parseAction j
      let k ← nat (← field j "c")
      pure (if k == 0 then Action2.first a else Action2.second a))
    let r := replay2 c c2 0 (init c, init c2) acts
    let s := r.2.1
    let agree : Bool := decide (runTrace c (init c) (proj1 acts) = some s.1) && decide (runTrace c2 (init c2) (proj2 acts) = some s.2)
    pure (obj [("accepted", Json.bool r.2.2), ("at", ofNat r.1),
               ("outcomes", Json.arr #[outcomeJson (outcome s.1), outcomeJson (outcome s.2)]),
               ("projections_agree", Json.bool (!r.2.2 || agree)),
               ("mu", ofNat (mu c s.1 + mu c2 s.2))])
  | "rwproto" =>
    -- phase 6: the read_wait protocol programs (compared with what the REAL MyProcessLine.start/run and the caller's loop do)
    let b (k : String) : Bool := (match (fieldD req k (Json.bool false)).getBool? with | .ok x => x | .error _ => false)
    pure (obj [("program", ofList ofNat ((workerProgram (b "has_wait")).map RWOp.code)),
               ("registers", Json.bool (startRegisters (b "store") (b "non_empty"))),
               ("caller_sets", Json.bool (callerSets (b "store") (b "is_key")))])
  | op => throw s!"unknown op {op}"

end Coba.C08.Driver
