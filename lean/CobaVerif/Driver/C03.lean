import CobaVerif.Driver.C01

/- C03 shares the model and the request format of C01. -/
namespace Coba.C03.Driver
def handle := Coba.C01.Driver.handle
end Coba.C03.Driver
