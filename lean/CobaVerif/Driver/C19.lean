import CobaVerif.Driver.JsonUtil
import CobaVerif.Model.C19
open Lean Coba.J

namespace Coba.C19.Driver
open Coba.C19

def parseInstr (j : Json) : Except String Instr := do
  let l ← arr j
  match l with
  | [t] =>
    match (← str t) with
    | "exit" => pure .exit
    | "raise" => pure .raise
    | s => throw s!"bad instr {s}"
  | [t, k] =>
    match (← str t) with
    | "rmv" => pure (.rmv (← nat k) false false)
    | s => throw s!"bad instr {s}"
  | [t, k, v] =>
    match (← str t) with
    | "rmv" => pure (.rmv (← nat k) (← bool v) false)
    | "gs" =>
      let kk ← nat k
      if v.isNull then pure (.getSet kk .fail) else do
        let vv ← nat v
        pure (.getSet kk (.ok vv))
    | s => throw s!"bad instr {s}"
  | _ => throw "bad instr"

def evToJson : Ev → Json
  | .begin => Json.arr #[Json.str "begin"]
  | .nextSeg => Json.arr #[Json.str "nextSeg"]
  | .skip => Json.arr #[Json.str "skip"]
  | .spin => Json.arr #[Json.str "spin"]
  | .acqR k => Json.arr #[Json.str "acqR", ofNat k]
  | .relR k => Json.arr #[Json.str "relR", ofNat k]
  | .acqW k => Json.arr #[Json.str "acqW", ofNat k]
  | .relW k => Json.arr #[Json.str "relW", ofNat k]
  | .sw k => Json.arr #[Json.str "sw", ofNat k]
  | .contains k b => Json.arr #[Json.str "contains", ofNat k, Json.bool b]
  | .cget k v => Json.arr #[Json.str "cget", ofNat k, ofNat v]
  | .ccreate k => Json.arr #[Json.str "ccreate", ofNat k]
  | .cpop k v => Json.arr #[Json.str "cpop", ofNat k, ofNat v]
  | .cpopFail k => Json.arr #[Json.str "cpopFail", ofNat k]
  | .crmv k b => Json.arr #[Json.str "crmv", ofNat k, Json.bool b]
  | .crmvFail k => Json.arr #[Json.str "crmvFail", ofNat k]
  | .enter k v => Json.arr #[Json.str "enter", ofNat k, ofNat v]
  | .raiseBody => Json.arr #[Json.str "raiseBody"]
  | .refuse k => Json.arr #[Json.str "refuse", ofNat k]

/-- replay a schedule; stops at the first scheduled caller that has no step -/
def replay (idx : Nat → Nat) : St → List Nat → List Ev → St × List Ev × Option Nat
  | s, [], acc => (s, acc.reverse, none)
  | s, i :: is, acc =>
    match step idx s i with
    | none => (s, acc.reverse, some acc.length)
    | some (ev, s') => replay idx s' is (ev :: acc)

/-- replay with the implementation's own answers for the unlocked membership test of rmv: before a caller at
`rmChk k f _` steps, the oracle flag is set from what the implementation observed (`seesTrue`); returns also the
steps at which the implementation saw an uncached key although no caller was writing its file -/
def replayO (idx : Nat → Nat) : St → List (Nat × Bool) → List Ev → List Nat → St × List Ev × Option Nat × List Nat
  | s, [], acc, bad => (s, acc.reverse, none, bad.reverse)
  | s, (i, sees) :: is, acc, bad =>
    let (s1, bad1) := match s.cs[i]? with
      | some c =>
        match c.pc with
        | .rmChk k f _ =>
          let spurious := sees && (s.cache k).isNone && !(partialWriter s k)
          ({ s with cs := s.cs.set i { c with pc := .rmChk k f sees } }, if spurious then acc.length :: bad else bad)
        | _ => (s, bad)
      | none => (s, bad)
    match step idx s1 i with
    | none => (s1, acc.reverse, some acc.length, bad1.reverse)
    | some (ev, s') => replayO idx s' is (ev :: acc) bad1

/-- does the edge list have a cycle (transitive closure by `n` rounds of composition) -/
def hasCycle (n : Nat) (es : List (Nat × Nat)) : Bool :=
  let close := (List.range n).foldl (fun (r : List (Nat × Nat)) _ =>
    r ++ (r.flatMap (fun ab => (es.filter (fun bc => bc.1 == ab.2 && !(r.contains (ab.1, bc.2)))).map (fun bc => (ab.1, bc.2)))).eraseDups) es
  close.any (fun ab => ab.1 == ab.2)

/-- walk the instrumented run and check in EVERY visited state: the clock invariant (`stampsOK`), no cycle in the wait-for
graph, not deadlocked; also count the states that have wait-for edges (non-vacuity) -/
def gscan (idx : Nat → Nat) (keys : List Nat) : GSt → List Nat → (Bool × Nat × Nat × Nat) → (Bool × Nat × Nat × Nat)
  | g, sched, (ok, cyc, dead, waits) =>
    let es := waitEdges idx g.base
    let acc := (ok && g.stampsOK keys, cyc + (if hasCycle g.base.cs.length es then 1 else 0),
                dead + (if g.base.deadlocked idx then 1 else 0), waits + (if es.isEmpty then 0 else 1))
    match sched with
    | [] => acc
    | i :: is =>
      match gstep idx g i with
      | none => gscan idx keys g is acc
      | some (_, g') => gscan idx keys g' is acc

def parseBytes (j : Json) : Except String (Option (List Nat)) := opt natList j

def sevToJson : SEv → Json
  | .cachedRead => Json.str "cachedRead" | .request => Json.str "request" | .acquire => Json.str "acquire"
  | .wait => Json.str "wait" | .releaseEarly => Json.str "releaseEarly" | .enterDownload => Json.str "enterDownload"
  | .done => Json.str "done" | .raised => Json.str "raised" | .release => Json.str "release" | .noRelease => Json.str "noRelease"

/-- replay a schedule of the semaphore system; after every step: (free, holders, downloads) -/
def sreplay : SSt → List Nat → List (SEv × Nat × Nat × Nat) → SSt × List (SEv × Nat × Nat × Nat) × Option Nat
  | s, [], acc => (s, acc.reverse, none)
  | s, i :: is, acc =>
    match sstep s i with
    | none => (s, acc.reverse, some acc.length)
    | some (ev, s') => sreplay s' is ((ev, s'.free, s'.holders, s'.downloads) :: acc)

def fileToJson : FileSt → Json
  | .absent => Json.arr #[Json.str "absent"]
  | .opened w => Json.arr #[Json.str "opened", ofList ofNat w]
  | .closed w => Json.arr #[Json.str "closed", ofList ofNat w]

def readToJson : DiskRead → Json
  | .complete w => Json.arr #[Json.str "complete", ofList ofNat w]
  | .partialSeen w => Json.arr #[Json.str "partial", ofList ofNat w]
  | .zeroLength => Json.arr #[Json.str "zeroLength"]
  | .missing => Json.arr #[Json.str "missing"]

def devToJson : DEv → Json
  | .base ev obs => Json.arr #[Json.str "base", evToJson ev, ofOpt readToJson obs]
  | .chunk k b => Json.arr #[Json.str "chunk", ofNat k, ofNat b]
  | .close k => Json.arr #[Json.str "close", ofNat k]

/-- replay of the file-level system with the implementation's answers for the unlocked membership test (as `replayO`) -/
def dreplayO (enc : Nat → List Nat) (idx : Nat → Nat) : DSt → List (Nat × DAct × Bool) → List DEv → DSt × List DEv × Option Nat
  | s, [], acc => (s, acc.reverse, none)
  | s, (i, a, sees) :: is, acc =>
    let s1 : DSt := match s.base.cs[i]? with
      | some c =>
        match c.pc with
        | .rmChk k f _ => if a == DAct.base then { s with base := { s.base with cs := s.base.cs.set i { c with pc := .rmChk k f sees } } } else s
        | _ => s
      | none => s
    match dstep enc idx s1 i a with
    | none => (s1, acc.reverse, some acc.length)
    | some (ev, s') => dreplayO enc idx s' is (ev :: acc)

/-- phase 5, per state of the file-level system: (some unfinished caller has NO enabled action, some writer is in the middle of an entry) -/
def dstateScan (enc : Nat → List Nat) (idx : Nat → Nat) (parts : Nat) (s : DSt) : Bool × Bool :=
  let n := s.base.cs.length
  let acts : List DAct := [DAct.base, DAct.close] ++ (List.range (parts + 1)).map DAct.chunk
  ((List.range n).any (fun i => match s.base.cs[i]? with
      | some c => !c.terminal && acts.all (fun a => (dstep enc idx s i a).isNone)
      | none => false),
   (List.range n).any (fun i => decide (0 < writeLeft enc s i)))

/-- walk the file-level run (oracle handling as `dreplayO`) and count: states with a stuck caller (`chunked_no_caller_stuck`),
steps that do not decrease the variant (`chunked_progress_bounded`), states with a writer in the middle of an entry -/
def dscan (enc : Nat → List Nat) (idx : Nat → Nat) (parts : Nat) : DSt → List (Nat × DAct × Bool) → (Nat × Nat × Nat) → (Nat × Nat × Nat)
  | s, [], (stuck, bad, wst) =>
    let r := dstateScan enc idx parts s
    (stuck + (if r.1 then 1 else 0), bad, wst + (if r.2 then 1 else 0))
  | s, (i, a, sees) :: is, (stuck, bad, wst) =>
    let r := dstateScan enc idx parts s
    let stuck1 := stuck + (if r.1 then 1 else 0)
    let wst1 := wst + (if r.2 then 1 else 0)
    let s1 : DSt := match s.base.cs[i]? with
      | some c =>
        match c.pc with
        | .rmChk k f _ => if a == DAct.base then { s with base := { s.base with cs := s.base.cs.set i { c with pc := .rmChk k f sees } } } else s
        | _ => s
      | none => s
    match dstep enc idx s1 i a with
    | none => (stuck1, bad, wst1)
    | some (ev, s') =>
      let b : Bool := match ev with
        | .base e _ => e != Ev.spin && !(decide (s'.base.measure < s1.base.measure))
        | _ => (match s1.base.cs[i]? with
          | some c => (match c.pc with
            | .gsPopW _ (.ok _) => !(decide (writeLeft enc s' i < writeLeft enc s1 i))
            | _ => false)
          | none => false)
      dscan enc idx parts s' is (stuck1, bad + (if b then 1 else 0), wst1)

def parseAct (j : Json) : Except String DAct := do
  let l ← arr j
  match l with
  | [t] =>
    match (← str t) with
    | "base" => pure .base
    | "close" => pure .close
    | s => throw s!"bad act {s}"
  | [t, b] =>
    match (← str t) with
    | "chunk" => pure (.chunk (← nat b))
    | s => throw s!"bad act {s}"
  | _ => throw "bad act"

def handle (req : Json) : Except String Json := do
  let op ← str (← field req "op")
  match op with
  | "replay" =>
    let idxl ← natList (← field req "idx")
    let idx : Nat → Nat := fun k => idxl.getD k (1000 + k)
    let progs ← (← arr (← field req "progs")).mapM (fun p => do
      (← arr p).mapM (fun seg => do (← arr seg).mapM parseInstr))
    let sched ← natList (← field req "sched")
    let repaired := match (fieldD req "repaired" (Json.bool false)).getBool? with | .ok b => b | .error _ => false
    let s0 := if repaired then initR progs else init progs
    let seesL ← match req.getObjVal? "sees" with
      | .ok v => (do let l ← arr v; l.mapM bool)
      | .error _ => pure (sched.map (fun _ => false))
    let (s, evs, stuck, spurious) := replayO idx s0 (sched.zip seesL) [] []
    let sN := runN idx s0 (fun t => sched.getD t 0) sched.length
    let keys := List.range idxl.length
    -- phase 5: the ghost-clock instrumented run on the same schedule (get_set-only theorems)
    let gN := grun idx (ginit progs) sched
    let (gAllOK, gCyc, gDead, gWaits) := gscan idx keys (ginit progs) sched (true, 0, 0, 0)
    let enabled := (List.range s.cs.length).map (fun i =>
      match step idx s i with
      | none => Json.null
      | some (ev, _) => evToJson ev)
    pure (obj [
      ("events", ofList evToJson evs),
      ("stuck", ofOpt ofNat stuck),
      ("arr", ofList (fun k => ofInt (s.arr (idx k))) keys),
      ("cache", ofList (fun k => ofOpt ofNat (s.cache k)) keys),
      ("book", ofList (fun (c : Caller) => ofList (fun k => ofInt (c.book k)) keys) s.cs),
      ("terminal", ofList (fun (c : Caller) => Json.bool c.terminal) s.cs),
      ("next", Json.arr enabled.toArray),
      ("waitEdges", ofList (fun (e : Nat × Nat) => Json.arr #[ofNat e.1, ofNat e.2]) (waitEdges idx s)),
      ("deadlocked", Json.bool (s.deadlocked idx)),
      ("spuriousIn", ofList ofNat spurious),
      ("unlockedSees", ofList (fun k => Json.bool (unlockedSees s k)) keys),
      ("runN_arr", ofList (fun k => ofInt (sN.arr (idx k))) keys),
      ("runN_terminal", Json.bool sN.allTerminal),
      ("ghost", obj [
        ("clock", ofNat gN.clock),
        ("tm", ofList (fun j => ofNat (gN.tm j)) (List.range gN.base.cs.length)),
        ("tp", ofList (fun k => ofNat (gN.tp k)) keys),
        ("stampsOK", Json.bool (gN.stampsOK keys)),
        ("allStampsOK", Json.bool gAllOK), ("cycleStates", ofNat gCyc), ("deadlockedStates", ofNat gDead), ("waitStates", ofNat gWaits),
        ("missKey", ofList (fun (c : Caller) => ofOpt ofNat c.pc.missKey) gN.base.cs),
        ("arr", ofList (fun k => ofInt (gN.base.arr (idx k))) keys),
        ("terminal", Json.bool gN.base.allTerminal)]),
      ("getSetOnly", ofList (fun p => Json.bool (GetSetOnly p)) progs),
      ("collisionFree", Json.bool (CollisionFree idx progs)),
      ("progKeys", ofList ofNat (progKeys progs)),
      ("wellNested", ofList (fun p => Json.bool (WellNested idx p)) progs),
      ("hier", ofList (fun p => Json.bool (Hier idx p)) progs),
      ("hierRanked", match req.getObjVal? "ord" with
        | .ok v => (match natList v with
          | .ok l => ofList (fun p => Json.bool (Hier (fun k => l.getD k 0) p)) progs
          | .error _ => Json.null)
        | .error _ => Json.null)])
  | "disk" =>
    let f0 ← parseBytes (← field req "fs")
    let wj ← arr (← field req "w")
    let w ← match wj with
      | [t] => do
        match (← str t) with
        | "failBefore" => pure Write.failBefore
        | s => throw s!"bad write {s}"
      | [t, b] => do
        match (← str t) with
        | "complete" => pure (Write.complete (← natList b))
        | "cut" => pure (Write.cutAfter (← natList b))
        | s => throw s!"bad write {s}"
      | _ => throw "bad write"
    let fs : Fs := fun k => if k = 0 then f0 else none
    let conc := match (fieldD req "conc" (Json.bool false)).getBool? with | .ok b => b | .error _ => false
    let (fs', out) := if conc then concDiskGetSet fs 0 w else diskGetSet fs 0 w
    pure (obj [
      ("fs", ofOpt (ofList ofNat) (fs' 0)),
      ("out", match out with
        | .value b => obj [("value", ofList ofNat b)]
        | .raised => obj [("raised", Json.bool true)])])
  | "sem" =>
    let t := openmlSem (← bool (← field req "hasSem")) (← bool (← field req "cached1")) (← bool (← field req "cached2"))
    pure (obj [("acquires", ofNat t.acquires), ("releases", ofNat t.releases)])
  | "semrun" =>
    let p ← nat (← field req "permits")
    let rs ← (← arr (← field req "reads")).mapM (fun j => do
      let l ← arr j
      match l with
      | [a, b, c] => pure ((← bool a), (← bool b), (← bool c))
      | _ => throw "bad read")
    pure (obj [("permits", ofOpt ofNat (semRun p rs))])
  | "semsys" =>
    let p ← nat (← field req "permits")
    let progs ← (← arr (← field req "progs")).mapM (fun pj => do
      (← arr pj).mapM (fun j => do
        let l ← arr j
        match l with
        | [a, b, c] => pure ({ c1 := (← bool a), c2 := (← bool b), exc := (← bool c) } : SRead)
        | _ => throw "bad read"))
    let sched ← natList (← field req "sched")
    let (s, evs, stuck) := sreplay (sinit p progs) sched []
    pure (obj [
      ("events", ofList (fun (e : SEv × Nat × Nat × Nat) => Json.arr #[sevToJson e.1, ofNat e.2.1, ofNat e.2.2.1, ofNat e.2.2.2]) evs),
      ("stuck", ofOpt ofNat stuck),
      ("free", ofNat s.free), ("holders", ofNat s.holders), ("measure", ofNat s.measure),
      ("terminal", Json.bool s.allTerminal),
      ("next", ofList (fun i => match sstep s i with | none => Json.null | some (ev, _) => sevToJson ev) (List.range s.cs.length))])
  | "dreplay" =>
    let idxl ← natList (← field req "idx")
    let idx : Nat → Nat := fun k => idxl.getD k (1000 + k)
    let progs ← (← arr (← field req "progs")).mapM (fun p => do
      (← arr p).mapM (fun seg => do (← arr seg).mapM parseInstr))
    let parts ← nat (← field req "parts")
    let enc : Nat → List Nat := fun _ => List.range parts
    let sched ← (← arr (← field req "sched")).mapM (fun j => do
      let l ← arr j
      match l with
      | [i, a, sees] => pure ((← nat i), (← parseAct a), (← bool sees))
      | _ => throw "bad sched entry")
    let (s, evs, stuck) := dreplayO enc idx (dinit progs) sched []
    let (nStuck, nBadVariant, nWriterStates) := dscan enc idx parts (dinit progs) sched (0, 0, 0)
    let keys := List.range idxl.length
    let dinv := keys.all (fun k =>
      match s.base.cache k with
      | some v => s.file k == FileSt.closed (enc v)
      | none => partialWriter s.base k || s.file k == FileSt.absent)
    pure (obj [
      ("events", ofList devToJson evs),
      ("stuck", ofOpt ofNat stuck),
      ("files", ofList (fun k => fileToJson (s.file k)) keys),
      ("cache", ofList (fun k => ofOpt ofNat (s.base.cache k)) keys),
      ("dinv", Json.bool dinv),
      ("stuckStates", ofNat nStuck), ("badVariantSteps", ofNat nBadVariant), ("writerStates", ofNat nWriterStates),
      ("writeLeft", ofList (fun i => ofNat (writeLeft enc s i)) (List.range s.base.cs.length)),
      ("nextActs", match stuck with
        | some _ => ofList (fun i => Json.arr #[
            Json.bool (dstep enc idx s i .base).isSome, Json.bool (dstep enc idx s i .close).isSome,
            Json.arr ((List.range (parts + 1)).filter (fun b => (dstep enc idx s i (.chunk b)).isSome) |>.map ofNat).toArray]) (List.range s.base.cs.length)
        | none => Json.null)])
  | "proto" =>
    let bs := [false, true]
    let xs : List Int := [-2, -1, 0, 1, 2]
    let pairJ := fun (p : Nat × Int) => Json.arr #[ofNat p.1, ofInt p.2]
    let g ← (do let l ← arr (← field req "guard"); match l with | [a, b] => pure ((← nat a), (← int b)) | _ => throw "bad guard")
    let u ← (do let l ← arr (← field req "upd"); match l with | [a, b] => pure ((← nat a), (← int b)) | _ => throw "bad upd")
    pure (obj [
      ("getSet", ofList (fun (t : Bool × Bool × Bool) => ofList ofNat (modelGetSetPath t.1 t.2.1 t.2.2))
        (bs.flatMap (fun a => bs.flatMap (fun b => bs.map (fun c => (a, b, c)))))),
      ("rmv", ofList (fun (t : Bool × Bool) => ofList ofNat (modelRmvPath t.1 t.2)) (bs.flatMap (fun a => bs.map (fun b => (a, b))))),
      ("guard", ofList (fun x => Json.bool (guardHolds g x)) xs),
      ("upd", ofList (fun x => ofInt (applyUpd u x)) xs),
      ("echo", Json.arr #[pairJ g, pairJ u])])
  | "keyeq" =>
    -- phase 6: typed keys. reps = [[ident, text]], htab = [[text, slot]]; the transition system is run with idx := idxOf h reps
    let reps ← (← arr (← field req "reps")).mapM (fun r => do
      let l ← natList r
      match l with | [a, b] => pure (KeyRep.mk a b) | _ => throw "bad rep")
    let htab ← (← arr (← field req "htab")).mapM (fun r => do
      let l ← natList r
      match l with | [a, b] => pure (a, b) | _ => throw "bad htab")
    let h : Nat → Nat := fun t => match htab.find? (fun p => p.1 == t) with | some p => p.2 | none => 0
    let idx := idxOf h reps
    let progs ← (← arr (← field req "progs")).mapM (fun p => do
      (← arr p).mapM (fun seg => do (← arr seg).mapM parseInstr))
    let sched ← natList (← field req "sched")
    let (s, evs) := run idx (init progs) sched
    pure (obj [
      ("respects", Json.bool (slotsRespectEq h reps)),
      ("slots", ofList (fun r => ofNat (slotOf h r)) reps),
      ("idx", ofList (fun (r : KeyRep) => ofNat (idx r.ident)) reps),
      ("events", ofList (fun (e : Nat × Ev) => Json.arr #[ofNat e.1, evToJson e.2]) evs),
      ("arr", ofList (fun (r : KeyRep) => ofInt (s.arr (slotOf h r))) reps),
      ("cache", ofList (fun (r : KeyRep) => ofOpt ofNat (s.cache r.ident)) reps),
      ("terminal", Json.bool s.allTerminal)])
  | _ => throw s!"unknown op {op}"

end Coba.C19.Driver
