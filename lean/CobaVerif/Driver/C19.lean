import CobaVerif.Driver.JsonUtil
import CobaVerif.Model.C19
open Lean Coba.J

namespace Coba.C19.Driver
open Coba.C19

def parseInstr (j : Json) : Except String Instr := do
  let l ← arr j
  match l with
  | [t] =>
    match (← str t) with
    | "exit" => pure .exit
    | "raise" => pure .raise
    | s => throw s!"bad instr {s}"
  | [t, k] =>
    match (← str t) with
    | "rmv" => pure (.rmv (← nat k) false false)
    | s => throw s!"bad instr {s}"
  | [t, k, v] =>
    match (← str t) with
    | "rmv" => pure (.rmv (← nat k) (← bool v) false)
    | "gs" =>
      let kk ← nat k
      if v.isNull then pure (.getSet kk .fail) else do
        let vv ← nat v
        pure (.getSet kk (.ok vv))
    | s => throw s!"bad instr {s}"
  | _ => throw "bad instr"

def evToJson : Ev → Json
  | .begin => Json.arr #[Json.str "begin"]
  | .nextSeg => Json.arr #[Json.str "nextSeg"]
  | .skip => Json.arr #[Json.str "skip"]
  | .spin => Json.arr #[Json.str "spin"]
  | .acqR k => Json.arr #[Json.str "acqR", ofNat k]
  | .relR k => Json.arr #[Json.str "relR", ofNat k]
  | .acqW k => Json.arr #[Json.str "acqW", ofNat k]
  | .relW k => Json.arr #[Json.str "relW", ofNat k]
  | .sw k => Json.arr #[Json.str "sw", ofNat k]
  | .contains k b => Json.arr #[Json.str "contains", ofNat k, Json.bool b]
  | .cget k v => Json.arr #[Json.str "cget", ofNat k, ofNat v]
  | .ccreate k => Json.arr #[Json.str "ccreate", ofNat k]
  | .cpop k v => Json.arr #[Json.str "cpop", ofNat k, ofNat v]
  | .cpopFail k => Json.arr #[Json.str "cpopFail", ofNat k]
  | .crmv k b => Json.arr #[Json.str "crmv", ofNat k, Json.bool b]
  | .crmvFail k => Json.arr #[Json.str "crmvFail", ofNat k]
  | .enter k v => Json.arr #[Json.str "enter", ofNat k, ofNat v]
  | .raiseBody => Json.arr #[Json.str "raiseBody"]
  | .refuse k => Json.arr #[Json.str "refuse", ofNat k]

/-- replay a schedule; stops at the first scheduled caller that has no step -/
def replay (idx : Nat → Nat) : St → List Nat → List Ev → St × List Ev × Option Nat
  | s, [], acc => (s, acc.reverse, none)
  | s, i :: is, acc =>
    match step idx s i with
    | none => (s, acc.reverse, some acc.length)
    | some (ev, s') => replay idx s' is (ev :: acc)

/-- replay with the implementation's own answers for the unlocked membership test of rmv: before a caller at
`rmChk k f _` steps, the oracle flag is set from what the implementation observed (`seesTrue`); returns also the
steps at which the implementation saw an uncached key although no caller was writing its file -/
def replayO (idx : Nat → Nat) : St → List (Nat × Bool) → List Ev → List Nat → St × List Ev × Option Nat × List Nat
  | s, [], acc, bad => (s, acc.reverse, none, bad.reverse)
  | s, (i, sees) :: is, acc, bad =>
    let (s1, bad1) := match s.cs[i]? with
      | some c =>
        match c.pc with
        | .rmChk k f _ =>
          let spurious := sees && (s.cache k).isNone && !(partialWriter s k)
          ({ s with cs := s.cs.set i { c with pc := .rmChk k f sees } }, if spurious then acc.length :: bad else bad)
        | _ => (s, bad)
      | none => (s, bad)
    match step idx s1 i with
    | none => (s1, acc.reverse, some acc.length, bad1.reverse)
    | some (ev, s') => replayO idx s' is (ev :: acc) bad1

def parseBytes (j : Json) : Except String (Option (List Nat)) := opt natList j

def handle (req : Json) : Except String Json := do
  let op ← str (← field req "op")
  match op with
  | "replay" =>
    let idxl ← natList (← field req "idx")
    let idx : Nat → Nat := fun k => idxl.getD k (1000 + k)
    let progs ← (← arr (← field req "progs")).mapM (fun p => do
      (← arr p).mapM (fun seg => do (← arr seg).mapM parseInstr))
    let sched ← natList (← field req "sched")
    let repaired := match (fieldD req "repaired" (Json.bool false)).getBool? with | .ok b => b | .error _ => false
    let s0 := if repaired then initR progs else init progs
    let seesL ← match req.getObjVal? "sees" with
      | .ok v => (do let l ← arr v; l.mapM bool)
      | .error _ => pure (sched.map (fun _ => false))
    let (s, evs, stuck, spurious) := replayO idx s0 (sched.zip seesL) [] []
    let sN := runN idx s0 (fun t => sched.getD t 0) sched.length
    let keys := List.range idxl.length
    let enabled := (List.range s.cs.length).map (fun i =>
      match step idx s i with
      | none => Json.null
      | some (ev, _) => evToJson ev)
    pure (obj [
      ("events", ofList evToJson evs),
      ("stuck", ofOpt ofNat stuck),
      ("arr", ofList (fun k => ofInt (s.arr (idx k))) keys),
      ("cache", ofList (fun k => ofOpt ofNat (s.cache k)) keys),
      ("book", ofList (fun (c : Caller) => ofList (fun k => ofInt (c.book k)) keys) s.cs),
      ("terminal", ofList (fun (c : Caller) => Json.bool c.terminal) s.cs),
      ("next", Json.arr enabled.toArray),
      ("waitEdges", ofList (fun (e : Nat × Nat) => Json.arr #[ofNat e.1, ofNat e.2]) (waitEdges idx s)),
      ("deadlocked", Json.bool (s.deadlocked idx)),
      ("spuriousIn", ofList ofNat spurious),
      ("unlockedSees", ofList (fun k => Json.bool (unlockedSees s k)) keys),
      ("runN_arr", ofList (fun k => ofInt (sN.arr (idx k))) keys),
      ("runN_terminal", Json.bool sN.allTerminal),
      ("wellNested", ofList (fun p => Json.bool (WellNested idx p)) progs),
      ("hier", ofList (fun p => Json.bool (Hier idx p)) progs),
      ("hierRanked", match req.getObjVal? "ord" with
        | .ok v => (match natList v with
          | .ok l => ofList (fun p => Json.bool (Hier (fun k => l.getD k 0) p)) progs
          | .error _ => Json.null)
        | .error _ => Json.null)])
  | "disk" =>
    let f0 ← parseBytes (← field req "fs")
    let wj ← arr (← field req "w")
    let w ← match wj with
      | [t] => do
        match (← str t) with
        | "failBefore" => pure Write.failBefore
        | s => throw s!"bad write {s}"
      | [t, b] => do
        match (← str t) with
        | "complete" => pure (Write.complete (← natList b))
        | "cut" => pure (Write.cutAfter (← natList b))
        | s => throw s!"bad write {s}"
      | _ => throw "bad write"
    let fs : Fs := fun k => if k = 0 then f0 else none
    let conc := match (fieldD req "conc" (Json.bool false)).getBool? with | .ok b => b | .error _ => false
    let (fs', out) := if conc then concDiskGetSet fs 0 w else diskGetSet fs 0 w
    pure (obj [
      ("fs", ofOpt (ofList ofNat) (fs' 0)),
      ("out", match out with
        | .value b => obj [("value", ofList ofNat b)]
        | .raised => obj [("raised", Json.bool true)])])
  | "sem" =>
    let t := openmlSem (← bool (← field req "hasSem")) (← bool (← field req "cached1")) (← bool (← field req "cached2"))
    pure (obj [("acquires", ofNat t.acquires), ("releases", ofNat t.releases)])
  | "semrun" =>
    let p ← nat (← field req "permits")
    let rs ← (← arr (← field req "reads")).mapM (fun j => do
      let l ← arr j
      match l with
      | [a, b, c] => pure ((← bool a), (← bool b), (← bool c))
      | _ => throw "bad read")
    pure (obj [("permits", ofOpt ofNat (semRun p rs))])
  | _ => throw s!"unknown op {op}"

end Coba.C19.Driver
