import CobaVerif.Driver.JsonUtil
import CobaVerif.Model.C07
open Lean Coba.J

namespace Coba.C07.Driver
open Coba.C07

def parseKey (j : Json) : Except String Key := do
  match j with
  | .null => pure .none
  | .bool b => pure (.bool b)
  | .arr #[.str "s", .str s] => pure (.str s)
  | .arr #[.str "i", n] => pure (.int (← n.getInt?))
  | .arr #[.str "o", .str r] => pure (.other r)
  | _ => throw s!"key expected, got {j.compress}"

partial def parseVal (j : Json) : Except String Val := do
  match j with
  | .null => pure .none
  | .bool b => pure (.bool b)
  | .arr #[.str "i", n] => pure (.int (← n.getInt?))
  | .arr #[.str "q", n, d] => do
    let n ← n.getInt?; let d ← d.getInt?
    if d = 0 then throw "zero denominator" else pure (.flt ((n : Rat) / (d : Rat)))
  | .arr #[.str "nan"] => pure .nan
  | .arr #[.str "inf", .bool neg] => pure (.inf neg)
  | .arr #[.str "s", .str s] => pure (.str s)
  | .arr #[.str "r", .str n, st] => do pure (.reward n (← parseVal st))
  | .arr #[.str "l", .arr xs] => do pure (.list (← xs.toList.mapM parseVal))
  | .arr #[.str "t", .arr xs] => do pure (.tup (← xs.toList.mapM parseVal))
  | .arr #[.str "d", .arr kvs] => do
    let ps ← kvs.toList.mapM (fun kv => do
      match kv with
      | .arr #[k, v] => do pure ((← parseKey k), (← parseVal v))
      | _ => throw "pair expected")
    pure (.dict ps)
  | _ => throw s!"value expected, got {j.compress}"

def parseDict (j : Json) : Except String PyDict := do
  match (← parseVal j) with
  | .dict kvs => pure kvs
  | _ => throw "dict expected"

def parseTx (j : Json) : Except String Tx := do
  let kind ← str (← field j "t")
  match kind with
  | "T0" => pure (.t0 (← parseDict (← field j "p")))
  | "T1" => pure (.t1 (← int (← field j "id")) (← parseDict (← field j "p")))
  | "T2" => pure (.t2 (← int (← field j "id")) (← parseDict (← field j "p")))
  | "T3" => pure (.t3 (← int (← field j "id")) (← parseDict (← field j "p")))
  | "T4" => pure (.t4 (← intList (← field j "ids")) (← (← arr (← field j "rows")).mapM parseDict))
  | _ => throw s!"unknown transaction {kind}"

partial def valToJson : Val → Json
  | .none => Json.null
  | .bool b => Json.bool b
  | .int i => Json.arr #[Json.str "q", ofInt i, ofNat 1]
  | .flt q => Json.arr #[Json.str "q", ofInt q.num, ofNat q.den]
  | .nan => Json.arr #[Json.str "nan"]
  | .inf n => Json.arr #[Json.str "inf", Json.bool n]
  | .str s => Json.arr #[Json.str "s", Json.str s]
  | .list xs => Json.arr #[Json.str "l", Json.arr (xs.map valToJson).toArray]
  | .tup xs => Json.arr #[Json.str "t", Json.arr (xs.map valToJson).toArray]
  | .reward n st => Json.arr #[Json.str "r", Json.str n, valToJson st]
  | .dict kvs => Json.arr #[Json.str "d", Json.arr (kvs.map (fun kv =>
      Json.arr #[Json.str (match kv.1 with | .str s => s | k => "<non-str " ++ k.pystr ++ ">"), valToJson kv.2])).toArray]

def rowToJson (r : Row) : Json := ofList (fun (kv : String × Val) => Json.arr #[Json.str kv.1, valToJson kv.2]) r

def ptableToJson (t : PTable) : Json :=
  obj [("columns", ofList Json.str t.columns),
       ("rows", ofList (ofList (fun (c : Option Val) => match c with | none => Json.arr #[Json.str "M"] | some v => valToJson v)) t.rows)]

def errName : Err → String
  | .stopIteration => "StopIteration" | .cobaException => "CobaException"
  | .typeError => "TypeError" | .valueError => "ValueError"

def resToJson : Except Err Result → Json
  | .error e => obj [("raised", Json.str (errName e))]
  | .ok r => obj [("exp", rowToJson r.experiment), ("envs", ofList rowToJson r.environments),
                  ("lrns", ofList rowToJson r.learners), ("vals", ofList rowToJson r.evaluators),
                  ("ints", ofList rowToJson r.interactions)]

/-- request {"op":"minimize","vals":[v…]} → `minimize round5 v`, its second application, and `wire` of each value -/
def handleMinimize (req : Json) : Except String Json := do
  let vals ← (← arr (← field req "vals")).mapM parseVal
  pure (obj [("min", ofList (fun v => valToJson (minimize round5 v)) vals),
             ("min2", ofList (fun v => valToJson (minimize round5 (minimize round5 v))) vals)])

/-- request: {"info": dict, "phase1": [tx…] | null, "txs": [tx…]}  — `txs` are the transactions of the
(last) run, `phase1` those already in the file when it started (restored run).
answer: for every combination of repaired/pinned encoder (`e`) and reader (`r`) the three routes,
plus the spec side (`specRows`, `normParams`) and the hypotheses of the partial theorems. -/
def handle (req : Json) : Except String Json := do
  if !(fieldD req "op" Json.null).isNull then return (← handleMinimize req)
  let info ← parseDict (← field req "info")
  let txs ← (← arr (← field req "txs")).mapM parseTx
  let p1j := fieldD req "phase1" Json.null
  let phase1 ← if p1j.isNull then pure none else some <$> ((← arr p1j).mapM parseTx)
  let all := (phase1.getD []) ++ txs
  let rnd := round5
  -- `strip = true`: the log carries no `_n` (code before fixes/C07-rows-without-fields.diff)
  let combo (fe fr strip : Bool) : Json :=
    let st := fun (f : List Rec) => if strip then stripN f else f
    let file0 := phase1.map (fun t1 => fileAfter rnd fe info none t1)
    let file := fileAfter rnd fe info file0 txs
    obj [("nofile", resToJson (readLog fr (st (encode rnd fe false (.t0 info :: all))))),
         ("file", resToJson (readLog fr (st file))),
         ("from_file", resToJson (fromFile fr (st file)))]
  let t4s := all.filterMap (fun t => match t with | .t4 ids rows => some (ids, rows) | _ => none)
  let spec := t4s.map (fun (p : List Int × List PyDict) =>
    match p.1 with
    | [e, l, v] => obj [("ids", ofList ofInt p.1), ("rows", ofList rowToJson (specRows rnd e l v p.2)),
        ("no_collision", Json.bool (noStrCollisionB p.2)),
        ("first_row_decides", Json.bool (firstRowDecides (wireCols rnd (pack p.2)))),
        ("nkeys", ofNat (strKeys p.2).length)]
    | _ => Json.null)
  let params := all.filterMap (fun t => match t with
    | .t1 id p => some (Json.arr #[Json.str "E", ofInt id, rowToJson (normParams rnd p)])
    | .t2 id p => some (Json.arr #[Json.str "L", ofInt id, rowToJson (normParams rnd p)])
    | .t3 id p => some (Json.arr #[Json.str "V", ofInt id, rowToJson (normParams rnd p)])
    | _ => none)
  let file0tt := phase1.map (fun t1 => fileAfter rnd true info none t1)
  let padOf (strip : Bool) : Json :=
    let f := fileAfter rnd true info file0tt txs
    match tablesOf true (if strip then stripN f else f) with
    | .ok ts => ofList ptableToJson ts
    | .error e => obj [("raised", Json.str (errName e))]
  -- phase 3: what the tables must hold when ids are recorded more than once
  let specLW := ofList rowToJson (specInteractionsLW rnd all)
  let unions (t : Tbl) (tag : String) : List Json :=
    ((paramsOf t all).map (·.1)).eraseDups.map (fun id => Json.arr #[Json.str tag, ofInt id, rowToJson (unionParams rnd id (paramsOf t all))])
  -- phase 5: the padded tables the statement demands, and the tables of the same transactions logged in reverse order
  let tabs (r : Except Err (List PTable)) : Json := match r with
    | .ok ts => ofList ptableToJson ts
    | .error e => obj [("raised", Json.str (errName e))]
  -- phase 5: `Result.__init__`'s learner cache: the ingredients of `full_name` for every row of the learners table of the file route
  let fam (f : Option (Option Val)) : Json := match f with
    | none => Json.str "no-column" | some none => Json.str "missing" | some (some _) => Json.str "value"
  let nameJ (o : Option FullName) : Json := match o with
    | none => Json.null
    | some n => obj [("id", valToJson n.id), ("family", fam n.family), ("keys", ofList Json.str (n.params.map (·.1))), ("vw", Json.bool n.vw)]
  let namesOf (strip : Bool) : Json :=
    let f := fileAfter rnd true info file0tt txs
    match tablesOf true (if strip then stripN f else f) with
    | .ok [_, lt, _, _] => ofList nameJ (lrnNames lt)
    | _ => Json.null
  -- phase 5: the same log written and read through the (tag → shape) tables
  let via : Json := match viaTables rnd true true info all with
    | some r => resToJson r
    | none => obj [("raised", Json.str "no-table-entry")]
  -- phase 6: the same log with its records grouped by key (`regroupLog`: every id's records keep their order) — theorem `regroupLog_same`
  let fileTT := fileAfter rnd true info file0tt txs
  pure (obj [("regrouped", resToJson (readLog true (regroupLog fileTT))), ("padRegrouped", tabs (tablesOf true (regroupLog fileTT))),
             ("regroupMoved", ofNat (((regroupLog fileTT).zip fileTT).filter (fun (p : Rec × Rec) => decide (recKey p.1 ≠ recKey p.2))).length),
             ("specLW", specLW), ("viaTables", via), ("names", namesOf false), ("namesS", namesOf true), ("clean", Json.bool (cleanRunB all)), ("specTables", tabs (.ok (specTables rnd all))),
             ("padRev", tabs (tablesOf true (fileAfter rnd true info none all.reverse))), ("unions", Json.arr (unions .E "E" ++ unions .L "L" ++ unions .V "V").toArray),
             ("pad", padOf false), ("padS", padOf true),
             ("ff", combo false false false), ("ft", combo false true false), ("tf", combo true false false), ("tt", combo true true false),
             ("ffS", combo false false true), ("ftS", combo false true true), ("tfS", combo true false true), ("ttS", combo true true true),
             ("spec", Json.arr spec.toArray), ("params", Json.arr params.toArray)])

end Coba.C07.Driver
