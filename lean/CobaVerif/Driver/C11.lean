import CobaVerif.Driver.JsonUtil
import CobaVerif.Model.C11
open Lean Coba.J

namespace Coba.C11.Driver
open Coba.C11

/-- concrete stand-in for `statistics.stdev` (the model and the theorems are generic in `sd`):
sample standard deviation, square root taken to 20 decimal places -/
def sdApprox (xs : List Rat) : Rat :=
  let v : Rat := variance xs
  if xs.length < 2 ∨ v ≤ 0 then 0
  else
    let scaled : Nat := (v.num.toNat * 10 ^ 40) / v.den
    ((Nat.sqrt scaled : Nat) : Rat) / ((10 ^ 20 : Nat) : Rat)

def valOfJson (j : Json) : Except String Val := do
  if j.isNull then pure .nil
  else match j with
    | .str "nan" => pure .nan
    | .arr _ => pure (.num (← ratOfJson j))
    | _ => pure (.str (← str (← field j "s")))

def valToJson : Val → Json
  | .nil => Json.null
  | .nan => Json.str "nan"
  | .num q => ratToJson q
  | .str s => obj [("s", Json.str s)]

def pairOfJson (j : Json) : Except String (String × Val) := do
  match (← arr j) with
  | [k, v] => pure ((← str k), (← valOfJson v))
  | _ => throw "pair expected"

def ctxsOfJson (kind : String) (j : Json) : Except String Ctxs := do
  let rows ← arr j
  match kind with
  | "dense" => pure (.dense (← rows.mapM (fun r => do (← arr r).mapM valOfJson)))
  | "sparse" => pure (.sparse (← rows.mapM (fun r => do (← arr r).mapM pairOfJson)))
  | "scalar" => pure (.scalar (← rows.mapM valOfJson))
  | _ => throw s!"unknown kind {kind}"

def ctxsToJson : Ctxs → Json
  | .dense rows => obj [("kind", Json.str "dense"), ("rows", ofList (ofList valToJson) rows)]
  | .sparse rows => obj [("kind", Json.str "sparse"),
      ("rows", ofList (ofList (fun (kv : String × Val) => Json.arr #[Json.str kv.1, valToJson kv.2])) rows)]
  | .scalar rows => obj [("kind", Json.str "scalar"), ("rows", ofList valToJson rows)]

def shiftOfJson (j : Json) : Except String Shift :=
  match j with
  | .str s => match shiftOfName s with       -- the model's option table
    | some sh => pure sh
    | none => throw s!"unknown shift {s}"
  | _ => do pure (.num (← ratOfJson j))

def sclOfJson (j : Json) : Except String Scl :=
  match j with
  | .str s => match sclOfName s with
    | some sc => pure sc
    | none => throw s!"unknown scale {s}"
  | _ => do pure (.num (← ratOfJson j))

def statOfJson (j : Json) : Except String Stat :=
  match j with
  | .str s => match statOfName s with
    | some st => pure st
    | none => throw s!"unknown stat {s}"
  | _ => throw "unknown stat"

def fitToJson (p : Option (Rat × Rat)) : Json :=
  match p with
  | none => Json.null
  | some (a, b) => Json.arr #[ratToJson a, ratToJson b]

/-- the fitted parameters per feature (diagnostics for the harness) -/
def fitsOf (cfg : Cfg) : Ctxs → Json
  | .dense rows => match rows with
    | [] => Json.arr #[]
    | first :: _ => ofList (fun k => fitToJson (if potDense first k then fit sdApprox cfg (col k (window cfg.usingN rows)) else none))
        (List.range first.length)
  | .sparse rows => match rows with
    | [] => Json.arr #[]
    | first :: _ =>
      let fitting := window cfg.usingN rows
      ofList (fun k => Json.arr #[Json.str k,
        fitToJson (if potSparse first k then fit sdApprox cfg (fitting.map (getD0 k)) else none)])
        (seenKeys rows [])
  | .scalar rows => Json.arr #[fitToJson (fit sdApprox cfg (window cfg.usingN rows))]

def fitEToJson : Except FitErr (Rat × Rat) → Json
  | .ok _ => Json.str "ok"
  | .error .typeError => Json.str "TypeError"
  | .error .valueError => Json.str "ValueError"
  | .error .statisticsError => Json.str "StatisticsError"
  | .error .indexError => Json.str "IndexError"

/-- what the `try` body of `_get_shift_and_scale` does on every window column (all columns, potential or not) -/
def fitEsOf (cfg : Cfg) : Ctxs → Json
  | .dense rows => match rows with
    | [] => Json.arr #[]
    | first :: _ => ofList (fun k => fitEToJson (fitE sdApprox cfg (col k (window cfg.usingN rows)))) (List.range first.length)
  | .sparse rows =>
      let fitting := window cfg.usingN rows
      ofList (fun k => Json.arr #[Json.str k, fitEToJson (fitE sdApprox cfg (fitting.map (getD0 k)))]) (seenKeys rows [])
  | .scalar rows => Json.arr #[fitEToJson (fitE sdApprox cfg (window cfg.usingN rows))]

def resToJson : Except Err Ctxs → Json
  | .ok out => ctxsToJson out
  | .error _ => obj [("err", Json.str "CobaException")]

def tableOfJson (j : Json) : Except String Ctxs := do
  ctxsOfJson (← str (← field j "kind")) (← field j "rows")

/-- a sequence request: the stateful object / collection model run over the reads.
`dt` of read number `n` is `[n, n+1, n+2, n+3]` (arbitrary: results do not depend on it) -/
def handleSeq (req : Json) : Except String Json := do
  let op ← str (← field req "seqop")
  let mode ← str (← field req "mode")
  let u ← opt nat (fieldD req "using" Json.null)
  let tables ← (← arr (← field req "seq")).mapM tableOfJson
  let order ← natList (← field req "read_order")
  let dts : List (List Nat × Nat) := order.mapIdx (fun n i => ([n, n + 1, n + 2, n + 3], i))
  let t0 : List Nat := [0, 0, 0, 0]
  let fitsFor (cfg : Cfg) : Json := ofList (fun i => match tables[i]? with | some t => fitsOf cfg t | none => Json.null) order
  match op with
  | "scale" =>
    let cfg : Cfg := { shift := (← shiftOfJson (← field req "shift")), scale := (← sclOfJson (← field req "scale")), usingN := u }
    if mode == "envs" then
      let coll : Coll Cfg := { srcs := tables, objs := [⟨cfg, t0⟩] }
      let outs := (Coll.reads (scaleCtxs sdApprox) coll dts).2
      pure (obj [("reads", ofList (ofOpt resToJson) outs), ("fits", fitsFor cfg)])
    else
      let calls := dts.filterMap (fun di => (tables[di.2]?).map (fun t => (di.1, t)))
      let outs := (Obj.run (scaleCtxs sdApprox) ⟨cfg, t0⟩ calls).2
      pure (obj [("reads", ofList resToJson outs), ("fits", fitsFor cfg)])
  | "impute" =>
    let stats ← (← arr (← field req "stats")).mapM statOfJson
    let ind ← bool (← field req "ind")
    if mode == "envs" then
      let coll : Coll ImpCfg := { srcs := tables, objs := stats.map (fun st => ⟨(st, ind, u), t0⟩) }
      let outs := (Coll.reads imputeF coll dts).2
      pure (obj [("reads", ofList (ofOpt resToJson) outs)])
    else
      let calls := dts.filterMap (fun di => (tables[di.2]?).map (fun t => (di.1, t)))
      let st := stats.headD .mean
      let outs := (Obj.run imputeF ⟨(st, ind, u), t0⟩ calls).2
      pure (obj [("reads", ofList resToJson outs)])
  | _ => throw s!"unknown seqop {op}"

/-- phase 6: a history of `open` / `next` / `close` over generators of ONE filter object (or the pipeline of one
`Environments.scale|impute` call), run on the generator machine `GenSt.run` -/
def genOpOfJson (j : Json) : Except String GenOp := do
  match (← arr j) with
  | [t, n] =>
    let n ← nat n
    match (← str t) with
    | "open" => pure (.openG n)
    | "next" => pure (.next n)
    | "close" => pure (.close n)
    | o => throw s!"unknown history op {o}"
  | _ => throw "history op expected"

def rowToJson : Row → Json
  | .dense r => obj [("kind", Json.str "dense"), ("row", ofList valToJson r)]
  | .sparse r => obj [("kind", Json.str "sparse"), ("row", ofList (fun (kv : String × Val) => Json.arr #[Json.str kv.1, valToJson kv.2]) r)]
  | .scalar v => obj [("kind", Json.str "scalar"), ("row", valToJson v)]

def genOutToJson : GenOut → Json
  | .opened => obj [("t", Json.str "opened")]
  | .nosrc => obj [("t", Json.str "nosrc")]
  | .nogen => obj [("t", Json.str "nogen")]
  | .item r => obj [("t", Json.str "item"), ("item", rowToJson r)]
  | .stop => obj [("t", Json.str "stop")]
  | .raised _ => obj [("t", Json.str "raised"), ("err", Json.str "CobaException")]
  | .closed => obj [("t", Json.str "closed")]

def handleGens (req : Json) : Except String Json := do
  let op ← str (← field req "seqop")
  let u ← opt nat (fieldD req "using" Json.null)
  let tables ← (← arr (← field req "seq")).mapM tableOfJson
  let hist ← (← arr (← field req "history")).mapM genOpOfJson
  let ops : List (List Nat × GenOp) := hist.mapIdx (fun n o => ([n, n + 1, n + 2, n + 3], o))
  let t0 : List Nat := [0, 0, 0, 0]
  match op with
  | "scale" =>
    let cfg : Cfg := { shift := (← shiftOfJson (← field req "shift")), scale := (← sclOfJson (← field req "scale")), usingN := u }
    let outs := (GenSt.run (scaleCtxs sdApprox) tables ⟨[⟨cfg, t0⟩], []⟩ ops).2
    -- (C) plumbing guard: the cursor machine of `generator_histories`
    let spec := (curRun (pipeRows (scaleCtxs sdApprox) [cfg]) tables [] hist).2
    pure (obj [("outs", ofList genOutToJson outs), ("spec", ofList genOutToJson spec),
               ("fits", ofList (fitsOf cfg) tables)])
  | "impute" =>
    let stats ← (← arr (← field req "stats")).mapM statOfJson
    let ind ← bool (← field req "ind")
    let cfgs : List ImpCfg := stats.map (fun st => (st, ind, u))
    let outs := (GenSt.run imputeF tables ⟨cfgs.map (fun c => ⟨c, t0⟩), []⟩ ops).2
    let spec := (curRun (pipeRows imputeF cfgs) tables [] hist).2
    pure (obj [("outs", ofList genOutToJson outs), ("spec", ofList genOutToJson spec)])
  | _ => throw s!"unknown seqop {op}"

def handle (req : Json) : Except String Json := do
  let op ← str (← field req "op")
  if op == "gens" then return (← handleGens req)
  if op == "seq" then return (← handleSeq req)
  if op == "variance" then
    let xs ← ratList (← field req "xs")
    let v := variance xs
    let p := pySqrtFrac v.num.toNat v.den
    return obj [("variance", ratToJson v), ("sd", ratToJson (sdApprox xs)),
                ("pysqrt", Json.arr #[ofNat p.1, ofNat p.2]), ("pysd", ratToJson (pySd xs)),
                ("shift", Json.num (JsonNumber.fromInt (pySqrtShift v.num.toNat v.den)))]
  if op == "pysqrt" then
    let n ← nat (← field req "n")
    let m ← nat (← field req "m")
    let p := pySqrtFrac n m
    return obj [("num", ofNat p.1), ("den", ofNat p.2), ("rto", ofNat (isqrtRto n m))]
  if op == "stats" then
    -- phase 5: the statistics themselves on one column (numbers `xs`; any non-missing values `vals` for `mode`)
    let xs ← ratList (← field req "xs")
    let vals ← (← arr (← field req "vals")).mapM valOfJson
    let s := isort xs
    return obj [("sorted", ofList ratToJson s), ("iqr", ofOpt ratToJson (iqr xs)), ("median", ofOpt ratToJson (median xs)),
                ("p25", ofOpt ratToJson (percentile s (1 / 4))), ("p75", ofOpt ratToJson (percentile s (3 / 4))),
                ("q1", ofOpt ratToJson (quarterAt s 1)), ("q3", ofOpt ratToJson (quarterAt s 3)),
                ("prog25", ofOpt ratToJson (pctProg.run s (1 / 4))), ("prog75", ofOpt ratToJson (pctProg.run s (3 / 4))),
                ("progiqr", ofOpt ratToJson (iqrProg.run xs)), ("progmean", ofOpt ratToJson (meanExpr.eval [] xs)),
                ("progapply", ofOpt ratToJson (applyExpr.eval [("x", xs.headD 0), ("shift", (minL xs).getD 0), ("scale", 3)] [])),
                ("min", ofOpt ratToJson (minL xs)), ("max", ofOpt ratToJson (maxL xs)), ("mean", ofOpt ratToJson (mean xs)),
                ("mode", ofOpt valToJson (mode (vals.filter (fun v => !v.isMiss)))),
                ("impmode", ofOpt valToJson (getImp .mode vals)), ("impmedian", ofOpt valToJson (getImp .median vals))]
  if op == "ragged" then
    -- `Scale.filter` on dense contexts that may be ragged
    let rows ← (← arr (← field req "rows")).mapM (fun r => do (← arr r).mapM valOfJson)
    let cfg : Cfg := { shift := (← shiftOfJson (← field req "shift")), scale := (← sclOfJson (← field req "scale")),
                       usingN := (← opt nat (fieldD req "using" Json.null)) }
    return match scaleDenseE sdApprox cfg rows with
      | .ok out => obj [("model", ctxsToJson (.dense out)), ("rect", Json.bool (Rect rows))]
      | .error .indexError => obj [("model", obj [("err", Json.str "IndexError")]), ("rect", Json.bool (Rect rows))]
      | .error .cobaException => obj [("model", obj [("err", Json.str "CobaException")]), ("rect", Json.bool (Rect rows))]
  let kind ← str (← field req "kind")
  let c ← ctxsOfJson kind (← field req "rows")
  -- a keyword that is absent from the request was not passed to the Python call
  let absent (k : String) : Bool := match req.getObjVal? k with | .ok _ => false | .error _ => true
  let uA : Option (Option Nat) ← (if absent "using" then pure none else do pure (some (← opt nat (← field req "using"))))
  let viaEnv := (match req.getObjVal? "via" with | .ok (.str "env") => true | _ => false)
  match op with
  | "scale" =>
    let shA : Option Shift ← (if absent "shift" then pure none else do pure (some (← shiftOfJson (← field req "shift"))))
    let scA : Option Scl ← (if absent "scale" then pure none else do pure (some (← sclOfJson (← field req "scale"))))
    let tsA : Option (List String) ← (if absent "targets" then pure none else do pure (some (← strList (← field req "targets"))))
    let args : ScaleArgs := ⟨shA, scA, tsA, uA⟩
    let filters : List ScaleCfg := if viaEnv then envScaleFilters args else [scaleCtorCfg args]
    let res := if viaEnv then envScale sdApprox args c else scaleFilter sdApprox (scaleCtorCfg args) c
    let cfgJ := ofList (fun (k : ScaleCfg) => obj [
        ("shift", match k.cfg.shift with | .num a => ratToJson a | .min => Json.str "min" | .mean => Json.str "mean" | .median => Json.str "median"),
        ("scale", match k.cfg.scale with | .num b => ratToJson b | .minmax => Json.str "minmax" | .std => Json.str "std" | .iqr => Json.str "iqr" | .maxabs => Json.str "maxabs"),
        ("using", ofOpt ofNat k.cfg.usingN), ("target", Json.str k.target)]) filters
    let cfg0 : Cfg := match filters with | k :: _ => k.cfg | [] => ⟨.num 0, .num 1, none⟩
    match res with
    | .ok out => pure (obj [("model", ctxsToJson out), ("fits", fitsOf cfg0 c), ("fites", fitEsOf cfg0 c), ("cfgs", cfgJ)])
    | .error _ => pure (obj [("model", obj [("err", Json.str "CobaException")]), ("fites", fitEsOf cfg0 c), ("cfgs", cfgJ)])
  | "impute" =>
    let stA : Option (List Stat) ← (if absent "stats" then pure none else do pure (some (← (← arr (← field req "stats")).mapM statOfJson)))
    let indA : Option Bool ← (if absent "ind" then pure none else do pure (some (← bool (← field req "ind"))))
    let filters := envImputeFilters ⟨stA, indA, uA⟩
    let cfgJ := ofList (fun (k : Stat × Bool × Option Nat) => obj [
        ("stat", Json.str (match k.1 with | .mean => "mean" | .median => "median" | .mode => "mode")),
        ("ind", Json.bool k.2.1), ("using", ofOpt ofNat k.2.2)]) filters
    match pipe imputeF filters (.ok c) with
    | .ok out => pure (obj [("model", ctxsToJson out), ("cfgs", cfgJ)])
    | .error _ => pure (obj [("model", obj [("err", Json.str "CobaException")]), ("cfgs", cfgJ)])
  | _ => throw s!"unknown op {op}"

end Coba.C11.Driver
