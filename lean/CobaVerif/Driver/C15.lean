import CobaVerif.Driver.JsonUtil
import CobaVerif.Model.C15
import CobaVerif.Generated.C15PredFormat
open Lean Coba.J

namespace Coba.C15.Driver
open Coba.C15

/-! values travel as {"n":0} | {"b":bool} | {"i":int} | {"f":[ref,num,den]} | {"s":[ref,str]} | {"t":[ref,[..]]}
| {"l":[ref,[..]]} | {"d":[ref,[[key,val],..]]};  ref = ["e",n] | ["s",n] | ["l",n] | ["t"] -/

def parseRef (j : Json) : Except String Ref := do
  match ← arr j with
  | [k] => if (← str k) = "t" then pure .tmp else throw "bad ref"
  | [k, n] =>
    let n ← nat n
    match ← str k with
    | "e" => pure (.ext n) | "s" => pure (.safe n) | "l" => pure (.lrn n) | _ => throw "bad ref"
  | _ => throw "bad ref"

partial def parseVal (j : Json) : Except String PyVal := do
  match j.getObjVal? "n" with
  | .ok _ => pure .none
  | .error _ =>
  match j.getObjVal? "b" with
  | .ok b => pure (.bool (← bool b))
  | .error _ =>
  match j.getObjVal? "i" with
  | .ok i => pure (.int (← int i))
  | .error _ =>
  match j.getObjVal? "nan" with
  | .ok r => (match ← arr r with
    | [r] => do pure (mkNan (← parseRef r))      -- a `float('nan')` object: the model's token for it
    | _ => throw "bad nan")
  | .error _ =>
  match j.getObjVal? "f" with
  | .ok f => (match ← arr f with
    | [r, n, d] => do pure (.flt (← parseRef r) (← ratOfJson (Json.arr #[n, d])))
    | _ => throw "bad float")
  | .error _ =>
  match j.getObjVal? "s" with
  | .ok s => (match ← arr s with
    | [r, x] => do pure (.str (← parseRef r) (← str x))
    | _ => throw "bad str")
  | .error _ =>
  match j.getObjVal? "t" with
  | .ok t => (match ← arr t with
    | [r, xs] => do pure (.tuple (← parseRef r) (← (← arr xs).mapM parseVal))
    | _ => throw "bad tuple")
  | .error _ =>
  match j.getObjVal? "l" with
  | .ok t => (match ← arr t with
    | [r, xs] => do pure (.list (← parseRef r) (← (← arr xs).mapM parseVal))
    | _ => throw "bad list")
  | .error _ =>
  match j.getObjVal? "d" with
  | .ok t => (match ← arr t with
    | [r, kvs] => do
      let kvs ← (← arr kvs).mapM (fun kv => do
        match ← arr kv with
        | [k, v] => do pure ((← str k), (← parseVal v))
        | _ => throw "bad dict item")
      pure (.dict (← parseRef r) (kvs.map (·.1)) (kvs.map (·.2)))
    | _ => throw "bad dict")
  | .error _ => throw s!"bad value {j.compress}"

/-- values go back by value only (no refs) -/
partial def valToJson : PyVal → Json
  | .none => obj [("n", ofNat 0)]
  | .bool b => obj [("b", Json.bool b)]
  | .int i => obj [("i", ofInt i)]
  | .flt _ q => if isNanVal q then obj [("nan", ofNat 0)] else obj [("f", ratToJson q)]
  | .str _ s => obj [("s", Json.str s)]
  | .tuple _ xs => obj [("t", ofList valToJson xs)]
  | .list _ xs => obj [("l", ofList valToJson xs)]
  | .dict _ ks vs => obj [("d", ofList (fun (kv : String × PyVal) => Json.arr #[obj [("s", Json.str kv.1)], valToJson kv.2]) (ks.zip vs))]

/-- structural sameness including refs (lookup of recorded learner calls) -/
partial def same : PyVal → PyVal → Bool
  | .none, .none => true
  | .bool a, .bool b => a == b
  | .int a, .int b => a == b
  | .flt r a, .flt r' b => r == r' && a == b
  | .str r a, .str r' b => r == r' && a == b
  | .tuple r xs, .tuple r' ys => r == r' && sameL xs ys
  | .list r xs, .list r' ys => r == r' && sameL xs ys
  | .dict r ks vs, .dict r' ks' vs' => r == r' && ks == ks' && sameL vs vs'
  | _, _ => false
where sameL : List PyVal → List PyVal → Bool
  | [], [] => true
  | x :: xs, y :: ys => same x y && sameL xs ys
  | _, _ => false

def sameLL : List (List PyVal) → List (List PyVal) → Bool
  | [], [] => true
  | x :: xs, y :: ys => same.sameL x y && sameLL xs ys
  | _, _ => false

def sameArg : Arg → Arg → Bool
  | .single c as, .single c' as' => same c c' && same.sameL as as'
  | .batch cs rows, .batch cs' rows' => same.sameL cs cs' && sameLL rows rows'
  | _, _ => false

def errName : Err → String
  | .coba => "CobaException" | .key => "KeyError" | .index => "IndexError" | .type => "TypeError"
  | .attr => "AttributeError" | .value => "ValueError" | .stopIter => "StopIteration" | .zeroDiv => "ZeroDivisionError"
  | .learner => "LearnerError" | .other => "Other"

def parseArg (j : Json) : Except String Arg := do
  let rows ← (← arr (← field j "rows")).mapM (fun r => do
    pure ((← parseVal (← field r "ctx")), (← (← arr (← field r "actions")).mapM parseVal)))
  if ← bool (← field j "batch") then pure (.batch (rows.map (·.1)) (rows.map (·.2)))
  else match rows with
    | [(c, as)] => pure (.single c as)
    | _ => throw "an unbatched call has one row"

def argToJson : Arg → Json
  | .single c as => obj [("batch", Json.bool false), ("rows", Json.arr #[obj [("ctx", valToJson c), ("actions", ofList valToJson as)]])]
  | .batch cs rows => obj [("batch", Json.bool true),
      ("rows", ofList (fun (r : PyVal × List PyVal) => obj [("ctx", valToJson r.1), ("actions", ofList valToJson r.2)]) (cs.zip rows))]

/-- sameness of type and value, whoever created the objects -/
partial def shape : PyVal → PyVal → Bool
  | .none, .none => true
  | .bool a, .bool b => a == b
  | .int a, .int b => a == b
  | .flt _ a, .flt _ b => a == b
  | .str _ a, .str _ b => a == b
  | .tuple _ xs, .tuple _ ys => shapeL xs ys
  | .list _ xs, .list _ ys => shapeL xs ys
  | .dict _ ks vs, .dict _ ks' vs' => ks == ks' && shapeL vs vs'
  | _, _ => false
where shapeL : List PyVal → List PyVal → Bool
  | [], [] => true
  | x :: xs, y :: ys => shape x y && shapeL xs ys
  | _, _ => false

def shapeLL : List (List PyVal) → List (List PyVal) → Bool
  | [], [] => true
  | x :: xs, y :: ys => shape.shapeL x y && shapeLL xs ys
  | _, _ => false

def shapeArg : Arg → Arg → Bool
  | .single c as, .single c' as' => shape c c' && shape.shapeL as as'
  | .batch cs rows, .batch cs' rows' => shape.shapeL cs cs' && shapeLL rows rows'
  | _, _ => false

def argObjects : Arg → List PyVal
  | .single c as => c :: as
  | .batch cs rows => cs ++ rows.flatten

def hasRef : PyVal → Bool
  | .flt .. | .str .. | .tuple .. | .list .. | .dict .. => true
  | _ => false

/-- in an answer, every object that IS one of the objects the real learner was given becomes the corresponding
object the model's learner is given (same position, same type and value, possibly another Python object) -/
partial def rebind (pairs : List (PyVal × PyVal)) (v : PyVal) : PyVal :=
  match pairs.find? (fun p => hasRef p.1 && pyIs v p.1) with
  | some p => p.2
  | none =>
    match v with
    | .tuple r xs => .tuple r (xs.map (rebind pairs))
    | .list r xs => .list r (xs.map (rebind pairs))
    | .dict r ks vs => .dict r ks (vs.map (rebind pairs))
    | v => v

/-- the recorded learner: answers as the real learner was seen to answer the same call (the very same objects, or - so
that a rewrite which hands the learner other but indistinguishable objects is not reported - objects of the same
type and value at the same positions) -/
def recorded (table : List (Arg × Except Err PyVal)) : Learner := fun a =>
  match table.find? (fun e => sameArg e.1 a) with
  | some e => e.2
  | none =>
    match table.find? (fun e => shapeArg e.1 a) with
    | some e => e.2.map (rebind ((argObjects e.1).zip (argObjects a)))
    | none => .error .other

def parseFmt : String → Except String Fmt
  | "A" => pure .A | "AP" => pure .AP | "PM" => pure .PM | "dA" => pure .dA | "dAP" => pure .dAP | "dPM" => pure .dPM
  | s => throw s!"bad fmt {s}"

def parseLayout : String → Except String Layout
  | "single" => pure .single | "row" => pure .row | "col" => pure .col | s => throw s!"bad layout {s}"

structure PolRow where
  ctx : PyVal
  actions : List PyVal
  ans : Answer

/-- the scripted policy: the first script row whose (context, actions) equal (Python `==`) what is given -/
def policyOf (rows : List PolRow) : Policy := fun c as =>
  match rows.find? (fun r => pyEq r.ctx c && pyEqList r.actions as) with
  | some r => r.ans
  | none => ⟨0, .none, [], [], []⟩

def resultToJson (r : Result) : Json := obj [("a", valToJson r.a), ("p", valToJson r.p), ("kw", valToJson r.kw)]

/-- run the calls, reporting per call the result or the first error (then stop) -/
def runAll (fx : Fixes) (L : Learner) : State → List Arg → List Json × List Json
  | _, [] => ([], [])
  | st, a :: as =>
    let tr := ofList argToJson (predictTrace fx L st a)
    match predict fx L st a with
    | .ok (r, st') =>
      let (rs, ts) := runAll fx L st' as
      (obj [("ok", resultToJson r), ("layout", Json.str (reprStr st'.layout)), ("fmt", Json.str (reprStr st'.fmt)),
            ("kw", Json.bool st'.hasKw), ("method", ofOpt ofNat st'.method)] :: rs, tr :: ts)
    | .error e => ([obj [("err", Json.str (errName e))]], [tr])

def viewToJson (v : BatchView) : Json :=
  obj [("A", ofList valToJson v.A), ("P", ofList valToJson v.P), ("keys", ofList Json.str v.keys), ("cols", ofList (ofList valToJson) v.cols)]

/-- per call: do the hypotheses of format_roundtrip_single / format_roundtrip_batch hold, and does the model deliver
what `wantSingle` / `wantBatch` demand?  (compared by value) -/
def checkSpec (fx : Fixes) (sp : Spec) (pol : Policy) : State → List Arg → Bool × Bool × List Json
  | _, [] => (true, true, [])
  | st, a :: as =>
    let (st1, sarg) := prepare fx st a
    let res := predictCore fx (scripted sp pol) st1 sarg
    let (hyp, ok, want) : Bool × Bool × Json :=
      match sarg with
      | .single c acts =>
        let h := st1.layout.isSome || firstRowOK fx sp (pol c acts) acts
        let w := wantSingle sp st1.rng (pol c acts) acts
        let ok := match res, w with
          | .ok (r, _), .ok (r', _) => (resultToJson r).compress == (resultToJson r').compress
          | .error e, .error e' => e == e'
          | _, _ => false
        (h, ok, match w with | .ok (r', _) => resultToJson r' | .error e => Json.str (errName e))
      | .batch cs rows =>
        let R := rowsOf pol cs rows
        let h := Unambiguous fx sp st1 R && cs.length == rows.length && !rows.isEmpty
        let w := wantBatch sp st1.rng R
        let ok := match res, w with
          | .ok (r, _), .ok (v, _) => (match r.view with | some v' => (viewToJson v').compress == (viewToJson v).compress | none => false)
          | .error e, .error e' => e == e'
          | _, _ => false
        (h, ok, match w with | .ok (v, _) => viewToJson v | .error e => Json.str (errName e))
    -- a call outside the hypotheses may leave a state that violates the invariant `Inv`: later calls are not claimed
    if !hyp then (false, true, [obj [("hyp", Json.bool false), ("ok", Json.bool ok), ("want", want)]])
    else match res with
    | .ok (_, st') =>
      let (hs, oks, ds) := checkSpec fx sp pol st' as
      (hs, ok && oks, obj [("hyp", Json.bool hyp), ("ok", Json.bool ok), ("want", want)] :: ds)
    | .error _ => (true, ok, [obj [("hyp", Json.bool hyp), ("ok", Json.bool ok), ("want", want)]])

def runToJson (x : Except Err (List Result)) : Json :=
  match x with
  | .ok rs => obj [("ok", ofList resultToJson rs)]
  | .error e => obj [("err", Json.str (errName e))]

/-- (C) for `run_eq_runSplit` / `run_eq_runCore`: the three executable readings of a history, compared by value -/
def splitCheck (fx : Fixes) (L : Learner) (st : State) (calls : List Arg) : Json :=
  let r := (runToJson (run fx L st calls)).compress
  let s := (runToJson (runSplit fx L st calls)).compress
  let c := (runToJson (runCore fx L st calls)).compress
  let dec : Json := match calls with
    | a :: _ => (match predict fx L st a with
      | .ok (_, st') => (match st'.decided? with | some d => Json.str (reprStr d) | none => Json.null)
      | .error _ => Json.null)
    | [] => Json.null
  obj [("split_ok", Json.bool (r == s)), ("core_ok", Json.bool (r == c)), ("n", ofNat calls.length), ("decided", dec)]

/-- (C) for `nan_encoding_faithful`: on every pair of objects offered in the calls, Python's container comparison with real
nans (`richEq` on what the tokens stand for) = the model's `pyIs || pyEq` on the tokens -/
def nanCheck (calls : List Arg) : Json :=
  let objs := calls.flatMap (fun a => match a with | .single _ as => as | .batch _ rows => rows.flatten)
  let nans := objs.filter PyVal.isNan
  let ok := objs.all (fun a => objs.all (fun b => richEq (NVal.ofPy a) (NVal.ofPy b) == itemEq a b))
  let side := objs.all (fun a => objs.all (fun b => match NVal.ofPy a, NVal.ofPy b with
    | .nan r, .val v => v.nanFree && objDistinct r v
    | _, _ => true))
  obj [("ok", Json.bool ok), ("side", Json.bool side), ("nans", ofNat nans.length)]

def pfmtToJson (r : Except Err PFmt) : Json :=
  match r with
  | .ok f => obj [("ok", Json.str ((match f.kind with | .AX => "AX" | .AP => "AP" | .PM => "PM") ++ (if f.star then "*" else "")))]
  | .error e => obj [("err", Json.str (errName e))]

/-- `pred_format(std_pred, actions)` twice: the model's `predFormat fx`, and the decision tree read from the source run by `pfRun` -/
def pfCheck (fx : Fixes) (j : Json) : Except String Json := do
  let sp ← parseVal (← field j "sp")
  let acts : Option (List PyVal) ← (match j.getObjVal? "actions" with
    | .ok (Json.arr xs) => do pure (some (← xs.toList.mapM parseVal))
    | _ => pure Option.none)
  pure (obj [("model", pfmtToJson (predFormat fx sp acts)), ("table", pfmtToJson (pfRun Coba.Generated.C15.predFormatTree sp acts))])

/-- phase 6: the action cache with the caller's list OBJECTS (`oids`): what the learner is offered call after call by the pinned
lines (reference kept, `runPrepRef`) and by the value-based `prepare` (`runPrep`), and the hypotheses of `inplace_*_partial` -/
def aliasCheck (fx : Fixes) (st : State) (calls : List Arg) (oids : List Nat) : Json :=
  let cs := (oids.zip calls).map (fun p => (⟨p.1, p.2⟩ : OCall))
  obj [("ref", ofList argToJson (runPrepRef fx { st := st } cs)), ("val", ofList argToJson (runPrep fx st cs)),
       ("never_kept", Json.bool (neverKept fx { st := st } cs)), ("fresh", Json.bool (freshObjects [] cs))]

/-- (C) guard of `inplace_fresh_objects_partial`: a fresh list object per call - both caches offer the same -/
def aliasFreshOk (fx : Fixes) (st : State) (calls : List Arg) : Bool :=
  let cs := ((List.range calls.length).zip calls).map (fun p => (⟨p.1, p.2⟩ : OCall))
  let a := runPrepRef fx { st := st } cs
  let b := runPrep fx st cs
  freshObjects [] cs && a.length == b.length && (a.zip b).all (fun p => sameArg p.1 p.2)

def handle (req : Json) : Except String Json := do
  let fxj ← field req "fx"
  let fx : Fixes := ⟨← bool (← field fxj "short"), ← bool (← field fxj "batch"), ← bool (← field fxj "col"), ← bool (← field fxj "rowdict")⟩
  let seed ← int (← field req "seed")
  let calls ← (← arr (← field req "calls")).mapM parseArg
  let st := initState seed
  let mut out : List (String × Json) := [("nan_check", nanCheck calls), ("alias_fresh_ok", Json.bool (aliasFreshOk fx st calls))]
  match req.getObjVal? "alias" with
  | .ok aj => return obj (out ++ [("alias", aliasCheck fx st calls (← (← arr aj).mapM nat))])
  | .error _ => pure ()
  match req.getObjVal? "pf" with
  | .ok pj => out := out ++ [("pf", Json.arr (← (← arr pj).mapM (pfCheck fx)).toArray)]
  | .error _ => pure ()
  -- the learner as recorded from the real run
  match req.getObjVal? "recorded" with
  | .ok rj =>
    let table ← (← arr rj).mapM (fun e => do
      let a ← parseArg (← field e "arg")
      let r : Except Err PyVal ← (match e.getObjVal? "exc" with
        | .ok _ => pure (.error .learner)
        | .error _ => do pure (.ok (← parseVal (← field e "resp"))))
      pure (a, r))
    let (rs, ts) := runAll fx (recorded table) st calls
    out := out ++ [("recorded", Json.arr rs.toArray), ("recorded_trace", Json.arr ts.toArray)]
    out := out ++ [("recorded_split", splitCheck fx (recorded table) st calls)]
  | .error _ => pure ()
  -- two wrappers around one learner (`SafeLearner(SafeLearner(L), seed2)`), calls interleaved as `who` says
  match req.getObjVal? "who", req.getObjVal? "recorded" with
  | .ok wj, .ok rj =>
    let who ← (← arr wj).mapM bool
    let seed2 ← int (← field req "seed2")
    let table ← (← arr rj).mapM (fun e => do
      let a ← parseArg (← field e "arg")
      let r : Except Err PyVal ← (match e.getObjVal? "exc" with
        | .ok _ => pure (.error .learner)
        | .error _ => do pure (.ok (← parseVal (← field e "resp"))))
      pure (a, r))
    let res := runTwo fx (recorded table) st (rewrap st seed2) (who.zip calls)
    out := out ++ [("two", ofList (fun (x : Bool × Except Err Result) => match x.2 with
      | .ok r => obj [("ok", resultToJson r)]
      | .error e => obj [("err", Json.str (errName e))]) res)]
  | _, _ => pure ()
  -- the learner of the theorems
  match req.getObjVal? "spec" with
  | .ok sj =>
    let sp : Spec := { fmt := ← parseFmt (← str (← field sj "fmt")), kw := ← bool (← field sj "kw"),
                       layout := ← parseLayout (← str (← field sj "layout")), tup := ← bool (← field sj "tup"),
                       pmfTup := ← bool (← field sj "pmfTup") }
    let prow ← (← arr (← field req "policy")).mapM (fun r => do
      let kws ← (← arr (← field r "kw")).mapM (fun kv => do
        match ← arr kv with
        | [k, v] => do pure ((← str k), (← parseVal v))
        | _ => throw "bad kw")
      pure { ctx := ← parseVal (← field r "ctx"), actions := ← (← arr (← field r "actions")).mapM parseVal,
             ans := { pick := ← nat (← field r "pick"), p := ← parseVal (← field r "p"),
                      pmf := ← (← arr (← field r "pmf")).mapM parseVal, kwKeys := kws.map (·.1), kwVals := kws.map (·.2) } : PolRow })
    let pol := policyOf prow
    let L := scripted sp pol
    let (rs, ts) := runAll fx L st calls
    out := out ++ [("scripted", Json.arr rs.toArray), ("scripted_trace", Json.arr ts.toArray)]
    out := out ++ [("scripted_split", splitCheck fx L st calls)]
    -- whole history incl. learn (runHistory), its side condition (histOK), and score
    match req.getObjVal? "rewards" with
    | .ok rwj =>
      let rws ← (← arr rwj).mapM parseVal
      let hist := calls.zip rws
      let batchable := match req.getObjVal? "learn_batch" with | .ok (Json.bool b) => b | _ => sp.layout != .single
      let learnJson (c : LearnCall) : Json := obj [("ctx", valToJson c.ctx), ("action", valToJson c.action), ("reward", valToJson c.reward),
        ("prob", valToJson c.prob), ("kw", valToJson (.dict .tmp c.kwKeys c.kwVals))]
      let hres : Json := match runHistory fx L batchable st hist with
        | .ok outs => obj [("ok", ofList (fun (o : Result × List LearnCall) => ofList learnJson o.2) outs)]
        | .error e => obj [("err", Json.str (errName e))]
      let batched := match calls with | (.batch ..) :: _ => true | _ => false
      out := out ++ [("history", hres), ("histOK", Json.bool (histOK fx sp pol batched st hist))]
    | .error _ => pure ()
    -- predict / learn with both call-style memos threaded (also for wrappers switched between batched and unbatched calls)
    match req.getObjVal? "rewards_all" with
    | .ok rwj =>
      let rws ← (← arr rwj).mapM parseVal
      let batchable := match req.getObjVal? "learn_batch" with | .ok (Json.bool b) => b | _ => sp.layout != .single
      let learnJson (c : LearnCall) : Json := obj [("ctx", valToJson c.ctx), ("action", valToJson c.action), ("reward", valToJson c.reward),
        ("prob", valToJson c.prob), ("kw", valToJson (.dict .tmp c.kwKeys c.kwVals))]
      let hm := runHistoryM fx L batchable st Option.none (calls.zip rws)
      out := out ++ [("historyM", ofList (fun (x : Except Err (Result × List LearnCall)) => match x with
        | .ok o => obj [("ok", ofList learnJson o.2)]
        | .error e => obj [("err", Json.str (errName e))]) hm)]
    | .error _ => pure ()
    match req.getObjVal? "scores" with
    | .ok sj =>
      let sargs ← (← arr sj).mapM (fun j => do
        let rows ← (← arr (← field j "rows")).mapM (fun r => do
          pure ((← parseVal (← field r "ctx")), (← (← arr (← field r "actions")).mapM parseVal), (← parseVal (← field r "action"))))
        if ← bool (← field j "batch") then pure (SArg.batch (rows.map (·.1)) (rows.map (·.2.1)) (rows.map (·.2.2)))
        else match rows with
          | [(c, as, x)] => pure (SArg.single c as x)
          | _ => throw "an unbatched score call has one row")
      let sbatch := match req.getObjVal? "score_batch" with | .ok (Json.bool b) => b | _ => sp.layout != .single
      -- score kinds: absent (no attribute), failing (always raises `fail`), or the scripted scorer
      let failOf (j : Json) : Except String ScoreFailure := do pure ⟨← bool (← field j "attr"), ← str (← field j "msg")⟩
      let fail ← (match req.getObjVal? "score_fail" with | .ok j => if j.isNull then pure (⟨false, ""⟩ : ScoreFailure) else failOf j | .error _ => pure ⟨false, ""⟩)
      let failing := match req.getObjVal? "score_fail" with | .ok j => !j.isNull | .error _ => false
      let absent := match req.getObjVal? "score_absent" with | .ok (Json.bool b) => b | _ => false
      let S0 := scriptedScore pol sbatch (← bool (← field req "score_tup"))
      let S : Option Scorer := if absent then none else if failing then some (fun _ => .error .learner) else some S0
      match req.getObjVal? "score_probe" with
      | .ok pj =>
        let probe ← (match pj.getObjVal? "returns" with | .ok _ => pure ScoreProbe.returns | .error _ => do pure (ScoreProbe.raises (← failOf pj)))
        out := out ++ [("has_score", Json.bool (hasScore probe))]
      | .error _ => pure ()
      let rec go (m : Option Nat) : List SArg → List Json
        | [] => []
        | a :: as =>
          match scoreFull fx S fail m a with
          | .ok (v, m') => obj [("ok", valToJson v), ("method", ofNat m')] :: go (some m') as
          | .error e => obj [("err", Json.str (errName e))] :: go m as
      let want := sargs.map (fun a => match a with
        | .single c as x => valToJson (scoreOf pol c as x)
        | .batch cs rows acts => ofList valToJson (scoresOf pol cs rows acts))
      out := out ++ [("scores", Json.arr (go Option.none sargs).toArray), ("scores_want", Json.arr want.toArray)]
    | .error _ => pure ()
    -- (C) the theorems' hypotheses and conclusion, evaluated call by call on the very definitions they are about
    let (hyp, holds, detail) := checkSpec fx sp pol st calls
    out := out ++ [("hyp", Json.bool hyp), ("holds", Json.bool holds), ("spec_detail", Json.arr detail.toArray)]
    -- what the scripted learner answers to the calls as the real learner received them (value comparison of the renderings)
    match req.getObjVal? "recorded" with
    | .ok rj =>
      let rend ← (← arr rj).mapM (fun e => do
        let a ← parseArg (← field e "arg")
        pure (match L a with | .ok v => valToJson v | .error _ => obj [("exc", Json.str "LearnerError")]))
      out := out ++ [("rendered", Json.arr rend.toArray)]
    | .error _ => pure ()
  | .error _ => pure ()
  pure (obj out)

end Coba.C15.Driver
