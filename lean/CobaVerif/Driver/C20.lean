import CobaVerif.Driver.JsonUtil
import CobaVerif.Model.C20
open Lean Coba.J

namespace Coba.C20.Driver
open Coba.C20

def errName : Err → String
  | .keyError => "KeyError" | .indexError => "IndexError"

def parseItem (j : Json) : Except String Item := do
  match j.getObjVal? "n" with
  | .ok v => pure (.num (← ratOfJson v))
  | .error _ => pure (.str (← str (← field j "s")))

def parseKey (j : Json) : Except String Key := do
  match j.getObjVal? "i" with
  | .ok v => pure (.int (← int v))
  | .error _ => pure (.str (← str (← field j "s")))

def parseNsVal (j : Json) : Except String NsVal := do
  match j.getObjVal? "scalar", j.getObjVal? "dense", j.getObjVal? "sparse" with
  | .ok v, _, _ => pure (.scalar (← parseItem v))
  | _, .ok v, _ => pure (.dense (← (← arr v).mapM parseItem))
  | _, _, .ok v => pure (.sparse (← (← arr v).mapM (fun kv => do
      match kv with
      | .arr #[k, it] => pure (← parseKey k, ← parseItem it)
      | _ => throw "pair expected")))
  | _, _, _ => pure .none

def parseChar (j : Json) : Except String Char := do
  match (← str j).toList with
  | [c] => pure c
  | _ => throw "single character expected"

def parseInter (j : Json) : Except String Inter := do
  match j.getObjVal? "n" with
  | .ok v => pure (.num (← ratOfJson v))
  | .error _ => pure (.term (← str (← field j "t")).toList)

def outToJson : Except Err Out → Json
  | .error e => obj [("err", Json.str (errName e))]
  | .ok (.dense vs) => obj [("dense", ofList ratToJson vs)]
  | .ok (.sparse kvs) => obj [("sparse", ofList (fun (kv : String × Rat) => Json.arr #[Json.str kv.1, ratToJson kv.2]) kvs)]

/-- translator target (phase 4): ["theta"] | ["ainv"] | ["feat"] | ["reward"] | ["one"] | ["var",i] | [op,a,b] -/
partial def parseLExp (j : Json) : Except String LExp := do
  match j with
  | .arr #[.str "theta"] => pure .theta
  | .arr #[.str "ainv"] => pure .ainv
  | .arr #[.str "feat"] => pure .feat
  | .arr #[.str "reward"] => pure .reward
  | .arr #[.str "one"] => pure .one
  | .arr #[.str "var", i] => pure (.var (← nat i))
  | .arr #[.str op, a, b] =>
    let x ← parseLExp a
    let y ← parseLExp b
    match op with
    | "matmul" => pure (.matmul x y) | "outer" => pure (.outer x y) | "add" => pure (.add x y)
    | "sub" => pure (.sub x y) | "mul" => pure (.mul x y) | "div" => pure (.div x y)
    | o => throw s!"unknown LExp op {o}"
  | _ => throw "LExp expected"

/-- translator target (phase 5): ["theta"]|["ainv"]|["feats"]|["alpha"]|["var",i]|["fn1",a]|["amax",a]|[op,a,b] -/
partial def parsePExp (j : Json) : Except String PExp := do
  match j with
  | .arr #[.str "theta"] => pure .theta
  | .arr #[.str "ainv"] => pure .ainv
  | .arr #[.str "feats"] => pure .feats
  | .arr #[.str "alpha"] => pure .alpha
  | .arr #[.str "var", i] => pure (.var (← nat i))
  | .arr #[.str "fn1", a] => pure (.fn1 (← parsePExp a))
  | .arr #[.str "amax", a] => pure (.amax (← parsePExp a))
  | .arr #[.str op, a, b] =>
    let x ← parsePExp a
    let y ← parsePExp b
    match op with
    | "matmul" => pure (.matmul x y) | "einsumCols" => pure (.einsumCols x y)
    | "add" => pure (.add x y) | "mul" => pure (.mul x y)
    | o => throw s!"unknown PExp op {o}"
  | _ => throw "PExp expected"

def parseLStmt (j : Json) : Except String LStmt := do
  match j with
  | .arr #[.str "assign", i, e] => pure (.assign (← nat i) (← parseLExp e))
  | .arr #[.str "setTheta", e] => pure (.setTheta (← parseLExp e))
  | .arr #[.str "setAinv", e] => pure (.setAinv (← parseLExp e))
  | _ => throw "LStmt expected"

def allCfgs : List Cfg :=
  [true, false].flatMap fun a => [true, false].flatMap fun b => [true, false].map fun c => ⟨a, b, c⟩

/-- request: {"terms":[{"t":"xxa"}|{"n":[num,den]}…], "ns":[["x", nsval]…]} with
nsval = {"none":1} | {"scalar":item} | {"dense":[item…]} | {"sparse":[[key,item]…]},
item = {"n":[num,den]} | {"s":str}, key = {"s":str} | {"i":int}.
answer: the fixed model, the model of the current code, every switch combination, and the spec.
op "pows": {"op":"pows","xs":[ints],"d":d} → both recurrences and `monos`. -/
def handle (req : Json) : Except String Json := do
  match req.getObjVal? "op" with
  | .ok (.str "pows") =>
    let xs ← intList (← field req "xs")
    let d ← nat (← field req "d")
    let xq : List Rat := xs.map (fun (i : Int) => (i : Rat))
    let f := fun (l : List (List Rat)) => ofList (ofList ratToJson) l
    pure (obj [("new", f (pows true ratMul 1 xq d)), ("old", f (pows false ratMul 1 xq d)),
               ("monos", f ((List.range (d + 1)).map (fun k => monos ratMul 1 k xq))),
               ("combs", ofList (ofList ratToJson) (multichoose d xq))])
  | .ok (.str "shape") =>
    -- {"op":"shape","norms":["asIs","wrapStr"…],"shape":{"str":"xa"}|{"list":[inter…]}|{"tuple":[inter…]}}
    let norms ← (← arr (← field req "norms")).mapM (fun j => do
      match (← str j) with
      | "asIs" => pure Norm.asIs | "wrapStr" => pure Norm.wrapStr | "listOf" => pure Norm.listOf | "tupleOf" => pure Norm.tupleOf
      | n => throw s!"unknown norm {n}")
    let sj ← field req "shape"
    let shape ← match sj.getObjVal? "str", sj.getObjVal? "list", sj.getObjVal? "tuple" with
      | .ok v, _, _ => do pure (Shape.str (← str v).toList)
      | _, .ok v, _ => do pure (Shape.list (← (← arr v).mapM parseInter))
      | _, _, .ok v => do pure (Shape.tuple (← (← arr v).mapM parseInter))
      | _, _, _ => throw "shape expected"
    let interJ := fun (i : Inter) => match i with
      | .num q => obj [("n", ratToJson q)]
      | .term t => obj [("t", Json.str (String.ofList t))]
    pure (obj [("terms", ofList interJ (normalise norms shape)), ("meaning", ofList interJ shape.meaning)])
  | .ok (.str "callers") =>
    -- {"op":"callers","kind":"learner","has_context":b,"features":[inter…]} | {"kind":"synthetic","nctx":n,"nact":n,"features":[inter…]}
    let fs ← (← arr (← field req "features")).mapM parseInter
    let kind ← str (← field req "kind")
    let hasCtx ← bool (fieldD req "has_context" (Json.bool true))
    let nctx ← nat (fieldD req "nctx" (ofNat 1))
    let nact ← nat (fieldD req "nact" (ofNat 1))
    let out := if kind == "learner" then learnerTerms hasCtx fs else syntheticTerms nctx nact (strTerms fs)
    let interJ := fun (i : Inter) => match i with
      | .num q => obj [("n", ratToJson q)]
      | .term t => obj [("t", Json.str (String.ofList t))]
    pure (obj [("terms", ofList interJ out), ("wellformed", Json.bool (wellformedTerms out))])
  | .ok (.str "linucb") =>
    -- {"op":"linucb","d":d,"events":[{"learn":{"f":[rat…],"reward":rat}}|{"predict":{"fs":[[rat…]…]}}…],"perm":[i…]?}
    let d ← nat (← field req "d")
    let events ← (← arr (← field req "events")).mapM (fun j => do
      match j.getObjVal? "learn" with
      | .ok l => pure (LinEvent.learn (← ratList (← field l "f")) (← ratOfJson (← field l "reward")))
      | .error _ => do
        let pr ← field j "predict"
        pure (LinEvent.predict (← (← arr (← field pr "fs")).mapM ratList)))
    let predsJ := fun (ps : List (List (Rat × Rat))) =>
      ofList (ofList (fun (eb : Rat × Rat) => Json.arr #[ratToJson eb.1, ratToJson eb.2])) ps
    let out := linRun (LinState.init d) events
    let base := [("preds", predsJ out.1), ("theta", ofList ratToJson out.2.theta),
                 ("ainv", ofList (ofList ratToJson) out.2.ainv)]
    match req.getObjVal? "perm" with
    | .ok pj =>
      let p ← natList pj
      let outp := linRun (LinState.init d) (events.map (LinEvent.perm p))
      pure (obj (base ++ [("perm_preds", predsJ outp.1), ("perm_theta", ofList ratToJson outp.2.theta),
                          ("perm_ainv", ofList (ofList ratToJson) outp.2.ainv)]))
    | .error _ => pure (obj base)
  | .ok (.str "learnprog") =>
    -- {"op":"learnprog","d":d,"prog":[stmt…],"events":[…as for "linucb"…]} → the history run with the `learn` PROGRAM read off the source
    let d ← nat (← field req "d")
    let prog ← (← arr (← field req "prog")).mapM parseLStmt
    let events ← (← arr (← field req "events")).mapM (fun j => do
      match j.getObjVal? "learn" with
      | .ok l => pure (LinEvent.learn (← ratList (← field l "f")) (← ratOfJson (← field l "reward")))
      | .error _ => do
        let pr ← field j "predict"
        pure (LinEvent.predict (← (← arr (← field pr "fs")).mapM ratList)))
    match linRunProg prog (LinState.init d) events with
    | some st => pure (obj [("ok", Json.bool true), ("theta", ofList ratToJson st.theta), ("ainv", ofList (ofList ratToJson) st.ainv)])
    | none => pure (obj [("ok", Json.bool false)])
  | .ok (.str "pmfprog") =>
    -- phase 5: {"op":"pmfprog","kind":"linucb"|"lints","d":d,"events":[…],"alpha":rat,"table":[[x,gx]…],"prog":[pexp…],"lhs":pexp,"top":pexp}
    -- → every prediction of the history by the `_pmf` PROGRAM read off the source (`runPredict`) and by the model (`pmf`/`pmfTS`)
    let d ← nat (← field req "d")
    let kind ← str (← field req "kind")
    let alpha ← ratOfJson (← field req "alpha")
    let tab ← (← arr (← field req "table")).mapM (fun j => do
      match j with
      | .arr #[x, y] => pure (← ratOfJson x, ← ratOfJson y)
      | _ => throw "pair expected")
    let prog ← (← arr (← field req "prog")).mapM parsePExp
    let lhs ← parsePExp (← field req "lhs")
    let top ← parsePExp (← field req "top")
    let events ← (← arr (← field req "events")).mapM (fun j => do
      match j.getObjVal? "learn" with
      | .ok l => pure (LinEvent.learn (← ratList (← field l "f")) (← ratOfJson (← field l "reward")))
      | .error _ => do
        let pr ← field j "predict"
        pure (LinEvent.predict (← (← arr (← field pr "fs")).mapM ratList)))
    let g := tableFn tab
    let byProg := linRunPredict (fun s fs => runPredict g prog lhs top s fs alpha) (LinState.init d) events
    let byModel := linRunPredict (fun s fs => some (if kind == "linucb" then s.pmf g alpha fs else s.pmfTS g fs)) (LinState.init d) events
    let optJ := fun (o : Option (List Rat)) => match o with
      | some l => ofList ratToJson l
      | none => Json.null
    pure (obj [("prog", ofList optJ byProg), ("model", ofList optJ byModel)])
  | .ok (.str "own") =>
    -- phase 6: {"op":"own","terms":[inter…],"keep":bool?,"ops":[{"encode":[["x",nsval]…]}|{"editResult":k}|{"editTerms":[inter…]}…]}
    -- → the values returned by the encode steps of the ownership history (`ownRun`), the encoder's final terms
    let is ← (← arr (← field req "terms")).mapM parseInter
    let keep ← bool (fieldD req "keep" (Json.bool false))
    let ops ← (← arr (← field req "ops")).mapM (fun j => do
      match j.getObjVal? "encode", j.getObjVal? "editResult", j.getObjVal? "editTerms" with
      | .ok v, _, _ => do
        let kw ← (← arr v).mapM (fun p => do
          match p with
          | .arr #[c, v] => pure (← parseChar c, ← parseNsVal v)
          | _ => throw "pair expected")
        pure (OwnOp.encode kw)
      | _, .ok k, _ => do pure (OwnOp.editResult (← nat k) (.dense []))
      | _, _, .ok v => do pure (OwnOp.editTerms (← (← arr v).mapM parseInter))
      | _, _, _ => throw "OwnOp expected")
    let interJ := fun (i : Inter) => match i with
      | .num q => obj [("n", ratToJson q)]
      | .term t => obj [("t", Json.str (String.ofList t))]
    let out := ownRun ⟨!keep⟩ Cfg.fixed is ops
    pure (obj [("returned", ofList outToJson out.1), ("encTerms", ofList interJ out.2.encTerms),
               ("held", ofNat out.2.results.length)])
  | .ok (.str "fl53") =>
    -- {"op":"fl53","chain":[[num,den],…]} → {"prods":[rat,…]}: prods[0] = fl53 x₀, prods[i] = fmul53 prods[i-1] xᵢ
    let xs ← ratList (← field req "chain")
    let prods : List Rat := match xs with
      | [] => []
      | x :: rest => (rest.foldl (fun (acc : List Rat × Rat) y => let p := fmul53 acc.2 y; (p :: acc.1, p)) ([fl53 x], fl53 x)).1.reverse
    pure (obj [("prods", ofList ratToJson prods)])
  | _ =>
    let is ← (← arr (← field req "terms")).mapM parseInter
    let kw ← (← arr (← field req "ns")).mapM (fun p => do
      match p with
      | .arr #[c, v] => pure (← parseChar c, ← parseNsVal v)
      | _ => throw "pair expected")
    -- phase 5: with "f53": true also the encoder computed with the IEEE rounding multiplication `fmul53`
    let extra := match req.getObjVal? "f53" with
      | .ok (.bool true) => [("model53", outToJson (encodeG fmul53 Cfg.fixed is kw))]
      | _ => []
    pure (obj (extra ++ [("model", outToJson (encode Cfg.fixed is kw)),
               ("current", outToJson (encode Cfg.current is kw)),
               ("variants", ofList (fun (c : Cfg) => Json.arr #[Json.bool c.fixPows, Json.bool c.fixZip, Json.bool c.fixAbsent,
                                       outToJson (encode c is kw)]) allCfgs),
               ("spec", outToJson (.ok (encodeS is kw))),
               ("len", ofNat (encodeLen is kw)),
               ("collides", Json.bool (collides is kw)),
               ("callL", ofNat (callL is kw)),
               ("eqlen", Json.bool (equalLenOK (callL is kw) is kw)),
               ("nmonos", ofNat (sparseMonos is kw).length),
               ("maxdeg", ofNat ((strTerms is).foldl (fun m t => max m t.length) 0)),
               ("hyp", Json.bool ((strTerms is).all (fun t => !t.isEmpty)))]))

end Coba.C20.Driver
