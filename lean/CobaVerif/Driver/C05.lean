import CobaVerif.Driver.JsonUtil
import CobaVerif.Model.C05
open Lean Coba.J

namespace Coba.C05.Driver
open Coba.C05

def errName : Err → String
  | .valueError => "ValueError" | .indexError => "IndexError"
  | .stopIteration => "StopIteration" | .zeroDivision => "ZeroDivisionError"

def parseOp (j : Json) : Except String Op := do
  let name ← str (← field j "op")
  match name with
  | "random" => pure (.random (← ratOfJson (← field j "lo")) (← ratOfJson (← field j "hi")))
  | "randoms" => pure (.randoms (← nat (← field j "n")) (← ratOfJson (← field j "lo")) (← ratOfJson (← field j "hi")))
  | "randint" => pure (.randint (← int (← field j "a")) (← int (← field j "b")))
  | "randints" => pure (.randints (← nat (← field j "n")) (← int (← field j "a")) (← int (← field j "b")))
  | "shuffle" => pure (.shuffle (← nat (← field j "n")))
  | "choice" => pure (.choice (← nat (← field j "n")) (← opt ratList (fieldD j "w" Json.null)))
  | "choicew" => pure (.choicew (← nat (← field j "n")) (← opt ratList (fieldD j "w" Json.null)))
  | "gauss" => pure .gauss
  | "gausses" => pure (.gausses (← nat (← field j "n")))
  | _ => throw s!"unknown op {name}"

def gdToJson (d : GaussDesc) : Json := Json.arr #[ofNat d.k1, ofNat d.k2, Json.bool d.isCos]

def outToJson : Out → Json
  | .rat q => obj [("rat", ratToJson q)]
  | .rats qs => obj [("rats", ofList ratToJson qs)]
  | .int i => obj [("int", ofInt i)]
  | .ints l => obj [("ints", ofList ofInt l)]
  | .perm p => obj [("perm", ofList ofNat p)]
  | .idx i => obj [("idx", ofNat i)]
  | .idxw i w => obj [("idx", ofNat i), ("w", ratToJson w)]
  | .gauss ds => obj [("gauss", ofList gdToJson ds)]
  | .err e => obj [("err", Json.str (errName e))]

def parseSeed (j : Json) : Except String Nat := do
  match (j.getObjVal? "int") with
  | .ok v => pure (normInt (← int v))
  | .error _ => pure (normBytes (← natList (← field j "bytes")))

def parseCall (j : Json) : Except String Call := do
  let name ← str (← field j "op")
  match name with
  | "reseed" => pure (.reseed (← parseSeed (← field j "seed")))
  | "pickle" => pure .repickle
  | "gaussiter" => pure (.op .gauss)   -- placeholder, expanded by `expand`
  | _ => pure (.op (← parseOp j))

/-- `{"op":"gaussiter","n":k}` is k single `gauss()` calls (compared with one `gausses(k)` by the harness) -/
def expand (i : Nat) (j : Json) : Except String (List (Nat × Call)) := do
  let name ← str (← field j "op")
  if name == "gaussiter" then
    pure (List.replicate (← nat (← field j "n")) (i, Call.op Op.gauss))
  else
    pure [(i, ← parseCall j)]

/-- request: {"seeds":[seed…], "hist":[{"i":inst, "op":…}…]} → outputs of `crunW stepE` (method calls with the
exact error paths, module re-seeding, pickling) and, per instance, of `crunOneW stepE` on its own calls (the spec side of the frame
property). -/
def tripleToJson (t : Nat × Nat × Nat) : Json := Json.arr #[ofNat t.1, ofNat t.2.1, ofNat t.2.2]

/-- {"reservoir":{"seed":seed,"count":c,"batches":k}} → `reservoirWalk` with the code's batch size (`resBatch`):
the permutation of the first c items and the triples of uniform numerators Algorithm L is fed with -/
def handleReservoir (r : Json) : Except String Json := do
  let s ← parseSeed (← field r "seed")
  let w := reservoirWalk s (← nat (← field r "count")) resBatch (← nat (← field r "batches"))
  pure (obj [("perm", ofList ofNat w.1), ("triples", ofList tripleToJson w.2)])

def handleHist (req : Json) : Except String Json := do
  let seeds ← (← arr (← field req "seeds")).mapM parseSeed
  let hist := (← (← arr (← field req "hist")).mapM (fun j => do
    let i ← nat (← field j "i"); expand i j)).flatten
  let st : Nat → Inst := fun i => fresh (seeds.getD i 0)
  let outs := crunW stepE st hist
  let alone := (List.range seeds.length).map (fun i =>
    crunOneW stepE (st i) ((hist.filter (·.1 = i)).map (·.2)))
  pure (obj [("model", ofList (fun (p : Nat × Out) => Json.arr #[ofNat p.1, outToJson p.2]) outs),
             ("alone", ofList (ofList outToJson) alone),
             ("states", ofList ofNat seeds)])

def parseFlt (j : Json) : Except String Flt := do
  let s ← parseSeed (← field j "seed")
  match (← str (← field j "kind")) with
  | "shuffle" => pure (.shuffle s)
  | "reservoir" =>
    let strict := match fieldD j "strict" (Json.bool false) with | Json.bool b => b | _ => false
    pure (.reservoir (← opt nat (fieldD j "count" Json.null)) strict s)
  | k => throw s!"unknown filter {k}"

def fltOutToJson : FltOut → Json
  | .items l => obj [("items", ofList ofNat l)]
  | .walk p s => obj [("perm", ofList ofNat p), ("state", ofNat s)]

/-- {"filters":{"objs":[{"kind":"shuffle"|"reservoir","seed":…,"count":c|null,"strict":b}…],"calls":[[o,n]…]}} → `fltRun` -/
def handleFilters (r : Json) : Except String Json := do
  let objs ← (← arr (← field r "objs")).mapM parseFlt
  let calls ← (← arr (← field r "calls")).mapM (fun j => do
    let p ← arr j
    pure ((← nat (p.getD 0 Json.null)), (← nat (p.getD 1 Json.null))))
  pure (obj [("outs", ofList fltOutToJson (fltRun objs calls))])

def handle (req : Json) : Except String Json :=
  match req.getObjVal? "reservoir" with
  | .ok r => handleReservoir r
  | .error _ =>
    match req.getObjVal? "filters" with
    | .ok r => handleFilters r
    | .error _ => handleHist req

end Coba.C05.Driver
