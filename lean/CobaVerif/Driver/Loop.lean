/-
Line-protocol loop shared by the per-property drivers: one JSON request per line on stdin,
one JSON answer per line on stdout.  `{"id":n, …}` ↦ `{"id":n,"ok":…}` or `{"id":n,"error":…}`.
-/
import Lean.Data.Json
open Lean

namespace Coba.J

def answer (h : Json → Except String Json) (line : String) : String :=
  match Json.parse line with
  | .error e => (Json.mkObj [("error", Json.str s!"parse: {e}")]).compress
  | .ok req =>
    let id := match req.getObjVal? "id" with | .ok v => v | .error _ => Json.null
    match h req with
    | .ok r => (Json.mkObj [("id", id), ("ok", r)]).compress
    | .error e => (Json.mkObj [("id", id), ("error", Json.str e)]).compress

partial def loop (h : Json → Except String Json) (inp out : IO.FS.Stream) : IO Unit := do
  let line ← inp.getLine
  if line.isEmpty then return ()
  let l := line.trimAscii.toString
  if !l.isEmpty then
    out.putStrLn (answer h l)
    out.flush
  loop h inp out

def runLoop (h : Json → Except String Json) : IO Unit := do
  loop h (← IO.getStdin) (← IO.getStdout)

end Coba.J
