import CobaVerif.Driver.JsonUtil
import CobaVerif.Model.C17
open Lean Coba.J

namespace Coba.C17.Driver
open Coba.C17

def errName : Err → String
  | .typeError => "TypeError" | .indexError => "IndexError" | .keyError => "KeyError"
  | .assertionError => "AssertionError" | .other => "Other"

def parseCell (j : Json) : Except String Cell := do
  match (← arr j) with
  | [t] =>
    match (← str t) with
    | "n" => pure .none
    | "m" => pure .missing
    | s => throw s!"bad cell tag {s}"
  | [t, a] =>
    match (← str t) with
    | "i" => pure (.int (← int a))
    | "s" => pure (.str ((← str a).toList.map Char.toNat))
    | s => throw s!"bad cell tag {s}"
  | [t, a, b] =>
    match (← str t) with
    | "f" => do
      let n ← int a
      let d ← int b
      if d = 0 then throw "zero denominator" else pure (.flt ((n : Rat) / (d : Rat)))
    | s => throw s!"bad cell tag {s}"
  | _ => throw s!"bad cell {j.compress}"

def cellToJson : Cell → Json
  | .none => Json.arr #[Json.str "n"]
  | .missing => Json.arr #[Json.str "m"]
  | .int i => Json.arr #[Json.str "i", ofInt i]
  | .flt q => Json.arr #[Json.str "f", ofInt q.num, ofNat q.den]
  | .str s => Json.arr #[Json.str "s", Json.str (String.ofList (s.map Char.ofNat))]

def cells (j : Json) : Except String (List Cell) := do (← arr j).mapM parseCell

def parseColData (j : Json) : Except String (List (Nat × List Cell)) := do
  (← arr j).mapM (fun p => do
    match (← arr p) with
    | [c, v] => pure ((← nat c), (← cells v))
    | _ => throw "bad column pair")

def parseCfg (j : Json) : Except String Cfg := do
  let b (k : String) : Except String Bool := match j.getObjVal? k with | .ok v => v.getBool? | .error _ => pure false
  pure { dedupIn := ← b "dedupIn", notinKey := ← b "notinKey", localOp := ← b "localOp", guardEmpty := ← b "guardEmpty",
         dedupIdx := ← b "dedupIdx", missingLe := ← b "missingLe", missingGe := ← b "missingGe", matchEmpty := ← b "matchEmpty", dictLen := ← b "dictLen",
         resortInsert := ← b "resortInsert", bisectFallback := ← b "bisectFallback", notinSentinel := ← b "notinSentinel", matchPerCell := ← b "matchPerCell" }

def parseInit (j : Json) : Except String Init := do
  match (← str (← field j "kind")) with
  | "columns" => pure (.columns (← natList (← field j "columns")))
  | "coldict" => pure (.coldict (← parseColData (← field j "data")))
  | "coldict_cols" => pure (.coldictCols (← parseColData (← field j "data")) (← natList (← field j "columns")))
  | s => throw s!"bad init kind {s}"

def parseOpName (s : String) : Except String Op :=
  match s with
  | "=" => pure .eq | "!=" => pure .ne | "<" => pure .lt | "<=" => pure .le | ">" => pure .gt | ">=" => pure .ge
  | "in" => pure .isin | "!in" => pure .notin | "match" => pure .mtch
  | _ => throw s!"bad operator {s}"

def has (j : Json) (k : String) : Bool := match j.getObjVal? k with | .ok _ => true | .error _ => false

def parseArgV (j : Json) : Except String ArgV := do
  if has j "v" then pure (.scalar (← parseCell (← field j "v")))
  else if has j "l" then pure (.coll (← cells (← field j "l")))
  else throw s!"bad arg value {j.compress}"

partial def parseCellPred (j : Json) : Except String CellPred := do
  if has j "eq" then pure (.eqv (← parseCell (← field j "eq")))
  else if has j "in" then pure (.inl (← cells (← field j "in")))
  else if has j "ismissing" then pure .isMissing
  else if has j "isnone" then pure .isNone
  else if has j "const" then pure (.const (← bool (← field j "const")))
  else if has j "not" then pure (.notp (← parseCellPred (← field j "not")))
  else throw s!"bad cell predicate {j.compress}"

partial def parseRowPred (j : Json) : Except String RowPred := do
  if has j "cell" then
    match (← arr (← field j "cell")) with
    | [k, p] => pure (.cell (← nat k) (← parseCellPred p))
    | _ => throw "bad cell row predicate"
  else if has j "or" then
    match (← arr (← field j "or")) with
    | [a, b] => pure (.or (← parseRowPred a) (← parseRowPred b))
    | _ => throw "bad or"
  else if has j "and" then
    match (← arr (← field j "and")) with
    | [a, b] => pure (.and (← parseRowPred a) (← parseRowPred b))
    | _ => throw "bad and"
  else throw s!"bad row predicate {j.compress}"

def parseArg (j : Json) : Except String Arg := do
  if has j "f" then pure (.fn (← parseCellPred (← field j "f")))
  else if has j "d" then
    match (← arr (← field j "d")) with
    | [o, a] => pure (.dict (← parseOpName (← str o)) (← parseArgV a))
    | _ => throw "bad dict arg"
  else pure (.val (← parseArgV j))

def parseSelect (j : Json) : Except String Select := do
  if j.isNull then pure .keys
  else match j.getStr? with
    | .ok "count" => pure .count
    | .ok s => throw s!"bad select {s}"
    | .error _ =>
      if has j "one" then pure (.one (← nat (← field j "one")))
      else if has j "many" then pure (.many (← natList (← field j "many")))
      else throw s!"bad select {j.compress}"

def parseTOp (j : Json) : Except String TOp := do
  let name ← str (← field j "op")
  match name with
  | "skip" => pure (.skip (← bool (← field j "creates")))
  | "insert" =>
    let t ← nat (← field j "t")
    match (← str (← field j "shape")) with
    | "rows" => pure (.insert t (.rows (← (← arr (← field j "rows")).mapM cells)))
    | "dicts" => do
      let ds ← (← arr (← field j "rows")).mapM (fun d => do
        (← arr d).mapM (fun p => do
          match (← arr p) with
          | [c, v] => pure ((← nat c), (← parseCell v))
          | _ => throw "bad dict item"))
      pure (.insert t (.dicts ds))
    | "cols" => pure (.insert t (.cols (← parseColData (← field j "cols"))))
    | s => throw s!"bad insert shape {s}"
  | "index" => pure (.index (← nat (← field j "t")) (← natList (← field j "cols")))
  | "where" => do
    let t ← nat (← field j "t")
    let pred ← opt parseRowPred (fieldD j "pred" Json.null)
    let pos ← opt (fun x => do parseOpName (← str x)) (fieldD j "pos" Json.null)
    let kws ← (← arr (← field j "kws")).mapM (fun p => do
      match (← arr p) with
      | [c, a] => pure ((← nat c), (← parseArg a))
      | _ => throw "bad keyword")
    pure (.whr t pred pos kws)
  | "groupby" => pure (.groupby (← nat (← field j "t")) (← nat (← field j "level")) (← parseSelect (fieldD j "select" Json.null)))
  | "copy" => pure (.copy (← nat (← field j "t")))
  | "peek" => pure (.peek (← nat (← field j "t")))
  | s => throw s!"unknown op {s}"

def rowsToJson (rs : List (List Cell)) : Json := ofList (ofList cellToJson) rs

def groupToJson : GroupOut → Json
  | .key k => Json.arr #[ofList cellToJson k, Json.null]
  | .cnt k n => Json.arr #[ofList cellToJson k, ofNat n]
  | .one k v => Json.arr #[ofList cellToJson k, ofList cellToJson v]
  | .many k vs => Json.arr #[ofList cellToJson k, ofList (ofList cellToJson) vs]

def obsToJson : Obs → Json
  | .table rs cs ix => obj [("rows", rowsToJson rs), ("columns", ofList ofNat cs), ("indexes", ofList ofNat ix)]
  | .groups gs => obj [("groups", ofList groupToJson gs)]
  | .err e => obj [("err", Json.str (errName e))]
  | .skipped => obj [("skip", Json.bool true)]

/-- is `b` a rearrangement of `a` -/
def permKeys : List (List Key) → List (List Key) → Bool
  | [], b => b.isEmpty
  | x :: a, b => b.contains x && permKeys a (b.erase x)

/-- `p r s` for every row `r` and every later row `s` -/
def pairsAll : List (List Cell) → (List Cell → List Cell → Bool) → Bool
  | [], _ => true
  | r :: rest, p => rest.all (p r) && pairsAll rest p

/-- what the specification says about an operation on the tables as they are before it:
for `where` with keywords `{"hyp": whereWF …, "spec": whereS …}` (the two sides of `where_eq_spec`) -/
def specInfo (cfg : Cfg) (ts : List (Option Table)) (op : TOp) : Json :=
  match op with
  | .whr i Option.none pos kws =>
    match (ts[i]?).bind id with
    | some t =>
      match t.rows with
      | .ok R =>
        obj [("hyp", Json.bool (whereWF cfg t pos kws)),
             ("hyp2", Json.bool (invB t && whereOK cfg t pos kws)),
             ("match", (match kws with
               | [kw] => (match (condOf pos kw).test with
                 | .cmp .mtch (.scalar v) =>
                   rowsToJson (R.filter (fun r => match cellOf t.columns r kw.1 with | .ok c => matchCell v c | .error _ => false))
                 | _ => Json.null)
               | _ => Json.null)),
             ("spec", match whereS { columns := t.columns, rows := R } (kws.map (condOf pos)) with
                      | .ok rs => rowsToJson rs
                      | .error e => obj [("err", Json.str (errName e))])]
      | .error _ => Json.null
    | Option.none => Json.null
  | .insert i d =>
    match (ts[i]?).bind id with
    | some t =>
      match t.rows with
      | .ok R => obj [("ihyp", Json.bool (insertWF cfg t d)),
                      ("ihyp2", Json.bool (cfg.resortInsert && invB t && insertOK cfg t d)),
                      ("inv_after", Json.bool (match t.insert cfg d with | .ok t' => invB t' | .error _ => false)),
                      ("exact", Json.bool (!cfg.resortInsert || t.indexes.isEmpty)),
                      ("columns", ofList ofNat (insertSpec cfg t.columns t.indexes R d).1),
                      ("rows", rowsToJson (insertSpec cfg t.columns t.indexes R d).2)]
      | .error _ => Json.null
    | Option.none => Json.null
  | .index i cols =>
    match (ts[i]?).bind id with
    | some t =>
      let hyp := indexWF cfg t cols || (invB t && indexOK cfg t cols)
      match t.rows, (match t.index cfg cols with | .ok t' => t'.rows | .error e => .error e) with
      | .ok R, .ok R' =>
        let ks := idxPositions t.columns (effIndex cfg t cols)
        obj [("hyp", Json.bool hyp),
             ("perm", Json.bool (permKeys (R.map (List.map Cell.key)) (R'.map (List.map Cell.key)))),
             ("sorted", Json.bool (pairsAll R' (fun r s => !(lexLt ks s r)))),
             ("stablesort", Json.bool (R'.map (List.map Cell.key) == (indexS ks R).map (List.map Cell.key)))]
      | _, _ => obj [("hyp", Json.bool hyp), ("perm", Json.bool false), ("sorted", Json.bool false), ("stablesort", Json.bool false)]
    | Option.none => Json.null
  | _ => Json.null

def runWithSpec (cfg : Cfg) : List (Option Table) → List TOp → List (Obs × Json)
  | _, [] => []
  | ts, op :: rest =>
    let info := specInfo cfg ts op
    let r := step cfg ts op
    (r.2, info) :: runWithSpec cfg r.1 rest

/-- the linear history inside a case: the operations on the table the history is currently "at"
(`where`/`copy` move on to the table they create); it ends at the first mutation of another object -/
def linearOf : List TOp → Nat → Nat → List LOp × Nat
  | [], cur, _ => ([], cur)
  | op :: rest, cur, next =>
    match op with
    | .insert i d => if i = cur then let r := linearOf rest cur next; (LOp.insert d :: r.1, r.2) else ([], cur)
    | .index i cols => if i = cur then let r := linearOf rest cur next; (LOp.index cols :: r.1, r.2) else ([], cur)
    | .whr i pred pos kws =>
      if i = cur then
        let r := linearOf rest next (next + 1)
        ((match pred with | some p => LOp.whereP p | Option.none => LOp.whereK pos kws) :: r.1, r.2)
      else linearOf rest cur (next + 1)
    | .copy i =>
      if i = cur then let r := linearOf rest next (next + 1); (LOp.copy :: r.1, r.2)
      else linearOf rest cur (next + 1)
    | .skip creates => linearOf rest cur (if creates then next + 1 else next)
    | _ => linearOf rest cur next

def absToJson (a : AbsT) : Json :=
  obj [("rows", rowsToJson a.rows), ("columns", ofList ofNat a.columns), ("indexes", ofList ofNat a.indexes)]

/-- the two sides of `ops_refine` for the linear history of the case -/
def linearInfo (cfg : Cfg) (init : Init) (ops : List TOp) : Json :=
  let lin := linearOf ops 0 1
  obj [("n", ofNat lin.1.length), ("cur", ofNat lin.2), ("wfl", Json.bool (WFL cfg init.table lin.1)),
       ("okl", Json.bool (cfg.resortInsert && invB init.table && OKL cfg init.table lin.1)),
       ("inv_end", Json.bool (match runL cfg init.table lin.1 with | .ok t => invB t | .error _ => false)),
       ("model", match runL cfg init.table lin.1 with | .ok t => absToJson t.abs | .error e => obj [("err", Json.str (errName e))]),
       ("spec", match runLS cfg init.table.abs lin.1 with | .ok a => absToJson a | .error e => obj [("err", Json.str (errName e))])]

/-- the machine with per-object `_lohis` caches on the same operations: its observations, whether `OKC`
holds, how many live objects are fresh / stale at the end, and whether every fresh one passes `invB` and `cohB` -/
def cachedInfo (cfg : Cfg) (init : Init) (ops : List TOp) : Json :=
  let fin := finalC cfg (initC init) ops
  let live := fin.filterMap id
  obj [("obs", ofList obsToJson (runC cfg init ops)),
       ("okc", Json.bool (cfg.resortInsert && invB init.table && OKC cfg (initC init) ops)),
       ("fresh", ofNat (live.filter (·.fresh)).length), ("stale", ofNat (live.filter (fun o => !o.fresh)).length),
       ("warm", ofNat (live.filter (fun o => match o.cache with | some (_ :: _) => true | _ => false)).length),
       ("good_end", Json.bool ((live.filter (·.fresh)).all (fun o => invB o.t && cohB cfg o.t o.cache)))]

/-- the tables alive after the operations -/
def finalTs (cfg : Cfg) : List (Option Table) → List TOp → List (Option Table)
  | ts, [] => ts
  | ts, op :: rest => finalTs cfg (step cfg ts op).1 rest

def exceptJson {α} (f : α → Json) (r : Except Err α) : Json :=
  match r with
  | .ok a => obj [("ok", f a)]
  | .error e => obj [("err", Json.str (errName e))]

/-- `len(t)`, `t.to_dicts()` and, per column, what `t[c]` shows -/
def viewObsJson (t : Table) : Json :=
  obj [("len", exceptJson ofNat t.len),
       ("dicts", exceptJson (ofList (ofList (fun (p : Nat × Cell) => Json.arr #[ofNat p.1, cellToJson p.2]))) t.toDicts),
       ("cols", ofList (fun c => Json.arr #[ofNat c, exceptJson (fun (o : ColObs) =>
          obj [("kind", ofNat o.kind), ("len", ofNat o.len), ("items", exceptJson (ofList cellToJson) o.items),
               ("first", exceptJson cellToJson o.first), ("last", exceptJson cellToJson o.last)]) (t.colObs c)]) t.columns)]

def sortResJson (r : Except Err (List Cell)) : Json :=
  match r with
  | .ok l => obj [("ok", ofList cellToJson l)]
  | .error e => obj [("err", Json.str (errName e))]

def sortNatResJson (r : Except Err (List Nat)) : Json :=
  match r with
  | .ok l => obj [("ok", ofList ofNat l)]
  | .error e => obj [("err", Json.str (errName e))]

/-- request `{"sort": [cells]}`: `sorted(cells)` by the comparison sort `pySortedE` and by the specification-level `pySorted`,
and `sorted(range(n), key=cells.__getitem__)` by `pySortedByE` / `pySortedBy` -/
def handleSort (j : Json) : Except String Json := do
  let vs ← cells j
  let idx := List.range vs.length
  pure (obj [("sortE", sortResJson (pySortedE vs)), ("spec", sortResJson (pySorted vs)),
             ("sortByE", sortNatResJson (pySortedByE (cellAt vs) idx)), ("specBy", sortNatResJson (pySortedBy (cellAt vs) idx))])

/-- request `{"cfg":{…}, "init":…, "ops":[…]}` → `{"model":[obs…], "spec":[…]}` (first entry of
`model`: the initial table; `spec` has one entry per operation) -/
def handle (req : Json) : Except String Json := do
  match req.getObjVal? "sort" with
  | .ok j => handleSort j
  | .error _ =>
  let cfg ← parseCfg (fieldD req "cfg" (Json.mkObj []))
  let init ← parseInit (← field req "init")
  let ops ← (← arr (← field req "ops")).mapM parseTOp
  let res := runWithSpec cfg [some init.table] ops
  pure (obj [("model", ofList obsToJson (observe init.table :: res.map (·.1))),
             ("spec", Json.arr (res.map (·.2)).toArray),
             ("views", ofList (fun (o : Option Table) => match o with | some t => viewObsJson t | Option.none => Json.null) (finalTs cfg [some init.table] ops)),
             ("cached", cachedInfo cfg init ops),
             ("linear", linearInfo cfg init (ops.filter (fun o => match o with | .peek _ => false | _ => true)))])

end Coba.C17.Driver
