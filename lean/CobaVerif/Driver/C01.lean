import CobaVerif.Driver.JsonUtil
import CobaVerif.Model.C01
import CobaVerif.Driver.C06
open Lean Coba.J

/-
Driver for C01 / C03: concrete toy components (mirroring harness/props/c01_components.py) are
plugged into the abstract `Comps` of the model; the request describes the objects, the triple
list, the configuration and the schedule; the answer holds `run` (model) and `resultS` (spec).
-/
namespace Coba.C01.Driver
open Coba.C01

/-- state of a `ToyLearner` object (its constructor arguments are part of the object) -/
structure ToyS where
  mult : Nat
  fp : Option Nat
  fl : Option Nat
  n : Nat
  acc : Nat
  tag : Nat := 0
  info : Bool := false      -- predict reports `100*tag+n` through CobaContext.learning_info

structure ToyEnv where
  data : List Nat          -- contexts a fresh read yields
  fails : Bool             -- … and then raises
  params : Option String   -- none: `params` raises
  chunk : Option Nat

structure ToyLrn where
  init : ToyS
  params : Option String
  copyable : Bool := true   -- false: the object holds a generator, `deepcopy` raises

structure ToyVal where
  seed : Option Nat
  failAt : Option Nat
  learn : Bool
  params : Option String
  skip : Option Nat := none   -- learners with this `mult` get no rows (and are not touched)
  mode : Nat := 0             -- 0: ignores learning_info; 1: clears it at the start and flushes it into every row;
                              -- 2: flushes without clearing at the start (not process-local clean)

abbrev Row := List Nat

/-- the loop of `ToyEval.evaluate` -/
def toyLoop (learn : Bool) (vfail : Option Nat) (seed : Nat) :
    List Nat → Nat → ToyS → List Row → Except Err (List Row) × ToyS
  | [], _, s, rows => (.ok rows.reverse, s)
  | x :: xs, k, s, rows =>
    if s.fp = some s.n then (.error .raised, s) else
    let p := x * s.mult + 7 * s.acc + s.n
    if learn && s.fl = some s.n then (.error .raised, s) else
    let s' := if learn then { s with n := s.n + 1, acc := s.acc + x } else s
    let rows' := [x, p, s.n, seed] :: rows
    if vfail = some (k + 1) then (.error .raised, s') else toyLoop learn vfail seed xs (k + 1) s' rows'

def toyEval (env : ToyEnv) (val : ToyVal) (s : ToyS) (seed : Nat) : Except Err (List Row) × ToyS :=
  if val.failAt = some 0 then (.error .raised, s) else
  if val.skip = some s.mult then (.ok [], s) else
  let r := toyLoop val.learn val.failAt seed env.data 0 s []
  match r.1 with
  | .ok rows => if env.fails then (.error .raised, r.2) else (.ok rows, r.2)
  | .error e => (.error e, r.2)

def toParams : Option String → Except Err String
  | some p => .ok p
  | none => .error .raised

def dfltS : ToyS := ⟨0, none, none, 0, 0, 0, false⟩
def dfltEnv : ToyEnv := ⟨[], false, none, none⟩
def dfltVal : ToyVal := ⟨none, none, true, none, none, 0⟩

def mkComps (envs : List ToyEnv) (lrns : List ToyLrn) (vals : List ToyVal) : Comps ToyS String Row :=
  { envParams := fun e => toParams ((envs.getD e dfltEnv).params)
    lrnParams := fun l => toParams ((lrns.getD l ⟨dfltS, none, true⟩).params)
    valParams := fun v => toParams ((vals.getD v dfltVal).params)
    chunkKey := fun e => (envs.getD e dfltEnv).chunk
    init := fun l => (lrns.getD l ⟨dfltS, none, true⟩).init
    valSeed := fun v => (vals.getD v dfltVal).seed
    eval := fun v e s seed => toyEval (envs.getD e dfltEnv) (vals.getD v dfltVal) s seed }

/-- the process state of the toy world: what is in `CobaContext.learning_info['li']` -/
abbrev ToyG := Option Nat

/-- the loop of `ToyEval.evaluate` with the process-global info channel -/
def toyLoopP (learn : Bool) (mode : Nat) (vfail : Option Nat) (seed : Nat) :
    List Nat → Nat → ToyS → ToyG → List Row → (Except Err (List Row) × ToyS) × ToyG
  | [], _, s, σ, rows => ((.ok rows.reverse, s), σ)
  | x :: xs, k, s, σ, rows =>
    if s.fp = some s.n then ((.error .raised, s), σ) else
    let p := x * s.mult + 7 * s.acc + s.n
    let σ1 := if s.info then some (100 * s.tag + s.n) else σ
    if learn && s.fl = some s.n then ((.error .raised, s), σ1) else
    let s' := if learn then { s with n := s.n + 1, acc := s.acc + x } else s
    let row := [x, p, s.n, seed] ++ (if mode = 0 then [] else match σ1 with | some k => [k] | none => [])
    let σ2 := if mode = 0 then σ1 else none
    if vfail = some (k + 1) then ((.error .raised, s'), σ2) else toyLoopP learn mode vfail seed xs (k + 1) s' σ2 (row :: rows)

def toyEvalP (env : ToyEnv) (val : ToyVal) (σ : ToyG) (s : ToyS) (seed : Nat) : (Except Err (List Row) × ToyS) × ToyG :=
  if val.failAt = some 0 then ((.error .raised, s), σ) else
  if val.skip = some s.mult then ((.ok [], s), σ) else
  let σ0 := if val.mode = 1 then none else σ
  let r := toyLoopP val.learn val.mode val.failAt seed env.data 0 s σ0 []
  match r.1.1 with
  | .ok rows => if env.fails then ((.error .raised, r.1.2), r.2) else ((.ok rows, r.1.2), r.2)
  | .error e => ((.error e, r.1.2), r.2)

def mkCompsP (envs : List ToyEnv) (lrns : List ToyLrn) (vals : List ToyVal) : CompsP ToyG ToyS String Row :=
  { envParams := fun e => toParams ((envs.getD e dfltEnv).params)
    lrnParams := fun l => toParams ((lrns.getD l ⟨dfltS, none, true⟩).params)
    valParams := fun v => toParams ((vals.getD v dfltVal).params)
    chunkKey := fun e => (envs.getD e dfltEnv).chunk
    init := fun l => (lrns.getD l ⟨dfltS, none, true⟩).init
    valSeed := fun v => (vals.getD v dfltVal).seed
    copyable := fun l => (lrns.getD l ⟨dfltS, none, true⟩).copyable
    σ0 := none
    evalP := fun σ v e s seed => toyEvalP (envs.getD e dfltEnv) (vals.getD v dfltVal) σ s seed }

def parseEnv (j : Json) : Except String ToyEnv := do
  pure { data := ← natList (← field j "data"), fails := ← bool (← field j "fails"),
         params := ← opt str (fieldD j "params" Json.null), chunk := ← opt nat (fieldD j "chunk" Json.null) }

def parseLrn (j : Json) : Except String ToyLrn := do
  pure { init := { mult := ← nat (← field j "mult"), fp := ← opt nat (fieldD j "fp" Json.null),
                   fl := ← opt nat (fieldD j "fl" Json.null), n := 0, acc := 0,
                   tag := ← nat (fieldD j "tag" (ofNat 0)), info := ← bool (fieldD j "info" (Json.bool false)) },
         params := ← opt str (fieldD j "params" Json.null),
         copyable := ← bool (fieldD j "copyable" (Json.bool true)) }

def parseVal (j : Json) : Except String ToyVal := do
  pure { seed := ← opt nat (fieldD j "seed" Json.null), failAt := ← opt nat (fieldD j "fail_at" Json.null),
         learn := ← bool (← field j "learn"), params := ← opt str (fieldD j "params" Json.null),
         skip := ← opt nat (fieldD j "skip_mult" Json.null), mode := ← nat (fieldD j "mode" (ofNat 0)) }

def parseTriple (j : Json) : Except String Triple := do
  match ← natList j with
  | [e, l, v] => pure (e, l, v)
  | _ => throw "triple expected"

def tableJson (t : List (Nat × String)) : Json :=
  ofList (fun (p : Nat × String) => Json.arr #[ofNat p.1, Json.str p.2]) t

def resultJson (r : Result String Row) : Json :=
  obj [("exp", match r.exp with
          | some m => Json.arr #[ofNat m.nLrn, ofNat m.nEnv, ofNat m.seed]
          | none => Json.null),
       ("envs", tableJson r.envs), ("lrns", tableJson r.lrns), ("vals", tableJson r.vals),
       ("ints", ofList (fun (x : Key3 × Nat × Row) =>
          Json.arr #[ofNat x.1.1, ofNat x.1.2.1, ofNat x.1.2.2, ofNat x.2.1, ofList ofNat x.2.2]) r.ints)]

def taskJson : Task → Json
  | .env i e => Json.arr #[Json.str "E", ofNat i, ofNat e]
  | .lrn i l => Json.arr #[Json.str "L", ofNat i, ofNat l]
  | .val i v => Json.arr #[Json.str "V", ofNat i, ofNat v]
  | .eval ei e li l vi v c => Json.arr #[Json.str "I", ofNat ei, ofNat li, ofNat vi, ofNat e, ofNat l, ofNat v, Json.bool c]

/-- a record of the restored log: ["E",id,params] | ["L",…] | ["V",…] | ["I",[e,l,v],[[row]…]] -/
def parseRec (j : Json) : Except String (Rec String Row) := do
  match ← arr j with
  | [tag, a, b] =>
    match ← str tag with
    | "E" => pure (.T1 (← nat a) (← str b))
    | "L" => pure (.T2 (← nat a) (← str b))
    | "V" => pure (.T3 (← nat a) (← str b))
    | "I" => do
      let k ← parseTriple a
      let rows ← (← arr b).mapM natList
      pure (.T4 k rows)
    | t => throw s!"unknown record tag {t}"
  | _ => throw "record expected"

def parseCfg (j : Json) : Except String Cfg := do
  match ← natList j with
  | [mp, mc, mt] => pure ({ mp := mp, mc := mc, mt := mt } : Cfg)
  | _ => throw "cfg expected"

def toyGJson : ToyG → Json
  | some k => ofNat k
  | none => Json.null

/-- request: {"seed","envs","lrns","vals","triples","cfg":[mp,mc,mt],"picks","assign",
             "pre": null | {"seed","cfg","assign","picks"}}.
`model` is `runPFrom` (process-state model; started in the state an earlier run of the session left
behind when `pre` is given), `spec` is `resultSP`, `hyp` says whether the toy components are
process-local clean (no evaluator flushes the info channel without clearing it first);
`model_plain` is the σ-free `run` of phase 1 (it ignores the info channel and copyability). -/
def handleToy (req : Json) : Except String Json := do
  let seed ← nat (← field req "seed")
  let envs ← (← arr (← field req "envs")).mapM parseEnv
  let lrns ← (← arr (← field req "lrns")).mapM parseLrn
  let vals ← (← arr (← field req "vals")).mapM parseVal
  let triples ← (← arr (← field req "triples")).mapM parseTriple
  let cfg ← parseCfg (← field req "cfg")
  let picks ← natList (fieldD req "picks" (Json.arr #[]))
  let assign ← natList (fieldD req "assign" (Json.arr #[]))
  let sched : Sched := { assign := assign, picks := picks }
  let cp := mkCompsP envs lrns vals
  let pre := fieldD req "pre" Json.null
  let σstart ← if pre.isNull then pure cp.σ0 else do
    let pseed ← nat (← field pre "seed")
    let pcfg ← parseCfg (← field pre "cfg")
    let psched : Sched := { assign := ← natList (fieldD pre "assign" (Json.arr #[])), picks := ← natList (fieldD pre "picks" (Json.arr #[])) }
    pure (stateAfter cp pcfg psched pseed cp.σ0 triples)
  let evs := runEventsPFrom cp cfg sched seed σstart triples
  let heap := (List.range lrns.length).map (fun l => Json.arr #[ofNat (evs.2.2 l).n, ofNat (evs.2.2 l).acc])
  let c := mkComps envs lrns vals
  let hyp := vals.all (fun v => v.mode != 2)
  let oldJ := fieldD req "old" Json.null
  let resumed ← if oldJ.isNull then pure Json.null else do
    let oldRecs ← (← arr oldJ).mapM parseRec
    -- the log was written by an in-process run of the same experiment in this very process: the resumed run starts in
    -- the process state that run left behind (phase 4: `runResumedPFrom`, process state + un-copyable learners)
    let σr := stateAfter cp ({ mp := 1, mc := 0, mt := 0 } : Cfg) { assign := [], picks := [] } seed cp.σ0 triples
    pure (obj [("result", resultJson (runResumed c cfg picks seed triples oldRecs)),
               ("resultP", resultJson (runResumedPFrom cp cfg sched seed σr triples oldRecs)),
               ("tasks", ofList taskJson (resumedTasks oldRecs triples))])
  pure (obj [("model", resultJson (runPFrom cp cfg sched seed σstart triples)),
             ("spec", resultJson (resultSP cp seed triples)),
             ("hyp", Json.bool hyp),
             ("log", ofList taskJson (evs.1.filterMap Ev.err?)),
             ("heap", Json.arr heap.toArray),
             ("sigma", toyGJson evs.2.1),
             ("multi", Json.bool cfg.multi),
             ("chunks", ofList (ofList taskJson) (chunksOfP cp cfg triples)),
             ("lives", ofList (ofList (ofList taskJson)) (retire cfg.mc (livesOf assign (chunksOfP cp cfg triples)))),
             ("resumed", resumed),
             ("model_plain", resultJson (run c cfg picks seed triples)),
             ("spec_plain", resultJson (resultS c seed triples))])

/-! ### phase 4: experiments over the built-in SequentialCB (`seqComps`, Model/C06 as the evaluator) -/

structure SeqEnv where
  params : Option String
  chunk : Option Nat
  inters : Option (List (Coba.C06.Dict (Coba.C06.Fld Coba.C06.Driver.V Coba.C06.Driver.RTab)))   -- none: the read raises
  batch : Option Nat

structure SeqLrn where
  params : Option String
  hasScore : Bool
  script : List Coba.C06.Driver.Entry
  kind : String := "plain"      -- phase 5: "plain" | "pmf" (answers with PMFs) | "info" (writes learning_info) | "rowlen2" ((a,p) tuples)

structure SeqVal where
  params : Option String
  seed : Option Nat
  cfg : Coba.C06.Config
  rej : Option RejConfig := none      -- phase 6: the evaluator object is a RejectionCB(record, cpct, cmax, cinit)

def parseSeqEnv (j : Json) : Except String SeqEnv := do
  let ij := fieldD j "inters" Json.null
  let inters ← if ij.isNull then pure none else do
    pure (some (← (← arr ij).mapM Coba.C06.Driver.parseDict))
  pure { params := ← opt str (fieldD j "params" Json.null), chunk := ← opt nat (fieldD j "chunk" Json.null),
         inters := inters, batch := ← opt nat (fieldD j "batch" Json.null) }

def parseSeqLrn (j : Json) : Except String SeqLrn := do
  pure { params := ← opt str (fieldD j "params" Json.null), hasScore := ← bool (← field j "has_score"),
         script := ← (← arr (← field j "script")).mapM Coba.C06.Driver.parseEntry,
         kind := ← str (fieldD j "kind" (Json.str "plain")) }

def parseSeqVal (j : Json) : Except String SeqVal := do
  let cj ← field j "cfg"
  pure { params := ← opt str (fieldD j "params" Json.null), seed := ← opt nat (fieldD j "seed" Json.null),
         cfg := { learn := ← Coba.C06.Driver.parseLearn (fieldD cj "learn" Json.null),
                  eval := ← Coba.C06.Driver.parseEval (fieldD cj "eval" Json.null),
                  record := ← strList (← field cj "record") },
         rej := ← (do
           let rj := fieldD j "rej" Json.null
           if rj.isNull then pure none else
             pure (some { record := ← strList (← field rj "record"), cpct := ← ratOfJson (← field rj "cpct"),
                          cmax := ← ratOfJson (← field rj "cmax"), cinit := ← opt ratOfJson (fieldD rj "cinit" Json.null) })) }

def dfltSeqVal : SeqVal := { params := none, seed := none, cfg := { learn := .on, eval := .on, record := [] } }

def mkSeqWorld (envs : List SeqEnv) (lrns : List SeqLrn) (vals : List SeqVal) :
    SeqWorld (Nat × Nat) Coba.C06.Driver.V Coba.C06.Driver.RTab String :=
  { envParams := fun e => toParams ((envs.getD e ⟨none, none, none, none⟩).params)
    lrnParams := fun l => toParams ((lrns.getD l ⟨none, false, [], "plain"⟩).params)
    valParams := fun v => toParams ((vals.getD v dfltSeqVal).params)
    chunkKey := fun e => (envs.getD e ⟨none, none, none, none⟩).chunk
    valSeed := fun v => (vals.getD v dfltSeqVal).seed
    cfgOf := fun v => (vals.getD v dfltSeqVal).cfg
    learner := fun l => let L := lrns.getD l ⟨none, false, [], "plain"⟩; Coba.C06.Driver.scripted L.script L.hasScore
    init := fun _ => (0, 0)
    envRows := fun e => match (envs.getD e ⟨none, none, none, none⟩).inters with
      | some rows => .ok rows
      | none => .error .raised
    batch := fun e => (envs.getD e ⟨none, none, none, none⟩).batch }

/-- phase 5: the extended world — scripted PMF learners (`scriptedPmf`, drawn through `wrapPmf` with the C05 stream)
and scripted info-writing learners (`scriptedI`, `evaluateI`) -/
def mkSeqWorldX (envs : List SeqEnv) (lrns : List SeqLrn) (vals : List SeqVal) :
    SeqWorldX (Nat × Nat) Coba.C06.Driver.V Coba.C06.Driver.RTab String :=
  { base := mkSeqWorld envs lrns vals
    ext := fun l =>
      let L := lrns.getD l ⟨none, false, [], "plain"⟩
      if L.kind == "pmf" then some (.pmf (Coba.C06.Driver.scriptedPmf L.script L.hasScore) "null")
      else if L.kind == "rowlen2" then some (.rowLen (Coba.C06.Driver.scripted L.script L.hasScore) 2)
      else if L.kind == "info" then some (.info (Coba.C06.Driver.scriptedI L.script L.hasScore))
      else none }

def seqResultJson (r : Result String (Coba.C06.Row Coba.C06.Driver.V Coba.C06.Driver.RTab)) : Json :=
  obj [("exp", match r.exp with
          | some m => Json.arr #[ofNat m.nLrn, ofNat m.nEnv, ofNat m.seed]
          | none => Json.null),
       ("envs", tableJson r.envs), ("lrns", tableJson r.lrns), ("vals", tableJson r.vals),
       ("ints", ofList (fun (x : Key3 × Nat × Coba.C06.Row Coba.C06.Driver.V Coba.C06.Driver.RTab) =>
          Json.arr #[ofNat x.1.1, ofNat x.1.2.1, ofNat x.1.2.2, ofNat x.2.1, Coba.C06.Driver.rowJson x.2.2]) r.ints)]

/-- request {"seq":true,"seed","envs":[{params,chunk,inters|null,batch}],"lrns":[{params,has_score,script}],
"vals":[{params,seed,cfg}],"triples","cfg","picks"}: `run (seqComps w)` — the whole Experiment.run over SequentialCB —
and its spec `resultS (seqComps w)` -/
def handleSeq (req : Json) : Except String Json := do
  let seed ← nat (← field req "seed")
  let envs ← (← arr (← field req "envs")).mapM parseSeqEnv
  let lrns ← (← arr (← field req "lrns")).mapM parseSeqLrn
  let vals ← (← arr (← field req "vals")).mapM parseSeqVal
  let triples ← (← arr (← field req "triples")).mapM parseTriple
  let cfg ← parseCfg (← field req "cfg")
  let picks ← natList (fieldD req "picks" (Json.arr #[]))
  -- phase 6: evaluator objects may be RejectionCB objects (`seqCompsR`; without any it is `seqCompsX`, `rejectionCB_conservative`)
  let c := seqCompsR { x := mkSeqWorldX envs lrns vals, rej := fun v => (vals.getD v dfltSeqVal).rej }
  let evs := runEvents c cfg picks seed triples
  let heap := (List.range lrns.length).map (fun l => Json.arr #[ofNat (evs.2 l).2.1, ofNat (evs.2 l).2.2])
  pure (obj [("model", seqResultJson (run c cfg picks seed triples)),
             ("spec", seqResultJson (resultS c seed triples)),
             ("log", ofList taskJson (evs.1.filterMap Ev.err?)),
             ("heap", Json.arr heap.toArray),
             ("chunks", ofList (ofList taskJson) (chunksOf c cfg triples))])

def handle (req : Json) : Except String Json :=
  if (fieldD req "seq" Json.null).isNull then handleToy req else handleSeq req

end Coba.C01.Driver
