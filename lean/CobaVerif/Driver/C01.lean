import CobaVerif.Driver.JsonUtil
import CobaVerif.Model.C01
open Lean Coba.J

/-
Driver for C01 / C03: concrete toy components (mirroring harness/props/c01_components.py) are
plugged into the abstract `Comps` of the model; the request describes the objects, the triple
list, the configuration and the schedule; the answer holds `run` (model) and `resultS` (spec).
-/
namespace Coba.C01.Driver
open Coba.C01

/-- state of a `ToyLearner` object (its constructor arguments are part of the object) -/
structure ToyS where
  mult : Nat
  fp : Option Nat
  fl : Option Nat
  n : Nat
  acc : Nat

structure ToyEnv where
  data : List Nat          -- contexts a fresh read yields
  fails : Bool             -- … and then raises
  params : Option String   -- none: `params` raises
  chunk : Option Nat

structure ToyLrn where
  init : ToyS
  params : Option String

structure ToyVal where
  seed : Option Nat
  failAt : Option Nat
  learn : Bool
  params : Option String
  skip : Option Nat := none   -- learners with this `mult` get no rows (and are not touched)

abbrev Row := List Nat

/-- the loop of `ToyEval.evaluate` -/
def toyLoop (learn : Bool) (vfail : Option Nat) (seed : Nat) :
    List Nat → Nat → ToyS → List Row → Except Err (List Row) × ToyS
  | [], _, s, rows => (.ok rows.reverse, s)
  | x :: xs, k, s, rows =>
    if s.fp = some s.n then (.error .raised, s) else
    let p := x * s.mult + 7 * s.acc + s.n
    if learn && s.fl = some s.n then (.error .raised, s) else
    let s' := if learn then { s with n := s.n + 1, acc := s.acc + x } else s
    let rows' := [x, p, s.n, seed] :: rows
    if vfail = some (k + 1) then (.error .raised, s') else toyLoop learn vfail seed xs (k + 1) s' rows'

def toyEval (env : ToyEnv) (val : ToyVal) (s : ToyS) (seed : Nat) : Except Err (List Row) × ToyS :=
  if val.failAt = some 0 then (.error .raised, s) else
  if val.skip = some s.mult then (.ok [], s) else
  let r := toyLoop val.learn val.failAt seed env.data 0 s []
  match r.1 with
  | .ok rows => if env.fails then (.error .raised, r.2) else (.ok rows, r.2)
  | .error e => (.error e, r.2)

def toParams : Option String → Except Err String
  | some p => .ok p
  | none => .error .raised

def dfltS : ToyS := ⟨0, none, none, 0, 0⟩
def dfltEnv : ToyEnv := ⟨[], false, none, none⟩
def dfltVal : ToyVal := ⟨none, none, true, none, none⟩

def mkComps (envs : List ToyEnv) (lrns : List ToyLrn) (vals : List ToyVal) : Comps ToyS String Row :=
  { envParams := fun e => toParams ((envs.getD e dfltEnv).params)
    lrnParams := fun l => toParams ((lrns.getD l ⟨dfltS, none⟩).params)
    valParams := fun v => toParams ((vals.getD v dfltVal).params)
    chunkKey := fun e => (envs.getD e dfltEnv).chunk
    init := fun l => (lrns.getD l ⟨dfltS, none⟩).init
    valSeed := fun v => (vals.getD v dfltVal).seed
    eval := fun v e s seed => toyEval (envs.getD e dfltEnv) (vals.getD v dfltVal) s seed }

def parseEnv (j : Json) : Except String ToyEnv := do
  pure { data := ← natList (← field j "data"), fails := ← bool (← field j "fails"),
         params := ← opt str (fieldD j "params" Json.null), chunk := ← opt nat (fieldD j "chunk" Json.null) }

def parseLrn (j : Json) : Except String ToyLrn := do
  pure { init := { mult := ← nat (← field j "mult"), fp := ← opt nat (fieldD j "fp" Json.null),
                   fl := ← opt nat (fieldD j "fl" Json.null), n := 0, acc := 0 },
         params := ← opt str (fieldD j "params" Json.null) }

def parseVal (j : Json) : Except String ToyVal := do
  pure { seed := ← opt nat (fieldD j "seed" Json.null), failAt := ← opt nat (fieldD j "fail_at" Json.null),
         learn := ← bool (← field j "learn"), params := ← opt str (fieldD j "params" Json.null),
         skip := ← opt nat (fieldD j "skip_mult" Json.null) }

def parseTriple (j : Json) : Except String Triple := do
  match ← natList j with
  | [e, l, v] => pure (e, l, v)
  | _ => throw "triple expected"

def tableJson (t : List (Nat × String)) : Json :=
  ofList (fun (p : Nat × String) => Json.arr #[ofNat p.1, Json.str p.2]) t

def resultJson (r : Result String Row) : Json :=
  obj [("exp", match r.exp with
          | some m => Json.arr #[ofNat m.nLrn, ofNat m.nEnv, ofNat m.seed]
          | none => Json.null),
       ("envs", tableJson r.envs), ("lrns", tableJson r.lrns), ("vals", tableJson r.vals),
       ("ints", ofList (fun (x : Key3 × Nat × Row) =>
          Json.arr #[ofNat x.1.1, ofNat x.1.2.1, ofNat x.1.2.2, ofNat x.2.1, ofList ofNat x.2.2]) r.ints)]

def taskJson : Task → Json
  | .env i e => Json.arr #[Json.str "E", ofNat i, ofNat e]
  | .lrn i l => Json.arr #[Json.str "L", ofNat i, ofNat l]
  | .val i v => Json.arr #[Json.str "V", ofNat i, ofNat v]
  | .eval ei e li l vi v c => Json.arr #[Json.str "I", ofNat ei, ofNat li, ofNat vi, ofNat e, ofNat l, ofNat v, Json.bool c]

/-- request: {"seed","envs","lrns","vals","triples","cfg":[mp,mc,mt],"picks"} -/
def handle (req : Json) : Except String Json := do
  let seed ← nat (← field req "seed")
  let envs ← (← arr (← field req "envs")).mapM parseEnv
  let lrns ← (← arr (← field req "lrns")).mapM parseLrn
  let vals ← (← arr (← field req "vals")).mapM parseVal
  let triples ← (← arr (← field req "triples")).mapM parseTriple
  let cfg ← match ← natList (← field req "cfg") with
    | [mp, mc, mt] => pure ({ mp := mp, mc := mc, mt := mt } : Cfg)
    | _ => throw "cfg expected"
  let picks ← natList (fieldD req "picks" (Json.arr #[]))
  let c := mkComps envs lrns vals
  let evs := runEvents c cfg picks seed triples
  let heap := (List.range lrns.length).map (fun l => Json.arr #[ofNat (evs.2 l).n, ofNat (evs.2 l).acc])
  pure (obj [("model", resultJson (run c cfg picks seed triples)),
             ("spec", resultJson (resultS c seed triples)),
             ("log", ofList taskJson (runLog c cfg picks seed triples)),
             ("heap", Json.arr heap.toArray),
             ("multi", Json.bool cfg.multi),
             ("chunks", ofList (ofList taskJson) (chunksOf c cfg triples))])

end Coba.C01.Driver
