import CobaVerif.Driver.JsonUtil
import CobaVerif.Model.C10
open Lean Coba.J

namespace Coba.C10.Driver
open Coba.C10

partial def parseVal (j : Json) : Except String Val := do
  if j.isNull then return .none
  match j.getObjVal? "n" with
  | .ok v => return .num (← ratOfJson v)
  | .error _ => pure ()
  match j.getObjVal? "s" with
  | .ok v => return .str (← str v)
  | .error _ => pure ()
  match j.getObjVal? "c" with
  | .ok v => return .cat (← str v) (← strList (← field j "L"))
  | .error _ => pure ()
  match j.getObjVal? "l" with
  | .ok v => return .list (← (← arr v).mapM parseVal)
  | .error _ => pure ()
  match j.getObjVal? "t" with
  | .ok v => return .tuple (← (← arr v).mapM parseVal)
  | .error _ => pure ()
  match j.getObjVal? "d" with
  | .ok v =>
    let ents ← (← arr v).mapM fun e => do
      match e with
      | .arr #[k, x] => pure ((← str k), (← parseVal x))
      | _ => throw "dict entry"
    return .dict ents
  | .error _ => pure ()
  match j.getObjVal? "z" with
  | .ok v =>
    let ents ← (← arr v).mapM fun e => do
      match e with
      | .arr #[k, x] => pure ((← nat k), (← parseVal x))
      | _ => throw "lazy entry"
    return .lazy ents (← nat (← field j "len"))
  | .error _ => pure ()
  throw s!"bad value {j.compress}"

partial def valToJson : Val → Json
  | .none => Json.null
  | .num q => obj [("n", ratToJson q)]
  | .str s => obj [("s", Json.str s)]
  | .cat s ls => obj [("c", Json.str s), ("L", ofList Json.str ls)]
  | .list xs => obj [("l", ofList valToJson xs)]
  | .tuple xs => obj [("t", ofList valToJson xs)]
  | .dict kvs => obj [("d", ofList (fun (p : String × Val) => Json.arr #[Json.str p.1, valToJson p.2]) kvs)]
  | .lazy kvs n => obj [("z", ofList (fun (p : Nat × Val) => Json.arr #[ofNat p.1, valToJson p.2]) kvs), ("len", ofNat n)]

def parseRew (j : Json) : Except String Rew := do
  let k ← str (← field j "k")
  match k with
  | "list" => pure (.seq true (← ratList (← field j "v")))
  | "tuple" => pure (.seq false (← ratList (← field j "v")))
  | "binary" => pure (.binary (← parseVal (← field j "argmax")) (← ratOfJson (← field j "value")))
  | "discrete" =>
    let dflt ← match j.getObjVal? "default" with | .ok v => ratOfJson v | .error _ => pure 0
    let isD ← match j.getObjVal? "dict" with | .ok v => bool v | .error _ => pure false
    pure (.discrete (← (← arr (← field j "actions")).mapM parseVal) (← ratList (← field j "values")) dflt isD)
  | "hamming" => pure (.hamming (← (← arr (← field j "argmax")).mapM parseVal))
  | "l1" => pure (.l1 (← ratOfJson (← field j "argmax")))
  | "fn" =>
    let tbl ← (← arr (← field j "table")).mapM fun e => do
      match e with
      | .arr #[a, x] => pure ((← parseVal a), (← ratOfJson x))
      | _ => throw "table entry"
    let dflt ← match j.getObjVal? "default" with | .ok v => ratOfJson v | .error _ => pure (-999)
    pure (.fn tbl dflt)
  | _ => throw s!"bad reward kind {k}"

def optField {α} (j : Json) (k : String) (f : Json → Except String α) : Except String (Option α) :=
  match j.getObjVal? k with
  | .ok v => if v.isNull then pure none else some <$> f v
  | .error _ => pure none

def parseInter (j : Json) : Except String Inter := do
  let ctx ← match j.getObjVal? "context" with | .ok v => parseVal v | .error _ => pure Val.none
  pure { context := ctx,
         actions := ← optField j "actions" (fun v => do (← arr v).mapM parseVal),
         rewards := ← optField j "rewards" parseRew,
         feedbacks := ← optField j "feedbacks" parseRew,
         action := ← (match j.getObjVal? "action" with | .ok v => some <$> parseVal v | .error _ => pure none),
         reward := ← optField j "reward" ratOfJson,
         probability := ← optField j "probability" ratOfJson }

def parseMode (j : Json) : Except String (Option Mode) := do
  if j.isNull then return none
  let nm ← str j
  match modeOfName nm with
  | some m => pure (some m)
  | none => throw s!"bad mode {nm}"

def parseNoise (j : Json) : Except String (Option NoiseSpec) := do
  if j.isNull then return none
  match (← str (← field j "kind")) with
  | "fn" => pure (some (.affine ((← int (← field j "mul")) : Int) ((← int (← field j "add")) : Int)))
  | _ => pure (some .drawn)

/-- an argument the caller may have left out of the constructor call (absent key = left out) -/
def omittable {α} (j : Json) (k : String) (p : Json → Except String α) : Except String (Option α) :=
  match j.getObjVal? k with
  | .ok v => some <$> p v
  | .error _ => pure none

def parseCtor (j : Json) : Ctor :=
  match j.getObjVal? "ctor" with
  | .ok (Json.str "env") => .env
  | _ => .filter

def parseStep (j : Json) : Except String Step := do
  match (← str (← field j "f")) with
  | "repr" => pure (mkRepr (parseCtor j) (← omittable j "cc" parseMode) (← omittable j "ca" parseMode))
  | "flatten" => pure .flatten
  | "sparsify" => pure (mkSparsify (parseCtor j) (← omittable j "c" bool) (← omittable j "a" bool))
  | "densify" =>
    let prior ← strList (fieldD j "prior" (Json.arr #[]))
    let tbl ← (← arr (fieldD j "hash" (Json.arr #[]))).mapM fun e => do
      match e with
      | .arr #[k, i] => pure ((← str k), (← nat i))
      | _ => throw "hash entry"
    pure (mkDensify (parseCtor j) (← omittable j "n" nat) (← omittable j "m" str) (← omittable j "c" bool) (← omittable j "a" bool) prior tbl)
  | "noise" =>
    let c ← parseNoise (fieldD j "c" Json.null)
    let a ← parseNoise (fieldD j "a" Json.null)
    -- Noise() with no generator at all falls back to gaussian context noise
    let c := if c.isNone && a.isNone then some NoiseSpec.drawn else c
    pure (.noise c a (← ratList (fieldD j "oracle" (Json.arr #[]))))
  | "batch" =>
    let n := fieldD j "n" Json.null
    if n.isNull then pure (.batch none) else do
      let k ← nat n
      pure (.batch (some k))
  | "unbatch" => pure .unbatch
  | "finalize" => pure .finalize
  | "cycle" => pure (mkCycle (← omittable j "after" nat))
  | f => throw s!"bad step {f}"

def parseCfg (j : Json) : Except String Cfg := do
  let b := fun k => match j.getObjVal? k with | .ok v => (match v.getBool? with | .ok x => x | .error _ => true) | .error _ => true
  pure { fixRekey := b "fixRekey", fixReprLogged := b "fixReprLogged", fixReprDiscrete := b "fixReprDiscrete",
         fixNoiseLogged := b "fixNoiseLogged", fixNoiseFeedbacks := b "fixNoiseFeedbacks", fixFlattenLogged := b "fixFlattenLogged", fixHardenMixed := b "fixHardenMixed" }

def errName : Err → String
  | .keyError => "KeyError" | .indexError => "IndexError" | .typeError => "TypeError" | .valueError => "ValueError"
  | .attributeError => "AttributeError" | .zeroDivision => "ZeroDivisionError" | .cobaException => "CobaException"
  | .unmodelled => "unmodelled"

def obsToJson (o : Option (List (Except Err Rat))) : Json :=
  match o with
  | none => Json.null
  | some l => ofList (fun x => match x with | .ok q => ratToJson q | .error e => Json.str ("ERR:" ++ errName e)) l

def interToJson (I : Inter) : Json :=
  let kv : List (String × Json) := [("context", valToJson I.context)]
  let kv := match I.actions with | some as => kv ++ [("actions", ofList valToJson as)] | none => kv
  let kv := match I.action with
    | some a => kv ++ [("action", valToJson a),
                        ("index", match loggedIndex I with
                                  | some (some k) => ofNat k
                                  | some none => Json.str "NOT-MEMBER"
                                  | none => Json.null)]
    | none => kv
  let kv := match I.reward with | some q => kv ++ [("reward", ratToJson q)] | none => kv
  let kv := match I.probability with | some q => kv ++ [("probability", ratToJson q)] | none => kv
  let kv := match I.rewards with | some _ => kv ++ [("obs_rewards", obsToJson (obsRewards I))] | none => kv
  let kv := match I.feedbacks with | some _ => kv ++ [("obs_feedbacks", obsToJson (obsFeedbacks I))] | none => kv
  obj kv

/-- the batched call protocol on the final (batched) state: per batch and target, what the batched function answers for the
i-th action of every member (only when every member has the same number of actions and a functional target) -/
def batchObsJson (S : State) : Json :=
  match S.sizes with
  | none => Json.null
  | some sizes =>
    ofList (fun (batch : List Inter) =>
      let per := fun (get : Inter → Option Rew) =>
        match batch with
        | [] => Json.null
        | b0 :: _ =>
          let n := (b0.actions.getD []).length
          if batch.all (fun I => (I.actions.getD []).length == n && (match get I with | some r => r.isCallable | none => false)) then
            ofList (fun i => match batchObs get batch i with
                             | some col => obsToJson (some col)
                             | none => Json.null) (List.range n)
          else Json.null
      obj [("rewards", per (·.rewards)), ("feedbacks", per (·.feedbacks))]) (cutBatches sizes S.stream)

/-- for every Noise step of the chain: do the explicit preconditions of `noise_scalar_aligned` hold for the stream that reaches
it (in the model), and is the model's output of that step aligned with its input -/
def noiseHyps (cfg : Cfg) : List Step → State → Nat → List Json
  | [], _, _ => []
  | st :: rest, S, i =>
    let next := runStep cfg st S
    let here := match st with
      | .noise _ na _ =>
        [obj [("i", ofNat i),
              ("hyp", Json.bool (cfg.fixNoiseLogged && cfg.fixNoiseFeedbacks && injNoiser na && noiseScalarHypB S.stream)),
              ("aligned", Json.bool (match next with | .ok S' => alignedStreamB S.stream S'.stream | .error _ => true))]]
      | _ => []
    match next with
    | .ok S' => here ++ noiseHyps cfg rest S' (i + 1)
    | .error _ => here

/-- for every Densify(action=True) step of the chain: do the explicit preconditions of `densify_sparse_aligned` hold for the stream that
reaches it (in the model; the slot table is `densifyTable`, computed from the keys of that stream), and is the model's step aligned -/
def densifyHyps (cfg : Cfg) : List Step → State → Nat → List Json
  | [], _, _ => []
  | st :: rest, S, i =>
    let next := runStep cfg st S
    let here := match st with
      | .densify n m c true =>
        [obj [("i", ofNat i),
              ("hyp", Json.bool (cfg.fixRekey && densifySparseHypB (densifyTable m n c true S.stream) n S.stream)),
              ("aligned", Json.bool (match next with | .ok S' => alignedStreamB S.stream S'.stream | .error _ => true))]]
      | _ => []
    match next with
    | .ok S' => here ++ densifyHyps cfg rest S' (i + 1)
    | .error _ => here

/-- request `{"stream":[…], "chain":[…], "cfg":{…}}` → the model's final stream (the same
observables the harness extracts from the real pipeline), `hyp` (the hypotheses of
`chain_aligned` hold for this case) and `spec` (the model's output is aligned with its input). -/
def handle (req : Json) : Except String Json := do
  -- op "values": Python `==` on a list of values as the model sees it, and the shape predicates of the injectivity theorems
  if (match req.getObjVal? "op" with | .ok (Json.str "values") => true | _ => false) then
    let rows ← (← arr (← field req "rows")).mapM parseVal
    return obj [("eq", ofList (fun a => ofList (fun b => Json.bool (pyEq a b)) rows) rows),
                ("denseCat", Json.bool (denseCatShapeB rows)),
                ("flatten", Json.bool (flattenShapeB rows)),
                ("denseOnly", ofList (fun a => Json.bool (denseOnly a)) rows),
                ("wf", ofList (fun a => Json.bool (wfNoLazy a)) rows),
                ("wfRow", ofList (fun a => Json.bool (wfRow a)) rows),
                ("sparseRow", ofList (fun a => Json.bool (match a with | .dict d => sparseRowWf d | _ => false)) rows),
                ("distinct", Json.bool (distinctB rows)),
                ("pairwiseNe", Json.bool (pairwiseNeB rows)),
                ("isNum", ofList (fun a => Json.bool (isNum a)) rows),
                ("cycleSource", ofList (fun j => ofNat (cycleSource rows.length j)) (List.range rows.length)),
                ("cycleRotatesAt", ofList (fun t => Json.bool (cycleRotatesAt 1 t)) (List.range 3)),
                ("modes", ofList (fun m => Json.arr #[Json.str (modeName m), Json.str (valuesBranch m), Json.str (collBranch m)]) allModes),
                ("consts", obj [("finalize", ofList Json.str finalizeReprModes), ("headers", ofList Json.str sparsifyHeaders),
                                ("seed", ofNat densifySeed), ("shift", ofNat cycleShift)]),
                ("options", obj [("sparsify", obj [("filter", ofList Json.bool [(sparsifyDefaults .filter).1, (sparsifyDefaults .filter).2]),
                                                   ("env", ofList Json.bool [(sparsifyDefaults .env).1, (sparsifyDefaults .env).2])]),
                                 ("densify", obj [("filter", ofList Json.bool [(densifyFlagDefaults .filter).1, (densifyFlagDefaults .filter).2]),
                                                  ("env", ofList Json.bool [(densifyFlagDefaults .env).1, (densifyFlagDefaults .env).2])]),
                                 ("densify_n", ofNat densifyDefaultN), ("densify_m", Json.str densifyDefaultMethod),
                                 ("methods", ofList (fun m => Json.arr #[Json.str m, Json.str (methodBranch m)]) (densifyMethodNames ++ ["", "Lookup", "hash"])),
                                 ("repr", obj [("filter", ofList Json.str [optModeName (reprDefaults .filter).1, optModeName (reprDefaults .filter).2]),
                                               ("env", ofList Json.str [optModeName (reprDefaults .env).1, optModeName (reprDefaults .env).2])]),
                                 ("cycle_after", ofNat cycleDefaultAfter)])]
  let stream ← (← arr (← field req "stream")).mapM parseInter
  -- op "table": the look-up table a Densify object holds after it has filtered `stream` (having been asked for `prior` before)
  if (match req.getObjVal? "op" with | .ok (Json.str "table") => true | _ => false) then
    let n ← nat (← field req "n")
    let c ← bool (← field req "c")
    let a ← bool (← field req "a")
    let prior ← strList (fieldD req "prior" (Json.arr #[]))
    let cfg ← parseCfg (fieldD req "cfg" (Json.mkObj []))
    -- "hist": the sequences earlier reads of the same object were given (complete, aborted or abandoned), folded by `runObjHistory`
    let hist ← (← arr (fieldD req "hist" (Json.arr #[]))).mapM fun h => do (← arr h).mapM parseInter
    let primed := match primeKeys (.lookup []) (initDState n) prior with
      | .error e => Except.error e
      | .ok T0 => runObjHistory cfg (.densify n (.lookup prior) c a) T0 hist
    match primed with
    | .error e => return obj [("error", Json.str (errName e))]
    | .ok T =>
      match densifyRun cfg (.lookup []) n c a (firstCallable (·.rewards) stream) (firstCallable (·.feedbacks) stream) T stream with
      | .error e => return obj [("error", Json.str (errName e))]
      | .ok (_, T') =>
        return obj [("table", ofList (fun (p : String × Nat) => Json.arr #[Json.str p.1, ofNat p.2]) T'.table),
                    ("keys", ofList Json.str (keysAsked c a stream)),
                    ("hist_keys", ofList Json.str (historyKeys c a hist))]
  let chain ← (← arr (← field req "chain")).mapM parseStep
  let cfg ← parseCfg (fieldD req "cfg" (Json.mkObj []))
  let S0 : State := { stream := stream }
  let hyp := chainHypB cfg chain S0 && alignedStreamB stream stream
  match runChain cfg chain S0 with
  | .error e => pure (obj [("model", obj [("error", Json.str (errName e))]), ("hyp", Json.bool hyp), ("spec", Json.bool true)])
  | .ok S =>
    pure (obj [("model", obj [("stream", ofList interToJson S.stream),
                              ("sizes", match S.sizes with | some l => ofList ofNat l | none => Json.null),
                              ("batch_obs", batchObsJson S)]),
               ("hyp", Json.bool hyp),
               ("noise_hyps", Json.arr (noiseHyps cfg chain S0 0).toArray),
               ("densify_hyps", Json.arr (densifyHyps cfg chain S0 0).toArray),
               ("spec", Json.bool (alignedStreamB stream S.stream))])

end Coba.C10.Driver
