import CobaVerif.Driver.JsonUtil
import CobaVerif.Model.C14
open Lean Coba.J

namespace Coba.C14.Driver
open Coba.C14

def errName : Err → String
  | .typeError => "TypeError" | .indexError => "IndexError"
  | .zeroDivision => "ZeroDivisionError" | .outOfModel => "OutOfModel"
  | .upstream => "Upstream" | .keyError => "KeyError" | .valueError => "ValueError"

def parseVal (j : Json) : Except String Val := do
  match j.getObjVal? "s" with
  | .ok v => pure (.str (← str v))
  | .error _ => pure (.num (← ratOfJson (← field j "q")))

def valToJson : Val → Json
  | .str s => obj [("s", Json.str s)]
  | .num q => obj [("q", ratToJson q)]

def parseLabel (j : Json) : Except String Label := do
  match j.getObjVal? "a" with
  | .ok v => pure (.atom (← parseVal v))
  | .error _ =>
    match j.getObjVal? "cat" with
    | .ok c => pure (.cat (← str c) (← strList (← field j "levels")))
    | .error _ => pure (.list (← (← arr (← field j "l")).mapM parseVal))

def labelToJson : Label → Json
  | .atom v => obj [("a", valToJson v)]
  | .cat s L => obj [("cat", Json.str s), ("levels", ofList Json.str L)]
  | .list vs => obj [("l", ofList valToJson vs)]

def parseAction (j : Json) : Except String Action := do
  match j.getObjVal? "one" with
  | .ok v => pure (.one (← parseVal v))
  | .error _ => pure (.many (← (← arr (← field j "many")).mapM parseVal))

def parseType (j : Json) : Except String (Option LType) := do
  if j.isNull then pure none else
  -- the literal as the caller wrote it (`"c"`, `"R"` …): the model's `parseLType` is `label_type.lower()`
  let t ← str j
  match parseLType t with
  | some lt => pure (some lt)
  | none => throw s!"unknown label type {t}"

def resToJson : Except Err Rat → Json
  | .ok q => obj [("v", ratToJson q)]
  | .error e => obj [("err", Json.str (errName e))]

def outToJson {χ : Type} (ctx : χ → Json) (probes : List Action) : Except Err (List (Interaction χ)) → Json
  | .error e => obj [("err", Json.str (errName e))]
  | .ok ints => obj [("ints", ofList (fun (x : Interaction χ) =>
      obj [("context", ctx x.context),
           ("actions", ofList valToJson x.actions),
           ("reward_class", Json.str x.reward.className),
           ("on_actions", ofList (fun a => resToJson (x.reward.eval (.one a))) x.actions),
           ("on_probes", ofList (fun a => resToJson (x.reward.eval a)) probes)]) ints)]

/-- per interaction and per header name: what `context[name]` gives (`DropOne.__getitem__`) -/
def lookups (hdr : List String) (ind : Int) (r : Except Err (List (Interaction (List Label)))) : Json :=
  match r with
  | .error _ => Json.null
  | .ok ints => ofList (fun (x : Interaction (List Label)) =>
      match normIdx ind (x.context.length + 1) with
      | none => Json.null
      | some i => obj [("headers", ofList Json.str (featureHeaders i hdr)),
          ("by_name", ofList (fun nm => match featureByName i hdr x.context nm with
            | .ok v => obj [("v", labelToJson v)]
            | .error e => obj [("err", Json.str (errName e))]) hdr)]) ints

def c13ValJson : C13.Val → Json
  | .str s => labelToJson (.atom (.str s))
  | .int i => labelToJson (.atom (.num (i : Rat)))
  | .cat s lv => labelToJson (.cat s lv)
  | _ => Json.null

def c13Res (r : C13.Res C13.Val) : Json :=
  match r with
  | .ok v => obj [("v", c13ValJson v)]
  | .error .keyError => obj [("err", Json.str "KeyError")]
  | .error .indexError => obj [("err", Json.str "IndexError")]
  | .error .typeError => obj [("err", Json.str "TypeError")]
  | .error _ => obj [("err", Json.str "Other")]

/-- per row of a list-backed table: the lazy context object of the C13 model (`DropOne(HeadDense(list))`) observed
by iteration, length, position and every header name -/
def lazyObs (hdr : Option (List String)) (ind : Int) (table : List (List Label)) : Json :=
  ofList (fun (row : List Label) =>
    match rowC13 row, normIdx ind row.length with
    | some vals, some i =>
      if i < vals.length then
        let c := lazyContext hdr vals i
        obj [("iter", match c.iter with | .ok vs => ofList c13ValJson vs | .error _ => Json.null),
             ("len", ofNat c.len),
             ("pos", ofList (fun j => c13Res (c.getPos j)) (List.range c.len)),
             ("by_name", ofList (fun nm => c13Res (c.getName nm)) (hdr.getD [])),
             ("label", c13Res ((C13.DRow.label (lazyRow hdr vals) i none).labelVal))]
      else Json.null
    | _, _ => Json.null) table

def parseStep (j : Json) : Except String C09.Step := do
  match j with
  | .arr #[a, b] => pure (.skip (← nat a) (← nat b))
  | _ => pure (.raise .zeroDivision)

def textOf (s : String) : C12.Text := s.toList.map Char.toNat

def textJson (t : C12.Text) : Json := Json.str (textStr t)

def parseLabelCol (j : Json) : Except String LabelCol := do
  match j.getObjVal? "i" with
  | .ok v => pure (.index (← int v))
  | .error _ => pure (.name (textOf (← str (← field j "name"))))

/-- text requests: the model reads the text itself (C12 reader model) before LabelRows / read -/
def handleText (op : String) (req : Json) (given : Option LType) (probes : List Action)
    (res : Option (Nat × List C09.Step)) : Except String Json := do
  match op with
  | "csv_take" =>
    -- the reader (C12 model), then Reservoir (C09 model), then LabelRows / read
    let lines := (← strList (← field req "lines")).map textOf
    let delim ← nat (← field req "delim")
    let hdr ← bool (← field req "header")
    let lc ← parseLabelCol (← field req "label")
    let out := csvSimT delim hdr lc given res lines
    let look := match C12.csvReaderFix (C12.excel delim) hdr lines, lc with
      | .ok (some h, _), .index i => lookups (h.map textStr) i out
      | .ok (some h, _), .name nm => (match headerIndex h nm with | some i => lookups (h.map textStr) (i : Int) out | none => Json.null)
      | _, _ => Json.null
    pure (obj [("model", outToJson (ofList labelToJson) probes out), ("lookup", look)])
  | "svm_take" =>
    let lines := (← strList (← field req "lines")).map textOf
    let manik ← bool (← field req "manik")
    let ctx := ofList (fun (kv : C12.Text × C12.Text) => Json.arr #[textJson kv.1, textJson kv.2])
    pure (obj [("model", outToJson ctx probes (if manik then manikSimT given res lines else libsvmSimT given res lines))])
  | "arff_file" =>
    -- the whole file (C12.arffRead: framing, dense / sparse), optional Reservoir, LabelRows (index or header name), read
    let lines := (← strList (← field req "lines")).map textOf
    let lc ← parseLabelCol (← field req "label")
    match arffFileSim lc given res lines with
    | .dense out =>
      let look := match C12.arffRead lines, lc with
        | .ok (.dense names _), .index i => lookups (names.map textStr) i out
        | .ok (.dense names _), .name nm => (match headerIndex names nm with | some i => lookups (names.map textStr) (i : Int) out | none => Json.null)
        | _, _ => Json.null
      pure (obj [("model", outToJson (ofList labelToJson) probes out), ("lookup", look), ("shape", Json.str "dense")])
    | .sparse out =>
      pure (obj [("model", outToJson (ofList (fun (kv : Val × Label) => Json.arr #[valToJson kv.1, labelToJson kv.2])) probes out),
                 ("shape", Json.str "sparse")])
  | "csv_text" =>
    let lines := (← strList (← field req "lines")).map textOf
    let delim ← nat (← field req "delim")
    let hdr ← bool (← field req "header")
    let lc ← parseLabelCol (← field req "label")
    let out := csvSim delim hdr lc given lines
    let look := match C12.csvReaderFix (C12.excel delim) hdr lines, lc with
      | .ok (some h, _), .index i => lookups (h.map textStr) i out
      | .ok (some h, _), .name nm => (match headerIndex h nm with | some i => lookups (h.map textStr) (i : Int) out | none => Json.null)
      | _, _ => Json.null
    let lazy := match C12.csvReaderFix (C12.excel delim) hdr lines, lc with
      | .ok (h, rows), .index i => lazyObs (h.map (·.map textStr)) i (rows.map (·.map textLabel))
      | .ok (some h, rows), .name nm => (match headerIndex h nm with
          | some i => lazyObs (some (h.map textStr)) (i : Int) (rows.map (·.map textLabel)) | none => Json.null)
      | _, _ => Json.null
    pure (obj [("model", outToJson (ofList labelToJson) probes out), ("lookup", look), ("lazy", lazy)])
  | "svm_text" =>
    let lines := (← strList (← field req "lines")).map textOf
    let manik ← bool (← field req "manik")
    let ctx := ofList (fun (kv : C12.Text × C12.Text) => Json.arr #[textJson kv.1, textJson kv.2])
    pure (obj [("model", outToJson ctx probes (if manik then manikSim given lines else libsvmSim given lines))])
  | "arff_text" =>
    let attrs := (← strList (← field req "attr_lines")).map textOf
    let data := (← strList (← field req "data_lines")).map textOf
    let lc ← parseLabelCol (← field req "label")
    let out := arffDenseSim lc given attrs data
    let look := match C12.arffAttrs true [] attrs, lc with
      | .ok as, .index i => lookups (as.map (fun a => textStr a.1)) i out
      | .ok as, .name nm => (match headerIndex (as.map (·.1)) nm with | some i => lookups (as.map (fun a => textStr a.1)) (i : Int) out | none => Json.null)
      | _, _ => Json.null
    pure (obj [("model", outToJson (ofList labelToJson) probes out), ("lookup", look)])
  | _ => throw s!"unknown op {op}"

/-- request: {"op":"pairs"|"dense"|"sparse", "given":…, "take":[positions]|null, "rows":…, "probes":[actions]};
`"res":{"k":n,"steps":[[S,slot]…]}` instead of `take`: the model runs the C09 reservoir itself;
{"op":"csv_text"|"svm_text"|"arff_text", …}: the model parses the text with the C12 reader model -/
def tablesJson : Json :=
  let s3 := fun (r : String × Nat × String) => Json.arr #[Json.str r.1, ofNat r.2.1, Json.str r.2.2]
  obj [("dispatch", ofList (fun (r : String × Bool × String × String) =>
          Json.arr #[Json.str r.1, Json.bool r.2.1, Json.str r.2.2.1, Json.str r.2.2.2]) dispatchTable),
       ("numeric", ofList Json.str inferNumericTypes),
       ("no_tipe", ofList Json.str (typeSources false)), ("with_tipe", ofList Json.str (typeSources true)),
       ("source_args", ofList s3 ctorSourceArgs), ("xy_args", ofList s3 ctorXYArgs),
       ("joins", ofList (fun (r : String × String × List String) =>
          Json.arr #[Json.str r.1, Json.str r.2.1, ofList Json.str r.2.2]) pipelineJoins),
       ("yields", ofList (fun (r : String × String) => Json.arr #[Json.str r.1, Json.str r.2]) yieldTable)]

def handle (req : Json) : Except String Json := do
  let op ← str (← field req "op")
  if op == "tables" then return obj [("tables", tablesJson)]
  let given0 ← parseType (fieldD req "given" Json.null)
  let tipe ← parseType (fieldD req "tipe" Json.null)
  let given := resolveGiven given0 tipe
  let take ← opt natList (fieldD req "take" Json.null)
  let probes ← (← arr (fieldD req "probes" (Json.arr #[]))).mapM parseAction
  let res ← opt (fun j => do
      let k ← nat (← field j "k")
      let steps ← (← arr (← field j "steps")).mapM parseStep
      pure (k, steps)) (fieldD req "res" Json.null)
  if op.endsWith "_text" || op.endsWith "_take" || op == "arff_file" then return ← handleText op req given probes res
  let rows ← arr (← field req "rows")
  match op with
  | "pairs" =>
    let prs ← rows.mapM (fun r => do
      match (← arr r) with
      | [c, l] => pure (c, ← parseLabel l)
      | _ => throw "pair expected")
    pure (obj [("model", outToJson (fun (c : Json) => c) probes
      (match res with | some (k, steps) => simPairsS given k steps prs | none => simPairs given take prs))])
  | "dense" =>
    let ind ← int (← field req "ind")
    let rs ← rows.mapM (fun r => do (← arr r).mapM parseLabel)
    let out := match res with | some (k, steps) => simDenseS given k steps ind rs | none => simDense given take ind rs
    let hdr ← match req.getObjVal? "header" with
      | .ok h => do pure (some (← strList h))
      | .error _ => pure none
    let look := match hdr with | some h => lookups h ind out | none => Json.null
    let lazy := match res, take, (fieldD req "lazy" (Json.bool false)).getBool? with
      | none, none, .ok true => lazyObs hdr ind rs
      | _, _, _ => Json.null
    pure (obj [("model", outToJson (ofList labelToJson) probes out), ("lookup", look), ("lazy", lazy)])
  | "sparse" =>
    let key ← parseVal (← field req "key")
    let rs ← rows.mapM (fun r => do (← arr r).mapM (fun kv => do
      match (← arr kv) with
      | [k, v] => pure (← parseVal k, ← parseLabel v)
      | _ => throw "key/value pair expected"))
    pure (obj [("model", outToJson (ofList (fun (kv : Val × Label) => Json.arr #[valToJson kv.1, labelToJson kv.2])) probes
      (match res with | some (k, steps) => simSparseS given k steps key rs | none => simSparse given take key rs))])
  | _ => throw s!"unknown op {op}"

end Coba.C14.Driver
