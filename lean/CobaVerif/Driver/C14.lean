import CobaVerif.Driver.JsonUtil
import CobaVerif.Model.C14
open Lean Coba.J

namespace Coba.C14.Driver
open Coba.C14

def errName : Err → String
  | .typeError => "TypeError" | .indexError => "IndexError"
  | .zeroDivision => "ZeroDivisionError" | .outOfModel => "OutOfModel"

def parseVal (j : Json) : Except String Val := do
  match j.getObjVal? "s" with
  | .ok v => pure (.str (← str v))
  | .error _ => pure (.num (← ratOfJson (← field j "q")))

def valToJson : Val → Json
  | .str s => obj [("s", Json.str s)]
  | .num q => obj [("q", ratToJson q)]

def parseLabel (j : Json) : Except String Label := do
  match j.getObjVal? "a" with
  | .ok v => pure (.atom (← parseVal v))
  | .error _ =>
    match j.getObjVal? "cat" with
    | .ok c => pure (.cat (← str c) (← strList (← field j "levels")))
    | .error _ => pure (.list (← (← arr (← field j "l")).mapM parseVal))

def labelToJson : Label → Json
  | .atom v => obj [("a", valToJson v)]
  | .cat s L => obj [("cat", Json.str s), ("levels", ofList Json.str L)]
  | .list vs => obj [("l", ofList valToJson vs)]

def parseAction (j : Json) : Except String Action := do
  match j.getObjVal? "one" with
  | .ok v => pure (.one (← parseVal v))
  | .error _ => pure (.many (← (← arr (← field j "many")).mapM parseVal))

def parseType (j : Json) : Except String (Option LType) := do
  if j.isNull then pure none else
  match (← str j) with
  | "c" => pure (some .c)
  | "r" => pure (some .r)
  | "m" => pure (some .m)
  | t => throw s!"unknown label type {t}"

def resToJson : Except Err Rat → Json
  | .ok q => obj [("v", ratToJson q)]
  | .error e => obj [("err", Json.str (errName e))]

def outToJson {χ : Type} (ctx : χ → Json) (probes : List Action) : Except Err (List (Interaction χ)) → Json
  | .error e => obj [("err", Json.str (errName e))]
  | .ok ints => obj [("ints", ofList (fun (x : Interaction χ) =>
      obj [("context", ctx x.context),
           ("actions", ofList valToJson x.actions),
           ("on_actions", ofList (fun a => resToJson (x.reward.eval (.one a))) x.actions),
           ("on_probes", ofList (fun a => resToJson (x.reward.eval a)) probes)]) ints)]

/-- request: {"op":"pairs"|"dense"|"sparse", "given":…, "take":[positions]|null, "rows":…, "probes":[actions]} -/
def handle (req : Json) : Except String Json := do
  let op ← str (← field req "op")
  let given0 ← parseType (fieldD req "given" Json.null)
  let tipe ← parseType (fieldD req "tipe" Json.null)
  let given := resolveGiven given0 tipe
  let take ← opt natList (fieldD req "take" Json.null)
  let probes ← (← arr (fieldD req "probes" (Json.arr #[]))).mapM parseAction
  let rows ← arr (← field req "rows")
  match op with
  | "pairs" =>
    let prs ← rows.mapM (fun r => do
      match (← arr r) with
      | [c, l] => pure (c, ← parseLabel l)
      | _ => throw "pair expected")
    pure (obj [("model", outToJson (fun (c : Json) => c) probes (simPairs given take prs))])
  | "dense" =>
    let ind ← int (← field req "ind")
    let rs ← rows.mapM (fun r => do (← arr r).mapM parseLabel)
    pure (obj [("model", outToJson (ofList labelToJson) probes (simDense given take ind rs))])
  | "sparse" =>
    let key ← parseVal (← field req "key")
    let rs ← rows.mapM (fun r => do (← arr r).mapM (fun kv => do
      match (← arr kv) with
      | [k, v] => pure (← parseVal k, ← parseLabel v)
      | _ => throw "key/value pair expected"))
    pure (obj [("model", outToJson (ofList (fun (kv : Val × Label) => Json.arr #[valToJson kv.1, labelToJson kv.2])) probes
      (simSparse given take key rs))])
  | _ => throw s!"unknown op {op}"

end Coba.C14.Driver
