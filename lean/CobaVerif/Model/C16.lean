/-
Model of the built-in learners of coba that need no optional package:
`coba/learners/bandit.py` (BanditEpsilonLearner, BanditUCBLearner, FixedLearner, RandomLearner),
`coba/learners/utilities.py` (PMFPredictor, PMFInfoPredictor), `coba/learners/misguided.py`
(MisguidedLearner) and `coba/learners/corral.py` (CorralLearner, with the repaired
`_log_barrier_omd` of fixes/C16-corral-omd-root.diff).  Import-free apart from the finished C05
model (`choicew`, the LCG).

* Actions are identified by a natural number: the equivalence class of the Python value under
  `==` after `make_hashable` (what the `_Q/_N/_m/_s` dictionaries key on).  The harness assigns
  the numbers.
* Floats are exact rationals.  Every float operation whose *value* can decide something
  (the running means, which decide ties) goes through a rounding function `fl : Rat → Rat` that is
  a PARAMETER of the model: the theorems hold for every `fl`, the driver instantiates it with
  `flDouble` (round-to-nearest-even binary64), so that ties are the implementation's ties.
* The UCB index `m_a + sqrt(ln n / n_a * min(1/4, V_a))` is `m_a + bonus`, `bonus` an arbitrary
  function (log/sqrt are not modelled; validity of the pmf does not depend on them).
-/
import CobaVerif.Model.C05

namespace Coba.C16

abbrev Act := Nat

inductive PErr
  | rng (e : Coba.C05.Err)   -- raised inside CobaRandom.choice/choicew
  | keyError | valueError | zeroDivision | indexError | assertion
deriving Repr, DecidableEq

/-! ### binary64 rounding (used by the driver only; no theorem depends on it) -/

def roundHalfEven (num den : Nat) : Nat :=
  let q := num / den
  let r := num % den
  if 2 * r < den then q else if den < 2 * r then q + 1 else if q % 2 = 0 then q else q + 1

def scaleBy (n d : Nat) (e : Int) : Nat × Nat :=
  if 0 ≤ e then (n, d * 2 ^ e.toNat) else (n * 2 ^ (-e).toNat, d)

/-- round-to-nearest-even to an IEEE binary64 value (overflow to infinity is not modelled) -/
def flDouble (x : Rat) : Rat :=
  if x = 0 then 0 else
    let n := x.num.natAbs
    let d := x.den
    let e0 : Int := (Nat.log2 n : Int) - (Nat.log2 d : Int) - 52
    let ab := scaleBy n d e0
    let e1 : Int := if ab.1 / ab.2 < 2 ^ 52 then e0 - 1 else if 2 ^ 53 ≤ ab.1 / ab.2 then e0 + 1 else e0
    let e : Int := if e1 < -1074 then -1074 else e1
    let ab := scaleBy n d e
    let m := roundHalfEven ab.1 ab.2
    let r : Rat := if 0 ≤ e then ((m * 2 ^ e.toNat : Nat) : Rat) else (m : Rat) / ((2 ^ (-e).toNat : Nat) : Rat)
    if x < 0 then -r else r

/-! ### Python dict as association list -/

def dget {β} : List (Act × β) → Act → Option β
  | [], _ => none
  | (k, v) :: r, a => if k = a then some v else dget r a

def dset {β} : List (Act × β) → Act → β → List (Act × β)
  | [], a, v => [(a, v)]
  | (k, w) :: r, a, v => if k = a then (k, v) :: r else (k, w) :: dset r a v

def dhas {β} (d : List (Act × β)) (a : Act) : Bool := (dget d a).isSome

/-- `max(values)` with a first element -/
def maxOf : Rat → List Rat → Rat
  | m, [] => m
  | m, x :: xs => maxOf (if m < x then x else m) xs

/-- number of distinct members (`len(set(...))`) -/
def distinct : List Act → List Act
  | [] => []
  | a :: l => if a ∈ l then distinct l else a :: distinct l

/-! ### BanditEpsilonLearner -/

structure Eps where
  eps : Rat
  Q : List (Act × Rat) := []
  N : List (Act × Nat) := []
deriving Repr

/-- `_pmf` as a function of the looked-up values -/
def epsPmfVals (eps : Rat) (vals : List Rat) : List Rat :=
  match vals with
  | [] => []
  | v :: vs =>
    let mx := maxOf v vs
    let k := (vals.filter (fun q => q = mx)).length
    let n := vals.length
    vals.map (fun q => 1 / (n : Rat) * eps + (if q = mx then 1 / (k : Rat) else 0) * (1 - eps))

/-- `self._Q[action]` on a `defaultdict(int)` -/
def Eps.q (st : Eps) (a : Act) : Rat := match dget st.Q a with | some v => v | none => 0
def Eps.n (st : Eps) (a : Act) : Nat := match dget st.N a with | some v => v | none => 0

def Eps.pmf (st : Eps) (actions : List Act) : List Rat := epsPmfVals st.eps (actions.map st.q)

/-- `learn`: alpha = 1/(N+1); Q = (1-alpha)*Q + alpha*reward; N += 1 -/
def Eps.learn (fl : Rat → Rat) (st : Eps) (a : Act) (r : Rat) : Eps :=
  let n := st.n a
  let alpha := fl (1 / ((n : Rat) + 1))
  let qn := fl (fl (fl (1 - alpha) * st.q a) + fl (alpha * r))
  { st with Q := dset st.Q a qn, N := dset st.N a (n + 1) }

/-! ### BanditUCBLearner -/

structure Ucb where
  t : Nat := 0
  m : List (Act × Rat) := []
  s : List (Act × Nat) := []
deriving Repr

/-- `[int(a in S)/len(S) for a in actions]` -/
def uniformOn (S : List Act) (k : Nat) (actions : List Act) : List Rat :=
  actions.map (fun a => if a ∈ S then 1 / (k : Rat) else 0)

/-- the count `self._s[a]` exists and is not 0 (it divides in `_Avg_R_UCB`) -/
def Ucb.sPos (st : Ucb) (a : Act) : Bool :=
  match dget st.s a with
  | some n => n != 0
  | none => false

/-- `_pmf`; `val a` is `self._m[a] + self._Avg_R_UCB(a)` -/
def Ucb.pmf (val : Act → Rat) (st : Ucb) (actions : List Act) : Except PErr (List Rat) :=
  let never := actions.filter (fun a => !dhas st.m a)
  if never ≠ [] then
    .ok (uniformOn never (distinct never).length actions)     -- a set: duplicates count once
  else
    match actions with
    | [] => .error .valueError                                 -- max([])
    | a0 :: rest =>
      if !(actions.all (fun a => dhas st.s a)) then .error .keyError   -- self._s[action]
      else if st.t = 0 then .error .valueError                  -- math.log(0)
      else if !(actions.all (fun a => st.sPos a)) then .error .zeroDivision
      else
        let mx := maxOf (val a0) (rest.map val)
        let best := actions.filter (fun a => val a = mx)
        .ok (uniformOn best best.length actions)

def Ucb.learn (fl : Rat → Rat) (st : Ucb) (a : Act) (r : Rat) : Except PErr Ucb :=
  match dget st.m a with
  | none => .ok { t := st.t + 1, m := dset st.m a r, s := dset st.s a 1 }
  | some mv =>
    match dget st.s a with
    | none => .error .keyError
    | some sv =>
      if sv = 0 then .error .zeroDivision
      else
        let inv := fl (1 / (sv : Rat))
        .ok { t := st.t + 1, m := dset st.m a (fl (fl (fl (1 - inv) * mv) + fl (inv * r))), s := dset st.s a (sv + 1) }

/-! ### `coba.statistics.OnlineVariance` (Welford), the variance BanditUCB's index takes the root of.
The index itself stays an arbitrary function in the learner model; what the real code needs from
this class is that the variance is never negative (`sqrt` of the index would raise). -/

structure Welford where
  count : Rat := 0
  mean : Rat := 0
  m2 : Rat := 0
  var : Option Rat := none     -- `nan` until two values were seen
deriving Repr

def Welford.update (fl : Rat → Rat) (w : Welford) (v : Rat) : Welford :=
  let count := fl (w.count + 1)
  let delta := fl (v - w.mean)
  let mean := fl (w.mean + fl (delta / count))
  let delta2 := fl (v - mean)
  let m2 := fl (w.m2 + fl (delta * delta2))
  { count := count, mean := mean, m2 := m2, var := if 1 < count then some (fl (m2 / fl (count - 1))) else w.var }

def Welford.run (fl : Rat → Rat) (vs : List Rat) : Welford := vs.foldl (Welford.update fl) {}

/-! ### the four base learners behind one interface, with Misguided wrappers -/

inductive Kind
  | eps (st : Eps)
  | ucb (st : Ucb)
  | fixed (pmf : List Rat)
  | random
deriving Repr

structure Learner where
  /-- `MisguidedLearner(…, shifter, scaler)` wrappers, outermost first -/
  mis : List (Rat × Rat) := []
  kind : Kind
  /-- state of the CobaRandom owned by the PMFPredictor / RandomLearner -/
  rng : Nat
deriving Repr

/-- the reward the innermost learner sees: `shifter + scaler*reward` per wrapper -/
def misguide (fl : Rat → Rat) : List (Rat × Rat) → Rat → Rat
  | [], r => r
  | (sh, sc) :: rest, r => misguide fl rest (fl (sh + fl (sc * r)))

/-- the learner's pmf over the offered actions (`none` for RandomLearner, which has no `_pmf`) -/
def Kind.pmf (val : Act → Rat) (k : Kind) (actions : List Act) : Except PErr (List Rat) :=
  match k with
  | .eps st => .ok (st.pmf actions)
  | .ucb st => st.pmf val actions
  | .fixed p => .ok p
  | .random => .ok (List.replicate actions.length (1 / (actions.length : Rat)))

def liftRng {α} : Except Coba.C05.Err α → Except PErr α
  | .ok a => .ok a
  | .error e => .error (.rng e)

/-- `predict`: (new learner, index of the chosen action, reported probability, the pmf) -/
def Learner.predict (val : Act → Rat) (L : Learner) (actions : List Act) :
    Except PErr (Learner × Nat × Rat × List Rat) :=
  match L.kind with
  | .random =>
    match liftRng (Coba.C05.choicew L.rng actions.length none) with
    | .ok (s', i, w) => .ok ({ L with rng := s' }, i, w, List.replicate actions.length (1 / (actions.length : Rat)))
    | .error e => .error e
  | k =>
    match k.pmf val actions with
    | .error e => .error e
    | .ok pmf =>
      match liftRng (Coba.C05.choicew L.rng actions.length (some pmf)) with
      | .ok (s', i, w) => .ok ({ L with rng := s' }, i, w, pmf)
      | .error e => .error e

/-- `score(context, actions, action)` -/
def Learner.score (val : Act → Rat) (L : Learner) (actions : List Act) (a : Act) : Except PErr Rat :=
  match L.kind with
  | .random => if actions.length = 0 then .error .zeroDivision else .ok (1 / (actions.length : Rat))
  | k =>
    match k.pmf val actions with
    | .error e => .error e
    | .ok pmf =>
      if a ∈ actions then
        match pmf[actions.idxOf a]? with
        | some p => .ok p
        | none => .error .indexError
      else .error .valueError          -- actions.index(action)

def Learner.learn (fl : Rat → Rat) (L : Learner) (a : Act) (r : Rat) : Except PErr Learner :=
  let r' := misguide fl L.mis r
  match L.kind with
  | .eps st => .ok { L with kind := .eps (st.learn fl a r') }
  | .ucb st =>
    match st.learn fl a r' with
    | .ok st' => .ok { L with kind := .ucb st' }
    | .error e => .error e
  | .fixed _ => .ok L
  | .random => .ok L

inductive Op
  | predict (actions : List Act)
  | score (actions : List Act) (a : Act)
  | learn (a : Act) (r : Rat)
deriving Repr

inductive Out
  | pred (i : Nat) (p : Rat) (pmf : List Rat)
  | score (p : Rat)
  | learned
  | err (e : PErr)
deriving Repr

/-- one call; `val` is the UCB index in force at this call -/
def stepL (fl : Rat → Rat) (val : Act → Rat) (L : Learner) : Op → Learner × Out
  | .predict actions =>
    match L.predict val actions with
    | .ok (L', i, p, pmf) => (L', .pred i p pmf)
    | .error e => (L, .err e)
  | .score actions a =>
    match L.score val actions a with
    | .ok p => (L, .score p)
    | .error e => (L, .err e)
  | .learn a r =>
    match L.learn fl a r with
    | .ok L' => (L', .learned)
    | .error e => (L, .err e)

/-- a history of calls; `val k a` is the UCB index `m_a + bonus` in force at call number `k`: an
ARBITRARY function (so every bonus is covered).  The run stops at the first exception. -/
def runL (fl : Rat → Rat) (val : Nat → Act → Rat) : Nat → Learner → List Op → List Out
  | _, _, [] => []
  | k, L, op :: ops =>
    match stepL fl (val k) L op with
    | (_, .err e) => [.err e]
    | (L', o) => o :: runL fl val (k + 1) L' ops

/-! ### the pmfs as the implementation computes them (every operation through `fl`); with
`flDouble` the driver's values are compared with the real `score` for equality -/

/-- `[1/len(actions)*eps + int(i in max_indexes)/len(max_indexes)*(1-eps)]` -/
def epsPmfValsF (fl : Rat → Rat) (eps : Rat) (vals : List Rat) : List Rat :=
  match vals with
  | [] => []
  | v :: vs =>
    let mx := maxOf v vs
    let k := (vals.filter (fun q => q = mx)).length
    let n := vals.length
    vals.map (fun q => fl (fl (fl (1 / (n : Rat)) * eps) + fl (fl ((if q = mx then 1 else 0) / (k : Rat)) * fl (1 - eps))))

/-- `[int(a in S)/len(S) for a in actions]` -/
def uniformOnF (fl : Rat → Rat) (S : List Act) (k : Nat) (actions : List Act) : List Rat :=
  actions.map (fun a => fl ((if a ∈ S then 1 else 0) / (k : Rat)))

def Ucb.pmfF (fl : Rat → Rat) (val : Act → Rat) (st : Ucb) (actions : List Act) : List Rat :=
  let never := actions.filter (fun a => !dhas st.m a)
  if never ≠ [] then uniformOnF fl never (distinct never).length actions
  else
    match actions with
    | [] => []
    | a0 :: rest =>
      let mx := maxOf (val a0) (rest.map val)
      let best := actions.filter (fun a => val a = mx)
      uniformOnF fl best best.length actions

def Kind.pmfF (fl : Rat → Rat) (val : Act → Rat) (k : Kind) (actions : List Act) : List Rat :=
  match k with
  | .eps st => epsPmfValsF fl st.eps (actions.map st.q)
  | .ucb st => st.pmfF fl val actions
  | .fixed p => p
  | .random => List.replicate actions.length (fl (1 / (actions.length : Rat)))

/-- the float pmf in force at every predict / score call of a history (`[]` at learn calls) -/
def runLF (fl : Rat → Rat) (val : Nat → Act → Rat) : Nat → Learner → List Op → List (List Rat)
  | _, _, [] => []
  | k, L, op :: ops =>
    let cur := match op with
      | .predict actions => L.kind.pmfF fl (val k) actions
      | .score actions _ => L.kind.pmfF fl (val k) actions
      | .learn _ _ => []
    match stepL fl (val k) L op with
    | (_, .err _) => [cur]
    | (L', _) => cur :: runLF fl val (k + 1) L' ops

/-! ### CorralLearner -/

structure Corral where
  gamma : Rat            -- 1/T
  beta : Rat             -- 1/exp(1/log T)
  importance : Bool      -- mode
  ps : List Rat
  pbars : List Rat
  etas : List Rat
  rhos : List Rat
  rng : Nat
deriving Repr

/-- `CorralLearner(learners, eta, T, mode, seed)` with M base learners -/
def Corral.init (fl : Rat → Rat) (M : Nat) (eta gamma beta : Rat) (importance : Bool) (rng : Nat) : Corral :=
  { gamma := gamma, beta := beta, importance := importance,
    ps := List.replicate M (fl (1 / (M : Rat))), pbars := List.replicate M (fl (1 / (M : Rat))),
    etas := List.replicate M eta, rhos := List.replicate M (2 * (M : Rat)), rng := rng }

/-- `sum(p_b*int(a==b_a) for p_b,b_a in zip(p_bars, base_actions))` -/
def mixAt : List Rat → List Act → Act → Rat
  | pb :: pbs, b :: bs, a => (if a = b then pb else 0) + mixAt pbs bs a
  | _, _, _ => 0

/-- `_pmf`: the mixture of the base learners' chosen actions -/
def corralPmf (pbars : List Rat) (bacts : List Act) (actions : List Act) : List Rat :=
  actions.map (mixAt pbars bacts)

def Corral.predict (c : Corral) (actions : List Act) (bacts : List Act) :
    Except PErr (Corral × Nat × Rat × List Rat) :=
  let pmf := corralPmf c.pbars bacts actions
  match liftRng (Coba.C05.choicew c.rng actions.length (some pmf)) with
  | .ok (s', i, w) => .ok ({ c with rng := s' }, i, w, pmf)
  | .error e => .error e

def Corral.score (c : Corral) (actions : List Act) (bacts : List Act) (a : Act) : Except PErr Rat :=
  if a ∈ actions then
    match (corralPmf c.pbars bacts actions)[actions.idxOf a]? with
    | some p => .ok p
    | none => .error .indexError
  else .error .valueError

/-- denominators `1/p + eta*(loss - l)` -/
def omdDenoms : List Rat → List Rat → List Rat → Rat → List Rat
  | p :: ps, e :: es, l :: ls, lam => (1 / p + e * (l - lam)) :: omdDenoms ps es ls lam
  | _, _, _, _ => []

/-- `update(l)`: the new weights for the multiplier, `none` at or beyond a pole -/
def omdRaw (ps etas losses : List Rat) (lam : Rat) : Option (List Rat) :=
  let ds := omdDenoms ps etas losses lam
  if ds.all (fun d => decide (0 < d)) then some (ds.map (fun d => 1 / d)) else none

def normalise (xs : List Rat) : List Rat := xs.map (fun x => x / xs.sum)

/-- `round(y,4) == 1` -/
def rounds1 (y : Rat) : Bool := decide ((99995 : Rat) / 100000 < y) && decide (y < (100005 : Rat) / 100000)

def minOf : Rat → List Rat → Rat
  | m, [] => m
  | m, x :: xs => minOf (if x < m then x else m) xs

/-- the loop of the repaired `_log_barrier_omd` over ANY carrier `F` of multipliers (rationals in
the exact model, doubles in the implementation): `mid` is `(l+r)/2` as computed, `done` the
`round(sum,4)==1` test, `probe = update`, `tooBig` the `sum > 1` test.  `cur = probe l` throughout.
Returns the multiplier with `update(multiplier)` and whether the loop left by one of its own exits
(`false`: the fuel ran out). -/
def bisect {F α} [DecidableEq F] (mid : F → F → F) (done : α → Bool) (probe : F → Option α) (tooBig : α → Bool) :
    Nat → F → F → α → (F × α) × Bool
  | 0, l, _, cur => ((l, cur), false)
  | fuel + 1, l, r, cur =>
    if done cur then ((l, cur), true)
    else
      let x := mid l r
      if x = l ∨ x = r then ((l, cur), true)      -- [l,r] can't be split any further
      else
        match probe x with
        | none => bisect mid done probe tooBig fuel l x cur
        | some xs => if tooBig xs then bisect mid done probe tooBig fuel l x cur else bisect mid done probe tooBig fuel x r xs

/-- the bisection over exact arithmetic, with fuel.  Returns the multiplier and `update(multiplier)`. -/
def omdSearch (ps etas losses : List Rat) (fuel : Nat) (l r : Rat) (cur : List Rat) : Rat × List Rat :=
  (bisect (fun l r => (l + r) / 2) (fun cur => rounds1 cur.sum) (omdRaw ps etas losses) (fun xs => decide (1 < xs.sum)) fuel l r cur).1

def searchFuel : Nat := 400

/-- the multiplier the repaired search returns (model: exact arithmetic) -/
def omdLambda (ps etas losses : List Rat) : Rat :=
  match losses with
  | [] => 0
  | l0 :: ls =>
    let lo := minOf l0 ls
    let hi := maxOf l0 ls
    match omdRaw ps etas losses lo with
    | none => lo
    | some cur => (omdSearch ps etas losses searchFuel lo hi cur).1

/-- `instant_loss` -/
def corralLosses (bacts : List Act) (a : Act) (r p : Rat) : List Rat :=
  bacts.map (fun b => if b = a then (1 - r) / p else 0)

/-- the rho/eta schedule: `if 1/p_bar > rho: rho = 2/p_bar; eta *= beta` -/
def etaRho (beta : Rat) : List Rat → List Rat → List Rat → List Rat × List Rat
  | pb :: pbs, e :: es, rh :: rhs =>
    let (es', rhs') := etaRho beta pbs es rhs
    if rh < 1 / pb then (e * beta :: es', 2 / pb :: rhs') else (e :: es', rh :: rhs')
  | _, es, rhs => (es, rhs)

/-- `learn` with the multiplier `lam` given (any value for which `update(lam)` is defined:
this is what the search's loop invariant guarantees for the value it returns) -/
def Corral.learnWith (c : Corral) (bacts : List Act) (a : Act) (r p lam : Rat) : Except PErr Corral :=
  if !(decide (0 ≤ r) && decide (r ≤ 1)) then .error .assertion
  else if p = 0 then .error .zeroDivision
  else
    match omdRaw c.ps c.etas (corralLosses bacts a r p) lam with
    | none => .error .valueError
    | some raw =>
      let ps := normalise raw
      let M := c.ps.length
      let pbars := ps.map (fun q => (1 - c.gamma) * q + c.gamma * 1 / (M : Rat))
      let er := etaRho c.beta pbars c.etas c.rhos
      .ok { c with ps := ps, pbars := pbars, etas := er.1, rhos := er.2 }

def Corral.learn (c : Corral) (bacts : List Act) (a : Act) (r p : Rat) : Except PErr Corral :=
  c.learnWith bacts a r p (omdLambda c.ps c.etas (corralLosses bacts a r p))

/-- what each base learner is taught: (action, reward, probability) -/
def corralFeedback (importance : Bool) (bacts : List Act) (bprobs : List Rat) (a : Act) (r p : Rat) :
    List (Act × Rat × Rat) :=
  if importance then
    List.zipWith (fun b bp => (b, (if b = a then r else 0) / p, bp)) bacts bprobs
  else bacts.map (fun _ => (a, r, p))

inductive COp
  | predict (actions : List Act) (bacts : List Act)
  | score (actions : List Act) (bacts : List Act) (a : Act)
  | learn (bacts : List Act) (a : Act) (r p : Rat)
deriving Repr

def stepC (c : Corral) : COp → Corral × Out
  | .predict actions bacts =>
    match c.predict actions bacts with
    | .ok (c', i, p, pmf) => (c', .pred i p pmf)
    | .error e => (c, .err e)
  | .score actions bacts a =>
    match c.score actions bacts a with
    | .ok p => (c, .score p)
    | .error e => (c, .err e)
  | .learn bacts a r p =>
    match c.learn bacts a r p with
    | .ok c' => (c', .learned)
    | .error e => (c, .err e)

/-- a history; the states visited (after each call) and the outputs -/
def runC : Corral → List COp → List (Corral × Out)
  | _, [] => []
  | c, op :: ops =>
    let (c', o) := stepC c op
    (c', o) :: runC c' ops

/-- did the exact search leave by one of its own exits (and not because the fuel ran out)? -/
def omdHalted (ps etas losses : List Rat) : Bool :=
  match losses with
  | [] => true
  | l0 :: ls =>
    match omdRaw ps etas losses (minOf l0 ls) with
    | none => true
    | some cur => (bisect (fun l r => (l + r) / 2) (fun cur => rounds1 cur.sum) (omdRaw ps etas losses)
        (fun xs => decide (1 < xs.sum)) searchFuel (minOf l0 ls) (maxOf l0 ls) cur).2

/-! ### the repaired `_log_barrier_omd` as the implementation computes it: every float operation
through `fl` (the driver uses `flDouble`, the result is compared with the real function's output
for equality), the same `bisect` loop on the float carrier -/

def ratAbs (x : Rat) : Rat := if x < 0 then -x else x

/-- CPython 3.12 `sum()` of floats (Neumaier compensated summation, Python/bltinmodule.c) -/
def pySumAux (fl : Rat → Rat) : Rat → Rat → List Rat → Rat
  | s, c, [] => if c = 0 then s else fl (s + c)
  | s, c, x :: xs =>
    let t := fl (s + x)
    let c' := if ratAbs x ≤ ratAbs s then fl (c + fl (fl (s - t) + x)) else fl (c + fl (fl (x - t) + s))
    pySumAux fl t c' xs

def pySum (fl : Rat → Rat) (xs : List Rat) : Rat := pySumAux fl 0 0 xs

/-- `(1/p) + eta*(loss-l)` -/
def omdDenomsF (fl : Rat → Rat) : List Rat → List Rat → List Rat → Rat → List Rat
  | p :: ps, e :: es, l :: ls, lam => fl (fl (1 / p) + fl (e * fl (l - lam))) :: omdDenomsF fl ps es ls lam
  | _, _, _, _ => []

def omdRawF (fl : Rat → Rat) (ps etas losses : List Rat) (lam : Rat) : Option (List Rat) :=
  let ds := omdDenomsF fl ps etas losses lam
  if ds.all (fun d => decide (0 < d)) then some (ds.map (fun d => fl (1 / d))) else none

/-- the whole function: `none` where Python would fail on `sum(None)` (a non-positive weight came in) -/
def omdF (fl : Rat → Rat) (fuel : Nat) (ps etas losses : List Rat) : Option (List Rat × Bool) :=
  match losses with
  | [] => some ([], true)
  | l0 :: ls =>
    match omdRawF fl ps etas losses (minOf l0 ls) with
    | none => none
    | some cur =>
      let res := bisect (fun l r => fl (fl (l + r) / 2)) (fun cur => rounds1 (pySum fl cur)) (omdRawF fl ps etas losses)
        (fun xs => decide (1 < pySum fl xs)) fuel (minOf l0 ls) (maxOf l0 ls) cur
      let total := pySum fl res.1.2
      some (res.1.2.map (fun p => fl (p / total)), res.2)

/-! ### Phase 5: the rest of `CorralLearner.learn` as the implementation computes it

`loss = 1-reward`, `instant_loss = [loss/probability * (base_action==action) …]`, the p̄-smoothing
`(1-self._gamma)*p + self._gamma*1/len(self._base_lrns)` and the ρ/η schedule, every operation through
`fl`.  With `fl = flDouble` a whole history of `learn` calls reproduces `_ps`, `_p_bars`, `_etas`,
`_rhos` of the real learner bit for bit (driver op `corral_runF`). -/

/-- `(1-self._gamma)*p + self._gamma*1/len(self._base_lrns)`: five roundings, three deep -/
def pbarF (fl : Rat → Rat) (gamma : Rat) (M : Nat) (p : Rat) : Rat :=
  fl (fl (fl (1 - gamma) * p) + fl (fl (gamma * 1) / (M : Rat)))

/-- `self._p_bars = [ … for p in self._ps ]` -/
def smoothF (fl : Rat → Rat) (gamma : Rat) (M : Nat) (ps : List Rat) : List Rat := ps.map (pbarF fl gamma M)

/-- `loss = 1-reward; instant_loss = [ loss/probability * (base_action==action) … ]` -/
def corralLossesF (fl : Rat → Rat) (bacts : List Act) (a : Act) (r p : Rat) : List Rat :=
  bacts.map (fun b => fl (fl (fl (1 - r) / p) * (if b = a then 1 else 0)))

/-- `if 1/self._p_bars[i] > self._rhos[i]: self._rhos[i] = 2/self._p_bars[i]; self._etas[i] *= self._beta` -/
def etaRhoF (fl : Rat → Rat) (beta : Rat) : List Rat → List Rat → List Rat → List Rat × List Rat
  | pb :: pbs, e :: es, rh :: rhs =>
    let (es', rhs') := etaRhoF fl beta pbs es rhs
    if rh < fl (1 / pb) then (fl (e * beta) :: es', fl (2 / pb) :: rhs') else (e :: es', rh :: rhs')
  | _, es, rhs => (es, rhs)

/-- the state part of `CorralLearner.learn` in floats (the Bool: did the root search leave by its own exits) -/
def Corral.learnF (fl : Rat → Rat) (fuel : Nat) (c : Corral) (bacts : List Act) (a : Act) (r p : Rat) :
    Except PErr (Corral × Bool) :=
  if !(decide (0 ≤ r) && decide (r ≤ 1)) then .error .assertion
  else if p = 0 then .error .zeroDivision
  else
    match omdF fl fuel c.ps c.etas (corralLossesF fl bacts a r p) with
    | none => .error .valueError
    | some (ps, halted) =>
      let pbars := smoothF fl c.gamma c.ps.length ps
      let er := etaRhoF fl c.beta pbars c.etas c.rhos
      .ok ({ c with ps := ps, pbars := pbars, etas := er.1, rhos := er.2 }, halted)

/-- a whole history of `learn` calls `(base actions, played action, reward, probability)`; the states
after each call, up to and including the first exception -/
def runCF (fl : Rat → Rat) (fuel : Nat) : Corral → List (List Act × Act × Rat × Rat) → List (Except PErr (Corral × Bool))
  | _, [] => []
  | c, (bacts, a, r, p) :: ops =>
    match c.learnF fl fuel bacts a r p with
    | .error e => [.error e]
    | .ok (c', h) => .ok (c', h) :: runCF fl fuel c' ops

/-! ### nested compositions: Corral over base learners that may themselves be Corrals

`Base` is what Corral uses of a base learner.  A base learner that needs the kwargs of its own
prediction back (`info` of a nested Corral) keeps them in its state: the enclosing Corral hands
every base learner exactly the kwargs its predict returned (checked on the real code). -/

structure Base where
  σ : Type
  /-- (new state, chosen action, reported probability) -/
  predict : σ → List Act → Except PErr (σ × Act × Rat)
  /-- `learn(context, action, reward, probability, **kwargs)` -/
  learn : σ → Act → Rat → Rat → Except PErr σ

/-- a plain learner with the UCB indexes it will see (arbitrary, per call) -/
structure Leaf where
  L : Learner
  val : Nat → Act → Rat
  k : Nat := 0

def leafBase (fl : Rat → Rat) : Base where
  σ := Leaf
  predict := fun s actions =>
    match s.L.predict (s.val s.k) actions with
    | .error e => .error e
    | .ok (L', i, p, _) =>
      match actions[i]? with
      | some a => .ok ({ s with L := L', k := s.k + 1 }, a, p)
      | none => .error .indexError
  learn := fun s a r _ =>
    match s.L.learn fl a r with
    | .ok L' => .ok { s with L := L' }
    | .error e => .error e

/-- a (possibly Misguided) Corral with the states of its base learners and the `info` of its last predict -/
structure CNode (τ : Type) where
  mis : List (Rat × Rat) := []
  c : Corral
  lastActs : List Act := []
  lastProbs : List Rat := []
  bases : List τ

def predictAll (B : Base) : List B.σ → List Act → Except PErr (List B.σ × List Act × List Rat)
  | [], _ => .ok ([], [], [])
  | s :: ss, actions =>
    match B.predict s actions with
    | .error e => .error e
    | .ok (s', a, p) =>
      match predictAll B ss actions with
      | .error e => .error e
      | .ok (ss', as, ps) => .ok (s' :: ss', a :: as, p :: ps)

/-- `for learner, … in zip(self._base_lrns, …): learner.learn(…)` -/
def learnAll (B : Base) : List B.σ → List (Act × Rat × Rat) → Except PErr (List B.σ)
  | s :: ss, (a, r, p) :: fs =>
    match B.learn s a r p with
    | .error e => .error e
    | .ok s' =>
      match learnAll B ss fs with
      | .error e => .error e
      | .ok ss' => .ok (s' :: ss')
  | ss, _ => .ok ss

def corralOver (fl : Rat → Rat) (B : Base) : Base where
  σ := CNode B.σ
  predict := fun s actions =>
    match predictAll B s.bases actions with
    | .error e => .error e
    | .ok (bs', as, ps) =>
      match s.c.predict actions as with
      | .error e => .error e
      | .ok (c', i, p, _) =>
        match actions[i]? with
        | some a => .ok ({ s with c := c', lastActs := as, lastProbs := ps, bases := bs' }, a, p)
        | none => .error .indexError
  learn := fun s a r p =>
    let r' := misguide fl s.mis r
    if !(decide (0 ≤ r') && decide (r' ≤ 1)) then .error .assertion
    else if p = 0 then .error .zeroDivision
    else
      match learnAll B s.bases (corralFeedback s.c.importance s.lastActs s.lastProbs a r' p) with
      | .error e => .error e
      | .ok bs' =>
        match s.c.learn s.lastActs a r' p with
        | .error e => .error e
        | .ok c' => .ok { s with c := c', bases := bs' }

/-- either kind of base learner in one list -/
def sumBase (B1 B2 : Base) : Base where
  σ := B1.σ ⊕ B2.σ
  predict := fun s actions =>
    match s with
    | .inl s1 => (match B1.predict s1 actions with | .ok (s', a, p) => .ok (.inl s', a, p) | .error e => .error e)
    | .inr s2 => (match B2.predict s2 actions with | .ok (s', a, p) => .ok (.inr s', a, p) | .error e => .error e)
  learn := fun s a r p =>
    match s with
    | .inl s1 => (match B1.learn s1 a r p with | .ok s' => .ok (.inl s') | .error e => .error e)
    | .inr s2 => (match B2.learn s2 a r p with | .ok s' => .ok (.inr s') | .error e => .error e)

/-- learners nested to depth `n`: level 0 the plain learners, level n+1 plain learners or
(Misguided) Corrals over level-n learners -/
def tower (fl : Rat → Rat) : Nat → Base
  | 0 => leafBase fl
  | n + 1 => sumBase (leafBase fl) (corralOver fl (tower fl n))

/-! ### Phase 5: which feedback a nested composition accepts, as a decidable recursive predicate

`learn(action, reward, probability)` of a tower succeeds exactly when every Corral at or below gets
(after its Misguided wrappers) a reward in [0,1] and a non-zero probability.  Importance mode hands
base learner j `reward·1[A_j = action]/probability`, off-policy mode passes the reward through. -/

def allAcceptB {σ : Type} (acc : σ → Act → Rat → Rat → Bool) : List σ → List (Act × Rat × Rat) → Bool
  | s :: ss, (a, r, p) :: fs => acc s a r p && allAcceptB acc ss fs
  | _, _ => true

def acceptsB (fl : Rat → Rat) : (n : Nat) → (tower fl n).σ → Act → Rat → Rat → Bool
  | 0 => fun _ _ _ _ => true
  | n + 1 => fun (s : Leaf ⊕ CNode (tower fl n).σ) a r p =>
    match s with
    | .inl _ => true
    | .inr s =>
      let r' := misguide fl s.mis r
      decide (0 ≤ r') && decide (r' ≤ 1) && !decide (p = 0) &&
        allAcceptB (acceptsB fl n) s.bases (corralFeedback s.c.importance s.lastActs s.lastProbs a r' p)

/-! ### Phase 5: arithmetic expressions of the source as small programs (translator target)

`harness/props/c16.py` translates the update expressions of bandit.py / corral.py with Python's `ast`
into `Ex` terms (`Generated/C16Exprs.lean`); `Ex.evalF` is Python's float evaluation of such an
expression: every `+ - * /` is rounded (`fl`), int literals are exact, `addI` is `+` between ints. -/

inductive Ex
  | lit (n : Nat)
  | var (i : Nat)
  | add (a b : Ex) | sub (a b : Ex) | mul (a b : Ex) | div (a b : Ex)
  | addI (a b : Ex)
deriving Repr, DecidableEq

def Ex.evalF (fl : Rat → Rat) (env : List Rat) : Ex → Rat
  | .lit n => (n : Rat)
  | .var i => env.getD i 0
  | .add a b => fl (a.evalF fl env + b.evalF fl env)
  | .sub a b => fl (a.evalF fl env - b.evalF fl env)
  | .mul a b => fl (a.evalF fl env * b.evalF fl env)
  | .div a b => fl (a.evalF fl env / b.evalF fl env)
  | .addI a b => a.evalF fl env + b.evalF fl env

/-! ### action identity: `make_hashable` and Python `==` on the offered objects

The learner models above identify an action with a natural number.  This is the justification: the
key `make_hashable` computes depends on the CONTENTS of a dense / sparse action only, not on the
container flavour; Python's `==` between two offered objects does the same except for two pairs of
flavours (list vs tuple, and two OrderedDicts in different order), where `==` is `False` although
the keys coincide. -/

inductive Scalar
  | num (q : Rat)          -- int, float, bool: equal by value
  | str (s : String)
deriving DecidableEq, Repr

inductive DFlav | list | tuple | row      -- tuple also covers HashableDense (a tuple subclass); row = coba's Dense row objects
deriving DecidableEq, Repr

inductive SFlav | dict | odict | mapping  -- mapping = MappingProxyType, UserDict, coba's Sparse row objects, HashableSparse
deriving DecidableEq, Repr

inductive PyAct
  | scalar (s : Scalar)
  | dense (f : DFlav) (xs : List Scalar)
  | sparse (f : SFlav) (kv : List (Scalar × Scalar))     -- items in iteration order, keys distinct
deriving Repr

inductive Key
  | scalar (s : Scalar)
  | hdense (xs : List Scalar)                 -- HashableDense(tuple(items))
  | hsparse (kv : List (Scalar × Scalar))     -- HashableSparse: compared as frozenset(items)
deriving Repr

def makeHashable : PyAct → Key
  | .scalar s => .scalar s
  | .dense _ xs => .hdense xs
  | .sparse _ kv => .hsparse kv

def sameItems (a b : List (Scalar × Scalar)) : Bool := a.all (fun x => b.contains x) && b.all (fun x => a.contains x)

/-- `==` (and hash agreement) of two keys, i.e. whether `_Q/_N/_m/_s` treat them as one entry -/
def Key.same : Key → Key → Bool
  | .scalar a, .scalar b => a == b
  | .hdense a, .hdense b => a == b
  | .hsparse a, .hsparse b => sameItems a b
  | _, _ => false

/-- equality of the contents, blind to the container flavour -/
def contentsEq : PyAct → PyAct → Bool
  | .scalar a, .scalar b => a == b
  | .dense _ a, .dense _ b => a == b
  | .sparse _ a, .sparse _ b => sameItems a b
  | _, _ => false

/-- Python `a == b` on the offered objects -/
def pyEq : PyAct → PyAct → Bool
  | .scalar a, .scalar b => a == b
  | .dense f a, .dense g b =>
    if (f = .list ∧ g = .tuple) ∨ (f = .tuple ∧ g = .list) then false else a == b
  | .sparse f a, .sparse g b =>
    if f = .odict ∧ g = .odict then a == b else sameItems a b
  | _, _ => false

end Coba.C16
