/-
C11 — model of `Scale` and `Impute` (coba/environments/filters.py), of the helpers
`iqr`/`percentile` (coba/statistics.py) and of `Environments.scale/impute`
(coba/environments/core.py).  Import-free (core Lean only).

The model mirrors the code WITH the repairs proposed in /verif/fixes/C11-*.diff applied
(see notes/C11.md): potential/imputable keys are taken from the first interaction where a
`None` does not disqualify a feature, only numbers are shifted/scaled, `None` and `nan` take no
part in the Scale statistics, mean/median imputations exist only for numeric columns, and
`Environments.impute` chains a list of statistics.

Values: numbers are exact rationals (`num`), `nan`, `nil` (Python `None`), strings.
A dense context is a `List Val`, a sparse one an association list `List (String × Val)`,
a scalar context a single `Val`.  Only contexts are modelled: the filters copy every other
field of an interaction unchanged (checked directly on the implementation by the harness).
`statistics.stdev` needs a square root and is a parameter `sd` of the model.
-/
namespace Coba.C11

inductive Val where
  | num (q : Rat)
  | nan
  | nil
  | str (s : String)
  deriving DecidableEq, Repr, Inhabited

namespace Val
def isStr : Val → Bool | str _ => true | _ => false
def isNil : Val → Bool | nil => true | _ => false
/-- a missing value: Python `None` or `nan` (`v is None or v != v`) -/
def isMiss : Val → Bool | nil => true | nan => true | _ => false
def isNum : Val → Bool | num _ => true | _ => false
/-- `isinstance(v,(int,float)) or v is None` -/
def numOrNil : Val → Bool | str _ => false | _ => true
def num? : Val → Option Rat | num q => some q | _ => none
end Val

/-- the numbers of a column that take part in statistics: not `None`, not `nan` -/
def nums (w : List Val) : List Rat := w.filterMap Val.num?

/-- `islice(interactions, using)` -/
def window {α} (u : Option Nat) (rows : List α) : List α :=
  match u with
  | none => rows
  | some n => rows.take n

/-! ### statistics -/

/-- Python `min(values)`; `none` = `ValueError` on an empty list -/
def minL : List Rat → Option Rat
  | [] => none
  | x :: xs => some (xs.foldl min x)

def maxL : List Rat → Option Rat
  | [] => none
  | x :: xs => some (xs.foldl max x)

def sumL (xs : List Rat) : Rat := xs.foldl (· + ·) 0

/-- `statistics.fmean` / `sum(values)/len(values)`; `none` = error on empty data -/
def mean (xs : List Rat) : Option Rat :=
  match xs with
  | [] => none
  | _ => some (sumL xs / (xs.length : Rat))

def insertSorted (a : Rat) : List Rat → List Rat
  | [] => [a]
  | b :: l => if a ≤ b then a :: b :: l else b :: insertSorted a l

/-- `sorted(values)` -/
def isort : List Rat → List Rat
  | [] => []
  | a :: l => insertSorted a (isort l)

/-- `statistics.median` -/
def median (xs : List Rat) : Option Rat :=
  let s := isort xs
  let n := s.length
  if n = 0 then none
  else if n % 2 = 1 then s[n / 2]?
  else match s[n / 2 - 1]?, s[n / 2]? with
    | some a, some b => some ((a + b) / 2)
    | _, _ => none

/-- coba.statistics.percentile(values, p, sort=False) on an already sorted list, unweighted:
`i = p*(n-1); I = int(i); values[I] if i == I else (1-w)*values[I] + w*values[I+1]`
(`none` = `IndexError`, impossible for `0 ≤ p ≤ 1`, see `percentile_spec`). -/
def percentile (s : List Rat) (p : Rat) : Option Rat :=
  match s with
  | [x] => some x
  | _ =>
    if p = 0 then s.head?
    else if p = 1 then s.getLast?
    else
      let i : Rat := p * ((s.length : Rat) - 1)
      let I : Nat := i.floor.toNat
      if i = (I : Rat) then s[I]?
      else match s[I]?, s[I + 1]? with
        | some a, some b => some ((1 - (i - (I : Rat))) * a + (i - (I : Rat)) * b)
        | _, _ => none

/-- coba.statistics.iqr -/
def iqr (xs : List Rat) : Option Rat :=
  if xs.length ≤ 1 then some 0
  else match percentile (isort xs) (1 / 4), percentile (isort xs) (3 / 4) with
    | some a, some b => some (b - a)
    | _, _ => none

/-! ### Scale -/

inductive Shift where
  | num (a : Rat) | min | mean | median
  deriving DecidableEq, Repr

inductive Scl where
  | num (b : Rat) | minmax | std | iqr | maxabs
  deriving DecidableEq, Repr

structure Cfg where
  shift : Shift
  scale : Scl
  usingN : Option Nat

/-- `Scale._shift_value`; `none` = the `TypeError/ValueError` caught in `_get_shift_and_scale` -/
def shiftValue (sh : Shift) (xs : List Rat) : Option Rat :=
  match sh with
  | .num a => some a
  | .min => (minL xs).map (fun m => -m)
  | .mean => (mean xs).map (fun m => -m)
  | .median => (median xs).map (fun m => -m)

def absR (x : Rat) : Rat := if x < 0 then -x else x

/-- the pair `(scale_num, scale_den)` of `Scale._scale_value` -/
def scaleNumDen (sd : List Rat → Rat) (sc : Scl) (xs : List Rat) (shift : Rat) : Option (Rat × Rat) :=
  match sc with
  | .num b => some (b, 1)
  | .minmax => match maxL xs, minL xs with
    | some mx, some mn => some (1, mx - mn)
    | _, _ => none
  | .std => if xs.length < 2 then none else some (1, sd xs)
  | .iqr => (iqr xs).map (fun d => (1, d))
  | .maxabs => (maxL (xs.map (fun v => absR (v + shift)))).map (fun d => (1, d))

/-- `scale_num if scale_den < .000001 else scale_num/scale_den` -/
def guardDiv (nd : Rat × Rat) : Rat := if nd.2 < 1 / 1000000 then nd.1 else nd.1 / nd.2

def scaleValue (sd : List Rat → Rat) (sc : Scl) (xs : List Rat) (shift : Rat) : Option Rat :=
  (scaleNumDen sd sc xs shift).map guardDiv

/-- how many values of a window column are not missing (strings included) -/
def presentCount (w : List Val) : Nat := (w.filter (fun v => !v.isMiss)).length

/-- `Scale._get_shift_and_scale` on one column of the fitting window.
A window holding a string (mixed-type or string column): every statistic that looks at the values raises
`TypeError`, which is caught (`none`) — `min/fmean/median` of or negation of strings, `max-min`, `stdev`,
`abs(v+shift)`, and `iqr` of two or more values (`sorted` / `p75-p25`).  What does NOT look at the values still
succeeds: a given numeric shift, a given numeric scale, and `iqr` of at most one value (returns 0. without touching
it, so the scale is 1).  Such parameters are then applied to the numbers of the column only. -/
def fit (sd : List Rat → Rat) (cfg : Cfg) (w : List Val) : Option (Rat × Rat) :=
  if w.any Val.isStr then
    match cfg.shift, cfg.scale with
    | .num a, .num b => some (a, b)
    | .num a, .iqr => if presentCount w ≤ 1 then some (a, 1) else none
    | _, _ => none
  else match shiftValue cfg.shift (nums w) with
    | none => none
    | some sh => match scaleValue sd cfg.scale (nums w) sh with
      | none => none
      | some sc => some (sh, sc)

/-- `context[i] = (context[i]+shift)*scale` for numbers; `nan` stays `nan`; everything else is skipped -/
def applyVal (p : Rat × Rat) : Val → Val
  | .num x => .num ((x + p.1) * p.2)
  | v => v

def applyOpt (p : Option (Rat × Rat)) (v : Val) : Val :=
  match p with
  | some p => applyVal p v
  | none => v

/-- column `k` of a list of dense contexts (`map(itemgetter(k), contexts)`) -/
def col (k : Nat) (rows : List (List Val)) : List Val := rows.filterMap (fun r => r[k]?)

/-- dense `potential_keys`: `v is None or isinstance(v,(int,float))` in the first context -/
def potDense (first : List Val) (k : Nat) : Bool :=
  match first[k]? with
  | some v => v.numOrNil
  | none => false

/-- the application loop on one dense context, given the first context and the fitting window -/
def denseRow (sd : List Rat → Rat) (cfg : Cfg) (first : List Val) (fitting : List (List Val)) (row : List Val) : List Val :=
  row.mapIdx (fun k v => applyOpt (if potDense first k then fit sd cfg (col k fitting) else none) v)

/-- `Scale.filter` on dense contexts: fit on the window, then transform every interaction -/
def scaleDense (sd : List Rat → Rat) (cfg : Cfg) (rows : List (List Val)) : List (List Val) :=
  match rows with
  | [] => []
  | first :: _ => rows.map (denseRow sd cfg first (window cfg.usingN rows))

abbrev SCtx := List (String × Val)

/-- `context.get(k, 0)` -/
def getD0 (k : String) (c : SCtx) : Val :=
  match c.lookup k with
  | some v => v
  | none => .num 0

def hasKey (k : String) (c : SCtx) : Bool := (c.lookup k).isSome

/-- which sparse keys are scaled: every key whose value in the first context is not a string.  (Keys seen in
the fitting window get the parameters fitted on their window column; a key absent from the whole window is a
column of zeros there — `fitting.map (getD0 k)` is that column in both cases.) -/
def potSparse (first : SCtx) (k : String) : Bool :=
  !(match first.lookup k with | some v => v.isStr | none => false)

inductive Err where
  | cobaException
  deriving DecidableEq, Repr

/-- the application loop on one sparse context -/
def sparseRow (sd : List Rat → Rat) (cfg : Cfg) (first : SCtx) (fitting : List SCtx) (c : SCtx) : SCtx :=
  c.map (fun kv => (kv.1, applyOpt (if potSparse first kv.1 then fit sd cfg (fitting.map (getD0 kv.1)) else none) kv.2))

/-- `Scale.filter` on sparse contexts (`shift` must be 0) -/
def scaleSparse (sd : List Rat → Rat) (cfg : Cfg) (rows : List SCtx) : Except Err (List SCtx) :=
  match rows with
  | [] => .ok []
  | first :: _ =>
    if cfg.shift ≠ .num 0 then .error .cobaException
    else .ok (rows.map (sparseRow sd cfg first (window cfg.usingN rows)))

/-- the sparse application without the shift check (what runs when the check does not apply) -/
def scaleSparseRows (sd : List Rat → Rat) (cfg : Cfg) (rows : List SCtx) : List SCtx :=
  match rows with
  | [] => []
  | first :: _ => rows.map (sparseRow sd cfg first (window cfg.usingN rows))

/-- `Scale.filter` on scalar contexts -/
def scaleScalar (sd : List Rat → Rat) (cfg : Cfg) (rows : List Val) : List Val :=
  rows.map (applyOpt (fit sd cfg (window cfg.usingN rows)))

/-! ### Impute -/

inductive Stat where
  | mean | median | mode
  deriving DecidableEq, Repr

def count (v : Val) (l : List Val) : Nat := (l.filter (· == v)).length

/-- `statistics.mode`: the first value encountered among those of maximal multiplicity -/
def modeAux (all : List Val) : List Val → Option Val → Option Val
  | [], best => best
  | v :: l, none => modeAux all l (some v)
  | v :: l, some b => modeAux all l (if count b all < count v all then some v else some b)

def mode (vs : List Val) : Option Val := modeAux vs vs none

/-- `Impute._get_imputation` on one column of the window (missing values — `None`, `nan` — dropped first).
`none` = no imputation (an exception was swallowed, or the column is not numeric for mean/median). -/
def getImp (st : Stat) (w : List Val) : Option Val :=
  let vs := w.filter (fun v => !v.isMiss)
  match st with
  | .mode => mode vs
  | .mean => if vs.all Val.isNum then (mean (nums vs)).map Val.num else none
  | .median => if vs.all Val.isNum then (median (nums vs)).map Val.num else none

/-- dense `imputable_cols` -/
def impDense (st : Stat) (first : List Val) (k : Nat) : Bool :=
  match st with
  | .mode => k < first.length
  | _ => potDense first k

/-- a missing value is replaced by the imputation, if there is one; everything else stays -/
def imputeCell (imp : Option Val) (v : Val) : Val :=
  match imp with
  | some x => if v.isMiss then x else v
  | none => v

/-- is the (optional) cell a missing value -/
def missAt : Option Val → Bool
  | some v => v.isMiss
  | none => false

def bit (b : Bool) : Val := .num (if b then 1 else 0)

/-- the imputation of dense column `k` -/
def denseImp (st : Stat) (first : List Val) (win : List (List Val)) (k : Nat) : Option Val :=
  if impDense st first k then getImp st (col k win) else none

/-- the columns that get a missingness indicator, in column order (`impute_binary`): every feature that has
a missing value in the window, imputable or not -/
def denseBins (ind : Bool) (first : List Val) (win : List (List Val)) : List Nat :=
  if ind then (List.range first.length).filter (fun k => (col k win).any Val.isMiss)
  else []

/-- the application loop of `Impute.filter` on one dense context -/
def imputeDenseRow (st : Stat) (ind : Bool) (first : List Val) (win : List (List Val)) (row : List Val) : List Val :=
  row.mapIdx (fun k v => imputeCell (denseImp st first win k) v)
    ++ (denseBins ind first win).map (fun k => bit (missAt row[k]?))

/-- `Impute.filter` on dense contexts -/
def imputeDense (st : Stat) (ind : Bool) (u : Option Nat) (rows : List (List Val)) : List (List Val) :=
  match rows with
  | [] => []
  | first :: _ => rows.map (imputeDenseRow st ind first (window u rows))

/-- the values of key `k` in the window where present, then a 0 for every context lacking it -/
def sparseCol (k : String) (win : List SCtx) : List Val :=
  let present := win.filterMap (fun c => c.lookup k)
  present ++ List.replicate (win.length - present.length) (.num 0)

/-- sparse imputable keys: all for mode, else those whose value in the first context is not a string -/
def impSparseKey (st : Stat) (first : SCtx) (k : String) : Bool :=
  !(match st with
    | .mode => false
    | _ => match first.lookup k with | some v => v.isStr | none => false)

/-- the imputation of a sparse key: the statistic of its window column, absent = 0 (for a key absent from the
whole window that column is all zeros: the code's `unseen`) -/
def sparseImp (st : Stat) (first : SCtx) (win : List SCtx) (k : String) : Option Val :=
  if impSparseKey st first k then getImp st (sparseCol k win) else none

/-- keys of the window in first-appearance order, without repetition -/
def seenKeys : List SCtx → List String → List String
  | [], acc => acc.reverse
  | c :: cs, acc => seenKeys cs (c.foldl (fun a kv => if a.contains kv.1 then a else kv.1 :: a) acc)

/-- the keys that get a `<key>_is_missing` indicator: every key with a missing value in the window -/
def sparseBins (ind : Bool) (win : List SCtx) : List String :=
  if ind then (seenKeys win []).filter (fun k => (win.filterMap (fun c => c.lookup k)).any Val.isMiss)
  else []

/-- `d[k] = v` on an association list: overwrite in place or append -/
def upsert (c : SCtx) (k : String) (v : Val) : SCtx :=
  match c with
  | [] => [(k, v)]
  | kv :: rest => if kv.1 == k then (k, v) :: rest else kv :: upsert rest k v

/-- the application loop of `Impute.filter` on one sparse context; the indicators are written with
`context.update(is_missing)`, i.e. an existing key `<k>_is_missing` is overwritten -/
def imputeSparseRow (st : Stat) (ind : Bool) (first : SCtx) (win : List SCtx) (c : SCtx) : SCtx :=
  (sparseBins ind win).foldl (fun acc k => upsert acc (k ++ "_is_missing") (bit (missAt (c.lookup k))))
    (c.map (fun kv => (kv.1, imputeCell (sparseImp st first win kv.1) kv.2)))

/-- `Impute.filter` on sparse contexts -/
def imputeSparse (st : Stat) (ind : Bool) (u : Option Nat) (rows : List SCtx) : List SCtx :=
  match rows with
  | [] => []
  | first :: _ => rows.map (imputeSparseRow st ind first (window u rows))

/-- result of `Impute.filter` on scalar contexts: scalars, or `[value, indicator]` lists -/
inductive ScalarOut where
  | scalars (rows : List Val)
  | pairs (rows : List (List Val))
  deriving Repr

def imputeScalar (st : Stat) (ind : Bool) (u : Option Nat) (rows : List Val) : ScalarOut :=
  let win := window u rows
  let imp := getImp st win
  if ind && win.any Val.isMiss then
    .pairs (rows.map (fun v => [imputeCell imp v, bit v.isMiss]))
  else
    .scalars (rows.map (imputeCell imp))

/-! ### Environments.scale / Environments.impute -/

inductive Ctxs where
  | dense (rows : List (List Val))
  | sparse (rows : List SCtx)
  | scalar (rows : List Val)
  deriving Repr

def imputeCtxs (st : Stat) (ind : Bool) (u : Option Nat) : Ctxs → Ctxs
  | .dense rows => .dense (imputeDense st ind u rows)
  | .sparse rows => .sparse (imputeSparse st ind u rows)
  | .scalar rows => match imputeScalar st ind u rows with
    | .scalars r => .scalar r
    | .pairs r => .dense r

/-- `Environments.impute(stats, indicator, using)`: one `Impute` filter per statistic, chained -/
def envImpute (stats : List Stat) (ind : Bool) (u : Option Nat) (c : Ctxs) : Ctxs :=
  stats.foldl (fun c st => imputeCtxs st ind u c) c

/-- number of dense potential keys -/
def potCount (first : List Val) : Nat := ((List.range first.length).filter (potDense first)).length

/-- the empty-window quirk of the dense path: with `using=0` and two or more potential keys the columns are built by
`zip(*map(itemgetter(*keys), []))`, which yields NO column, so nothing is fitted and the interactions pass through
unchanged (with one potential key an empty column is fitted instead) -/
def denseZeroWindow (cfg : Cfg) (rows : List (List Val)) : Bool :=
  match rows with
  | [] => false
  | first :: _ => (window cfg.usingN rows).isEmpty && decide (2 ≤ potCount first)

def scaleDenseFull (sd : List Rat → Rat) (cfg : Cfg) (rows : List (List Val)) : List (List Val) :=
  if denseZeroWindow cfg rows then rows else scaleDense sd cfg rows

def scaleCtxs (sd : List Rat → Rat) (cfg : Cfg) : Ctxs → Except Err Ctxs
  | .dense rows => .ok (.dense (scaleDenseFull sd cfg rows))
  | .sparse rows => (scaleSparse sd cfg rows).map .sparse
  | .scalar rows => .ok (.scalar (scaleScalar sd cfg rows))

/-- a `Scale` object: statistics configuration and `target`.  The target only gates the sparse-shift check
(`… and self._target=="context" and self._shift != 0`); whatever the target, it is the CONTEXT that is scaled. -/
structure ScaleCfg where
  cfg : Cfg
  target : String

def scaleFilter (sd : List Rat → Rat) (sc : ScaleCfg) : Ctxs → Except Err Ctxs
  | .sparse rows =>
    if sc.target = "context" then (scaleSparse sd sc.cfg rows).map .sparse
    else .ok (.sparse (scaleSparseRows sd sc.cfg rows))
  | c => scaleCtxs sd sc.cfg c

/-! ### the argument glue of `Environments.scale` / `Environments.impute` and of the filter constructors

`none` = the keyword was not passed.  Python defaults: `Environments.scale(shift="min", scale="minmax",
targets="context", using=None)`, `Scale(shift=0, scale="minmax", target="context", using=None)`,
`Environments.impute(stats="mean", indicator=True, using=None)`, `Impute(stat="mean", indicator=True, using=None)`.
A single string for `targets` / `stats` is the one-element list. -/

structure ScaleArgs where
  shift : Option Shift
  scale : Option Scl
  targets : Option (List String)
  usingA : Option (Option Nat)

/-- `Environments.scale(**args)`: one `Scale` filter per target, in order -/
def envScaleFilters (a : ScaleArgs) : List ScaleCfg :=
  (match a.targets with | some ts => ts | none => ["context"]).map (fun t =>
    { cfg := { shift := (match a.shift with | some s => s | none => .min),
               scale := (match a.scale with | some s => s | none => .minmax),
               usingN := (match a.usingA with | some u => u | none => none) },
      target := t })

/-- `Scale(**args)` (direct construction; at most one target) -/
def scaleCtorCfg (a : ScaleArgs) : ScaleCfg :=
  { cfg := { shift := (match a.shift with | some s => s | none => .num 0),
             scale := (match a.scale with | some s => s | none => .minmax),
             usingN := (match a.usingA with | some u => u | none => none) },
    target := (match a.targets with | some (t :: _) => t | _ => "context") }

structure ImputeArgs where
  stats : Option (List Stat)
  indicator : Option Bool
  usingA : Option (Option Nat)

/-- `Environments.impute(**args)`: one `Impute` filter per statistic, in order -/
def envImputeFilters (a : ImputeArgs) : List (Stat × Bool × Option Nat) :=
  (match a.stats with | some ss => ss | none => [.mean]).map (fun st =>
    ((st, (match a.indicator with | some b => b | none => true),
      (match a.usingA with | some u => u | none => (none : Option Nat))) : Stat × Bool × Option Nat))

/-- what `Environments(env).scale(**args)[0].read()` does to the contexts -/
def envScale (sd : List Rat → Rat) (a : ScaleArgs) (c : Ctxs) : Except Err Ctxs :=
  (envScaleFilters a).foldl (fun r k => r.bind (scaleFilter sd k)) (.ok c)

/-! ### filter objects and collections of environments

`Environments([envA, envB, …]).scale(...)` creates ONE `Scale` object and joins it to every environment
(`Environments.filter`); `.impute([s1, s2])` creates one `Impute` object per statistic, each shared by all
environments.  An object carries its configuration and mutable bookkeeping (`_times`, which `Impute.filter`
increases by elapsed times on every call).  The model threads that state explicitly; `filter_stateless` and
`collection_pointwise` (Props) say it never influences a result. -/

structure Obj (κ : Type) where
  cfg : κ
  times : List Nat

/-- one call `obj.filter(x)`: the result is computed from the configuration; `_times` grows by `dt` -/
def Obj.call {κ α β : Type} (f : κ → α → β) (o : Obj κ) (dt : List Nat) (x : α) : Obj κ × β :=
  ({ o with times := List.zipWith (· + ·) o.times dt }, f o.cfg x)

/-- the same object applied to several sequences one after the other -/
def Obj.run {κ α β : Type} (f : κ → α → β) : Obj κ → List (List Nat × α) → Obj κ × List β
  | o, [] => (o, [])
  | o, (dt, x) :: rest =>
    let r1 := o.call f dt x
    let r2 := Obj.run f r1.1 rest
    (r2.1, r1.2 :: r2.2)

/-- configuration of an `Impute` object: statistic, indicator, using -/
abbrev ImpCfg := Stat × Bool × Option Nat

def imputeF (c : ImpCfg) (x : Ctxs) : Except Err Ctxs := .ok (imputeCtxs c.1 c.2.1 c.2.2 x)

/-- reading through a pipeline of shared filter objects (an exception ends the read) -/
def pipeRun {κ : Type} (f : κ → Ctxs → Except Err Ctxs) (dt : List Nat) :
    List (Obj κ) → Except Err Ctxs → List (Obj κ) × Except Err Ctxs
  | [], r => ([], r)
  | o :: os, .error e => (o :: os, .error e)
  | o :: os, .ok c =>
    let r1 := o.call f dt c
    let r2 := pipeRun f dt os r1.2
    (r1.1 :: r2.1, r2.2)

/-- the stateless meaning of a pipeline: the filters' functions composed -/
def pipe {κ : Type} (f : κ → Ctxs → Except Err Ctxs) (cfgs : List κ) (x : Except Err Ctxs) : Except Err Ctxs :=
  cfgs.foldl (fun r k => r.bind (f k)) x

/-- a collection of environments sharing the filter objects of one `.scale(...)` / `.impute(...)` call -/
structure Coll (κ : Type) where
  srcs : List Ctxs
  objs : List (Obj κ)

/-- `envs[i].read()` (`none`: no such environment) -/
def Coll.read {κ : Type} (f : κ → Ctxs → Except Err Ctxs) (c : Coll κ) (dt : List Nat) (i : Nat) :
    Coll κ × Option (Except Err Ctxs) :=
  match c.srcs[i]? with
  | none => (c, none)
  | some src =>
    let r := pipeRun f dt c.objs (.ok src)
    ({ c with objs := r.1 }, some r.2)

/-- reading environments in any order, any number of times -/
def Coll.reads {κ : Type} (f : κ → Ctxs → Except Err Ctxs) : Coll κ → List (List Nat × Nat) → Coll κ × List (Option (Except Err Ctxs))
  | c, [] => (c, [])
  | c, (dt, i) :: rest =>
    let r1 := c.read f dt i
    let r2 := Coll.reads f r1.1 rest
    (r2.1, r1.2 :: r2.2)

/-! ### specification -/

/-- the dense embedding of a sparse context over the feature list `keys`: an absent key is the number 0 -/
def embed (keys : List String) (c : SCtx) : List Val := keys.map (fun k => getD0 k c)

/-- cell `k` of row `i` of a list of dense contexts -/
def denseCell (rows : List (List Val)) (i k : Nat) : Option Val := (rows[i]?).bind (fun r => r[k]?)

/-- the value under key `k` in row `i` of a list of sparse contexts -/
def sparseCell (rows : List SCtx) (i : Nat) (k : String) : Option Val := (rows[i]?).bind (fun c => c.lookup k)


/-- `m` is the least element of `xs` -/
def IsMin (xs : List Rat) (m : Rat) : Prop := m ∈ xs ∧ ∀ x ∈ xs, m ≤ x
/-- `m` is the greatest element of `xs` -/
def IsMax (xs : List Rat) (m : Rat) : Prop := m ∈ xs ∧ ∀ x ∈ xs, x ≤ m

/-- non-decreasing -/
def Sorted : List Rat → Prop
  | [] => True
  | a :: l => (∀ b ∈ l, a ≤ b) ∧ Sorted l

/-- `m` is the median of `xs`: the middle element of the sorted data, or the mean of the two
middle elements -/
def IsMedian (xs : List Rat) (m : Rat) : Prop :=
  ∃ s : List Rat, s.Perm xs ∧ Sorted s ∧
    ((s.length % 2 = 1 ∧ s[s.length / 2]? = some m) ∨
     (s.length % 2 = 0 ∧ ∃ a b, s[s.length / 2 - 1]? = some a ∧ s[s.length / 2]? = some b ∧ m = (a + b) / 2))

/-- linear interpolation between closest ranks on sorted data `s` (numpy's default quantile):
with `h = p·(n−1)` and `I = ⌊h⌋` the value is `s[I]` if `h = I`, else `s[I] + (h−I)·(s[I+1]−s[I])` -/
def Interp (s : List Rat) (p q : Rat) : Prop :=
  let h : Rat := p * ((s.length : Rat) - 1)
  let I : Nat := h.floor.toNat
  ∃ a, s[I]? = some a ∧
    ((h = (I : Rat) ∧ q = a) ∨ (∃ b, s[I + 1]? = some b ∧ q = a + (h - (I : Rat)) * (b - a)))

/-- `q` is the `p`-quantile of the data `xs` -/
def IsQuantile (xs : List Rat) (p : Rat) (q : Rat) : Prop :=
  ∃ s : List Rat, s.Perm xs ∧ Sorted s ∧ Interp s p q

/-- the documented shift statistic of the data `xs` (what is added to every value) -/
def ShiftStat (sh : Shift) (xs : List Rat) (s : Rat) : Prop :=
  match sh with
  | .num a => s = a
  | .min => ∃ m, IsMin xs m ∧ s = -m
  | .mean => xs ≠ [] ∧ s = -(sumL xs / (xs.length : Rat))
  | .median => ∃ m, IsMedian xs m ∧ s = -m

/-- the denominator of the documented scale statistic of the data `xs` after shifting by `s` -/
def ScaleDen (sd : List Rat → Rat) (sc : Scl) (xs : List Rat) (s : Rat) (d : Rat) : Prop :=
  match sc with
  | .num _ => d = 1
  | .minmax => ∃ mn mx, IsMin xs mn ∧ IsMax xs mx ∧ d = mx - mn
  | .std => 2 ≤ xs.length ∧ d = sd xs
  | .iqr => (xs.length ≤ 1 ∧ d = 0) ∨ (2 ≤ xs.length ∧ ∃ a b, IsQuantile xs (1/4) a ∧ IsQuantile xs (3/4) b ∧ d = b - a)
  | .maxabs => IsMax (xs.map (fun v => absR (v + s))) d

/-- the scale factor: the given number, or the reciprocal of the statistic — 1 for a
degenerate statistic (smaller than 1e-6, e.g. a constant feature) -/
def ScaleStat (sd : List Rat → Rat) (sc : Scl) (xs : List Rat) (s : Rat) (f : Rat) : Prop :=
  ∃ d, ScaleDen sd sc xs s d ∧
    f = (if d < 1 / 1000000 then 1 else 1 / d) * (match sc with | .num b => b | _ => 1)

/-- what the property demands of one cell `v` of a feature whose window column is `w`:
a number becomes `(x+shift)*scale` with the documented statistics of the non-missing window
values; everything else stays -/
def ScaleCellSpec (sd : List Rat → Rat) (cfg : Cfg) (w : List Val) (v out : Val) : Prop :=
  match v with
  | .num x => ∃ s f, ShiftStat cfg.shift (nums w) s ∧ ScaleStat sd cfg.scale (nums w) s f ∧ out = .num ((x + s) * f)
  | v => out = v

/-- the statistics of the window exist (named statistics need data; `std` needs two values) -/
def StatsDefined (cfg : Cfg) (w : List Val) : Prop :=
  (match cfg.shift with | .num _ => True | _ => nums w ≠ []) ∧
  (match cfg.scale with
    | .num _ => True
    | .iqr => True
    | .std => 2 ≤ (nums w).length
    | _ => nums w ≠ [])


/-! ### `std` without an abstract square root -/

/-- exact sample variance (denominator `n−1`): what `statistics.variance` computes and `statistics.stdev`
takes the square root of -/
def variance (xs : List Rat) : Rat :=
  sumL (xs.map (fun x => (x - sumL xs / (xs.length : Rat)) * (x - sumL xs / (xs.length : Rat)))) / ((xs.length : Rat) - 1)

/-- `f` is the reciprocal square root of `v` — said inside ℚ: the non-negative `f` with `f²·v = 1` -/
def IsInvSqrt (v f : Rat) : Prop := 0 ≤ f ∧ f * f * v = 1

/-- the square-root routine is exact on the data `xs` -/
def SqrtExact (sd : List Rat → Rat) (xs : List Rat) : Prop := 0 ≤ sd xs ∧ sd xs * sd xs = variance xs

/-- the square-root routine has relative error `δ` (in the square) on `xs`: `sd² = var·(1+δ)` -/
def SqrtWithin (sd : List Rat → Rat) (xs : List Rat) (δ : Rat) : Prop :=
  0 < sd xs ∧ sd xs * sd xs = variance xs * (1 + δ)

/-- the scale statistic with `std` characterised algebraically (no function parameter): for at least two
values the factor is 1 when the deviation is below 1e-6 (variance below 1e-12) and otherwise THE reciprocal
square root of the sample variance; the other statistics as in `ScaleStat` (which does not use `sd` there) -/
def ScaleStatQ (sc : Scl) (xs : List Rat) (s f : Rat) : Prop :=
  match sc with
  | .std => 2 ≤ xs.length ∧
      ((variance xs < 1 / 1000000000000 ∧ f = 1) ∨ (1 / 1000000000000 ≤ variance xs ∧ IsInvSqrt (variance xs) f))
  | sc => ScaleStat (fun _ => 0) sc xs s f

def ScaleCellSpecQ (cfg : Cfg) (w : List Val) (v out : Val) : Prop :=
  match v with
  | .num x => ∃ s f, ShiftStat cfg.shift (nums w) s ∧ ScaleStatQ cfg.scale (nums w) s f ∧ out = .num ((x + s) * f)
  | v => out = v

/-- `m` is a mode of `vs` -/
def IsMode (vs : List Val) (m : Val) : Prop := m ∈ vs ∧ ∀ v, count v vs ≤ count m vs

/-- the imputation statistic of the non-missing window values `vs` -/
def ImpStat (st : Stat) (vs : List Val) (m : Val) : Prop :=
  match st with
  | .mode => IsMode vs m
  | .mean => nums vs ≠ [] ∧ m = .num (sumL (nums vs) / ((nums vs).length : Rat))
  | .median => ∃ q, IsMedian (nums vs) q ∧ m = .num q

/-- a feature is imputable in a window: it has a non-missing value there and, for mean/median,
all its non-missing values are numbers -/
def Imputable (st : Stat) (w : List Val) : Prop :=
  (w.filter (fun v => !v.isMiss)) ≠ [] ∧
  (match st with | .mode => True | _ => (w.filter (fun v => !v.isMiss)).all Val.isNum = true)

/-! ### phase 4 — exception VALUES inside `_get_shift_and_scale`, ragged dense rows, option tables -/

/-- the exception classes that can arise while the statistics of one window column are computed.
`statisticsError` is `statistics.StatisticsError` (a subclass of `ValueError`): `fmean`/`median` of no data, `stdev` of
fewer than two values.  `valueError` is the plain `ValueError` of `min()`/`max()` on an empty list.  `typeError`: a string
met arithmetic or a comparison with a number.  `indexError` would be `percentile` indexing outside its list. -/
inductive FitErr where
  | typeError | valueError | statisticsError | indexError
  deriving DecidableEq, Repr

/-- the class names along the MRO of an exception class (up to `Exception`) -/
def FitErr.mro : FitErr → List String
  | .typeError => ["TypeError"]
  | .valueError => ["ValueError"]
  | .statisticsError => ["StatisticsError", "ValueError"]
  | .indexError => ["IndexError", "LookupError"]

/-- is the exception caught by `except (<handlers>)` -/
def FitErr.caughtBy (handlers : List String) (e : FitErr) : Bool := e.mro.any (fun c => handlers.contains c)

/-- the handler tuple of `_get_shift_and_scale`: `except (TypeError,ValueError)` -/
def scaleHandlers : List String := ["TypeError", "ValueError"]

/-- `Scale._shift_value` with the exception it raises -/
def shiftValueE (sh : Shift) (xs : List Rat) : Except FitErr Rat :=
  match sh with
  | .num a => .ok a
  | .min => match minL xs with | some m => .ok (-m) | none => .error .valueError
  | .mean => match mean xs with | some m => .ok (-m) | none => .error .statisticsError
  | .median => match median xs with | some m => .ok (-m) | none => .error .statisticsError

/-- `Scale._scale_value` with the exception it raises -/
def scaleValueE (sd : List Rat → Rat) (sc : Scl) (xs : List Rat) (shift : Rat) : Except FitErr Rat :=
  match sc with
  | .num b => .ok (guardDiv (b, 1))
  | .minmax => match maxL xs, minL xs with
    | some mx, some mn => .ok (guardDiv (1, mx - mn))
    | _, _ => .error .valueError
  | .std => if xs.length < 2 then .error .statisticsError else .ok (guardDiv (1, sd xs))
  | .iqr => match iqr xs with | some d => .ok (guardDiv (1, d)) | none => .error .indexError
  | .maxabs => match maxL (xs.map (fun v => absR (v + shift))) with
    | some d => .ok (guardDiv (1, d))
    | none => .error .valueError

/-- the body of the `try` in `_get_shift_and_scale`: parameters or the exception raised.  In a window holding a string
every statistic that looks at the values raises `TypeError` (whatever else is in the window, the string is among the
non-missing values). -/
def fitE (sd : List Rat → Rat) (cfg : Cfg) (w : List Val) : Except FitErr (Rat × Rat) :=
  if w.any Val.isStr then
    match cfg.shift, cfg.scale with
    | .num a, .num b => .ok (a, b)
    | .num a, .iqr => if presentCount w ≤ 1 then .ok (a, 1) else .error .typeError
    | _, _ => .error .typeError
  else match shiftValueE cfg.shift (nums w) with
    | .error e => .error e
    | .ok sh => match scaleValueE sd cfg.scale (nums w) sh with
      | .error e => .error e
      | .ok sc => .ok (sh, sc)

/-- `_get_shift_and_scale` as a whole: a caught exception becomes `None`, an uncaught one leaves the function -/
def getShiftAndScale (handlers : List String) (sd : List Rat → Rat) (cfg : Cfg) (w : List Val) :
    Except FitErr (Option (Rat × Rat)) :=
  match fitE sd cfg w with
  | .ok p => .ok (some p)
  | .error e => if e.caughtBy handlers then .ok none else .error e

/-- all dense contexts have the length of the first one -/
def Rect (rows : List (List Val)) : Bool :=
  match rows with
  | [] => true
  | f :: r => r.all (fun x => x.length == f.length)

inductive ScaleErr where
  | cobaException | indexError
  deriving DecidableEq, Repr

/-- dense potential keys, in order -/
def potKeys (first : List Val) : List Nat := (List.range first.length).filter (potDense first)

/-- `Scale.filter` on dense contexts INCLUDING ragged rows (outside the property's quantifier: a feature is a column of
every interaction).  `itemgetter(k)` on a window row that lacks a potential column raises `IndexError` (for one key inside
`_get_shift_and_scale`, whose handler does not catch it; for several keys in `zip(*map(itemgetter(*keys),…))`), and
`context[i]` raises it on ANY row lacking a column that got parameters.  Longer rows keep their extra cells. -/
def scaleDenseE (sd : List Rat → Rat) (cfg : Cfg) (rows : List (List Val)) : Except ScaleErr (List (List Val)) :=
  match rows with
  | [] => .ok []
  | first :: _ =>
    let win := window cfg.usingN rows
    if win.any (fun r => (potKeys first).any (fun k => decide (r.length ≤ k))) then .error .indexError
    else if !denseZeroWindow cfg rows &&
        rows.any (fun r => ((potKeys first).filter (fun k => (fit sd cfg (col k win)).isSome)).any (fun k => decide (r.length ≤ k)))
      then .error .indexError
    else .ok (scaleDenseFull sd cfg rows)

/-! #### option tables: the accepted option strings and what they dispatch to -/

def shiftNames : List String := ["min", "mean", "med", "median"]
def scaleNames : List String := ["minmax", "std", "iqr", "maxabs"]
def statNames : List String := ["mean", "median", "mode"]

/-- the `shift` option strings (`"med"` is a synonym of `"median"`) -/
def shiftOfName (s : String) : Option Shift :=
  if s = "min" then some .min else if s = "mean" then some .mean
  else if s = "med" then some .median else if s = "median" then some .median else none

def sclOfName (s : String) : Option Scl :=
  if s = "minmax" then some .minmax else if s = "std" then some .std
  else if s = "iqr" then some .iqr else if s = "maxabs" then some .maxabs else none

def statOfName (s : String) : Option Stat :=
  if s = "mean" then some .mean else if s = "median" then some .median else if s = "mode" then some .mode else none

/-- the functions `_shift_value` calls for a statistic (sorted names) -/
def shiftCalls : Shift → List String
  | .num _ => [] | .min => ["min"] | .mean => ["fmean"] | .median => ["median"]

/-- the functions called for the denominator in `_scale_value` (sorted names) -/
def sclCalls : Scl → List String
  | .num _ => [] | .minmax => ["max", "min"] | .std => ["stdev"] | .iqr => ["iqr"] | .maxabs => ["abs", "max"]

/-- the functions `_get_imputation` calls (sorted names) -/
def statCalls : Stat → List String
  | .mean => ["len", "sum"] | .median => ["median"] | .mode => ["mode"]

/-- the model's dispatch tables in the form the translator extracts them from the source -/
def shiftTable : List (String × List String) := shiftNames.filterMap (fun n => (shiftOfName n).map (fun s => (n, shiftCalls s)))
def sclTable : List (String × List String) := scaleNames.filterMap (fun n => (sclOfName n).map (fun s => (n, sclCalls s)))
def statTable : List (String × List String) := statNames.filterMap (fun n => (statOfName n).map (fun s => (n, statCalls s)))

/-- the degenerate-feature threshold `.000001` -/
def guardThreshold : Rat := 1 / 1000000

/-! ### phase 4 (continued): the column decision, and the square root `statistics.stdev` computes -/

/-- the condition under which the statistics raise `TypeError` -/
def TypeErrCond (cfg : Cfg) (w : List Val) : Prop :=
  w.any Val.isStr = true ∧
    ¬ ∃ a, cfg.shift = .num a ∧ ((∃ b, cfg.scale = .num b) ∨ (cfg.scale = .iqr ∧ presentCount w ≤ 1))

/-- … plain `ValueError` -/
def ValueErrCond (cfg : Cfg) (w : List Val) : Prop :=
  w.any Val.isStr = false ∧ nums w = [] ∧
    (cfg.shift = .min ∨ ((∃ a, cfg.shift = .num a) ∧ (cfg.scale = .minmax ∨ cfg.scale = .maxabs)))

/-- … `StatisticsError` -/
def StatErrCond (cfg : Cfg) (w : List Val) : Prop :=
  w.any Val.isStr = false ∧
    ((nums w = [] ∧ (cfg.shift = .mean ∨ cfg.shift = .median)) ∨
     (((∃ a, cfg.shift = .num a) ∨ nums w ≠ []) ∧ cfg.scale = .std ∧ (nums w).length < 2))

/-- the real decision procedure of the dense path for column `k`: potential key from the FIRST context, parameters from the
window column -/
def denseDecision (sd : List Rat → Rat) (cfg : Cfg) (first : List Val) (win : List (List Val)) (k : Nat) : Option (Rat × Rat) :=
  if potDense first k then fit sd cfg (col k win) else none

def sparseDecision (sd : List Rat → Rat) (cfg : Cfg) (first : SCtx) (win : List SCtx) (k : String) : Option (Rat × Rat) :=
  if potSparse first k then fit sd cfg (win.map (getD0 k)) else none

/-- `int.bit_length()`, `statistics._integer_sqrt_of_frac_rto` (`a = isqrt(n // m); a | (a*a*m != n)`), the scaling shift `q` of
`statistics._float_sqrt_of_frac` (`_sqrt_bit_width = 109`) and its `(numerator, denominator)` BEFORE the final, correctly rounded
`numerator / denominator`; `pySd` = that quotient for the exact sample variance (what `stdev` returns up to the final rounding) -/
def bitLength (n : Nat) : Nat := if n = 0 then 0 else Nat.log2 n + 1
def isqrtRto (n m : Nat) : Nat := if Nat.sqrt (n / m) * Nat.sqrt (n / m) * m ≠ n then Nat.sqrt (n / m) ||| 1 else Nat.sqrt (n / m)
def pySqrtShift (n m : Nat) : Int := ((bitLength n : Int) - (bitLength m : Int) - 109) / 2
def pySqrtFrac (n m : Nat) : Nat × Nat :=
  if 0 ≤ pySqrtShift n m then (isqrtRto n (m <<< (2 * (pySqrtShift n m).toNat)) <<< (pySqrtShift n m).toNat, 1)
  else (isqrtRto (n <<< (2 * (-(pySqrtShift n m)).toNat)) m, 1 <<< (-(pySqrtShift n m)).toNat)
def pySd (xs : List Rat) : Rat :=
  ((pySqrtFrac (variance xs).num.toNat (variance xs).den).1 : Rat) / ((pySqrtFrac (variance xs).num.toNat (variance xs).den).2 : Rat)

/-! ### phase 5 — quartile ranks in natural-number arithmetic -/

/-- the value `percentile` returns at a quarter `q/4` (`q` = 1, 3) of sorted data, said with natural-number rank arithmetic
only: `k = q·(n−1)`, rank `k / 4`, remainder `k % 4`; remainder 0 → the value at the rank, otherwise the two neighbours
weighted by `1 − r/4` and `r/4` (`percentile_quarter`) -/
def quarterAt (s : List Rat) (q : Nat) : Option Rat :=
  let k := q * (s.length - 1)
  if k % 4 = 0 then s[k / 4]?
  else match s[k / 4]?, s[k / 4 + 1]? with
    | some a, some b => some ((1 - ((k % 4 : Nat) : Rat) / 4) * a + ((k % 4 : Nat) : Rat) / 4 * b)
    | _, _ => none

/-! ### phase 5 — the statistic bodies as expression programs (extracted from the Python source by the harness) -/

/-- arithmetic expressions over one list `values`: literals, (normalised) local names, `len(values)`, `sum(values)`,
`values[e]`, `+ - * /`, `int(e)` -/
inductive PExpr where
  | lit (q : Rat) | var (x : String) | lenV | sumV
  | idx (i : PExpr)
  | add (a b : PExpr) | sub (a b : PExpr) | mul (a b : PExpr) | div (a b : PExpr)
  | toInt (a : PExpr)
  deriving DecidableEq, Repr

/-- Python list indexing with an integral index: `values[k]`, `values[-k]` (`none` = `IndexError`) -/
def pyIndex (s : List Rat) (r : Rat) : Option Rat :=
  if r < 0 then (if (-r).floor.toNat ≤ s.length then s[s.length - (-r).floor.toNat]? else none) else s[r.floor.toNat]?

/-- Python `int(x)`: truncation towards zero -/
def pyInt (r : Rat) : Rat := if 0 ≤ r then (r.floor : Rat) else -(((-r).floor : Int) : Rat)

def PExpr.eval (env : List (String × Rat)) (s : List Rat) : PExpr → Option Rat
  | .lit q => some q
  | .var x => env.lookup x
  | .lenV => some (s.length : Rat)
  | .sumV => some (sumL s)
  | .idx i => (eval env s i).bind (pyIndex s)
  | .add a b => (eval env s a).bind (fun x => (eval env s b).map (fun y => x + y))
  | .sub a b => (eval env s a).bind (fun x => (eval env s b).map (fun y => x - y))
  | .mul a b => (eval env s a).bind (fun x => (eval env s b).map (fun y => x * y))
  | .div a b => (eval env s a).bind (fun x => (eval env s b).bind (fun y => if y = 0 then none else some (x / y)))
  | .toInt a => (eval env s a).map pyInt

/-- the unweighted body of `coba.statistics.percentile` / `_percentile`: the three early returns and the assignments
`i = …; I = …; w = …` with the two returned expressions.  Names: `$p` the percentile, `%0 %1 %2` the locals in order of assignment -/
structure PctProg where
  single : PExpr
  atZero : PExpr
  atOne : PExpr
  i : PExpr
  I : PExpr
  exact : PExpr
  w : PExpr
  interp : PExpr
  deriving DecidableEq, Repr

def PctProg.run (g : PctProg) (s : List Rat) (p : Rat) : Option Rat :=
  if s.length = 1 then g.single.eval [] s
  else if p = 0 then g.atZero.eval [] s
  else if p = 1 then g.atOne.eval [] s
  else (g.i.eval [("$p", p)] s).bind (fun i => (g.I.eval [("%0", i), ("$p", p)] s).bind (fun I =>
    if i = I then g.exact.eval [("%1", I), ("%0", i), ("$p", p)] s
    else (g.w.eval [("%1", I), ("%0", i), ("$p", p)] s).bind (fun w => g.interp.eval [("%2", w), ("%1", I), ("%0", i), ("$p", p)] s)))

/-- the program the model's `percentile` is (`percentile_program`) -/
def pctProg : PctProg :=
  { single := .idx (.lit 0), atZero := .idx (.lit 0), atOne := .idx (.lit (-1)),
    i := .mul (.var "$p") (.sub .lenV (.lit 1)),
    I := .toInt (.var "%0"),
    exact := .idx (.var "%1"),
    w := .sub (.var "%0") (.var "%1"),
    interp := .add (.mul (.sub (.lit 1) (.var "%2")) (.idx (.var "%1"))) (.mul (.var "%2") (.idx (.add (.var "%1") (.lit 1)))) }

def optAll : List (Option Rat) → Option (List Rat)
  | [] => some []
  | none :: _ => none
  | some a :: l => (optAll l).map (a :: ·)

/-- the body of `coba.statistics.iqr`: `if len(values) <= thr: return small`, the percentiles asked of the sorted values, the
(normalised) names they are bound to and the returned expression -/
structure IqrProg where
  thr : Nat
  small : Rat
  ps : List Rat
  names : List String
  ret : PExpr
  deriving DecidableEq, Repr

def IqrProg.run (g : IqrProg) (xs : List Rat) : Option Rat :=
  if xs.length ≤ g.thr then some g.small
  else (optAll (g.ps.map (percentile (isort xs)))).bind (fun vs => g.ret.eval (g.names.zip vs) [])

def iqrProg : IqrProg := ⟨1, 0, [1 / 4, 3 / 4], ["%0", "%1"], .sub (.var "%1") (.var "%0")⟩

/-- `(x + shift) * scale` — the expression all three application loops of `Scale.filter` assign -/
def applyExpr : PExpr := .mul (.add (.var "x") (.var "shift")) (.var "scale")

/-- `sum(values)/len(values)` — `Impute._get_imputation` for `"mean"` -/
def meanExpr : PExpr := .div .sumV .lenV

/-! ### phase 6 — generators: partial, abandoned and interleaved reads

`Scale.filter` / `Impute.filter` are generator functions, and `envs[i].read()` chains such generators.  Calling them runs
NOTHING; the first `next` runs the body up to its first `yield` (the fitting window is read, the parameters become
LOCAL variables of that frame — nothing fitted is stored on the shared filter object, only `_times` bookkeeping);
each later `next` yields one more interaction; `close()` abandons the frame.  A history is any list of `open`, `next`,
`close` over any number of generators created from the SAME object(s).  `generator_histories` (Props) says that every
yielded interaction is the corresponding element of the result of that generator's own sequence, whatever was
opened, advanced, abandoned or re-opened in between. -/

/-- the context of one yielded interaction -/
inductive Row where
  | dense (r : List Val)
  | sparse (r : SCtx)
  | scalar (v : Val)
  deriving Repr

def Ctxs.rowList : Ctxs → List Row
  | .dense rows => rows.map .dense
  | .sparse rows => rows.map .sparse
  | .scalar rows => rows.map .scalar

/-- a generator object -/
inductive Gen where
  | fresh (src : Ctxs)          -- created; no statement of the body has run
  | running (rest : List Row)   -- suspended at a `yield`: what the frame will still yield
  | done                        -- exhausted, closed, or ended by an exception
  deriving Repr

inductive GenOp where
  | openG (src : Nat)           -- `obj.filter(seq[src])` / `envs[src].read()`: generators are numbered in order of creation
  | next (g : Nat)
  | close (g : Nat)
  deriving Repr

inductive GenOut where
  | opened
  | nosrc
  | nogen
  | item (r : Row)
  | stop                        -- StopIteration
  | raised (e : Err)
  | closed
  deriving Repr

/-- the shared filter objects of the pipeline and all generators created so far -/
structure GenSt (κ : Type) where
  objs : List (Obj κ)
  gens : List Gen

def GenSt.step {κ : Type} (f : κ → Ctxs → Except Err Ctxs) (srcs : List Ctxs) (s : GenSt κ) (dt : List Nat) :
    GenOp → GenSt κ × GenOut
  | .openG i =>
    match srcs[i]? with
    | none => (s, .nosrc)
    | some src => ({ s with gens := s.gens ++ [.fresh src] }, .opened)
  | .close g =>
    match s.gens[g]? with
    | none => (s, .nogen)
    | some _ => ({ s with gens := s.gens.set g .done }, .closed)
  | .next g =>
    match s.gens[g]? with
    | none => (s, .nogen)
    | some .done => (s, .stop)
    | some (.running []) => ({ s with gens := s.gens.set g .done }, .stop)
    | some (.running (r :: rest)) => ({ s with gens := s.gens.set g (.running rest) }, .item r)
    | some (.fresh src) =>
      let p := pipeRun f dt s.objs (.ok src)
      match p.2 with
      | .error e => ({ objs := p.1, gens := s.gens.set g .done }, .raised e)
      | .ok c =>
        match c.rowList with
        | [] => ({ objs := p.1, gens := s.gens.set g .done }, .stop)
        | r :: rest => ({ objs := p.1, gens := s.gens.set g (.running rest) }, .item r)

def GenSt.run {κ : Type} (f : κ → Ctxs → Except Err Ctxs) (srcs : List Ctxs) :
    GenSt κ → List (List Nat × GenOp) → GenSt κ × List GenOut
  | s, [] => (s, [])
  | s, (dt, op) :: rest =>
    let r1 := s.step f srcs dt op
    let r2 := GenSt.run f srcs r1.1 rest
    (r2.1, r1.2 :: r2.2)

/-- specification of a generator: a cursor into the FIXED result of its own sequence (`none` = finished) -/
structure Cur where
  src : Ctxs
  pos : Option Nat
  deriving Repr

/-- the cursor machine: `F src` is the whole result of sequence `src`; no shared state at all -/
def curStep (F : Ctxs → Except Err (List Row)) (srcs : List Ctxs) (cs : List Cur) : GenOp → List Cur × GenOut
  | .openG i =>
    match srcs[i]? with
    | none => (cs, .nosrc)
    | some src => (cs ++ [⟨src, some 0⟩], .opened)
  | .close g =>
    match cs[g]? with
    | none => (cs, .nogen)
    | some c => (cs.set g ⟨c.src, none⟩, .closed)
  | .next g =>
    match cs[g]? with
    | none => (cs, .nogen)
    | some ⟨_, none⟩ => (cs, .stop)
    | some ⟨src, some k⟩ =>
      match F src with
      -- an exception can only leave the FIRST `next` (it ends the frame); `k > 0` with an error is unreachable
      | .error e => (cs.set g ⟨src, none⟩, if k = 0 then .raised e else .stop)
      | .ok rows =>
        match rows[k]? with
        | none => (cs.set g ⟨src, none⟩, .stop)
        | some r => (cs.set g ⟨src, some (k + 1)⟩, .item r)

def curRun (F : Ctxs → Except Err (List Row)) (srcs : List Ctxs) : List Cur → List GenOp → List Cur × List GenOut
  | cs, [] => (cs, [])
  | cs, op :: rest =>
    let r1 := curStep F srcs cs op
    let r2 := curRun F srcs r1.1 rest
    (r2.1, r1.2 :: r2.2)

/-- the result list of a sequence under a pipeline of filter configurations -/
def pipeRows {κ : Type} (f : κ → Ctxs → Except Err Ctxs) (cfgs : List κ) (src : Ctxs) : Except Err (List Row) :=
  (pipe f cfgs (.ok src)).map Ctxs.rowList

/-- the generator that a cursor stands for -/
def Cur.conc (F : Ctxs → Except Err (List Row)) : Cur → Gen
  | ⟨_, none⟩ => .done
  | ⟨src, some 0⟩ => .fresh src
  | ⟨src, some (k + 1)⟩ =>
    match F src with
    | .error _ => .done
    | .ok rows => .running (rows.drop (k + 1))

end Coba.C11
