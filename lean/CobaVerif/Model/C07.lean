/-
C07 — model of the result log: `coba/utilities.py minimize`, `coba/results/core.py`
`TransactionEncode` / `TransactionDecode` / `TransactionResult`, and the two routes of
`coba/experiments/core.py Experiment.run`.  Import-free (core Lean only).

Conventions
* A Python value is a `Val`; ints and finite floats are kept apart (`int`, `flt q` with `q` the
  exact value of the double) because `minimize` rounds floats only.  Numbers are *compared* by
  value on the harness side (Python `1 == 1.0`).
* The JSON text layer (`json.dumps` / `json.loads`, file write/read, gzip) is trusted to be the
  identity on values modulo tuple→list and key→string; `jsonify` is that value-level effect.
  A log line therefore is a typed record `Rec` instead of text.
* `TransactionEncode` is modelled twice: `packAsIs` mirrors the code at the pinned commit
  (`sorted(set().union(keys),key=str)` + `rows_T[str(key)].append(row.get(key))`), `pack` mirrors the
  repaired code of `fixes/C07-str-key-collision.diff` (keys are stringified first).  They agree
  whenever `str` is injective on the keys of the transaction.
* `TransactionResult`'s list→tuple conversion is modelled twice as well: `tupleColsFirstRow` (pinned
  commit: decided by the first row of a column) and `tupleColsPerCell` (`fixes/C07-tuple-per-cell.diff`).
-/
namespace Coba.C07

/-! ### keys and values -/

/-- dictionary keys; `other` carries Python's `str(k)` (= `repr`) for float and tuple keys -/
inductive Key where
  | str (s : String) | int (i : Int) | bool (b : Bool) | none | other (repr : String)
  deriving DecidableEq, Repr, Inhabited

/-- Python `str(k)` — what `TransactionEncode` uses for the field names of interaction rows -/
def Key.pystr : Key → String
  | .str s => s | .int i => toString i | .bool true => "True" | .bool false => "False"
  | .none => "None" | .other r => r

/-- the key `json.dumps` writes — used for params dictionaries and nested dictionaries -/
def Key.json : Key → String
  | .str s => s | .int i => toString i | .bool true => "true" | .bool false => "false"
  | .none => "null" | .other r => r

inductive Val where
  | none | bool (b : Bool) | int (i : Int) | flt (q : Rat) | nan | inf (neg : Bool)
  | str (s : String) | list (xs : List Val) | tup (xs : List Val) | dict (kvs : List (Key × Val))
  | reward (name : String) (state : Val)   -- a coba reward object: registered name + `__getstate__()`
  deriving Repr, Inhabited

abbrev PyDict := List (Key × Val)
/-- a JSON object / table row after reading back: string keys -/
abbrev Row := List (String × Val)

/-! ### float rounding `round(v*P)/P` with `P = 10^5` -/

/-- round half to even, Python `round(x)` on the exact value -/
def rhe (x : Rat) : Int :=
  let f := x.floor
  let d := x - (f : Rat)
  if d < 1/2 then f else if 1/2 < d then f + 1 else if f % 2 = 0 then f else f + 1

def pow2 (e : Int) : Rat := if 0 ≤ e then ((2 ^ e.toNat : Nat) : Rat) else 1 / ((2 ^ (-e).toNat : Nat) : Rat)

def absR (x : Rat) : Rat := if x < 0 then -x else x

/-- `floor(log2 |x|)` for `x ≠ 0` -/
def expo (x : Rat) : Int :=
  let e0 : Int := (Nat.log2 x.num.natAbs : Int) - (Nat.log2 x.den : Int)
  if pow2 e0 ≤ absR x then e0 else e0 - 1

/-- round to 53 significant bits (ties to even) given the binary exponent `e` -/
def flCore (x : Rat) (e : Int) : Rat := (rhe (x * pow2 (52 - e)) : Rat) / pow2 (52 - e)

/-- nearest binary64 (ties to even) of a rational in the normal range: the double product `v*P` -/
def fl (x : Rat) : Rat := if x = 0 then 0 else flCore x (expo x)

/-- `round(v*10**5)/10**5` for a non-integral finite double `v`; the result stands for the double
nearest to the decimal `k/10^5` (which `json` prints as that decimal) -/
def round5 (q : Rat) : Rat := (rhe (fl (q * 100000)) : Rat) / 100000

/-! ### `minimize` (all depths) -/

def minFlt (rnd : Rat → Rat) (q : Rat) : Val :=
  if q.den = 1 then .int q.num else (if (rnd q).den = 1 then .int (rnd q).num else .flt (rnd q))

mutual
/-- `coba.utilities.minimize`: integral floats → int, other finite floats → `rnd`, tuples → lists,
recursively through lists, tuples and dict values; NaN/±inf and everything else unchanged -/
def minimize (rnd : Rat → Rat) : Val → Val
  | .flt q => minFlt rnd q
  | .list xs => .list (minimizeL rnd xs)
  | .tup xs => .list (minimizeL rnd xs)
  | .dict kvs => .dict (minimizeD rnd kvs)
  | .none => .none | .bool b => .bool b | .int i => .int i | .nan => .nan | .inf n => .inf n | .str s => .str s
  | .reward n st => .reward n st     -- not a float/list/tuple/dict: untouched, also its state
def minimizeL (rnd : Rat → Rat) : List Val → List Val
  | [] => []
  | x :: xs => minimize rnd x :: minimizeL rnd xs
def minimizeD (rnd : Rat → Rat) : PyDict → PyDict
  | [] => []
  | (k, v) :: kvs => (k, minimize rnd v) :: minimizeD rnd kvs
end

mutual
/-- the finite float leaves of a value -/
def fltLeaves : Val → List Rat
  | .flt q => [q]
  | .list xs => fltLeavesL xs
  | .tup xs => fltLeavesL xs
  | .dict kvs => fltLeavesD kvs
  | .none => [] | .bool _ => [] | .int _ => [] | .nan => [] | .inf _ => [] | .str _ => [] | .reward _ _ => []
def fltLeavesL : List Val → List Rat
  | [] => []
  | x :: xs => fltLeaves x ++ fltLeavesL xs
def fltLeavesD : PyDict → List Rat
  | [] => []
  | (_, v) :: kvs => fltLeaves v ++ fltLeavesD kvs
end

/-! ### the value-level effect of `json.loads ∘ json.dumps` -/

mutual
def jsonify : Val → Val
  | .list xs => .list (jsonifyL xs)
  | .tup xs => .list (jsonifyL xs)
  | .dict kvs => .dict (jsonifyD kvs)
  | .none => .none | .bool b => .bool b | .int i => .int i | .flt q => .flt q | .nan => .nan | .inf n => .inf n
  | .str s => .str s
  | .reward n st => .dict [(.str n, jsonify st)]   -- `coba.json` default hook: `{registered name: __getstate__()}`
def jsonifyL : List Val → List Val
  | [] => []
  | x :: xs => jsonify x :: jsonifyL xs
def jsonifyD : PyDict → PyDict
  | [] => []
  | (k, v) :: kvs => (.str k.json, jsonify v) :: jsonifyD kvs
end

/-- what is written and read back for one value: `json.loads(coba.json.dumps(minimize(v)))` -/
def wire (rnd : Rat → Rat) (v : Val) : Val := jsonify (minimize rnd v)

/-- a params dictionary on the wire: string keys (json coercion), values through `wire` -/
def wireDict (rnd : Rat → Rat) : PyDict → Row
  | [] => []
  | (k, v) :: kvs => (k.json, wire rnd v) :: wireDict rnd kvs

/-! ### transactions and log records -/

inductive Tx where
  | t0 (info : PyDict)
  | t1 (id : Int) (params : PyDict)
  | t2 (id : Int) (params : PyDict)
  | t3 (id : Int) (params : PyDict)
  | t4 (ids : List Int) (rows : List PyDict)
  deriving Repr, Inhabited

inductive Tbl where | E | L | V
  deriving DecidableEq, Repr, Inhabited

/-- a decoded log line -/
inductive Rec where
  | version (n : Int)
  | experiment (d : Row)
  | comp (t : Tbl) (id : Int) (params : Row)
  | inter (ids : List Int) (packed : List (String × List Val)) (n : Nat)   -- `n` = the `_n` entry (0: absent)
  deriving Repr, Inhabited

/-! ### `TransactionEncode`: column packing -/

/-- insert into a strictly sorted list of strings, dropping duplicates -/
def insertStr (s : String) : List String → List String
  | [] => [s]
  | t :: ts => if s < t then s :: t :: ts else if s = t then t :: ts else t :: insertStr s ts

def sortDedup (l : List String) : List String := l.foldr insertStr []

/-- the last value stored under a key whose `str` is `s` (dict comprehension `{str(k):v …}`) -/
def lookupLast (s : String) : PyDict → Option Val
  | [] => none
  | (k, v) :: r => match lookupLast s r with
    | some w => some w
    | none => if k.pystr = s then some v else none

def rowStrs (row : PyDict) : List String := row.map (fun kv => kv.1.pystr)

/-- sorted distinct stringified field names of all rows -/
def strKeys (rows : List PyDict) : List String := sortDedup (rows.flatMap rowStrs)

def cellOf (s : String) (row : PyDict) : Val :=
  match lookupLast s row with | some v => v | none => .none

/-- repaired packing: one column per distinct `str(key)`, one cell per row (`row.get(key,None)`) -/
def packWith (keys : List String) (rows : List PyDict) : List (String × List Val) :=
  keys.map (fun s => (s, rows.map (cellOf s)))

def pack (rows : List PyDict) : List (String × List Val) := packWith (strKeys rows) rows

/-! pinned-commit packing -/

def insertKey (k : Key) (ks : List Key) : List Key := if ks.contains k then ks else ks ++ [k]
/-- union of the rows' key sets (order of first occurrence; the order Python's `set` yields is
irrelevant whenever `str` is injective on it, because the list is sorted by `str` next) -/
def unionKeys (rows : List PyDict) : List Key :=
  (rows.flatMap (fun r => r.map (·.1))).foldl (fun acc k => insertKey k acc) []

/-- stable insertion sort by `str` -/
def insertByStr (k : Key) : List Key → List Key
  | [] => [k]
  | t :: ts => if t.pystr < k.pystr then t :: insertByStr k ts else k :: t :: ts
def sortByStr (ks : List Key) : List Key := ks.foldr insertByStr []

def rowGet (k : Key) (row : PyDict) : Val :=
  match row.lookup k with | some v => v | none => .none

/-- distinct members in order of first occurrence (insertion order of the `defaultdict`) -/
def dedupFirst : List String → List String
  | [] => []
  | s :: ss => s :: (dedupFirst ss).filter (fun t => t != s)

/-- `for row in rows: for key in keys: rows_T[str(key)].append(row.get(key))` -/
def packAsIs (rows : List PyDict) : List (String × List Val) :=
  let ks := sortByStr (unionKeys rows)
  let ss := dedupFirst (ks.map Key.pystr)
  ss.map (fun s => (s, rows.flatMap (fun row => (ks.filter (fun k => k.pystr = s)).map (fun k => rowGet k row))))

/-- `str` is injective on the keys of the transaction -/
def NoStrCollision (rows : List PyDict) : Prop :=
  ∀ k₁ ∈ unionKeys rows, ∀ k₂ ∈ unionKeys rows, k₁.pystr = k₂.pystr → k₁ = k₂

def noStrCollisionB (rows : List PyDict) : Bool :=
  let ks := unionKeys rows
  ks.all (fun k₁ => ks.all (fun k₂ => k₁.pystr != k₂.pystr || k₁ == k₂))

/-- cells of a packed column on the wire -/
def wireCols (rnd : Rat → Rat) (cols : List (String × List Val)) : List (String × List Val) :=
  cols.map (fun c => (c.1, c.2.map (wire rnd)))

/-- `fixed = true`: repaired `TransactionEncode`; `false`: pinned commit -/
def encodeTx (rnd : Rat → Rat) (fixed : Bool) : Tx → Rec
  | .t0 m => .experiment (wireDict rnd m)
  | .t1 id p => .comp .E id (wireDict rnd p)
  | .t2 id p => .comp .L id (wireDict rnd p)
  | .t3 id p => .comp .V id (wireDict rnd p)
  | .t4 ids rows =>
    let cols := wireCols rnd (if fixed then pack rows else packAsIs rows)
    -- `fixes/C07-rows-without-fields.diff`: rows without any field leave no column, their number is recorded as `_n`
    .inter ids cols (if cols.isEmpty then rows.length else 0)

/-- `TransactionEncode(restored).filter`: the version line is written by fresh runs only -/
def encode (rnd : Rat → Rat) (fixed : Bool) (restored : Bool) (txs : List Tx) : List Rec :=
  (if restored then [] else [Rec.version 4]) ++ txs.map (encodeTx rnd fixed)

/-! ### `TransactionResult` -/

inductive Err where
  | stopIteration      -- empty log: `next(transactions)` on nothing
  | cobaException      -- malformed first line
  | typeError          -- `tuple(x)` on a non-iterable cell (pinned commit, first-row decision)
  | valueError         -- an id list that is not a pair or a triple
  deriving DecidableEq, Repr, Inhabited

/-- `tuple(v) if isinstance(v,list) else v` -/
def tupTop : Val → Val
  | .list xs => .tup xs
  | v => v

def isList : Val → Bool
  | .list _ => true
  | _ => false

/-- Python `tuple(v)` on a JSON value -/
def pyTuple : Val → Except Err Val
  | .list xs => .ok (.tup xs)
  | .str s => .ok (.tup (s.toList.map (fun c => Val.str (String.singleton c))))
  | .dict kvs => .ok (.tup (kvs.map (fun kv => Val.str kv.1.pystr)))
  | .tup xs => .ok (.tup xs)
  | _ => .error .typeError

def mapTuple : List Val → Except Err (List Val)
  | [] => .ok []
  | v :: vs => match pyTuple v, mapTuple vs with
    | .ok t, .ok ts => .ok (t :: ts)
    | .error e, _ => .error e
    | _, .error e => .error e

/-- pinned commit: `{k: list(map(tuple,v)) if k != 'rewards' and isinstance(v[0],list) else v}` -/
def tupleColsFirstRow : List (String × List Val) → Except Err (List (String × List Val))
  | [] => .ok []
  | (k, col) :: cs =>
    let here : Except Err (List Val) :=
      if k = "rewards" then .ok col else
      match col with
      | [] => .ok col        -- never produced by the encoder (`v[0]` would raise IndexError)
      | c0 :: _ => if isList c0 then mapTuple col else .ok col
    match here, tupleColsFirstRow cs with
    | .ok col', .ok cs' => .ok ((k, col') :: cs')
    | .error e, _ => .error e
    | _, .error e => .error e

/-- repaired: `{k: [tuple(c) if isinstance(c,list) else c for c in v] if k != 'rewards' else v}` -/
def tupleColsPerCell (cols : List (String × List Val)) : List (String × List Val) :=
  cols.map (fun c => (c.1, if c.1 = "rewards" then c.2 else c.2.map tupTop))

def tupleCols (fixed : Bool) (cols : List (String × List Val)) : Except Err (List (String × List Val)) :=
  if fixed then .ok (tupleColsPerCell cols) else tupleColsFirstRow cols

/-- the columns `TransactionResult` itself writes; a field with one of these names is overwritten -/
def idCols : List String := ["environment_id", "learner_id", "evaluator_id", "index"]

def heads (cols : List (String × List Val)) : Row := cols.map (fun c => (c.1, c.2.headD .none))
def tails (cols : List (String × List Val)) : List (String × List Val) := cols.map (fun c => (c.1, c.2.tail))

/-- the rows of a column-wise table with `n` rows (`Table.insert` of a mapping of columns, read row-wise) -/
def unpackN : Nat → List (String × List Val) → List Row
  | 0, _ => []
  | n+1, cols => heads cols :: unpackN n (tails cols)

def idCells (e l v : Int) (i : Nat) : Row :=
  [("environment_id", .int e), ("learner_id", .int l), ("evaluator_id", .int v), ("index", .int i)]

/-- prepend the id columns, numbering from `i` -/
def number (e l v : Int) : Nat → List Row → List Row
  | _, [] => []
  | i, r :: rs => (idCells e l v i ++ r) :: number e l v (i+1) rs

def firstLen : List (String × List Val) → Nat
  | [] => 0
  | c :: _ => c.2.length

/-- the table rows of one `["I", ids, {"_packed": cols}]` record -/
def triRows (fixed : Bool) (e l v : Int) (cols : List (String × List Val)) (n : Nat) : Except Err (List Row) :=
  if cols.isEmpty then .ok (number e l v 1 (List.replicate n [])) else
  match tupleCols fixed cols with
  | .error err => .error err
  | .ok cols' =>
    let n := firstLen cols'
    .ok (number e l v 1 (unpackN n (cols'.filter (fun c => !idCols.contains c.1))))

/-- `d[k] = v` on an insertion-ordered dictionary -/
def upsert {α β} [DecidableEq α] (k : α) (v : β) : List (α × β) → List (α × β)
  | [] => [(k, v)]
  | (k', v') :: r => if k' = k then (k', v) :: r else (k', v') :: upsert k v r

/-- `d.update(r)` -/
def update (d : Row) (r : Row) : Row := r.foldl (fun acc kv => upsert kv.1 kv.2 acc) d

def ltIds : List Int → List Int → Bool
  | [], [] => false
  | [], _ :: _ => true
  | _ :: _, [] => false
  | a :: as, b :: bs => if a < b then true else if b < a then false else ltIds as bs

def insertBy {α} (lt : α → α → Bool) (x : α) : List α → List α
  | [] => [x]
  | y :: ys => if lt x y then x :: y :: ys else y :: insertBy lt x ys
/-- `sorted(d.items())` for distinct keys -/
def sortBy {α} (lt : α → α → Bool) (l : List α) : List α := l.foldr (insertBy lt) []

/-- the records of table `t`, in log order -/
def compsOf (t : Tbl) : List Rec → List (Int × Row)
  | [] => []
  | .comp t' id p :: rs => if t' = t then (id, p) :: compsOf t rs else compsOf t rs
  | .version _ :: rs => compsOf t rs
  | .experiment _ :: rs => compsOf t rs
  | .inter _ _ _ :: rs => compsOf t rs

/-- `rows[id].update(list2tuple(params))` -/
def mergeComp (acc : List (Int × Row)) (ip : Int × Row) : List (Int × Row) :=
  let p' : Row := ip.2.map (fun kv => (kv.1, tupTop kv.2))
  let old : Row := match acc.lookup ip.1 with | some o => o | none => []
  upsert ip.1 (update old p') acc

def ltId (a b : Int × Row) : Bool := decide (a.1 < b.1)

/-- the merged rows of table `t`, `sorted(rows.items())` -/
def compRows (t : Tbl) (recs : List Rec) : List (Int × Row) :=
  sortBy ltId ((compsOf t recs).foldl mergeComp [])

def idColName : Tbl → String
  | .E => "environment_id" | .L => "learner_id" | .V => "evaluator_id"

/-- `{"<t>_id": id, **row}` -/
def compTable (t : Tbl) (recs : List Rec) : List Row :=
  (compRows t recs).map (fun ir => update [(idColName t, .int ir.1)] ir.2)

abbrev Cols := List (String × List Val)

/-- the `{"_packed": cols, "_n": n}` part of an interaction record -/
abbrev Packed := Cols × Nat

def intersOf : List Rec → List (List Int × Packed)
  | [] => []
  | .inter ids cols n :: rs => (ids, (cols, n)) :: intersOf rs
  | .version _ :: rs => intersOf rs
  | .experiment _ :: rs => intersOf rs
  | .comp _ _ _ :: rs => intersOf rs

/-- `int_rows[tuple(ids)] = packed` (pairs are completed with evaluator 0) -/
def mergeInter (acc : List (List Int × Packed)) (ic : List Int × Packed) : List (List Int × Packed) :=
  upsert (if ic.1.length = 2 then ic.1 ++ [0] else ic.1) ic.2 acc

def ltTri (a b : List Int × Packed) : Bool := ltIds a.1 b.1

/-- the interaction records, last one per id triple, `sorted(int_rows.items())` -/
def interRecs (recs : List Rec) : List (List Int × Packed) :=
  sortBy ltTri ((intersOf recs).foldl mergeInter [])

def interTable (fixed : Bool) : List (List Int × Packed) → Except Err (List Row)
  | [] => .ok []
  | (ids, cols, n) :: rest =>
    match ids with
    | [e, l, v] =>
      match triRows fixed e l v cols n, interTable fixed rest with
      | .ok rows, .ok more => .ok (rows ++ more)
      | .error err, _ => .error err
      | _, .error err => .error err
    | _ => .error .valueError

/-- the groups of rows `TransactionResult` hands to `Table.insert` one after the other: one group per
interaction record with a non-empty `_packed` (same computation as `interTable`, not flattened) -/
def interGroups (fixed : Bool) : List (List Int × Packed) → Except Err (List (List Row))
  | [] => .ok []
  | (ids, cols, n) :: rest =>
    match ids with
    | [e, l, v] =>
      match triRows fixed e l v cols n, interGroups fixed rest with
      | .ok rows, .ok more => .ok (if rows.isEmpty then more else rows :: more)
      | .error err, _ => .error err
      | _, .error err => .error err
    | _ => .error .valueError

/-! ### `Table`: column order and padding with `Missing` (what `Table.columns` / `to_dicts()` show) -/

/-- a table as `Table` exposes it: the column names in order and every row as its cells in that order; `none` is
`Missing` (the column does not exist for that row), `some .none` is a stored `None` -/
structure PTable where
  columns : List String
  rows : List (List (Option Val))
  deriving Repr, Inhabited

def rowKeys (r : Row) : List String := r.map (·.1)

/-- `Table.insert`: the columns a group of rows adds — its keys that are not columns yet, sorted -/
def addCols (cols : List String) (g : List Row) : List String :=
  cols ++ sortDedup ((g.flatMap rowKeys).filter (fun k => !cols.contains k))

/-- columns after inserting the groups one after the other into a table created with `init` columns -/
def tableCols (init : List String) (groups : List (List Row)) : List String := groups.foldl addCols init

/-- old rows are padded with `Missing` for new columns, new rows for columns they lack -/
def padTable (init : List String) (groups : List (List Row)) : PTable :=
  let cols := tableCols init groups
  { columns := cols, rows := groups.flatten.map (fun r => cols.map (fun c => r.lookup c)) }

/-- the four tables of `TransactionResult` as `Table` exposes them (`rwd_col` is always empty for version-4 logs:
it looks for a key `reward` beside `_packed`) -/
def tablesOf (fixed : Bool) : List Rec → Except Err (List PTable)
  | .version n :: recs =>
    if n ≠ 4 then .error .stopIteration else
    match interGroups fixed (interRecs recs) with
    | .error e => .error e
    | .ok groups =>
      let one (t : Tbl) : PTable :=
        let rows := compTable t recs
        padTable [idColName t] (if rows.isEmpty then [] else [rows])
      .ok [one .E, one .L, one .V, padTable idCols groups]
  | _ => .error .stopIteration

def lastExperiment (recs : List Rec) : Row :=
  recs.foldl (fun acc r => match r with | .experiment d => d | _ => acc) []

structure Result where
  experiment : Row
  environments : List Row
  learners : List Row
  evaluators : List Row
  interactions : List Row
  deriving Repr, Inhabited

/-- `TransactionResult().filter(TransactionDecode().filter(lines))` -/
def readLog (fixed : Bool) : List Rec → Except Err Result
  | [] => .error .stopIteration
  | .version n :: recs =>
    if n ≠ 4 then .error .stopIteration else   -- `TransactionDecode` yields nothing for other versions
    match interTable fixed (interRecs recs) with
    | .error e => .error e
    | .ok rows => .ok {
        experiment := lastExperiment recs
        environments := compTable .E recs
        learners := compTable .L recs
        evaluators := compTable .V recs
        interactions := rows }
  | _ :: _ => .error .cobaException   -- a first line that is not the version line is never written by coba

/-- the `{"_packed": …, "_n": …}` part the encoder writes for the rows of an evaluation -/
def packedOf (rnd : Rat → Rat) (f : Bool) (rows : List PyDict) : Packed :=
  (wireCols rnd (if f then pack rows else packAsIs rows),
   if (wireCols rnd (if f then pack rows else packAsIs rows)).isEmpty then rows.length else 0)

/-- a log written before `fixes/C07-rows-without-fields.diff`: no record carries `_n` -/
def stripN : List Rec → List Rec
  | [] => []
  | .inter ids cols _ :: rs => .inter ids cols 0 :: stripN rs
  | r :: rs => r :: stripN rs

/-! ### the routes of `Experiment.run` -/

/-- fresh run without a file: `ListSink` collects the encoded lines, `ListSource` replays them -/
def runNoFile (rnd : Rat → Rat) (fe fr : Bool) (info : PyDict) (txs : List Tx) : Except Err Result :=
  readLog fr (encode rnd fe false (.t0 info :: txs))

/-- content of the result file after a run: a fresh run writes version + preamble + transactions, a
restored run appends its transactions (no version line, no preamble) to what is there -/
def fileAfter (rnd : Rat → Rat) (fe : Bool) (info : PyDict) (file : Option (List Rec)) (txs : List Tx) : List Rec :=
  match file with
  | none => encode rnd fe false (.t0 info :: txs)
  | some old => old ++ encode rnd fe true txs

/-- `Experiment.run(file)` returns the Result read from the file it has just written -/
def runFile (rnd : Rat → Rat) (fe fr : Bool) (info : PyDict) (file : Option (List Rec)) (txs : List Tx) : Except Err Result :=
  readLog fr (fileAfter rnd fe info file txs)

/-- `Result.from_file` -/
def fromFile (fr : Bool) (file : List Rec) : Except Err Result := readLog fr file

/-! ### specification: the documented normalisation -/

mutual
/-- nested values: floats rounded (integral ones become ints), every sequence a list, every key a string -/
def normIn (rnd : Rat → Rat) : Val → Val
  | .flt q => minFlt rnd q
  | .list xs => .list (normInL rnd xs)
  | .tup xs => .list (normInL rnd xs)
  | .dict kvs => .dict (normInD rnd kvs)
  | .none => .none | .bool b => .bool b | .int i => .int i | .nan => .nan | .inf n => .inf n | .str s => .str s
  | .reward n st => .dict [(.str n, jsonify st)]   -- registered json form; the state is carried by json as it is (not rounded)
def normInL (rnd : Rat → Rat) : List Val → List Val
  | [] => []
  | x :: xs => normIn rnd x :: normInL rnd xs
def normInD (rnd : Rat → Rat) : PyDict → PyDict
  | [] => []
  | (k, v) :: kvs => (.str k.json, normIn rnd v) :: normInD rnd kvs
end

/-- a table cell: as `normIn`, but a top-level sequence is read back as a tuple -/
def normTop (rnd : Rat → Rat) : Val → Val
  | .list xs => .tup (normInL rnd xs)
  | .tup xs => .tup (normInL rnd xs)
  | v => normIn rnd v

/-- the `rewards` column is exempt from the tuple conversion (explicit in `packed_list2tuple`) -/
def normCell (rnd : Rat → Rat) (col : String) (v : Val) : Val :=
  if col = "rewards" then normIn rnd v else normTop rnd v

/-- an evaluator row as it must appear in the interactions table: every field of the transaction
(`keys`), absent ones as None, names as strings, cells normalised; fields named like an id column
are overwritten by the id columns -/
def normRow (rnd : Rat → Rat) (keys : List String) (row : PyDict) : Row :=
  (keys.filter (fun s => !idCols.contains s)).map (fun s => (s, normCell rnd s (cellOf s row)))

/-- the rows the interactions table must hold for a triple whose evaluator yielded `rows` -/
def specRows (rnd : Rat → Rat) (e l v : Int) (rows : List PyDict) : List Row :=
  number e l v 1 (rows.map (normRow rnd (strKeys rows)))

/-- the `(ids, rows)` of the evaluations in a transaction list, in order -/
def t4sOf : List Tx → List (List Int × List PyDict)
  | [] => []
  | .t4 ids rows :: r => (ids, rows) :: t4sOf r
  | .t0 _ :: r => t4sOf r
  | .t1 _ _ :: r => t4sOf r
  | .t2 _ _ :: r => t4sOf r
  | .t3 _ _ :: r => t4sOf r

/-- the `(id, params)` recorded for table `t` in a transaction list, in order -/
def paramsOf (t : Tbl) : List Tx → List (Int × PyDict)
  | [] => []
  | .t1 id p :: r => if t = .E then (id, p) :: paramsOf t r else paramsOf t r
  | .t2 id p :: r => if t = .L then (id, p) :: paramsOf t r else paramsOf t r
  | .t3 id p :: r => if t = .V then (id, p) :: paramsOf t r else paramsOf t r
  | .t0 _ :: r => paramsOf t r
  | .t4 _ _ :: r => paramsOf t r

def specRowsOf (rnd : Rat → Rat) (ir : List Int × List PyDict) : List Row :=
  match ir.1 with
  | [e, l, v] => specRows rnd e l v ir.2
  | _ => []

/-- a well-formed evaluation record: three ids (phase 2: rows without any field are fine, their number is recorded) -/
def WellFormed (ir : List Int × List PyDict) : Prop := ir.1.length = 3

def ltTriP (a b : List Int × List PyDict) : Bool := ltIds a.1 b.1
def ltIdP (a b : Int × PyDict) : Bool := decide (a.1 < b.1)

/-- keep, for every key, the value of its LAST entry (at the position of its first entry): what a Python dict
holds after `for k,v in l: d[k] = v` -/
def lastWins {α β} [DecidableEq α] (l : List (α × β)) : List (α × β) :=
  l.foldl (fun acc kv => upsert kv.1 kv.2 acc) []

/-- [phase 3] the interactions table of a log in which a triple may be logged more than once: the last record of a
triple counts (`int_rows[ids] = record`), evaluations ordered by their ids -/
def specInteractionsLW (rnd : Rat → Rat) (txs : List Tx) : List Row :=
  (sortBy ltTriP (lastWins (t4sOf txs))).flatMap (specRowsOf rnd)

/-- the interactions table a log of `txs` must produce: the evaluations ordered by their ids, each
with exactly its rows -/
def specInteractions (rnd : Rat → Rat) (txs : List Tx) : List Row :=
  (sortBy ltTriP (t4sOf txs)).flatMap (specRowsOf rnd)

/-- a params dictionary as it must appear in its table -/
def normParams (rnd : Rat → Rat) : PyDict → Row
  | [] => []
  | (k, v) :: kvs => (k.json, normTop rnd v) :: normParams rnd kvs

/-- the params table `t` a log of `txs` must produce -/
def specParams (rnd : Rat → Rat) (t : Tbl) (txs : List Tx) : List Row :=
  (sortBy ltIdP (paramsOf t txs)).map (fun ip => (idColName t, Val.int ip.1) :: normParams rnd ip.2)

/-- every row is a Python dict: no field name twice -/
def RowsNodup (rows : List PyDict) : Prop := ∀ r ∈ rows, (r.map (·.1)).Nodup

/-- [phase 3] the params of one id when it is recorded several times: the dictionaries are merged in log order
(`rows[id].update(params)`: later values win, fields only recorded earlier stay) -/
def unionParams (rnd : Rat → Rat) (id : Int) (ps : List (Int × PyDict)) : Row :=
  (ps.filter (fun ip => ip.1 = id)).foldl (fun acc ip => update acc (normParams rnd ip.2)) []

/-- the transaction list of a run as coba produces it: the preamble is not repeated, every component
and every triple is recorded once, evaluation records are well-formed, params keys stay distinct as
strings and differ from the id column -/
structure CleanRun (txs : List Tx) : Prop where
  noT0 : ∀ m, Tx.t0 m ∉ txs
  wf : ∀ ir ∈ t4sOf txs, WellFormed ir
  triNodup : ((t4sOf txs).map (·.1)).Nodup
  idNodup : ∀ t, ((paramsOf t txs).map (·.1)).Nodup
  keysOk : ∀ t, ∀ ip ∈ paramsOf t txs, (ip.2.map (·.1.json)).Nodup ∧ idColName t ∉ ip.2.map (·.1.json)

/-- the Result the statement demands for a run with preamble `info` and transactions `txs` -/
def specResult (rnd : Rat → Rat) (info : PyDict) (txs : List Tx) : Result where
  experiment := wireDict rnd info
  environments := specParams rnd .E txs
  learners := specParams rnd .L txs
  evaluators := specParams rnd .V txs
  interactions := specInteractions rnd txs

/-- columns in which the first row decides correctly: the pinned commit's `packed_list2tuple` is right
exactly on these -/
def firstRowDecides : List (String × List Val) → Bool
  | [] => true
  | (k, col) :: cs =>
    (k == "rewards" || match col with
      | [] => true
      | c0 :: _ => if isList c0 then col.all isList else col.all (fun c => !isList c))
    && firstRowDecides cs

/-! ### [phase 5] the four tables the statement demands, as `Table` exposes them (column order + `Missing` padding) -/

/-- `Table.insert` is only called for a non-empty list of rows -/
def nonEmptyGroup (rows : List Row) : List (List Row) := if rows.isEmpty then [] else [rows]

/-- the groups of rows inserted into the interactions table: per triple in id order its specified rows; a triple that
yielded no row inserts nothing -/
def specGroups (rnd : Rat → Rat) (txs : List Tx) : List (List Row) :=
  ((sortBy ltTriP (t4sOf txs)).map (specRowsOf rnd)).filter (fun g => !g.isEmpty)

/-- the padded tables (environments, learners, evaluators, interactions) a log of `txs` must show -/
def specTables (rnd : Rat → Rat) (txs : List Tx) : List PTable :=
  [padTable [idColName .E] (nonEmptyGroup (specParams rnd .E txs)),
   padTable [idColName .L] (nonEmptyGroup (specParams rnd .L txs)),
   padTable [idColName .V] (nonEmptyGroup (specParams rnd .V txs)),
   padTable idCols (specGroups rnd txs)]

/-- no element twice -/
def nodupB {α} [DecidableEq α] : List α → Bool
  | [] => true
  | x :: xs => decide (x ∉ xs) && nodupB xs

/-- [phase 5] executable test for `CleanRun` (sound: `cleanRunB_sound`); the driver reports it so that the harness knows on
which cases the clean-run theorems apply -/
def cleanRunB (txs : List Tx) : Bool :=
  txs.all (fun t => match t with | .t0 _ => false | _ => true)
  && (t4sOf txs).all (fun ir => decide (ir.1.length = 3))
  && nodupB ((t4sOf txs).map (·.1))
  && [Tbl.E, Tbl.L, Tbl.V].all (fun t => nodupB ((paramsOf t txs).map (·.1))
      && (paramsOf t txs).all (fun ip => nodupB (ip.2.map (·.1.json)) && decide (idColName t ∉ ip.2.map (·.1.json))))

/-! ### [phase 5] `Result.__init__`: the caches built from `to_dicts()` and the learners' `full_name` -/

/-- the cell of a padded row under column `c` as `to_dicts()` shows it; `none`: `Missing` (or no such column) -/
def cellAt (cols : List String) (cells : List (Option Val)) (c : String) : Option Val :=
  match (cols.zip cells).lookup c with
  | some (some v) => some v
  | _ => none

/-- what `full_name` is made of (the text itself is Python's `str` of these values, rendered by the harness):
`f"{lrn_id}. {family}{params}"`, or `f"{lrn_id}. {family}({args}, seed={seed})"` when `vw` -/
structure FullName where
  id : Val                        -- `value['learner_id']`
  family : Option (Option Val)    -- `value.get('family', lrn_id)`: `none` no such column (→ `lrn_id`), `some none` the cell is `Missing`
  params : List (String × Val)    -- the `k=v` parts, in column order
  vw : Bool                       -- `family == 'vw'` and `args`, `seed` present
  deriving Repr, Inhabited

/-- `[f'{k}={v}' for k,v in value.items() if k and k not in ['family','learner_id'] and v is not Missing]` -/
def nameParams (cols : List String) (get : String → Option Val) : List (String × Val) :=
  cols.filterMap (fun c => if c = "" ∨ c = "family" ∨ c = "learner_id" then none else (get c).map (fun v => (c, v)))

def fullNameOf (cols : List String) (get : String → Option Val) : Option FullName :=
  match get "learner_id" with
  | none => none            -- `value['learner_id']` raises KeyError (never for a table made by TransactionResult)
  | some id => some {
      id := id
      family := if cols.contains "family" then some (get "family") else none
      params := nameParams cols get
      vw := (match get "family" with | some (.str s) => s == "vw" | _ => false) && (get "args").isSome && (get "seed").isSome }

/-- the `full_name` ingredients of every row of the learners table, in table order (`_lrn_cache` is keyed by `learner_id`) -/
def lrnNames (t : PTable) : List (Option FullName) :=
  t.rows.map (fun cells => fullNameOf t.columns (cellAt t.columns cells))

/-! ### [phase 5] the record-writing code of `TransactionEncode` and the record-reading code of `TransactionResult` as tables (tag → shape) -/

/-- one element of a log line after its tag -/
inductive Slot where
  | id (i : Int) | ids (l : List Int) | dict (d : Row) | packed (p : Packed)
  deriving Repr, Inhabited

/-- a log line `[tag, slot, …]` -/
structure Line where
  tag : String
  slots : List Slot
  deriving Repr, Inhabited

def txTag : Tx → String
  | .t0 _ => "T0" | .t1 _ _ => "T1" | .t2 _ _ => "T2" | .t3 _ _ => "T3" | .t4 _ _ => "T4"

/-- what the encoder writes for an element of the list it hands to `encoder`: `item[1]` / `item[2]` (through `minimize` and json) or
`packed` (the column dictionary it has built from `item[2]`) -/
def txSlot (rnd : Rat → Rat) (fixed : Bool) (tx : Tx) (src : String) : Option Slot :=
  match tx with
  | .t0 m => if src = "item[1]" then some (.dict (wireDict rnd m)) else none
  | .t1 id p => if src = "item[1]" then some (.id id) else if src = "item[2]" then some (.dict (wireDict rnd p)) else none
  | .t2 id p => if src = "item[1]" then some (.id id) else if src = "item[2]" then some (.dict (wireDict rnd p)) else none
  | .t3 id p => if src = "item[1]" then some (.id id) else if src = "item[2]" then some (.dict (wireDict rnd p)) else none
  | .t4 ids rows => if src = "item[1]" then some (.ids ids) else if src = "packed" then some (.packed (packedOf rnd fixed rows)) else none

def slotsOf (rnd : Rat → Rat) (fixed : Bool) (tx : Tx) : List String → Option (List Slot)
  | [] => some []
  | s :: ss => match txSlot rnd fixed tx s, slotsOf rnd fixed tx ss with
    | some a, some as => some (a :: as)
    | _, _ => none

/-- transaction tag → (record tag, the elements written after it) -/
abbrev EncTable := List (String × String × List String)
/-- record tag → (the variable the reader stores into, the elements `trx[k]` it reads) -/
abbrev ResTable := List (String × String × List String)

/-- the `if item[0] == T: yield encoder([tag, …])` dispatch of `TransactionEncode.filter`, driven by a table -/
def encodeLine (tbl : EncTable) (rnd : Rat → Rat) (fixed : Bool) (tx : Tx) : Option Line :=
  match tbl.lookup (txTag tx) with
  | none => none                        -- no branch for this transaction: nothing is written
  | some (tag, srcs) => match slotsOf rnd fixed tx srcs with
    | some ss => some { tag := tag, slots := ss }
    | none => none

/-- the `if trx[0] == tag:` dispatch of `TransactionResult.filter`, driven by a table -/
def decodeLine (tbl : ResTable) (l : Line) : Option Rec :=
  match tbl.lookup l.tag with
  | none => none                        -- no branch tests this tag: the line is ignored
  | some (target, srcs) =>
    if srcs = ["trx[1]"] then
      match l.slots with
      | [.dict d] => if target = "exp_dict" then some (.experiment d) else none
      | _ => none
    else if srcs = ["trx[1]", "trx[2]"] then
      match l.slots with
      | [.id i, .dict d] =>
        if target = "env_rows" then some (.comp .E i d) else if target = "lrn_rows" then some (.comp .L i d)
        else if target = "val_rows" then some (.comp .V i d) else none
      | [.ids is, .packed p] => if target = "int_rows" then some (.inter is p.1 p.2) else none
      | _ => none
    else none

def encodeLines (tbl : EncTable) (rnd : Rat → Rat) (fixed : Bool) : List Tx → Option (List Line)
  | [] => some []
  | tx :: txs => match encodeLine tbl rnd fixed tx, encodeLines tbl rnd fixed txs with
    | some l, some ls => some (l :: ls)
    | _, _ => none

def decodeLines (tbl : ResTable) : List Line → Option (List Rec)
  | [] => some []
  | l :: ls => match decodeLine tbl l, decodeLines tbl ls with
    | some r, some rs => some (r :: rs)
    | _, _ => none

/-- the tables the model's `encodeTx` / `Rec` correspond to (proved equal to the ones read off the source: `source_shapes_match`) -/
def modelEncShapes : EncTable :=
  [("T0", "experiment", ["item[1]"]), ("T1", "E", ["item[1]", "item[2]"]), ("T2", "L", ["item[1]", "item[2]"]),
   ("T3", "V", ["item[1]", "item[2]"]), ("T4", "I", ["item[1]", "packed"])]
def modelResShapes : ResTable :=
  [("experiment", "exp_dict", ["trx[1]"]), ("E", "env_rows", ["trx[1]", "trx[2]"]), ("L", "lrn_rows", ["trx[1]", "trx[2]"]),
   ("V", "val_rows", ["trx[1]", "trx[2]"]), ("I", "int_rows", ["trx[1]", "trx[2]"])]

/-- a run's log written and read through the two tables -/
def viaTables (rnd : Rat → Rat) (fe fr : Bool) (info : PyDict) (txs : List Tx) : Option (Except Err Result) :=
  match encodeLines modelEncShapes rnd fe (.t0 info :: txs) with
  | none => none
  | some ls => match decodeLines modelResShapes ls with
    | none => none
    | some recs => some (readLog fr (Rec.version 4 :: recs))

/-! ### phase 6: logs that record the SAME id several times — what may be reordered

`TransactionResult` keeps one dictionary entry per id (`rows[id].update(…)`, `int_rows[tuple(ids)] = …`), so the Result depends on
the relative order of the records of ONE id only.  `recKey` names the dictionary entry a record goes to. -/

inductive RecKey where
  | version | experiment | comp (t : Tbl) (id : Int) | inter (ids : List Int)
  deriving DecidableEq, Repr, Inhabited

/-- `tuple(ids)` with `[e,l]` completed to `[e,l,0]` (the key of `int_rows`) -/
def triKey (ids : List Int) : List Int := if ids.length = 2 then ids ++ [0] else ids

def recKey : Rec → RecKey
  | .version _ => .version
  | .experiment _ => .experiment
  | .comp t id _ => .comp t id
  | .inter ids _ _ => .inter (triKey ids)

/-- `b` holds the records of `a` rearranged so that the records of every single key keep their relative order -/
def SameKeyOrder (a b : List Rec) : Prop :=
  ∀ k : RecKey, a.filter (fun r => decide (recKey r = k)) = b.filter (fun r => decide (recKey r = k))

/-- all records of key `k` moved to the front (stable) -/
def pullKey (k : RecKey) (recs : List Rec) : List Rec :=
  recs.filter (fun r => decide (recKey r = k)) ++ recs.filter (fun r => !decide (recKey r = k))

/-- a rearrangement that groups the records by key: the keys `ks` are pulled to the front one after the other -/
def regroupBy (ks : List RecKey) (recs : List Rec) : List Rec := ks.foldl (fun acc k => pullKey k acc) recs

/-- the log of a run whose records (after the version line) were grouped by key, every key of the log pulled in log order -/
def regroupLog : List Rec → List Rec
  | .version n :: recs => .version n :: regroupBy (recs.map recKey) recs
  | recs => recs

end Coba.C07
