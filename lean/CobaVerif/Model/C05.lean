/-
Model of `coba/random.py` (class `CobaRandom`).  Import-free (core Lean only).

The uniform stream is the LCG  s' = (a*s + c) mod m,  u = s'/m  with the constants below
(`Generated/LcgConsts.lean` re-extracts them from the source on every run and the two are
compared by `decide`).  Floats are modelled by exact rationals (`Rat`); see DESIGN §2.2 for
the three devices that relate this to IEEE doubles.
-/
namespace Coba.C05

def A : Nat := 116646453
def C : Nat := 9
def M : Nat := 1073741824   -- 2^30

/-- one LCG step on a normalised state -/
def next (s : Nat) : Nat := (A * s + C) % M

/-- numerator of the uniform produced by state `s` *after* stepping; the uniform is `k/M` -/
def unum (s : Nat) : Nat := next s

def u (s : Nat) : Rat := (unum s : Rat) / (M : Rat)

/-- seed normalisation: Python computes `(a*seed+c) & (m-1)` on an arbitrary (possibly
negative) int; this is `(a*(seed mod m)+c) mod m`. -/
def normInt (seed : Int) : Nat := (seed % (M : Int)).toNat

/-- `int.from_bytes(bs,'big') % 2**20` for the non-integer seeds (`bs = str(seed).encode()`). -/
def fromBytes (bs : List Nat) : Nat := bs.foldl (fun acc b => acc * 256 + b) 0
def normBytes (bs : List Nat) : Nat := fromBytes bs % 1048576

/-! ### uniform consumers -/

/-- `random(min,max) = min + (max-min)*u` -/
def random (s : Nat) (lo hi : Rat) : Nat × Rat := (next s, lo + (hi - lo) * u s)

/-- `randoms(n,min,max)` -/
def randoms : Nat → Nat → Rat → Rat → Nat × List Rat
  | s, 0, _, _ => (s, [])
  | s, n+1, lo, hi =>
    let (s1, x) := random s lo hi
    let (s2, xs) := randoms s1 n lo hi
    (s2, x :: xs)

/-- `floor(n*u)` for a natural `n`: `(n * k) / M` -/
def scaled (s : Nat) (n : Nat) : Nat := (n * unum s) / M

/-- `randint(a,b) = a + floor((b-a+1)*u)`; for `b-a+1 ≤ 0` Python's floor of a non-positive
product is modelled with integer floor division. -/
def randint (s : Nat) (a b : Int) : Nat × Int :=
  (next s, a + ((b - a + 1) * (unum s : Int)) / (M : Int))

def randints : Nat → Nat → Int → Int → Nat × List Int
  | s, 0, _, _ => (s, [])
  | s, n+1, a, b =>
    let (s1, x) := randint s a b
    let (s2, xs) := randints s1 n a b
    (s2, x :: xs)

/-- Durstenfeld step seen recursively: with `j = floor(len*u)` the element at `j` of `x::xs`
becomes the head and `x` takes its place; then the tail is shuffled.  No uniform is drawn for
a list of length < 2 (Python: `range(n,1,-1)` is exhausted first). -/
def shuffle {α} : Nat → List α → Nat × List α
  | s, [] => (s, [])
  | s, [x] => (s, [x])
  | s, x :: y :: r =>
    let xs := y :: r
    let j := scaled s (xs.length + 1)
    match j with
    | 0 =>
      let (s', t) := shuffle (next s) xs
      (s', x :: t)
    | j'+1 =>
      match xs[j']? with
      | some z =>
        let (s', t) := shuffle (next s) (xs.set j' x)
        (s', z :: t)
      | none =>       -- unreachable (j < len), kept total
        let (s', t) := shuffle (next s) xs
        (s', x :: t)
termination_by _ l => l.length
decreasing_by all_goals simp_all <;> omega

/-- swap of positions `i` and `j` as the Python statement `l[i], l[j] = l[j], l[i]` -/
def swapAt {α} (l : List α) (i j : Nat) : List α :=
  match l[i]?, l[j]? with
  | some a, some b => (l.set i b).set j a
  | _, _ => l

/-- the loop of `CobaRandom.shuffle` as written: for i = 0 … n-2, j = i + floor((n-i)*u), swap -/
def shuffleLoopGo {α} : Nat → List α → Nat → Nat → Nat × List α
  | s, l, _, 0 => (s, l)
  | s, l, i, k+1 =>
    let j := i + scaled s (l.length - i)
    shuffleLoopGo (next s) (swapAt l i j) (i+1) k

def shuffleLoop {α} (s : Nat) (l : List α) : Nat × List α := shuffleLoopGo s l 0 (l.length - 1)

/-- running sums, `itertools.accumulate` -/
def accumulate : Rat → List Rat → List Rat
  | _, [] => []
  | acc, w :: ws => (acc + w) :: accumulate (acc + w) ws

/-- index of the first cumulative weight `c` with `r < c` (the code's `__lt__`) -/
def firstLt (r : Rat) : List Rat → Nat → Option Nat
  | [], _ => none
  | c :: cs, i => if r < c then some i else firstLt r cs (i+1)

def sum (ws : List Rat) : Rat := ws.foldl (· + ·) 0

inductive Err | valueError | indexError | stopIteration | zeroDivision
deriving Repr, DecidableEq

/-- `choice(seq, weights)` returning the chosen *index* into a sequence of length `n`.
`weights = none` is Python's `None`. -/
def choice (s : Nat) (n : Nat) (weights : Option (List Rat)) : Except Err (Nat × Nat) :=
  match weights with
  | none =>
    if n = 0 then .error .indexError   -- `seq[0]` on an empty sequence (a uniform was drawn)
    else .ok (next s, scaled s n)
  | some ws =>
    if ws ≠ [] ∧ ws.length ≠ n then .error .valueError
    else
      let tot := sum ws
      if tot = 0 then .error .valueError
      else
        match firstLt (u s * tot) (accumulate 0 ws) 0 with
        | some i => if i < n then .ok (next s, i) else .error .stopIteration
        | none => .error .stopIteration

/-- `choicew(seq, weights)`: index and the reported weight -/
def choicew (s : Nat) (n : Nat) (weights : Option (List Rat)) : Except Err (Nat × Nat × Rat) :=
  match weights with
  | none =>
    match choice s n none with
    | .ok (s', i) => if n = 0 then .error .zeroDivision else .ok (s', i, 1 / (n : Rat))
    | .error e => .error e
  | some ws =>
    match choice s n (some ws) with
    | .ok (s', i) =>
      match ws[i]? with
      | some w => .ok (s', i, w)
      | none => .error .indexError
    | .error e => .error e

/-! ### Box–Muller bookkeeping.  The transcendental part is not modelled: a gaussian value is
described by the two uniform numerators it is computed from and whether it is the `cos` or the
`sin` member of the pair.  `log 0` is the only domain error. -/

structure GaussDesc where
  k1 : Nat
  k2 : Nat
  isCos : Bool
deriving Repr, DecidableEq

structure Gen where
  s : Nat
  /-- the buffered second member of the last Box–Muller pair, if not yet consumed -/
  buf : Option GaussDesc := none
deriving Repr

/-- the state from which `U` is finally taken: `while U == 0: U = next(randu)`.  A zero uniform
is followed by the uniform `9/2^30` (`Props.C05.redraw_nonzero`), so the loop body runs at most
once and is modelled by one conditional redraw. -/
def skipZero (s : Nat) : Nat := if unum s = 0 then next s else s

def gauss1 (g : Gen) : Gen × GaussDesc :=
  match g.buf with
  | some d => ({ g with buf := none }, d)
  | none =>
    let s0 := skipZero g.s
    let k1 := unum s0
    let s1 := next s0
    let k2 := unum s1
    ({ s := next s1, buf := some ⟨k1, k2, false⟩ }, ⟨k1, k2, true⟩)

def gausses : Gen → Nat → Gen × List GaussDesc
  | g, 0 => (g, [])
  | g, n+1 =>
    let (g1, d) := gauss1 g
    let (g2, ds) := gausses g1 n
    (g2, d :: ds)

/-! ### operations and multi-instance histories -/

inductive Op
  | random (lo hi : Rat)
  | randoms (n : Nat) (lo hi : Rat)
  | randint (a b : Int)
  | randints (n : Nat) (a b : Int)
  | shuffle (n : Nat)
  | choice (n : Nat) (w : Option (List Rat))
  | choicew (n : Nat) (w : Option (List Rat))
  | gauss
  | gausses (n : Nat)
deriving Repr

inductive Out
  | rat (q : Rat)
  | rats (qs : List Rat)
  | int (i : Int)
  | ints (is : List Int)
  | perm (p : List Nat)
  | idx (i : Nat)
  | idxw (i : Nat) (w : Rat)
  | gauss (ds : List GaussDesc)
  | err (e : Err)
deriving Repr

/-- one call on one instance; an error leaves the uniform stream where the code leaves it -/
def step (g : Gen) : Op → Gen × Out
  | .random lo hi => let (s', x) := random g.s lo hi; ({ g with s := s' }, .rat x)
  | .randoms n lo hi => let (s', xs) := randoms g.s n lo hi; ({ g with s := s' }, .rats xs)
  | .randint a b => let (s', x) := randint g.s a b; ({ g with s := s' }, .int x)
  | .randints n a b => let (s', xs) := randints g.s n a b; ({ g with s := s' }, .ints xs)
  | .shuffle n => let (s', p) := shuffleLoop g.s (List.range n); ({ g with s := s' }, .perm p)
  | .choice n w =>
    match choice g.s n w with
    | .ok (s', i) => ({ g with s := s' }, .idx i)
    | .error .indexError => ({ g with s := next g.s }, .err .indexError)
    | .error e => (g, .err e)
  | .choicew n w =>
    match choicew g.s n w with
    | .ok (s', i, x) => ({ g with s := s' }, .idxw i x)
    | .error .indexError => ({ g with s := next g.s }, .err .indexError)
    | .error e => (g, .err e)
  | .gauss => let (g', d) := gauss1 g; (g', .gauss [d])
  | .gausses n => let (g', ds) := gausses g n; (g', .gauss ds)

/-- a history: calls tagged with the instance they are made on -/
abbrev Hist := List (Nat × Op)

/-- run a history over a family of instances (`st i` = state of instance `i`) -/
def run (st : Nat → Gen) : Hist → List (Nat × Out)
  | [] => []
  | (i, op) :: h =>
    let (g', o) := step (st i) op
    (i, o) :: run (fun j => if j = i then g' else st j) h

/-- run the calls of one instance alone -/
def runOne (g : Gen) : List Op → List Out
  | [] => []
  | op :: ops => let (g', o) := step g op; o :: runOne g' ops

/-! ### Phase 4: the module-level generator, re-seeding and pickling

`coba/random.py` keeps ONE module-level generator `_random`; `coba.random.seed(s)` REPLACES it by a
fresh `CobaRandom(s)` (uniform stream *and* gaussian buffer start anew) and every other module
function `f(args)` is `_random.f(args)`.  `CobaRandom.__reduce__` pickles `(CobaRandom,(self._seed,))`:
the unpickled object is `CobaRandom(self._seed)` — the seed is restored, the position is not. -/

/-- a generator object that remembers the (normalised) seed it was built from (`self._seed`) -/
structure Inst where
  seed0 : Nat
  g : Gen
deriving Repr

/-- `CobaRandom(s)` for a normalised seed `s` -/
def fresh (s : Nat) : Inst := { seed0 := s, g := { s := s } }

inductive Call
  /-- a method call, or the module function of the same name on the global -/
  | op (o : Op)
  /-- `coba.random.seed(s)`: the global is replaced by `CobaRandom(s)` -/
  | reseed (s : Nat)
  /-- the object is replaced by `pickle.loads(pickle.dumps(self))`, i.e. `CobaRandom(self._seed)` -/
  | repickle
deriving Repr

def cstep (x : Inst) : Call → Inst × Option Out
  | .op o => let (g', out) := step x.g o; ({ x with g := g' }, some out)
  | .reseed s => (fresh s, none)
  | .repickle => (fresh x.seed0, none)

/-- the calls of one object alone -/
def crunOne (x : Inst) : List Call → List Out
  | [] => []
  | c :: cs =>
    let (x', o) := cstep x c
    match o with
    | some out => out :: crunOne x' cs
    | none => crunOne x' cs

/-- the object after a list of calls -/
def cafter (x : Inst) : List Call → Inst
  | [] => x
  | c :: cs => cafter (cstep x c).1 cs

/-- a history over a family of objects (one index is the module-level global) -/
def crun (st : Nat → Inst) : List (Nat × Call) → List (Nat × Out)
  | [] => []
  | (i, c) :: h =>
    let (x', o) := cstep (st i) c
    let rest := crun (fun j => if j = i then x' else st j) h
    match o with
    | some out => (i, out) :: rest
    | none => rest

/-- `n` single `gauss()` calls -/
def gaussIter : Gen → Nat → Gen × List GaussDesc
  | g, 0 => (g, [])
  | g, n+1 =>
    let (g1, o) := step g .gauss
    let (g2, ds) := gaussIter g1 n
    match o with
    | .gauss d => (g2, d ++ ds)
    | _ => (g2, ds)

/-- seed normalisation of `CobaRandom.__init__` as a function of the kind of seed object:
`int` (incl. `bool`) and integral `float` go through `int(seed)`; everything else through
`str(seed or time.time())` bytes (the harness supplies `str(seed)` as bytes). -/
inductive SeedObj
  | int (z : Int)
  | integralFloat (z : Int)
  | other (strBytes : List Nat)
deriving Repr

/-- the value stored in `self._seed` -/
def seedAttr : SeedObj → Int
  | .int z => z
  | .integralFloat z => z
  | .other bs => (normBytes bs : Nat)

/-- the LCG state the stream starts from -/
def seedState : SeedObj → Nat
  | .int z => normInt z
  | .integralFloat z => normInt z
  | .other bs => normBytes bs

/-- modulus used for non-integer seeds (`% 2**20`) -/
def strMod : Nat := 1048576

/-! ### source-level facts the model relies on (translator tie, `Generated/C05Source.lean`)
Each entry names a place in `coba/random.py` and the literal / name the model assumes there:
the seed-normalisation branches of `CobaRandom.__init__`, the step and yield of `_next_uniform`,
the comparator of the weighted `choice`, what `__reduce__` stores, which module functions
delegate to the method of the same name on `_random`, and the default bounds. -/
def srcFacts : List (String × String) :=
  [("init.int_types", "int"), ("init.float_guard", "float.is_integer"), ("init.int_conv", "int"),
   ("init.str_conv", "str"), ("init.encoding", "utf-8"), ("init.byteorder", "big"),
   ("init.falsy_fallback", "time.time"), ("uniform.step_op", "&"), ("uniform.yield_op", "/"),
   ("choice.cmp", "__lt__"), ("choice.unweighted_conv", "int"), ("reduce.args", "_seed"),
   ("module.seed", "_random=CobaRandom(seed)"),
   ("module.delegates", "random,randoms,shuffle,randint,randints,choice,choicew,gauss,gausses"),
   ("gauss.zero_guard", "while U == 0")]

def srcNums : List (String × Int) :=
  [("init.str_mod", 1048576), ("uniform.mask_sub", 1),
   ("default.random.min", 0), ("default.random.max", 1),
   ("default.randoms.min", 0), ("default.randoms.max", 1),
   ("default.gauss.mu", 0), ("default.gauss.sigma", 1),
   ("default.gausses.mu", 0), ("default.gausses.sigma", 1),
   ("gauss.log_coef", -2), ("gauss.angle_coef", 2), ("randint.plus", 1), ("randints.plus", 1)]

/-! ### Phase 4 (continued): error paths of `choice`/`choicew` exactly as the code leaves the stream

`choice` validates the lengths and the total BEFORE `next(self._randu)` is evaluated (ValueError: stream
untouched), but the empty-sequence `IndexError` (unweighted) and the bare `StopIteration` of
`next(compress(…))` (nothing found: negative total) are raised AFTER the uniform was drawn.  `step`
(kept as it was) advances only for `IndexError`; `stepE` is the exact version the driver runs. -/

/-- does this error surface after the uniform was drawn? -/
def errConsumes : Err → Bool
  | .indexError => true
  | .stopIteration => true
  | .valueError => false
  | .zeroDivision => false

def stepE (g : Gen) : Op → Gen × Out
  | .choice n w =>
    match choice g.s n w with
    | .ok (s', i) => ({ g with s := s' }, .idx i)
    | .error e => (if errConsumes e then { g with s := next g.s } else g, .err e)
  | .choicew n w =>
    match choicew g.s n w with
    | .ok (s', i, x) => ({ g with s := s' }, .idxw i x)
    | .error e => (if errConsumes e then { g with s := next g.s } else g, .err e)
  | o => step g o

/-- the phase-4 runners, parametrised by the single-call semantics `f` (`step` or `stepE`) -/
def cstepW (f : Gen → Op → Gen × Out) (x : Inst) : Call → Inst × Option Out
  | .op o => let (g', out) := f x.g o; ({ x with g := g' }, some out)
  | .reseed s => (fresh s, none)
  | .repickle => (fresh x.seed0, none)

def crunOneW (f : Gen → Op → Gen × Out) (x : Inst) : List Call → List Out
  | [] => []
  | c :: cs =>
    let (x', o) := cstepW f x c
    match o with
    | some out => out :: crunOneW f x' cs
    | none => crunOneW f x' cs

def cafterW (f : Gen → Op → Gen × Out) (x : Inst) : List Call → Inst
  | [] => x
  | c :: cs => cafterW f (cstepW f x c).1 cs

def crunW (f : Gen → Op → Gen × Out) (st : Nat → Inst) : List (Nat × Call) → List (Nat × Out)
  | [] => []
  | (i, c) :: h =>
    let (x', o) := cstepW f (st i) c
    let rest := crunW f (fun j => if j = i then x' else st j) h
    match o with
    | some out => (i, out) :: rest
    | none => rest

def runOneW (f : Gen → Op → Gen × Out) (g : Gen) : List Op → List Out
  | [] => []
  | op :: ops => let (g', o) := f g op; o :: runOneW f g' ops

/-! ### Phase 5: how `pipes.filters.Reservoir` walks the stream

`Reservoir(count,seed).filter` creates `CobaRandom(seed)`, shuffles the first `count` items in place and then
walks `batched_randoms_forever(20)`: again and again `randoms(3*batch_size)`, handed out as the slices
`randoms[i:i+3]` for `i in range(0,3*batch_size,3)`.  Uniforms are represented by their numerators. -/

/-- the generator state after `n` uniforms have been drawn -/
def adv : Nat → Nat → Nat
  | s, 0 => s
  | s, n+1 => adv (next s) n

/-- numerators of the values of `randoms(n)` -/
def unums : Nat → Nat → List Nat
  | _, 0 => []
  | s, n+1 => unum s :: unums (next s) n

/-- `[randoms[i:i+3] for i in range(0,len(randoms),3)]` restricted to complete triples (what `for r1,r2,r3 in` accepts;
also what `zip(it,it,it)` yields) -/
def chunk3 : List Nat → List (Nat × Nat × Nat)
  | a :: b :: c :: t => (a, b, c) :: chunk3 t
  | _ => []

/-- the triples handed out by the first `k` batches when every batch draws `n` uniforms (the code: `n = 3*batch_size`) -/
def batchedTriples (n : Nat) : Nat → Nat → List (Nat × Nat × Nat)
  | _, 0 => []
  | s, k+1 => chunk3 (unums s n) ++ batchedTriples n (adv s n) k

/-- spec: `j` consecutive triples of the seed's stream, no value skipped, none used twice -/
def streamTriples : Nat → Nat → List (Nat × Nat × Nat)
  | _, 0 => []
  | s, j+1 => (unum s, unum (next s), unum (next (next s))) :: streamTriples (next (next (next s))) j

/-- what Reservoir consumes: the in-place shuffle of the first `count` items, then `k` batches of `batch` triples -/
def reservoirWalk (s count batch k : Nat) : List Nat × List (Nat × Nat × Nat) :=
  let r := shuffle s (List.range count)
  (r.2, batchedTriples (3 * batch) r.1 k)

/-- literals of `Reservoir.filter` the walk depends on (translator tie, `Generated/C05Reservoir.lean`) -/
def resNums : List (String × Int) :=
  [("draw_mult", 3), ("range_mult", 3), ("range_step", 3), ("slice_width", 3), ("targets", 3), ("batch_size", 20),
   ("shuffle_inplace", 1)]
def resBatch : Nat := 20

/-- the Box–Muller expressions of coba/random.py the model (`gauss1`, `GaussDesc`, `Lemmas/C05Real.lean`) is written for: which
function is applied to what, the order of the two yields, how `mu`/`sigma` enter (translator tie beyond the two coefficients of `srcNums`) -/
def srcGauss : List (String × String) :=
  [("R.outer", "math.sqrt"), ("R.inner", "math.log"), ("R.arg", "U"), ("S.const", "math.pi"), ("S.draw", "next(self._randu)"),
   ("U.draw", "next(self._randu)"), ("yield.0", "R*math.cos(S)"), ("yield.1", "R*math.sin(S)"),
   ("gauss.scale", "self.gausses(1,mu,sigma)[0]"), ("gausses.scale", "mu+sigma*g for g in islice(self._randg,n)")]

/-! ### Phase 6: the filters of coba/pipes/filters.py that own a generator (`Shuffle`, every path of `Reservoir`)

`Shuffle(seed).filter(items)` and `Reservoir(count,strict,seed).filter(items)` create `CobaRandom(self._seed)` INSIDE every
`filter` call; the filter object itself holds only the seed.  Items are `range(n)`; seeds are already normalised states. -/

inductive Flt
  | shuffle (s : Nat)
  | reservoir (count : Option Nat) (strict : Bool) (s : Nat)
deriving Repr

/-- the result of one `filter` call: a finished list, or (Reservoir with at least `count` items) the shuffled first `count`
items together with the generator state from which Algorithm L takes its triples (`batchedTriples`) -/
inductive FltOut
  | items (l : List Nat)
  | walk (perm : List Nat) (s : Nat)
deriving Repr, DecidableEq

/-- what a new `CobaRandom(seed)` returns for `shuffle(list(range(n)))` -/
def shuffleFilter (s n : Nat) : List Nat := (shuffle (fresh s).g.s (List.range n)).2

/-- the branches of `Reservoir.filter` in source order: `count == 0`, `count is None`, fewer than `count` items
(`[] if strict else shuffle`), otherwise in-place shuffle of the first `count` items and the walk -/
def fltOut : Flt → Nat → FltOut
  | .shuffle s, n => .items (shuffleFilter s n)
  | .reservoir none _ s, n => .items (shuffleFilter s n)
  | .reservoir (some c) strict s, n =>
    if c = 0 then .items []
    else if n < c then (if strict then .items [] else .items (shuffleFilter s n))
    else .walk (shuffleFilter s c) (shuffle (fresh s).g.s (List.range c)).1

/-- one `filter(range(n))` call on object number `o` of a collection; below: a history of `filter` calls `(object, n)` on a collection of filter objects: the objects carry no generator, so every call
starts from its object's seed -/
def fltAt (objs : List Flt) (o n : Nat) : FltOut :=
  match objs[o]? with | some f => fltOut f n | none => .items []

def fltRun (objs : List Flt) : List (Nat × Nat) → List FltOut
  | [] => []
  | (o, n) :: h => fltAt objs o n :: fltRun objs h

/-- what the model assumes about the two `filter` bodies (translator tie, `Generated/C05Filters.lean`) -/
def fltNums : List (String × Int) :=
  [("shuffle.rng_in_filter", 1), ("shuffle.rng_from_self_seed", 1), ("shuffle.inplace", 1), ("shuffle.copies_input", 1),
   ("reservoir.rng_in_filter", 1), ("reservoir.rng_from_self_seed", 1), ("reservoir.zero_const", 0), ("reservoir.zero_is_first", 1),
   ("reservoir.none_inplace", 0), ("reservoir.fill_islice_count", 1), ("reservoir.short_is_lt", 1), ("reservoir.short_strict_empty", 1),
   ("reservoir.short_else_inplace", 1)]

end Coba.C05
