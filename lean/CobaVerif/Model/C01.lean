/-
C01 / C03 — executable model of `Experiment.run` (coba/experiments/core.py, process.py,
coba/multiprocessing.py, coba/results/core.py TransactionResult) and the spec `resultS`.

Core Lean only (plus, since phase 4, the finished model `Model/C06` of SequentialCB): this file is compiled into the
drivers `drv_c01` / `drv_c03`.

Reading of the code
* objects (environments, learners, evaluators) are identities `Nat`; a triple is `(e,l,v)`.
* components are abstract deterministic functions (`Comps`): what `params` returns (or that it
  raises), the identity of the last `Chunk` pipe of an environment, the pristine state of a
  learner object, the evaluator's own seed, and `eval v e s seed` = the rows produced (or an
  exception) together with the learner state left behind.
* an *address space* is a heap `Nat → S` from learner objects to their current state.  In-process
  all tasks share one heap (the user's objects); in a worker every chunk is unpickled into a
  fresh heap (`c.init`), sharing survives only inside the chunk.
* a schedule is a list of picks that interleaves the record streams of the chunks.
-/

import CobaVerif.Model.C06

namespace Coba.C01

inductive Err | raised
  deriving DecidableEq, Repr

abbrev Triple := Nat × Nat × Nat      -- (environment, learner, evaluator) object identities
abbrev Key3 := Nat × Nat × Nat        -- (environment_id, learner_id, evaluator_id)

/-! ## ids by first appearance -/

/-- Python `if x not in d: d[x] = len(d)`; the dict is the list of its keys in insertion order,
the id of a key is its position. -/
def addFirst (acc : List Nat) (x : Nat) : List Nat := if x ∈ acc then acc else acc ++ [x]

/-- spec: the distinct objects in order of first appearance -/
def firsts : List Nat → List Nat
  | [] => []
  | x :: xs => x :: (firsts xs).filter (fun y => y ≠ x)

/-- spec: the id of an object = its position among the distinct objects -/
def idOf (xs : List Nat) (x : Nat) : Nat := (firsts xs).idxOf x

def envsOf (ts : List Triple) : List Nat := ts.map (·.1)
def lrnsOf (ts : List Triple) : List Nat := ts.map (·.2.1)
def valsOf (ts : List Triple) : List Nat := ts.map (·.2.2)

/-! ## tasks (process.py `Task`, `MakeTasks`) -/

inductive Task
  | env (id obj : Nat)                               -- Task((eid,env),None,None)
  | lrn (id obj : Nat)                               -- Task(None,(lid,lrn),None)
  | val (id obj : Nat)                               -- Task(None,None,(vid,val))
  | eval (eid e lid l vid v : Nat) (copy : Bool)     -- Task((eid,env),(lid,lrn),(vid,val),copy)
  deriving DecidableEq, Repr

/-- what `Result.from_file` restored (ids already present); empty for a fresh run -/
structure Restored where
  envs : List Nat
  lrns : List Nat
  vals : List Nat
  outs : List Key3

def Restored.none : Restored := ⟨[], [], [], []⟩

/-- the loop of `MakeTasks.read`; `cnt` is `Counter(l for _,l,_ in triples)` -/
def makeAux (cnt : Nat → Nat) (R : Restored) :
    List Nat → List Nat → List Nat → List Triple → List Task
  | _, _, _, [] => []
  | envs, lrns, vals, (e, l, v) :: ts =>
    let t1 := if e ∈ envs then [] else if envs.length ∈ R.envs then [] else [Task.env envs.length e]
    let t2 := if l ∈ lrns then [] else if lrns.length ∈ R.lrns then [] else [Task.lrn lrns.length l]
    let t3 := if v ∈ vals then [] else if vals.length ∈ R.vals then [] else [Task.val vals.length v]
    let envs' := addFirst envs e
    let lrns' := addFirst lrns l
    let vals' := addFirst vals v
    let key : Key3 := (envs'.idxOf e, lrns'.idxOf l, vals'.idxOf v)
    let t4 := if key ∈ R.outs then [] else [Task.eval key.1 e key.2.1 l key.2.2 v (decide (cnt l > 1))]
    t1 ++ (t2 ++ (t3 ++ (t4 ++ makeAux cnt R envs' lrns' vals' ts)))

def lrnCount (ts : List Triple) (l : Nat) : Nat := (ts.filter (fun t => t.2.1 = l)).length

def makeTasks (R : Restored) (ts : List Triple) : List Task :=
  makeAux (lrnCount ts) R [] [] [] ts

/-! ## chunks (process.py `ChunkTasks`) -/

def Task.hasEnv : Task → Bool
  | .env .. => true
  | .eval .. => true
  | _ => false

def Task.envObj : Task → Nat
  | .env _ e => e
  | .eval _ e .. => e
  | _ => 0

def Task.envId : Task → Nat
  | .env i _ => i
  | .eval i .. => i
  | _ => 0

def pairLe (a b : Nat × Nat) : Bool := decide (a.1 < b.1 ∨ (a.1 = b.1 ∧ a.2 ≤ b.2))

/-- `chunk_sorter = lambda t: (t.env_id, t.lrn_id if t.lrn else -1)` (shifted by one) -/
def Task.sortKey : Task → Nat × Nat
  | .env i _ => (i, 0)
  | .eval i _ li .. => (i, li + 1)
  | _ => (0, 0)

def taskLe (a b : Task) : Bool := pairLe a.sortKey b.sortKey

/-- `chunks[self._get_last_chunk(task.env)].append(task)` on a dict in insertion order -/
def groupInsert (k : Nat) (t : Task) : List (Nat × List Task) → List (Nat × List Task)
  | [] => [(k, [t])]
  | (k', g) :: rest => if k = k' then (k', g ++ [t]) :: rest else (k', g) :: groupInsert k t rest

def groupStep (ckey : Nat → Option Nat) (acc : List (Nat × List Task)) (t : Task) : List (Nat × List Task) :=
  match ckey t.envObj with
  | some k => groupInsert k t acc
  | none => acc

def groupTasks (ckey : Nat → Option Nat) (ts : List Task) : List (Nat × List Task) :=
  ts.foldl (groupStep ckey) []

/-- `chunks_sorter = lambda c: min(t.env_id for t in c)` -/
def minEnv : List Task → Nat
  | [] => 0
  | t :: ts => ts.foldl (fun m x => Nat.min m x.envId) t.envId

/-- `_max_chunker`: consecutive batches of `n ≥ 1` items -/
def maxChunkAux {α} (n : Nat) : List α → Nat → List α → List (List α)
  | [], _, cur => if cur.isEmpty then [] else [cur.reverse]
  | x :: xs, room, cur =>
    if room = 0 then cur.reverse :: maxChunkAux n xs (n - 1) [x]
    else maxChunkAux n xs (room - 1) (x :: cur)

/-- `max_tasks or None`: 0 means "never split" -/
def maxChunker {α} (mt : Nat) (l : List α) : List (List α) :=
  if mt = 0 then (if l.isEmpty then [] else [l]) else maxChunkAux mt l mt []

def chunkTasks (mt : Nat) (ckey : Nat → Option Nat) (ts : List Task) : List (List Task) :=
  let sans := ts.filter (fun t => !t.hasEnv)
  let withE := ts.filter (fun t => t.hasEnv)
  let notCh := withE.filter (fun t => (ckey t.envObj).isNone)
  let groups := (groupTasks ckey withE).map (·.2)
  sans.map (fun t => [t]) ++ (notCh.map (fun t => [t]) ++
    (groups.mergeSort (fun a b => decide (minEnv a ≤ minEnv b))).flatMap
      (fun g => maxChunker mt (g.mergeSort taskLe)))

/-! ## processing a chunk (process.py `ProcessTasks`) -/

/-- `self._env_ids(item)+self._lrn_ids(item)` (shifted by one; −1 ↦ 0) -/
def Task.procKey : Task → Nat × Nat
  | .env i _ => (i + 1, 0)
  | .lrn i _ => (0, i + 1)
  | .val _ _ => (0, 0)
  | .eval i _ li .. => (i + 1, li + 1)

/-- `sorted(chunk, key=…, reverse=True)` (stable, descending) followed by `chunk.pop()` from the
end: the order in which the tasks of a chunk are processed -/
def procOrder (chunk : List Task) : List Task :=
  (chunk.mergeSort (fun a b => pairLe b.procKey a.procKey)).reverse

structure Meta where
  nLrn : Nat
  nEnv : Nat
  seed : Nat
  deriving DecidableEq, Repr

inductive Rec (P Row : Type)
  | T0 (m : Meta)
  | T1 (id : Nat) (p : P)
  | T2 (id : Nat) (p : P)
  | T3 (id : Nat) (p : P)
  | T4 (key : Key3) (rows : List Row)

/-- one event per processed task: the record it yields, or the exception it logs -/
inductive Ev (P Row : Type)
  | record (r : Rec P Row)
  | error (t : Task)

structure Comps (S P Row : Type) where
  envParams : Nat → Except Err P        -- peek + `SafeEnvironment(env).params`
  lrnParams : Nat → Except Err P        -- `SafeLearner(lrn).params`
  valParams : Nat → Except Err P        -- `SafeEvaluator(val).params`
  chunkKey  : Nat → Option Nat          -- identity of the last `Chunk` pipe, if any
  init      : Nat → S                   -- pristine state of a learner object
  valSeed   : Nat → Option Nat          -- the evaluator's own seed
  eval      : Nat → Nat → S → Nat → Except Err (List Row) × S   -- evaluator env state seed

abbrev Heap (S : Type) := Nat → S

def Heap.set {S} (h : Heap S) (l : Nat) (s : S) : Heap S := fun x => if x = l then s else h x

/-- `seed = self._seed if self._seed is not None else CobaContext.store.get("experiment_seed")` -/
def effSeed {S P Row} (c : Comps S P Row) (expSeed v : Nat) : Nat := (c.valSeed v).getD expSeed

def paramEv {P Row} (t : Task) (mk : P → Rec P Row) : Except Err P → Ev P Row
  | .ok p => .record (mk p)
  | .error _ => .error t

/-- one iteration of the `while chunk:` loop, in the address space `h` -/
def runTask {S P Row} (c : Comps S P Row) (seed : Nat) (h : Heap S) : Task → Ev P Row × Heap S
  | .env i e => (paramEv (.env i e) (.T1 i) (c.envParams e), h)
  | .lrn i l => (paramEv (.lrn i l) (.T2 i) (c.lrnParams l), h)
  | .val i v => (paramEv (.val i v) (.T3 i) (c.valParams v), h)
  | .eval ei e li l vi v copy =>
    let r := c.eval v e (h l) (effSeed c seed v)
    -- `if task.copy: lrn = deepcopy(lrn)`: the cell is left alone; otherwise it is mutated
    let h' := if copy then h else h.set l r.2
    (match r.1 with
     | .ok rows => .record (.T4 (ei, li, vi) rows)     -- `list(evaluate(...))` materialised first
     | .error _ => .error (.eval ei e li l vi v copy), h')

def runSeq {S P Row} (c : Comps S P Row) (seed : Nat) : Heap S → List Task → List (Ev P Row) × Heap S
  | h, [] => ([], h)
  | h, t :: ts =>
    let r := runTask c seed h t
    let rest := runSeq c seed r.2 ts
    (r.1 :: rest.1, rest.2)

/-! ## schedules -/

structure Cfg where
  mp : Nat      -- processes
  mc : Nat      -- maxchunksperchild
  mt : Nat      -- maxtasksperchunk
  deriving Repr

/-- `is_multiproc = mp > 1 or mc != 0` -/
def Cfg.multi (c : Cfg) : Bool := decide (c.mp > 1) || decide (c.mc ≠ 0)

/-- remove the head of the `i`-th queue -/
def popAt {α} : Nat → List (List α) → Option (α × List (List α))
  | _, [] => none
  | 0, [] :: _ => none
  | 0, (x :: q) :: qs => some (x, q :: qs)
  | i + 1, q :: qs => (popAt i qs).map (fun r => (r.1, q :: r.2))

/-- an interleaving of the queues chosen by a list of picks: each pick selects one of the
non-empty queues, whose head is emitted; when the picks are exhausted the rest is drained in
order.  Every interleaving of the queues is `interleave qs picks` for some `picks`. -/
def interleave {α} (qs : List (List α)) : List Nat → List α
  | [] => qs.flatten
  | p :: ps =>
    let live := qs.filter (fun q => !q.isEmpty)
    match popAt (p % live.length) live with
    | none => []
    | some (x, qs') => x :: interleave qs' ps

/-! ## the result (results/core.py `TransactionResult`) -/

def key3Lt (a b : Key3) : Bool :=
  decide (a.1 < b.1 ∨ (a.1 = b.1 ∧ (a.2.1 < b.2.1 ∨ (a.2.1 = b.2.1 ∧ a.2.2 < b.2.2))))

def natLt (a b : Nat) : Bool := decide (a < b)

/-- `d[k] = v` followed by `sorted(d.items())`, kept as one sorted association list -/
def upsert {K V} [DecidableEq K] (lt : K → K → Bool) (k : K) (v : V) : List (K × V) → List (K × V)
  | [] => [(k, v)]
  | (k', v') :: t =>
    if lt k k' then (k, v) :: (k', v') :: t
    else if k = k' then (k, v) :: t
    else (k', v') :: upsert lt k v t

def tableOf {K V} [DecidableEq K] (lt : K → K → Bool) (kvs : List (K × V)) : List (K × V) :=
  kvs.foldl (fun acc kv => upsert lt kv.1 kv.2 acc) []

def Rec.t0? {P Row} : Rec P Row → Option Meta | .T0 m => some m | _ => none
def Rec.t1? {P Row} : Rec P Row → Option (Nat × P) | .T1 i p => some (i, p) | _ => none
def Rec.t2? {P Row} : Rec P Row → Option (Nat × P) | .T2 i p => some (i, p) | _ => none
def Rec.t3? {P Row} : Rec P Row → Option (Nat × P) | .T3 i p => some (i, p) | _ => none
def Rec.t4? {P Row} : Rec P Row → Option (Key3 × List Row) | .T4 k r => some (k, r) | _ => none

/-- rows numbered `1..N` (`packed['index'] = range(1,N+1)`) -/
def numberRows {Row} (kr : Key3 × List Row) : List (Key3 × Nat × Row) :=
  (kr.2.zipIdx 1).map (fun ri => (kr.1, ri.2, ri.1))

structure Result (P Row : Type) where
  exp  : Option Meta
  envs : List (Nat × P)
  lrns : List (Nat × P)
  vals : List (Nat × P)
  ints : List (Key3 × Nat × Row)

def result {P Row} (recs : List (Rec P Row)) : Result P Row :=
  { exp  := (recs.filterMap Rec.t0?).getLast?
    envs := tableOf natLt (recs.filterMap Rec.t1?)
    lrns := tableOf natLt (recs.filterMap Rec.t2?)
    vals := tableOf natLt (recs.filterMap Rec.t3?)
    ints := (tableOf key3Lt (recs.filterMap Rec.t4?)).flatMap numberRows }

/-- the rows a result holds for one triple of ids -/
def Result.rowsOf {P Row} (r : Result P Row) (k : Key3) : List (Nat × Row) :=
  (r.ints.filter (fun x => x.1 = k)).map (·.2)

/-! ## the run -/

def Ev.rec? {P Row} : Ev P Row → Option (Rec P Row) | .record r => some r | .error _ => none
def Ev.err? {P Row} : Ev P Row → Option Task | .record _ => none | .error t => some t

def metaOf (seed : Nat) (ts : List Triple) : Meta :=
  { nLrn := (firsts (lrnsOf ts)).length, nEnv := (firsts (envsOf ts)).length, seed := seed }

/-- the chunks in the order `ChunkTasks` yields them, each in the order `ProcessTasks` works
through it -/
def chunksOf {S P Row} (c : Comps S P Row) (cfg : Cfg) (ts : List Triple) : List (List Task) :=
  (chunkTasks cfg.mt c.chunkKey (makeTasks .none ts)).map procOrder

/-- all events of a run and the heap of the calling process afterwards.
in-process: one heap threaded through all chunks in order.
workers   : every chunk starts from a fresh copy of the pristine heap; the event streams of the
            chunks are interleaved by the schedule; the caller's objects are not touched. -/
def runEvents {S P Row} (c : Comps S P Row) (cfg : Cfg) (picks : List Nat) (seed : Nat)
    (ts : List Triple) : List (Ev P Row) × Heap S :=
  if cfg.multi then
    (interleave ((chunksOf c cfg ts).map (fun ch => (runSeq c seed c.init ch).1)) picks, c.init)
  else
    runSeq c seed c.init (chunksOf c cfg ts).flatten

def runRecords {S P Row} (c : Comps S P Row) (cfg : Cfg) (picks : List Nat) (seed : Nat)
    (ts : List Triple) : List (Rec P Row) :=
  Rec.T0 (metaOf seed ts) :: (runEvents c cfg picks seed ts).1.filterMap Ev.rec?

def run {S P Row} (c : Comps S P Row) (cfg : Cfg) (picks : List Nat) (seed : Nat)
    (ts : List Triple) : Result P Row :=
  result (runRecords c cfg picks seed ts)

def runLog {S P Row} (c : Comps S P Row) (cfg : Cfg) (picks : List Nat) (seed : Nat)
    (ts : List Triple) : List Task :=
  (runEvents c cfg picks seed ts).1.filterMap Ev.err?

/-! ## the spec -/

/-- C03: what evaluating the triple alone, on a pristine learner, gives -/
def evalS {S P Row} (c : Comps S P Row) (seed : Nat) (t : Triple) : Except Err (List Row) :=
  (c.eval t.2.2 t.1 (c.init t.2.1) (effSeed c seed t.2.2)).1

def idKey (ts : List Triple) (t : Triple) : Key3 :=
  (idOf (envsOf ts) t.1, idOf (lrnsOf ts) t.2.1, idOf (valsOf ts) t.2.2)

def paramRecs {P Row} (mk : Nat → P → Rec P Row) (params : Nat → Except Err P) (objs : List Nat) :
    List (Rec P Row) :=
  (firsts objs).zipIdx.filterMap (fun oi => match params oi.1 with
    | .ok p => some (mk oi.2 p)
    | .error _ => none)

def evalRecs {S P Row} (c : Comps S P Row) (seed : Nat) (ts : List Triple) : List (Rec P Row) :=
  ts.filterMap (fun t => match evalS c seed t with
    | .ok rows => some (Rec.T4 (idKey ts t) rows)
    | .error _ => none)

/-- parameter tables keyed by first-appearance ids + for every triple whose evaluation (alone,
pristine learner) does not raise, its rows -/
def specRecs {S P Row} (c : Comps S P Row) (seed : Nat) (ts : List Triple) : List (Rec P Row) :=
  Rec.T0 (metaOf seed ts) ::
    (paramRecs Rec.T1 c.envParams (envsOf ts) ++ (paramRecs Rec.T2 c.lrnParams (lrnsOf ts) ++
      (paramRecs Rec.T3 c.valParams (valsOf ts) ++ evalRecs c seed ts)))

def resultS {S P Row} (c : Comps S P Row) (seed : Nat) (ts : List Triple) : Result P Row :=
  result (specRecs c seed ts)


/-! ## phase 2: process-level state

State that outlives an evaluation inside one OS process (coba: `CobaContext.learning_info`, class- or
module-level caches, anything memoised on a shared evaluator object) is an explicit component `σ`
threaded through all evaluations of one process.  In-process there is one `σ` for the whole run;
a worker has its own `σ`, which lives as long as the worker does: over all chunks it pulls until it
is retired after `maxchunksperchild` chunks.  Learner objects that cannot be deep-copied are modelled
too (`copyable`): `deepcopy` then raises inside the per-task `try`. -/

structure CompsP (G S P Row : Type) where
  envParams : Nat → Except Err P
  lrnParams : Nat → Except Err P
  valParams : Nat → Except Err P
  chunkKey  : Nat → Option Nat
  init      : Nat → S
  valSeed   : Nat → Option Nat
  copyable  : Nat → Bool                 -- can `deepcopy` copy this learner object?
  σ0        : G                          -- the state of a freshly started process
  evalP     : G → Nat → Nat → S → Nat → (Except Err (List Row) × S) × G   -- process-state evaluator env learner-state seed

/-- the isolation hypothesis: started in a clean process state an evaluation gives what it gives in
a fresh process, and it leaves the process state clean (`Clean := fun _ => True` is the special case
"the outcome never depends on σ") -/
structure ProcessLocalClean {G S P Row} (cp : CompsP G S P Row) (Clean : G → Prop) : Prop where
  fresh : Clean cp.σ0
  same  : ∀ σ, Clean σ → ∀ v e s seed, (cp.evalP σ v e s seed).1 = (cp.evalP cp.σ0 v e s seed).1
  stays : ∀ σ, Clean σ → ∀ v e s seed, Clean (cp.evalP σ v e s seed).2

/-- a shared learner object that cannot be copied: no pristine copy exists -/
def CompsP.blocked {G S P Row} (cp : CompsP G S P Row) (ts : List Triple) (l : Nat) : Bool :=
  decide (lrnCount ts l > 1) && !cp.copyable l

/-- the σ-free components the spec is stated with: every evaluation as it happens in a fresh process;
evaluating a shared learner that cannot be copied raises.  (The learner state carries the identity
of its object so that `eval` can tell.) -/
def CompsP.clean {G S P Row} (cp : CompsP G S P Row) (ts : List Triple) : Comps (Nat × S) P Row :=
  { envParams := cp.envParams, lrnParams := cp.lrnParams, valParams := cp.valParams,
    chunkKey := cp.chunkKey, init := fun l => (l, cp.init l), valSeed := cp.valSeed,
    eval := fun v e ls seed =>
      if cp.blocked ts ls.1 then (.error .raised, ls)
      else
        let r := (cp.evalP cp.σ0 v e ls.2 seed).1
        (r.1, (ls.1, r.2)) }

def effSeedP {G S P Row} (cp : CompsP G S P Row) (expSeed v : Nat) : Nat := (cp.valSeed v).getD expSeed

/-- one iteration of the `while chunk:` loop in a process with state `st.1` and learner heap `st.2` -/
def runTaskP {G S P Row} (cp : CompsP G S P Row) (seed : Nat) (st : G × Heap S) : Task → Ev P Row × (G × Heap S)
  | .env i e => (paramEv (.env i e) (.T1 i) (cp.envParams e), st)
  | .lrn i l => (paramEv (.lrn i l) (.T2 i) (cp.lrnParams l), st)
  | .val i v => (paramEv (.val i v) (.T3 i) (cp.valParams v), st)
  | .eval ei e li l vi v copy =>
    if copy && !cp.copyable l then
      -- `lrn = deepcopy(lrn)` raises inside the per-task try: logged, nothing evaluated, nothing touched
      (.error (.eval ei e li l vi v copy), st)
    else
      let r := cp.evalP st.1 v e (st.2 l) (effSeedP cp seed v)
      let h' := if copy then st.2 else st.2.set l r.1.2
      (match r.1.1 with
       | .ok rows => .record (.T4 (ei, li, vi) rows)
       | .error _ => .error (.eval ei e li l vi v copy), (r.2, h'))

def runSeqP {G S P Row} (cp : CompsP G S P Row) (seed : Nat) :
    G × Heap S → List Task → List (Ev P Row) × (G × Heap S)
  | st, [] => ([], st)
  | st, t :: ts =>
    let r := runTaskP cp seed st t
    let rest := runSeqP cp seed r.2 ts
    (r.1 :: rest.1, rest.2)

/-- one worker lifetime: the chunks it pulls, one after the other; every chunk is unpickled into a
fresh heap, the process state is carried from chunk to chunk -/
def runLifeP {G S P Row} (cp : CompsP G S P Row) (seed : Nat) : G → List (List Task) → List (List (Ev P Row)) × G
  | σ, [] => ([], σ)
  | σ, ch :: chs =>
    let r := runSeqP cp seed (σ, cp.init) ch
    let rest := runLifeP cp seed r.2.1 chs
    (r.1 :: rest.1, rest.2)

/-- append `x` to the `k`-th list (a new last list when there are not that many) -/
def putAt {α} : Nat → α → List (List α) → List (List α)
  | _, x, [] => [[x]]
  | 0, x, l :: ls => (l ++ [x]) :: ls
  | k + 1, x, l :: ls => l :: putAt k x ls

/-- which worker pulls which chunk: chunk `i` goes to worker `assign[i]` (0 when absent) -/
def livesOf {α} (assign : List Nat) (chunks : List α) : List (List α) :=
  chunks.zipIdx.foldl (fun acc ci => putAt (assign.getD ci.2 0) ci.1 acc) []

/-- `maxchunksperchild`: a worker is retired after `mc` chunks and replaced by a fresh process -/
def retire {α} (mc : Nat) (lives : List (List α)) : List (List α) := lives.flatMap (maxChunker mc)

structure Sched where
  assign : List Nat     -- distribution of the chunks over the workers
  picks  : List Nat     -- interleaving of the emitted records

def chunksOfP {G S P Row} (cp : CompsP G S P Row) (cfg : Cfg) (ts : List Triple) : List (List Task) :=
  (chunkTasks cfg.mt cp.chunkKey (makeTasks .none ts)).map procOrder

/-- events of a run started in a process whose state is `σ`, and the state / heap of that process
afterwards.  Workers are freshly started processes (`σ0`), they never see the caller's `σ`. -/
def runEventsPFrom {G S P Row} (cp : CompsP G S P Row) (cfg : Cfg) (sched : Sched) (seed : Nat) (σ : G)
    (ts : List Triple) : List (Ev P Row) × (G × Heap S) :=
  if cfg.multi then
    let lives := retire cfg.mc (livesOf sched.assign (chunksOfP cp cfg ts))
    (interleave (lives.flatMap (fun life => (runLifeP cp seed cp.σ0 life).1)) sched.picks, (σ, cp.init))
  else
    runSeqP cp seed (σ, cp.init) (chunksOfP cp cfg ts).flatten

def runPFrom {G S P Row} (cp : CompsP G S P Row) (cfg : Cfg) (sched : Sched) (seed : Nat) (σ : G)
    (ts : List Triple) : Result P Row :=
  result (Rec.T0 (metaOf seed ts) :: (runEventsPFrom cp cfg sched seed σ ts).1.filterMap Ev.rec?)

/-- a run in a fresh process -/
def runP {G S P Row} (cp : CompsP G S P Row) (cfg : Cfg) (sched : Sched) (seed : Nat) (ts : List Triple) :
    Result P Row := runPFrom cp cfg sched seed cp.σ0 ts

def runLogP {G S P Row} (cp : CompsP G S P Row) (cfg : Cfg) (sched : Sched) (seed : Nat) (ts : List Triple) :
    List Task := (runEventsPFrom cp cfg sched seed cp.σ0 ts).1.filterMap Ev.err?

/-- the process state the caller's process is left in by a run -/
def stateAfter {G S P Row} (cp : CompsP G S P Row) (cfg : Cfg) (sched : Sched) (seed : Nat) (σ : G)
    (ts : List Triple) : G := (runEventsPFrom cp cfg sched seed σ ts).2.1

/-- the spec with process state: the σ-free spec of the clean components -/
def resultSP {G S P Row} (cp : CompsP G S P Row) (seed : Nat) (ts : List Triple) : Result P Row :=
  resultS (cp.clean ts) seed ts


/-! ## phase 3: resumed runs (`Experiment.run(result_file=…)` on an existing log)

`Result.from_file` restores the records of an earlier run, `MakeTasks` skips every parameter task whose id
and every evaluation task whose key is restored, the new records are appended to the log and
`TransactionResult` reads the whole log. -/

/-- `if eid not in restored_envs`, …, `(eid,lid,vid) not in restored_outs` -/
def Task.keep (R : Restored) : Task → Bool
  | .env i _ => decide (i ∉ R.envs)
  | .lrn i _ => decide (i ∉ R.lrns)
  | .val i _ => decide (i ∉ R.vals)
  | .eval ei _ li _ vi _ _ => decide ((ei, li, vi) ∉ R.outs)

/-- what `MakeTasks` learns from the restored Result: the ids / keys that have a row -/
def restoredOf {P Row} (recs : List (Rec P Row)) : Restored :=
  { envs := (recs.filterMap Rec.t1?).map (·.1), lrns := (recs.filterMap Rec.t2?).map (·.1),
    vals := (recs.filterMap Rec.t3?).map (·.1), outs := (recs.filterMap Rec.t4?).map (·.1) }

def chunksOn {S P Row} (c : Comps S P Row) (cfg : Cfg) (tasks : List Task) : List (List Task) :=
  (chunkTasks cfg.mt c.chunkKey tasks).map procOrder

/-- the events of processing an arbitrary task list under a configuration and a schedule -/
def runEventsOn {S P Row} (c : Comps S P Row) (cfg : Cfg) (picks : List Nat) (seed : Nat)
    (tasks : List Task) : List (Ev P Row) × Heap S :=
  if cfg.multi then
    (interleave ((chunksOn c cfg tasks).map (fun ch => (runSeq c seed c.init ch).1)) picks, c.init)
  else
    runSeq c seed c.init (chunksOn c cfg tasks).flatten

/-- the tasks a run resumed from the log `old` still has to do -/
def resumedTasks {P Row} (old : List (Rec P Row)) (ts : List Triple) : List Task := makeTasks (restoredOf old) ts

/-- the Result of a run resumed from a log that holds the experiment record and the records `old` of an
earlier run (in any order): the new records are appended, the whole log is read -/
def runResumed {S P Row} (c : Comps S P Row) (cfg : Cfg) (picks : List Nat) (seed : Nat) (ts : List Triple)
    (old : List (Rec P Row)) : Result P Row :=
  result (Rec.T0 (metaOf seed ts) :: (old ++ (runEventsOn c cfg picks seed (resumedTasks old ts)).1.filterMap Ev.rec?))

/-! ## phase 4 (a): resumed runs with process state

The resumed layer of phase 3 threaded no process state.  Here the tasks a resumed run still has to do are
processed exactly like those of a fresh run in the process-state model: in-process on the caller's process
state `σ`, on workers per lifetime from `σ0` (any chunk-to-worker assignment, retirement after `mc` chunks),
un-copyable shared learners raise inside the per-task `try`. -/

def chunksOnP {G S P Row} (cp : CompsP G S P Row) (cfg : Cfg) (tasks : List Task) : List (List Task) :=
  (chunkTasks cfg.mt cp.chunkKey tasks).map procOrder

/-- events of processing an arbitrary task list in the process-state model, started in a process whose state is `σ` -/
def runEventsOnPFrom {G S P Row} (cp : CompsP G S P Row) (cfg : Cfg) (sched : Sched) (seed : Nat) (σ : G)
    (tasks : List Task) : List (Ev P Row) × (G × Heap S) :=
  if cfg.multi then
    let lives := retire cfg.mc (livesOf sched.assign (chunksOnP cp cfg tasks))
    (interleave (lives.flatMap (fun life => (runLifeP cp seed cp.σ0 life).1)) sched.picks, (σ, cp.init))
  else
    runSeqP cp seed (σ, cp.init) (chunksOnP cp cfg tasks).flatten

/-- `runResumed` with process state: the Result of a run resumed from the log `old`, started in a process in state `σ` -/
def runResumedPFrom {G S P Row} (cp : CompsP G S P Row) (cfg : Cfg) (sched : Sched) (seed : Nat) (σ : G)
    (ts : List Triple) (old : List (Rec P Row)) : Result P Row :=
  result (Rec.T0 (metaOf seed ts) ::
    (old ++ (runEventsOnPFrom cp cfg sched seed σ (resumedTasks old ts)).1.filterMap Ev.rec?))

def runResumedP {G S P Row} (cp : CompsP G S P Row) (cfg : Cfg) (sched : Sched) (seed : Nat)
    (ts : List Triple) (old : List (Rec P Row)) : Result P Row := runResumedPFrom cp cfg sched seed cp.σ0 ts old

/-! ## phase 4 (b): the built-in evaluator `SequentialCB` as the evaluation component

`Model/C06.evaluate` is the model of `SequentialCB(record, learn, eval).evaluate(env, learner)` (validation, the
predict / score / learn passes per batch, the recorded row).  A `SeqWorld` says which `SequentialCB` configuration
every evaluator object has, which `predict / score / learn` functions and pristine state every learner object has,
and which interactions a read of every environment object yields (or that the read raises).  `seqComps` plugs this
into `Comps`: `eval v e (l, s) seed` is `C06.evaluate (cfgOf v) (learner l) (batch e) (rows of e) s`; a validation
reject (`CobaException`), a crash inside the evaluation and a failing read are the task's exception.  The learner
state carries the identity of its object (as in `CompsP.clean`).  The seed is not used: this is the deterministic
path (learners answering with an action [+ probability]; PMF answers draw from `CobaRandom(seed)`, C05/C06 `wrapPmf`). -/

structure SeqWorld (σ V R P : Type) where
  envParams : Nat → Except Err P
  lrnParams : Nat → Except Err P
  valParams : Nat → Except Err P
  chunkKey  : Nat → Option Nat
  valSeed   : Nat → Option Nat
  cfgOf     : Nat → Coba.C06.Config                       -- evaluator object ↦ SequentialCB(record, learn, eval)
  learner   : Nat → Coba.C06.Learner σ V                  -- learner object ↦ its methods
  init      : Nat → σ                                     -- … and its pristine state
  envRows   : Nat → Except Err (List (Coba.C06.Dict (Coba.C06.Fld V R)))   -- what a read yields / raises
  batch     : Nat → Option Nat                            -- batch size when the environment is batched

def seqOutcome {σ V R : Type} (ls : Nat × σ) :
    Coba.C06.Outcome (σ × List (Coba.C06.Call V) × List (Coba.C06.Row V R)) →
      Except Err (List (Coba.C06.Row V R)) × (Nat × σ)
  | .ok r => (.ok r.2.2, (ls.1, r.1))
  | .rejected _ => (.error .raised, ls)
  | .crashed _ => (.error .raised, ls)

def seqEval {σ V R P : Type} [DecidableEq V] [Coba.C06.RewardFn R V] (w : SeqWorld σ V R P)
    (v e : Nat) (ls : Nat × σ) (_seed : Nat) : Except Err (List (Coba.C06.Row V R)) × (Nat × σ) :=
  match w.envRows e with
  | .error _ => (.error .raised, ls)
  | .ok rows => seqOutcome ls (Coba.C06.evaluate (w.cfgOf v) (w.learner ls.1) (w.batch e) rows ls.2)

def seqComps {σ V R P : Type} [DecidableEq V] [Coba.C06.RewardFn R V] (w : SeqWorld σ V R P) :
    Comps (Nat × σ) P (Coba.C06.Row V R) :=
  { envParams := w.envParams, lrnParams := w.lrnParams, valParams := w.valParams, chunkKey := w.chunkKey,
    init := fun l => (l, w.init l), valSeed := w.valSeed, eval := seqEval w }

/-! ## phase 5: PMF-answering and `learning_info`-writing learners inside the SequentialCB experiment model

A learner object of a `SeqWorldX` is either an ordinary one (`ext l = none`: `base.learner l`, exactly `seqComps`), or
* `.pmf P dflt` — it answers `predict` with a PMF.  `SequentialCB.evaluate` wraps it in `SafeLearner(learner, seed)` where
  `seed = self._seed if self._seed is not None else CobaContext.store.get("experiment_seed")` — the `seed` argument
  of `Comps.eval` (`effSeed`) — and `SafeLearner` draws the action with `CobaRandom(seed)`, **fresh for every
  evaluation**: the evaluator sees `C06.wrapPmf P dflt` started at generator state `C05.normInt seed`; the generator
  state is dropped afterwards, only the learner object's own state survives the evaluation;
* `.info L` — it writes `CobaContext.learning_info` while predicting / learning: `C06.evaluateI` (the channel is
  cleared when the evaluation starts, merged into the interaction's own row and cleared after every pass), un-batched
  environments; on a batched environment the info is not modelled (`C06.evaluate` on the silent learner).
Environment pipelines `chunk()` / `cache()` in front of the source enter through `base.chunkKey` (identity of the last
`Chunk` pipe) exactly as in the toy kind. -/

inductive SeqExt (σ V : Type) where
  | info (L : Coba.C06.InfoLearner σ V)
  | pmf (P : Coba.C06.PmfLearner σ V) (dflt : V)
  /-- an ordinary learner whose answer to a batched `predict` is a list of rows with `len` items each (e.g. `(action,
  probability)` tuples: `len = 2`) — see `probeWrap` -/
  | rowLen (L : Coba.C06.Learner σ V) (len : Nat)

/-- **The orientation probe of `SafeLearner.batch_order`** (coba/safety.py:75-102, reached from `_parse_pred` on the first
predict of a `SafeLearner`, i.e. once per evaluation).  When the first batched answer `pred` is neither a dict nor a list
of dicts, its first row has a `__len__`, and `len(pred) == len(pred[0])` ("square": the number of rows of the first batch
equals the number of items per row), the major order cannot be told from the shapes and the code calls
`predictor(Batch([context[0]]), Batch([actions[0]]))` — **a second `predict` on the first interaction**, after the
predicts of the first batch; its answer is only measured, but a learner whose `predict` is stateful has advanced.
`probeWrap L k`: the learner as the evaluator sees it through such a `SafeLearner` when the first batch has `k` rows:
the state also counts the predicts of this evaluation and remembers the first call's arguments; completing the `k`-th
predict triggers the extra call. (Recorded by C06 as `trace:extra-predict:batched-orientation-probe`; C15's `probeMade`
is the same condition on Python values.) -/
def probeWrap {σ V : Type} (L : Coba.C06.Learner σ V) (k : Nat) :
    Coba.C06.Learner (σ × Nat × Option (Option V × Option (List V))) V :=
  { hasScore := L.hasScore,
    predict := fun st ctx acts =>
      let r := L.predict st.1 ctx acts
      let first := match st.2.2 with
        | some f => f
        | none => (ctx, acts)
      let n := st.2.1 + 1
      ((if n == k then (L.predict r.1 first.1 first.2).1 else r.1, n, some first), r.2),
    score := fun st ctx acts a => let r := L.score st.1 ctx acts a; ((r.1, st.2), r.2),
    learn := fun st ctx a r p kw => (L.learn st.1 ctx a r p kw, st.2) }

def seqOutcomeB {σ V R τ : Type} (ls : Nat × σ) :
    Coba.C06.Outcome ((σ × τ) × List (Coba.C06.Call V) × List (Coba.C06.Row V R)) →
      Except Err (List (Coba.C06.Row V R)) × (Nat × σ)
  | .ok r => (.ok r.2.2, (ls.1, r.1.1))
  | .rejected _ => (.error .raised, ls)
  | .crashed _ => (.error .raised, ls)

structure SeqWorldX (σ V R P : Type) where
  base : SeqWorld σ V R P
  ext  : Nat → Option (SeqExt σ V)

def seqOutcomeI {σ V R : Type} (ls : Nat × σ) :
    Coba.C06.Outcome (σ × List (Coba.C06.Call V) × List (Coba.C06.Row V R) × List (Coba.C06.Row V R) ×
        List (Coba.C06.Dict V)) →
      Except Err (List (Coba.C06.Row V R)) × (Nat × σ)
  | .ok r => (.ok r.2.2.1, (ls.1, r.1))
  | .rejected _ => (.error .raised, ls)
  | .crashed _ => (.error .raised, ls)

def seqOutcomeP {σ V R : Type} (ls : Nat × σ) :
    Coba.C06.Outcome ((σ × Nat) × List (Coba.C06.Call V) × List (Coba.C06.Row V R)) →
      Except Err (List (Coba.C06.Row V R)) × (Nat × σ)
  | .ok r => (.ok r.2.2, (ls.1, r.1.1))
  | .rejected _ => (.error .raised, ls)
  | .crashed _ => (.error .raised, ls)

/-- the evaluation of an extended learner object on the interactions `rows` of environment `e` -/
def seqEvalExt {σ V R P : Type} [DecidableEq V] [Coba.C06.RewardFn R V] (w : SeqWorld σ V R P)
    (v e : Nat) (ls : Nat × σ) (seed : Nat) (rows : List (Coba.C06.Dict (Coba.C06.Fld V R))) :
    SeqExt σ V → Except Err (List (Coba.C06.Row V R)) × (Nat × σ)
  | .info L =>
    match w.batch e with
    | none => seqOutcomeI ls (Coba.C06.evaluateI (w.cfgOf v) L rows ls.2)
    | some n => seqOutcome ls (Coba.C06.evaluate (w.cfgOf v) L.toLearner (some n) rows ls.2)
  | .rowLen L len =>
    match w.batch e with
    | some n =>
      -- the first batch has `min n rows.length` rows; the probe is made iff that equals the row length of the answers
      if min n rows.length = len then
        seqOutcomeB ls (Coba.C06.evaluate (w.cfgOf v) (probeWrap L len) (some n) rows (ls.2, 0, none))
      else seqOutcome ls (Coba.C06.evaluate (w.cfgOf v) L (some n) rows ls.2)
    | none => seqOutcome ls (Coba.C06.evaluate (w.cfgOf v) L none rows ls.2)
  | .pmf P dflt =>
    seqOutcomeP ls (Coba.C06.evaluate (w.cfgOf v) (Coba.C06.wrapPmf P dflt) (w.batch e) rows
      (ls.2, Coba.C05.normInt (Int.ofNat seed)))

def seqEvalX {σ V R P : Type} [DecidableEq V] [Coba.C06.RewardFn R V] (w : SeqWorldX σ V R P)
    (v e : Nat) (ls : Nat × σ) (seed : Nat) : Except Err (List (Coba.C06.Row V R)) × (Nat × σ) :=
  match w.ext ls.1 with
  | none => seqEval w.base v e ls seed
  | some x =>
    match w.base.envRows e with
    | .error _ => (.error .raised, ls)
    | .ok rows => seqEvalExt w.base v e ls seed rows x

def seqCompsX {σ V R P : Type} [DecidableEq V] [Coba.C06.RewardFn R V] (w : SeqWorldX σ V R P) :
    Comps (Nat × σ) P (Coba.C06.Row V R) :=
  { envParams := w.base.envParams, lrnParams := w.base.lrnParams, valParams := w.base.valParams,
    chunkKey := w.base.chunkKey, init := fun l => (l, w.base.init l), valSeed := w.base.valSeed, eval := seqEvalX w }

/-! ## phase 6: the built-in evaluator `RejectionCB` as an evaluation component (over the C05 stream)

`RejectionCB(record, ope=None, cpct, cmax, cinit, seed).evaluate(env, learner)` (coba/evaluators/sequential.py:406-528):
`rng = CobaRandom(seed)` with `seed = self._seed if self._seed is not None else store["experiment_seed"]` (the `seed`
argument of `Comps.eval`), built **per evaluate**; the first 100 interactions are peeked; an empty environment yields
nothing; the first interaction must have `context, action, reward, actions, probability`, a non-empty action list, the
environment must not be batched and the learner must have `score` (otherwise a `CobaException`); the start value of the
rejection multiplier is `c = cinit or min(filter(None, first_probs) + [cmax])` where `first_probs` are the logged
propensities of the first 100 interactions followed by `(1-p)/(len(actions)-1)` of each (`ZeroDivisionError` for a
one-action interaction).  Per interaction: `on_prob = score(context, actions, action)`; when `on_prob != 0` the ratio
`log_prob/on_prob` is `insort`ed into `Q`; one `rng.random()` is drawn (C05's stream) and the interaction is accepted iff
`random <= c*(on_prob/log_prob)`; an accepted interaction is learned (`learn(context, action, reward, on_prob)`), its row
(`context, actions, action, reward, probability = on_prob` as far as recorded; an empty row is not yielded) is recorded and
`c = min(percentile(Q, cpct, sort=False), cmax)`.  Numbers are exact rationals (the harness generates dyadic values, for
which the float arithmetic of the code is exact).  Not modelled: `ope` other than `None`, `learning_info`, `time`. -/

structure RejConfig where
  record : List String
  cpct : Rat
  cmax : Rat
  cinit : Option Rat

/-- `bisect.insort` (= `insort_right`): behind every element `≤ x` -/
def insortR (x : Rat) : List Rat → List Rat
  | [] => [x]
  | y :: ys => if x < y then x :: y :: ys else y :: insortR x ys

/-- `percentile(values, p, sort=False)` of coba/statistics.py (no weights); `none` = the call raises
(`IndexError` on `[]`, `AssertionError` for `p` outside `[0,1]`) -/
def rejPercentile (q : List Rat) (p : Rat) : Option Rat :=
  match q with
  | [x] => some x
  | _ =>
    if p < 0 ∨ 1 < p then none
    else if p = 0 then q.head?
    else if p = 1 then q.getLast?
    else
      let i : Rat := p * (((q.length - 1 : Nat) : Int) : Rat)
      let I : Nat := i.floor.toNat
      if q.length = 0 then none
      else if i = ((I : Int) : Rat) then q[I]?
      else match q[I]?, q[I+1]? with
        | some a, some b => some ((1 - (i - ((I : Int) : Rat))) * a + (i - ((I : Int) : Rat)) * b)
        | _, _ => none

/-- `first_probs` of the peeked interactions: the logged propensities and `(1-p)/(len(actions)-1)`; `none` = raises -/
def rejFirstProbs {V R : Type} : List (Coba.C06.Dict (Coba.C06.Fld V R)) → Option (List Rat × List Rat)
  | [] => some ([], [])
  | d :: ds =>
    match Coba.C06.Dict.get? d "probability", Coba.C06.Dict.get? d "actions", rejFirstProbs ds with
    | some (.num p), some (.acts as), some (ps, qs) =>
      if as.length = 1 then none else some (p :: ps, (1 - p) / ((((as.length : Nat) : Int) - 1 : Int) : Rat) :: qs)
    | _, _, _ => none

/-- `c = self._cinit or min(list(filter(None, first_probs)) + [self._cmax])` -/
def rejStart {V R : Type} (rc : RejConfig) (peek : List (Coba.C06.Dict (Coba.C06.Fld V R))) : Option Rat :=
  match rejFirstProbs peek with
  | none => none
  | some (ps, qs) =>
    match rc.cinit with
    | some c0 => if c0 ≠ 0 then some c0 else some (((ps ++ qs).filter (· ≠ 0)).foldl min rc.cmax)
    | none => some (((ps ++ qs).filter (· ≠ 0)).foldl min rc.cmax)

def rejKeys : List String := ["context", "action", "reward", "actions", "probability"]
def rejPeek : Nat := 100

/-- the recorded row of an accepted interaction (`out`), keys in the order the code inserts them -/
def rejRow {V R : Type} (rc : RejConfig) (ctx : Option V) (acts : Option (List V)) (a : Option V) (r : Option Rat)
    (onp : Rat) : Coba.C06.Row V R :=
  (if rc.record.contains "context" then [("context", Coba.C06.Cell.val ctx)] else []) ++
  (if rc.record.contains "actions" then [("actions", Coba.C06.Cell.acts acts)] else []) ++
  (if rc.record.contains "action" then [("action", Coba.C06.Cell.val a)] else []) ++
  (if rc.record.contains "reward" then [("reward", Coba.C06.Cell.num r)] else []) ++
  (if rc.record.contains "probability" then [("probability", Coba.C06.Cell.num (some onp))] else [])

/-- the five `pop`s of a loop pass; `none` = one of them raises `KeyError` / the field has a shape the code cannot use -/
def rejFields {V R : Type} (d : Coba.C06.Dict (Coba.C06.Fld V R)) :
    Option (Option V × Option (List V) × Option V × Option Rat × Option Rat) :=
  match Coba.C06.getVal "context" (Coba.C06.Dict.get? d "context"), Coba.C06.getActs (Coba.C06.Dict.get? d "actions"),
        Coba.C06.getVal "action" (Coba.C06.Dict.get? d "action"), Coba.C06.getNum "reward" (Coba.C06.Dict.get? d "reward"),
        Coba.C06.getNum "probability" (Coba.C06.Dict.get? d "probability") with
  | .ok ctx, .ok acts, .ok a, .ok r, .ok p => some (ctx, acts, a, r, p)
  | _, _, _, _, _ => none

/-- the loop of `RejectionCB.evaluate`: learner state `s`, generator state `g`, sorted ratios `q`, multiplier `c`, rows so
far (reversed).  Returns the rows or "raised" and the state the learner object is left in (also when it raises). -/
def rejLoop {σ V R : Type} (rc : RejConfig) (L : Coba.C06.Learner σ V) :
    List (Coba.C06.Dict (Coba.C06.Fld V R)) → σ → Nat → List Rat → Rat → List (Coba.C06.Row V R) →
      Except Err (List (Coba.C06.Row V R)) × σ
  | [], s, _, _, _, acc => (.ok acc.reverse, s)
  | d :: ds, s, g, q, c, acc =>
    match rejFields d with
    | none => (.error .raised, s)
    | some (ctx, acts, a, r, p?) =>
      let sc := L.score s ctx acts a
      match p? with
      | none => (.error .raised, sc.1)                       -- `log_prob/on_prob` / `on_prob/log_prob` on None
      | some p =>
        let q' := if sc.2 = 0 then q else insortR (p / sc.2) q
        if p = 0 then (.error .raised, sc.1)                 -- ZeroDivisionError
        else
          let rnd := Coba.C05.random g 0 1
          if rnd.2 ≤ c * (sc.2 / p) then
            let s2 := L.learn sc.1 ctx a r (some sc.2) []
            if rc.record.contains "reward" && r.isNone then (.error .raised, s2)      -- mean([None])
            else
              match rejPercentile q' rc.cpct with
              | none => (.error .raised, s2)
              | some pc =>
                let row : Coba.C06.Row V R := rejRow rc ctx acts a r sc.2
                rejLoop rc L ds s2 rnd.1 q' (min pc rc.cmax) (if row.isEmpty then acc else row :: acc)
          else rejLoop rc L ds sc.1 rnd.1 q' c acc

def rejDiscrete {V R : Type} (first : Coba.C06.Dict (Coba.C06.Fld V R)) : Bool :=
  match Coba.C06.Dict.get? first "actions" with
  | some (.acts (_ :: _)) => true
  | _ => false

/-- `RejectionCB.evaluate` on the interactions `env` of an environment (`bs = some n`: batched), learner in state `s`,
generator freshly seeded to state `g` -/
def rejEvaluate {σ V R : Type} (rc : RejConfig) (L : Coba.C06.Learner σ V) (bs : Option Nat)
    (env : List (Coba.C06.Dict (Coba.C06.Fld V R))) (s : σ) (g : Nat) : Except Err (List (Coba.C06.Row V R)) × σ :=
  match env with
  | [] => (.ok [], s)
  | first :: _ =>
    if !(rejKeys.all (fun k => Coba.C06.Dict.has first k)) || !rejDiscrete first || bs.isSome || !L.hasScore then
      (.error .raised, s)
    else
      match rejStart rc (env.take rejPeek) with
      | none => (.error .raised, s)
      | some c => rejLoop rc L env s g [] c []

/-- a `SeqWorldX` in which an evaluator object may be a `RejectionCB` (`rej v = some rc`) instead of a `SequentialCB` -/
structure SeqWorldR (σ V R P : Type) where
  x : SeqWorldX σ V R P
  rej : Nat → Option RejConfig

def seqEvalR {σ V R P : Type} [DecidableEq V] [Coba.C06.RewardFn R V] (w : SeqWorldR σ V R P)
    (v e : Nat) (ls : Nat × σ) (seed : Nat) : Except Err (List (Coba.C06.Row V R)) × (Nat × σ) :=
  match w.rej v with
  | none => seqEvalX w.x v e ls seed
  | some rc =>
    match w.x.base.envRows e with
    | .error _ => (.error .raised, ls)
    | .ok rows =>
      let r := rejEvaluate rc (w.x.base.learner ls.1) (w.x.base.batch e) rows ls.2 (Coba.C05.normInt (Int.ofNat seed))
      (r.1, (ls.1, r.2))

def seqCompsR {σ V R P : Type} [DecidableEq V] [Coba.C06.RewardFn R V] (w : SeqWorldR σ V R P) :
    Comps (Nat × σ) P (Coba.C06.Row V R) :=
  { envParams := w.x.base.envParams, lrnParams := w.x.base.lrnParams, valParams := w.x.base.valParams,
    chunkKey := w.x.base.chunkKey, init := fun l => (l, w.x.base.init l), valSeed := w.x.base.valSeed, eval := seqEvalR w }

end Coba.C01
