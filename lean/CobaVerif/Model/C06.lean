/-
C06 — Sequential evaluation feeds and records exactly what the environment provides.

Executable model `M` of `SequentialCB.evaluate` (coba/evaluators/sequential.py) together with
the parts of `Finalize`, `OpeRewards('IPS')`, `BatchSafe`, `Unbatch` it relies on, and the spec
`S` (what the property demands).  Import-free: this file is compiled into the driver.

Reading of the code that is mirrored (with the repairs of fixes/C06-*.diff applied):
* an interaction is a Python dict  → `Dict (Fld V R)` (association list, insertion order);
* a learner is a Mealy machine over an abstract state `σ` (`Learner σ V`); `SafeLearner`'s
  prediction-format parsing is C15's subject and is the identity here;
* `_required`/`_validate`     → `required`, `validate`;
* `Finalize`                  → `finalize` (sequence rewards become `DiscreteReward(actions, rewards)`);
* `OpeRewards('IPS', target)` → `opeIps` (adds `BinaryReward(action, reward/(probability or 1))`);
* the body of the `for interaction in interactions` loop → `prep` (look-ups), `predictPhase`,
  `scorePhase`, `learnPhase`, `mkRow`; Python's accumulate-and-yield loops are `foldl`s;
* batching: `chunks` (Batch re-groups by the first batch's size), one `stepChunk` per batch,
  `Unbatch` of the rows is the concatenation of the per-row rows;
* timing columns are not modelled (the harness removes them).
`V` = opaque values (contexts, actions, extra fields, kwargs) with decidable equality
(Python `==`), `R` = reward-function objects with an evaluation map (`RewardFn`).

PMF answers: `SafeLearner` turns a PMF over the action list into (action, probability) by drawing with its own
`CobaRandom(seed)` — `Coba.C05.choicew` of the finished C05 model; see `wrapPmf`.
-/
import CobaVerif.Model.C05

namespace Coba.C06

/-! ## Python-ish dictionaries -/

abbrev Dict (α : Type) := List (String × α)

namespace Dict
variable {α : Type}

def get? (d : Dict α) (k : String) : Option α :=
  match d with
  | [] => none
  | (k', v) :: rest => if k' = k then some v else get? rest k

def has (d : Dict α) (k : String) : Bool := (d.get? k).isSome

/-- `d[k] = v` : replace in place when the key exists, append otherwise -/
def set (d : Dict α) (k : String) (v : α) : Dict α :=
  match d with
  | [] => [(k, v)]
  | (k', v') :: rest => if k' = k then (k, v) :: rest else (k', v') :: set rest k v

def keys (d : Dict α) : List String := d.map (·.1)

end Dict

/-! ## Configuration -/

inductive LearnMode | on | off | ips | none
  deriving DecidableEq, Repr

inductive EvalMode | on | ips | none
  deriving DecidableEq, Repr

structure Config where
  learn : LearnMode
  eval : EvalMode
  record : List String
  deriving Repr

def Config.rcd (c : Config) (name : String) : Bool := c.record.contains name

/-! ## Values flowing through an evaluation -/

/-- reward-function objects are abstract; all that is used is their value at an action -/
class RewardFn (R V : Type) where
  app : R → V → Rat

/-- a field of an interaction -/
inductive Fld (V R : Type) where
  | val (v : V)                              -- any opaque value
  | none                                     -- Python `None`
  | acts (as : List V)                       -- an action list
  | num (q : Rat)                            -- a number (logged reward / probability)
  | rlist (rs : List Rat)                    -- sequence rewards, aligned with `actions`
  | rfn (f : R)                              -- functional rewards
  | disc (as : List V) (rs : List Rat)       -- `DiscreteReward(actions, rewards)` made by Finalize
  | ips (a : Option V) (v : Rat)             -- `BinaryReward(action, value)` made by OpeRewards('IPS')
  deriving DecidableEq

structure Pred (V : Type) where
  action : V
  prob : Option Rat
  kw : Dict V

structure Learner (σ V : Type) where
  hasScore : Bool
  predict : σ → Option V → Option (List V) → σ × Pred V
  score : σ → Option V → Option (List V) → Option V → σ × Rat
  learn : σ → Option V → Option V → Option Rat → Option Rat → Dict V → σ

/-- what the learner sees -/
inductive Call (V : Type) where
  | predict (ctx : Option V) (acts : Option (List V))
  | score (ctx : Option V) (acts : Option (List V)) (a : Option V)
  | learn (ctx : Option V) (a : Option V) (r : Option Rat) (p : Option Rat) (kw : Dict V)
  deriving DecidableEq

/-- a cell of a result row -/
inductive Cell (V R : Type) where
  | val (v : Option V)                        -- recorded context / chosen action
  | acts (as : Option (List V))               -- recorded action list
  | num (q : Option Rat)                      -- recorded reward / probability
  | nums (qs : List Rat)                      -- recorded rewards of a discrete interaction
  | fld (f : Fld V R)                         -- an interaction field carried over unchanged
  deriving DecidableEq

abbrev Row (V R : Type) := Dict (Cell V R)

inductive Err where
  | keyError (k : String)
  | badField (k : String)                     -- a field of the wrong shape (TypeError &c.)
  | rewardsMismatch                           -- DiscreteReward: len(actions) != len(rewards)
  | notCallable
  deriving DecidableEq, Repr

/-! ## `_required`, `_validate` and the flags computed from the first interaction -/

def implicitExclude : List String :=
  ["context", "actions", "rewards", "action", "reward", "probability", "eval_rewards", "learn_rewards"]

def outAction (c : Config) : Bool := c.rcd "action" && c.eval != .none
def outProb (c : Config) : Bool := c.rcd "probability" && c.eval != .none

/-- `should_pred` -/
def shouldPred (c : Config) (hasScore : Bool) : Bool :=
  (c.learn != .none && c.learn != .off) || c.eval == .on || (c.eval == .ips && !hasScore)
    || outAction c || outProb c

/-- `_required(has_score)` (with the repair that a prediction forced by the record options also
needs `actions`) -/
def required (c : Config) (hasScore : Bool) : List String :=
  let pred := (c.learn != .none && c.learn != .off) || (c.eval != .none && (c.eval != .ips || !hasScore))
                || outAction c || outProb c
  let off := (c.learn != .none && c.learn != .on) || (c.eval != .none && c.eval != .on)
  let rwds := c.learn == .on || c.eval == .on
  (if pred then ["actions"] else []) ++ (if off then ["action", "reward"] else [])
    ++ (if rwds then ["rewards"] else [])

variable {V R : Type}

def missingKeys (c : Config) (hasScore : Bool) (first : Dict (Fld V R)) : List String :=
  (required c hasScore).filter (fun k => !first.has k)

structure Flags where
  hasContext : Bool
  hasActions : Bool
  hasRewards : Bool
  hasReward : Bool
  hasAction : Bool
  hasProb : Bool
  discrete : Bool
  rwdsIsList : Bool
  deriving Repr, DecidableEq

def isDiscrete (first : Dict (Fld V R)) : Bool :=
  match first.get? "actions" with
  | some (.acts as) => !as.isEmpty
  | _ => false

def isRList : Option (Fld V R) → Bool
  | some (.rlist _) => true
  | _ => false

def mkFlags (first : Dict (Fld V R)) : Flags :=
  { hasContext := first.has "context", hasActions := first.has "actions", hasRewards := first.has "rewards",
    hasReward := first.has "reward", hasAction := first.has "action", hasProb := first.has "probability",
    discrete := isDiscrete first, rwdsIsList := isRList (first.get? "rewards") }

/-! ## Reward objects -/

/-- `DiscreteReward((actions, rewards))(a)`: the reward at the first position holding `a`, else 0 -/
def discApp [DecidableEq V] : List V → List Rat → V → Rat
  | a' :: as, r :: rs, a => if a' = a then r else discApp as rs a
  | _, _, _ => 0

/-- calling a reward object -/
def applyRwd [DecidableEq V] [RewardFn R V] : Option (Fld V R) → Option V → Except Err Rat
  | some (.rfn f), some a => .ok (RewardFn.app f a)
  | some (.disc as rs), some a => .ok (discApp as rs a)
  | some (.ips alog v), a => .ok (if alog = a then v else 0)
  | _, _ => .error .notCallable

/-! ## Filters applied to every interaction before the loop -/

/-- `Finalize`: sequence rewards become a `DiscreteReward` over this interaction's actions -/
def finalize (rwdsIsList : Bool) (d : Dict (Fld V R)) : Except Err (Dict (Fld V R)) :=
  if rwdsIsList then
    match d.get? "actions", d.get? "rewards" with
    | some (.acts as), some (.rlist rs) =>
      if as.length = rs.length then .ok (d.set "rewards" (.disc as rs)) else .error .rewardsMismatch
    | none, _ => .error (.keyError "actions")
    | _, none => .error (.keyError "rewards")
    | _, _ => .error (.badField "rewards")
  else .ok d

/-- `interaction.get('probability') or 1` -/
def probOr1 : Option (Fld V R) → Except Err Rat
  | none => .ok 1
  | some .none => .ok 1
  | some (.num p) => .ok (if p = 0 then 1 else p)
  | _ => .error (.badField "probability")

def fldAction : Option (Fld V R) → Except Err (Option V)
  | some (.val a) => .ok (some a)
  | some .none => .ok none
  | none => .error (.keyError "action")
  | _ => .error (.badField "action")

def fldReward : Option (Fld V R) → Except Err (Option Rat)
  | some (.num r) => .ok (some r)
  | some .none => .ok none
  | none => .error (.keyError "reward")
  | _ => .error (.badField "reward")

/-- `OpeRewards('IPS', target)`: `d[target] = BinaryReward(d['action'], d['reward']/(d.get('probability') or 1))` -/
def opeIps (target : String) (d : Dict (Fld V R)) : Except Err (Dict (Fld V R)) := do
  let a ← fldAction (d.get? "action")
  let r ← fldReward (d.get? "reward")
  let p ← probOr1 (d.get? "probability")
  match r with
  | some r => pure (d.set target (.ips a (r / p)))
  | none => throw (.badField "reward")

def learnIps (c : Config) : Bool := c.learn == .ips
def evalIpsOwn (c : Config) : Bool := c.eval == .ips && c.learn != .ips
def evalTarget (c : Config) : String := if evalIpsOwn c then "eval_rewards" else "learn_rewards"

/-- the filter pipeline of `evaluate`/`_results` on one interaction -/
def opeIf (on : Bool) (target : String) (d : Dict (Fld V R)) : Except Err (Dict (Fld V R)) :=
  if on then opeIps target d else .ok d

def pipeline (c : Config) (fl : Flags) (d : Dict (Fld V R)) : Except Err (Dict (Fld V R)) := do
  let d1 ← finalize fl.rwdsIsList d
  let d2 ← opeIf (learnIps c) "learn_rewards" d1
  opeIf (evalIpsOwn c) "eval_rewards" d2

/-! ## The loop body -/

/-- what the loop body reads from one (filtered) interaction -/
structure RowIn (V R : Type) where
  ctx : Option V
  acts : Option (List V)
  rewards : Option (Fld V R)
  offRwd : Option Rat
  offAct : Option V
  offPr : Option Rat
  lrnRwds : Option (Fld V R)
  valRwds : Option (Fld V R)
  extras : Dict (Fld V R)

def getVal (k : String) : Option (Fld V R) → Except Err (Option V)
  | some (.val v) => .ok (some v)
  | some .none => .ok none
  | none => .error (.keyError k)
  | _ => .error (.badField k)

def getActs : Option (Fld V R) → Except Err (Option (List V))
  | some (.acts as) => .ok (some as)
  | some .none => .ok none
  | none => .error (.keyError "actions")
  | _ => .error (.badField "actions")

def getNum (k : String) : Option (Fld V R) → Except Err (Option Rat)
  | some (.num q) => .ok (some q)
  | some .none => .ok none
  | none => .error (.keyError k)
  | _ => .error (.badField k)

/-- `d.get(k)`: an absent key reads as `None` -/
def getNumOpt (k : String) : Option (Fld V R) → Except Err (Option Rat)
  | some (.num q) => .ok (some q)
  | some .none => .ok none
  | none => .ok none
  | _ => .error (.badField k)

def getAny (k : String) : Option (Fld V R) → Except Err (Option (Fld V R))
  | some f => .ok (some f)
  | none => .error (.keyError k)

def extrasOf (d : Dict (Fld V R)) : Dict (Fld V R) := d.filter (fun kv => !implicitExclude.contains kv.1)

/-- `x if has else None` -/
def whenHas {α : Type} (has : Bool) (x : Except Err (Option α)) : Except Err (Option α) :=
  if has then x else .ok none

/-- `interaction[learn_target] if learn_type else rewards if lrn_on else None` -/
def lrnSel (c : Config) (d : Dict (Fld V R)) (rewards : Option (Fld V R)) : Except Err (Option (Fld V R)) :=
  if learnIps c then getAny "learn_rewards" (d.get? "learn_rewards")
  else .ok (if c.learn == .on then rewards else none)

/-- `interaction[eval_target] if eval_type else rewards if val_on else None` -/
def valSel (c : Config) (d : Dict (Fld V R)) (rewards : Option (Fld V R)) : Except Err (Option (Fld V R)) :=
  if c.eval == .ips then getAny (evalTarget c) (d.get? (evalTarget c))
  else .ok (if c.eval == .on then rewards else none)

/-- the look-ups at the top of the loop body -/
def readRow (c : Config) (fl : Flags) (d : Dict (Fld V R)) : Except Err (RowIn V R) := do
  let ctx ← whenHas fl.hasContext (getVal "context" (d.get? "context"))
  let acts ← whenHas fl.hasActions (getActs (d.get? "actions"))
  let rewards ← whenHas fl.hasRewards (getAny "rewards" (d.get? "rewards"))
  let offRwd ← whenHas fl.hasReward (getNum "reward" (d.get? "reward"))
  let offAct ← whenHas fl.hasAction (getVal "action" (d.get? "action"))
  let offPr ← getNumOpt "probability" (d.get? "probability")   -- `interaction.get('probability', None)`: read per interaction (fix C06-F8)
  let lrnRwds ← lrnSel c d rewards
  let valRwds ← valSel c d rewards
  pure { ctx, acts, rewards, offRwd, offAct, offPr, lrnRwds, valRwds, extras := extrasOf d }

def prep (c : Config) (fl : Flags) (d : Dict (Fld V R)) : Except Err (RowIn V R) :=
  pipeline c fl d >>= readRow c fl

def prepAll (c : Config) (fl : Flags) : List (Dict (Fld V R)) → Except Err (List (RowIn V R))
  | [] => .ok []
  | d :: ds => do
    let r ← prep c fl d
    let rs ← prepAll c fl ds
    pure (r :: rs)

variable {σ : Type}

/-- `learner.predict(context, actions)` on every row of a batch, rows in order (a Python loop
that appends to lists) -/
def predictPhase (L : Learner σ V) (s : σ) (rows : List (RowIn V R)) : σ × List (Pred V) × List (Call V) :=
  rows.foldl (fun (acc : σ × List (Pred V) × List (Call V)) r =>
    let (s', p) := L.predict acc.1 r.ctx r.acts
    (s', acc.2.1 ++ [p], acc.2.2 ++ [Call.predict r.ctx r.acts])) (s, [], [])

def scorePhase (L : Learner σ V) (s : σ) (rows : List (RowIn V R)) : σ × List Rat × List (Call V) :=
  rows.foldl (fun (acc : σ × List Rat × List (Call V)) r =>
    let (s', q) := L.score acc.1 r.ctx r.acts r.offAct
    (s', acc.2.1 ++ [q], acc.2.2 ++ [Call.score r.ctx r.acts r.offAct])) (s, [], [])

/-- `eval_reward` of one row -/
def evalReward [DecidableEq V] [RewardFn R V] (scoreBased : Bool) (r : RowIn V R) (p : Option (Pred V))
    (sc : Option Rat) : Except Err Rat :=
  if scoreBased then
    match sc with
    | some q => do let w ← applyRwd r.valRwds r.offAct; pure (q * w)
    | none => .error .notCallable
  else
    match p with
    | some p => applyRwd r.valRwds (some p.action)
    | none => .error .notCallable

/-- arguments of the `learn` call of one row -/
def learnArgs [DecidableEq V] [RewardFn R V] (c : Config) (r : RowIn V R) (p : Option (Pred V)) :
    Except Err (Option V × Option Rat × Option Rat × Dict V) :=
  if c.learn == .off then .ok (r.offAct, r.offRwd, r.offPr, [])
  else match p with
    | some p => do
      let w ← applyRwd r.lrnRwds (some p.action)
      pure (some p.action, some w, p.prob, p.kw)
    | none => .error .notCallable

def learnPhase (L : Learner σ V) (s : σ) (rows : List (RowIn V R))
    (args : List (Option V × Option Rat × Option Rat × Dict V)) : σ × List (Call V) :=
  (rows.zip args).foldl (fun (acc : σ × List (Call V)) ra =>
    let (r, a) := ra
    (L.learn acc.1 r.ctx a.1 a.2.1 a.2.2.1 a.2.2.2, acc.2 ++ [Call.learn r.ctx a.1 a.2.1 a.2.2.1 a.2.2.2])) (s, [])

/-- `[R(a) for a in A]` -/
def rewardsAt [DecidableEq V] [RewardFn R V] (rw : Option (Fld V R)) : List V → Except Err (List Rat)
  | [] => .ok []
  | a :: as => do
    let x ← applyRwd rw (some a)
    let xs ← rewardsAt rw as
    pure (x :: xs)

/-- `out['rewards'] = get_rewards(rewards, actions)` -/
def rewardsCell [DecidableEq V] [RewardFn R V] (c : Config) (fl : Flags) (r : RowIn V R) : Except Err (Row V R) :=
  if c.rcd "rewards" && fl.hasRewards then
    (if fl.discrete then
      match r.acts with
      | some as => (rewardsAt r.rewards as).map (fun xs => [("rewards", Cell.nums xs)])
      | none => .error (.badField "actions")
    else match r.rewards with
      | some f => .ok [("rewards", Cell.fld f)]
      | none => .error (.keyError "rewards"))
  else .ok []

/-- row assembly (`out = {}` … `out.update(extras)`), timing columns left out.  The literal keys are
distinct and go into an empty dict, so those assignments are appends; the extras are `update`d -/
def mkRow [DecidableEq V] [RewardFn R V] (c : Config) (fl : Flags) (sp batched : Bool) (r : RowIn V R)
    (p : Option (Pred V)) (er : Option Rat) : Except Err (Row V R) :=
  (rewardsCell c fl r).map fun rw =>
    let pr : Option Rat := p.bind (·.prob)
    let base : Row V R :=
      (if c.rcd "context" then [("context", Cell.val r.ctx)] else [])
      ++ (if c.rcd "actions" && fl.hasActions then [("actions", Cell.acts r.acts)] else [])
      ++ (if outAction c then [("action", Cell.val (p.map (·.action)))] else [])
      ++ (if c.rcd "reward" && c.eval != .none then [("reward", Cell.num er)] else [])
      ++ rw
      ++ (if outProb c && sp && (batched || pr.isSome) then [("probability", Cell.num pr)] else [])
    r.extras.foldl (fun o kv => o.set kv.1 (.fld kv.2)) base

def mapM₂ {α β γ : Type} (f : α → β → Except Err γ) : List α → List β → Except Err (List γ)
  | a :: as, b :: bs => do
    let x ← f a b
    let xs ← mapM₂ f as bs
    pure (x :: xs)
  | _, _ => .ok []

def mapM₃ {α β γ δ : Type} (f : α → β → γ → Except Err δ) : List α → List β → List γ → Except Err (List δ)
  | a :: as, b :: bs, c :: cs => do
    let x ← f a b c
    let xs ← mapM₃ f as bs cs
    pure (x :: xs)
  | _, _, _ => .ok []

def optList {α : Type} (on : Bool) (n : Nat) (l : List α) : List (Option α) :=
  if on then l.map some else List.replicate n none

/-- `eval_reward` of every row (nothing when `eval` is None) -/
def evalsOf [DecidableEq V] [RewardFn R V] (c : Config) (scoreBased : Bool) (rows : List (RowIn V R))
    (ps : List (Option (Pred V))) (scs : List (Option Rat)) : Except Err (List (Option Rat)) :=
  if c.eval != .none then (mapM₃ (evalReward scoreBased) rows ps scs).map (·.map some)
  else .ok (List.replicate rows.length none)

/-- the `learn` calls of a batch (none when `learn` is None) -/
def learnsOf [DecidableEq V] [RewardFn R V] (c : Config) (L : Learner σ V) (s : σ) (rows : List (RowIn V R))
    (ps : List (Option (Pred V))) : Except Err (σ × List (Call V)) :=
  if c.learn != .none then (mapM₂ (learnArgs c) rows ps).map (learnPhase L s rows)
  else .ok (s, [])

/-- one pass of the loop body over one batch (a batch of one when the environment is not batched) -/
def stepChunk [DecidableEq V] [RewardFn R V] (c : Config) (fl : Flags) (L : Learner σ V) (batched : Bool)
    (s : σ) (chunk : List (Dict (Fld V R))) : Except Err (σ × List (Call V) × List (Row V R)) :=
  (prepAll c fl chunk).bind fun rows =>
    let sp := shouldPred c L.hasScore
    let scoreBased := c.eval == .ips && L.hasScore && !sp
    let pp := if sp then predictPhase L s rows else (s, [], [])
    let ps := optList sp rows.length pp.2.1
    let qq := if scoreBased then scorePhase L pp.1 rows else (pp.1, [], [])
    let scs := optList scoreBased rows.length qq.2.1
    (evalsOf c scoreBased rows ps scs).bind fun evals =>
    (learnsOf c L qq.1 rows ps).bind fun ll =>
    (mapM₃ (mkRow c fl sp batched) rows ps evals).map fun out =>
      (ll.1, pp.2.2 ++ qq.2.2 ++ ll.2, out.filter (fun o => !o.isEmpty))

/-! ## Batching -/

/-- `Batch(n)`: consecutive groups of `n` (the last may be shorter) -/
def chunksAux {α : Type} (n : Nat) : Nat → List α → List (List α)
  | 0, _ => []
  | fuel + 1, l => if l.isEmpty then [] else l.take n :: chunksAux n fuel (l.drop n)

def chunks {α : Type} (n : Nat) (l : List α) : List (List α) := chunksAux n l.length l

/-- the `for` loop over batches: state, calls and rows are accumulated -/
def runChunks [DecidableEq V] [RewardFn R V] (c : Config) (fl : Flags) (L : Learner σ V) (batched : Bool) :
    σ → List (Call V) → List (Row V R) → List (List (Dict (Fld V R))) → Except Err (σ × List (Call V) × List (Row V R))
  | s, cs, rs, [] => .ok (s, cs, rs)
  | s, cs, rs, ch :: rest =>
    (stepChunk c fl L batched s ch).bind fun r =>
      runChunks c fl L batched r.1 (cs ++ r.2.1) (rs ++ r.2.2) rest

/-- what a call of `evaluate` amounts to -/
inductive Outcome (α : Type) where
  | rejected (keys : List String)             -- CobaException raised by `_validate` before anything else happens
  | crashed (e : Err)                         -- some other exception while evaluating
  | ok (a : α)
  deriving DecidableEq

def Outcome.ofExcept {α : Type} : Except Err α → Outcome α
  | .ok a => .ok a
  | .error e => .crashed e

/-- `SequentialCB(record, learn, eval).evaluate(env, learner)`; `bs = some n` when the environment is
batched with batch size `n ≥ 1` -/
def evaluate [DecidableEq V] [RewardFn R V] (c : Config) (L : Learner σ V) (bs : Option Nat)
    (env : List (Dict (Fld V R))) (s : σ) : Outcome (σ × List (Call V) × List (Row V R)) :=
  match env with
  | [] => .ok (s, [], [])
  | first :: _ =>
    let miss := missingKeys c L.hasScore first
    if !miss.isEmpty then .rejected miss
    else
      let fl := mkFlags first
      match bs with
      | some n => Outcome.ofExcept (runChunks c fl L true s [] [] (chunks n env))
      | none => Outcome.ofExcept (runChunks c fl L false s [] [] (chunks 1 env))

/-! ## `CobaContext.learning_info`

A learner may write to the global dict `CobaContext.learning_info` while it predicts or learns.  `_results` clears
it before the loop, and after every loop pass does `if info: out.update(info); info.clear()` (before `if out: yield
out`).  Modelled for un-batched evaluation: what `predict`/`learn` write is a function of the learner state and the
call's arguments (`pinfo`, `linfo`); `learn`'s `update` goes on top of `predict`'s.  (In a batched pass the dict is
merged into the batch row and `Unbatch` then indexes every value that happens to be subscriptable — not modelled.) -/

structure InfoLearner (σ V : Type) extends Learner σ V where
  pinfo : σ → Option V → Option (List V) → Dict V
  linfo : σ → Option V → Option V → Option Rat → Option Rat → Dict V → Dict V

/-- `a.update(b)` -/
def Dict.update {α : Type} (a b : Dict α) : Dict α := b.foldl (fun d kv => d.set kv.1 kv.2) a

/-- `out.update(info)`: the info values become cells of the row -/
def mergeInfo (out : Row V R) (info : Dict V) : Row V R :=
  info.foldl (fun o kv => o.set kv.1 (Cell.val (some kv.2))) out

/-- what one un-batched loop pass computes before `learn` is called: the learner state after predict/score, the
calls so far, the learn arguments (if `learn` is not None) and the row -/
structure Pass (σ V R : Type) where
  s0 : σ
  s2 : σ
  calls : List (Call V)
  ctx : Option V
  acts : Option (List V)
  la : Option (Option V × Option Rat × Option Rat × Dict V)
  out : Row V R

def passOf [DecidableEq V] [RewardFn R V] (c : Config) (fl : Flags) (L : Learner σ V) (s : σ) (d : Dict (Fld V R)) :
    Except Err (Pass σ V R) :=
  (prep c fl d).bind fun r =>
    let sp := shouldPred c L.hasScore
    let scoreBased := c.eval == .ips && L.hasScore && !sp
    let s1 := if sp then (L.predict s r.ctx r.acts).1 else s
    let p := if sp then some (L.predict s r.ctx r.acts).2 else none
    let c1 := if sp then [Call.predict r.ctx r.acts] else []
    let s2 := if scoreBased then (L.score s1 r.ctx r.acts r.offAct).1 else s1
    let sc := if scoreBased then some (L.score s1 r.ctx r.acts r.offAct).2 else none
    let c2 := if scoreBased then [Call.score r.ctx r.acts r.offAct] else []
    (if c.eval != .none then (evalReward scoreBased r p sc).map some else .ok none).bind fun er =>
    (if c.learn != .none then (learnArgs c r p).map some else .ok none).bind fun la =>
    (mkRow c fl sp false r p er).map fun out =>
      { s0 := s, s2 := s2, calls := c1 ++ c2, ctx := r.ctx, acts := r.acts, la := la, out := out }

def Pass.learnState (L : Learner σ V) (k : Pass σ V R) : σ :=
  match k.la with
  | some a => L.learn k.s2 k.ctx a.1 a.2.1 a.2.2.1 a.2.2.2
  | none => k.s2

def Pass.allCalls (k : Pass σ V R) : List (Call V) :=
  k.calls ++ (match k.la with
    | some a => [Call.learn k.ctx a.1 a.2.1 a.2.2.1 a.2.2.2]
    | none => [])

/-- the info written during the pass: by `predict` (if it was called), then `update`d by `learn` (if it was called) -/
def Pass.info (c : Config) (L : InfoLearner σ V) (k : Pass σ V R) : Dict V :=
  Dict.update (if shouldPred c L.hasScore then L.pinfo k.s0 k.ctx k.acts else [])
    (match k.la with
      | some a => L.linfo k.s2 k.ctx a.1 a.2.1 a.2.2.1 a.2.2.2
      | none => [])

/-- one un-batched loop pass with `learning_info`: new learner state, calls, the row before the info is merged, and
the info the learner wrote during this pass -/
def stepI [DecidableEq V] [RewardFn R V] (c : Config) (fl : Flags) (L : InfoLearner σ V) (s : σ) (d : Dict (Fld V R)) :
    Except Err (σ × List (Call V) × Row V R × Dict V) :=
  (passOf c fl L.toLearner s d).map fun k => (k.learnState L.toLearner, k.allCalls, k.out, k.info c L)

def runI [DecidableEq V] [RewardFn R V] (c : Config) (fl : Flags) (L : InfoLearner σ V) :
    σ → List (Dict (Fld V R)) → Except Err (σ × List (Call V) × List (Row V R) × List (Dict V))
  | s, [] => .ok (s, [], [], [])
  | s, d :: ds =>
    (stepI c fl L s d).bind fun r1 =>
    (runI c fl L r1.1 ds).map fun r2 => (r2.1, r1.2.1 ++ r2.2.1, r1.2.2.1 :: r2.2.2.1, r1.2.2.2 :: r2.2.2.2)

/-- the rows that are yielded: info merged into each interaction's own row, empty rows dropped -/
def yieldRows (bases : List (Row V R)) (infos : List (Dict V)) : List (Row V R) :=
  (List.zipWith mergeInfo bases infos).filter (fun o => !o.isEmpty)

/-- un-batched `evaluate` for a learner that writes `learning_info`: state, calls, yielded rows and, per interaction,
the row before merging and the info written -/
def evaluateI [DecidableEq V] [RewardFn R V] (c : Config) (L : InfoLearner σ V) (env : List (Dict (Fld V R))) (s : σ) :
    Outcome (σ × List (Call V) × List (Row V R) × List (Row V R) × List (Dict V)) :=
  match env with
  | [] => .ok (s, [], [], [], [])
  | first :: _ =>
    let miss := missingKeys c L.hasScore first
    if !miss.isEmpty then .rejected miss
    else Outcome.ofExcept ((runI c (mkFlags first) L s env).map
      (fun r => (r.1, r.2.1, yieldRows r.2.2.1 r.2.2.2, r.2.2.1, r.2.2.2)))

/-- the same learner not writing anything -/
def InfoLearner.silent (L : InfoLearner σ V) : InfoLearner σ V :=
  { L with pinfo := fun _ _ _ => [], linfo := fun _ _ _ _ _ _ => [] }

/-! ## PMF answers

A learner may answer `predict` with a PMF over the action list (explicitly `{'pmf': […]}`, optionally with kwargs).
`SafeLearner._parse_pred` then draws `a, p = self._rng.choicew(actions, pmf)` with the generator it was constructed
with (`CobaRandom(seed)`, fresh for every `evaluate`) and hands `(a, p, kwargs)` to the evaluator.  As far as the
evaluator is concerned such a learner is an ordinary `Learner` whose state also holds the wrapper's generator state:
`wrapPmf`.  The draw is the finished C05 model's `choicew` (exact rationals; C05's theorems say that for a
non-negative PMF of the right length with positive sum the draw succeeds and has positive weight, and that the
reported probability is that weight).  Assumption stated here: on a PMF for which `choicew` fails the real code
raises; the wrapper then answers `dflt` with no probability — unreachable for valid PMFs, which is all the harness
generates.  Recognising *un-hinted* PMFs among the prediction formats is C15's subject. -/

structure PmfLearner (σ V : Type) where
  hasScore : Bool
  predict : σ → Option V → Option (List V) → σ × List Rat × Dict V
  score : σ → Option V → Option (List V) → Option V → σ × Rat
  learn : σ → Option V → Option V → Option Rat → Option Rat → Dict V → σ

/-- `SafeLearner._parse_pred` on a PMF answer: generator state `g` in, parsed prediction and new generator state out -/
def parsePmf (dflt : V) (acts : Option (List V)) (pmf : List Rat) (kw : Dict V) (g : Nat) : Pred V × Nat :=
  match acts with
  | some as =>
    match Coba.C05.choicew g as.length (some pmf) with
    | .ok (g', i, w) => ({ action := as.getD i dflt, prob := some w, kw := kw }, g')
    | .error _ => ({ action := dflt, prob := none, kw := kw }, g)
  | none => ({ action := dflt, prob := none, kw := kw }, g)

/-- the PMF learner as the evaluator sees it through SafeLearner -/
def wrapPmf (P : PmfLearner σ V) (dflt : V) : Learner (σ × Nat) V :=
  { hasScore := P.hasScore,
    predict := fun st ctx acts =>
      let r := P.predict st.1 ctx acts
      let q := parsePmf dflt acts r.2.1 r.2.2 st.2
      ((r.1, q.2), q.1),
    score := fun st ctx acts a => let r := P.score st.1 ctx acts a; ((r.1, st.2), r.2),
    learn := fun st ctx a r p kw => (P.learn st.1 ctx a r p kw, st.2) }

/-! ## Histories: several evaluations with the same learner object

`evaluate` wraps the learner in a fresh `SafeLearner` every time and keeps nothing itself, so all that connects two
evaluations is the learner: the next evaluation starts in the state the previous one left it in (an evaluation that
is rejected by validation never touches the learner). -/

structure Episode (V R : Type) where
  cfg : Config
  bs : Option Nat
  env : List (Dict (Fld V R))

/-- learner state after an evaluation; after a crash the model does not say (the harness then reads the state off the
real learner) and keeps the old one -/
def stateAfter {α : Type} (s : σ) : Outcome (σ × α) → σ
  | .ok r => r.1
  | _ => s

def runHistory [DecidableEq V] [RewardFn R V] (L : Learner σ V) : σ → List (Episode V R) →
    List (Outcome (σ × List (Call V) × List (Row V R)))
  | _, [] => []
  | s, e :: es =>
    let o := evaluate e.cfg L e.bs e.env s
    o :: runHistory L (stateAfter s o) es

/-- the learner state a history ends in -/
def finalState [DecidableEq V] [RewardFn R V] (L : Learner σ V) : σ → List (Episode V R) → σ
  | s, [] => s
  | s, e :: es => finalState L (stateAfter s (evaluate e.cfg L e.bs e.env s)) es

/-! ## Spec `S`: what the property demands, read off the interactions directly -/

/-- the typed reading of an interaction -/
structure View (V R : Type) where
  ctx : Option V
  acts : Option (List V)
  rewards : Option (Fld V R)
  offAct : Option V
  offRwd : Option Rat
  offPr : Option Rat
  extras : Dict (Fld V R)

def viewVal : Option (Fld V R) → Option V
  | some (.val v) => some v
  | _ => none

def viewActs : Option (Fld V R) → Option (List V)
  | some (.acts as) => some as
  | _ => none

def viewNum : Option (Fld V R) → Option Rat
  | some (.num q) => some q
  | _ => none

def view (d : Dict (Fld V R)) : View V R :=
  { ctx := viewVal (d.get? "context"), acts := viewActs (d.get? "actions"), rewards := d.get? "rewards",
    offAct := viewVal (d.get? "action"), offRwd := viewNum (d.get? "reward"), offPr := viewNum (d.get? "probability"),
    extras := extrasOf d }

/-- a prediction is needed: on-policy learning or evaluation, or the chosen action/probability is recorded -/
def needPred (c : Config) (hasScore : Bool) : Bool :=
  c.learn == .on || c.learn == .ips || c.eval == .on || (c.eval == .ips && !hasScore)
    || (c.eval != .none && (c.rcd "action" || c.rcd "probability"))

/-- documented requirements (docstring of `SequentialCB.__init__`) -/
def requiredS (c : Config) (hasScore : Bool) : List String :=
  (if needPred c hasScore then ["actions"] else [])
    ++ (if c.learn == .off || c.learn == .ips || c.eval == .ips then ["action", "reward"] else [])
    ++ (if c.learn == .on || c.eval == .on then ["rewards"] else [])
    ++ (if c.learn == .ips || c.eval == .ips then ["probability"] else [])

/-- the environment's reward for action `a` -/
def envReward [DecidableEq V] [RewardFn R V] (v : View V R) (a : V) : Option Rat :=
  match v.rewards, v.acts with
  | some (.rfn f), _ => some (RewardFn.app f a)
  | some (.rlist rs), some as =>
    match (as.zip rs).lookup a with
    | some r => some r
    | none => some 0
  | _, _ => none

/-- the documented IPS transform: `reward/probability` for the logged action, `0` for any other -/
def ipsReward [DecidableEq V] (v : View V R) (a : Option V) : Option Rat :=
  match v.offRwd with
  | some r =>
    let p := match v.offPr with
      | some p => if p = 0 then 1 else p
      | none => 1
    some (if v.offAct = a then r / p else 0)
  | none => none

/-- arguments of the learn call the property demands -/
def learnArgsS [DecidableEq V] [RewardFn R V] (c : Config) (v : View V R) (p : Option (Pred V)) :
    Option (Option V × Option Rat × Option Rat × Dict V) :=
  match c.learn, p with
  | .off, _ => some (v.offAct, v.offRwd, v.offPr, [])
  | .on, some p => (envReward v p.action).map (fun r => (some p.action, some r, p.prob, p.kw))
  | .ips, some p => (ipsReward v (some p.action)).map (fun r => (some p.action, some r, p.prob, p.kw))
  | _, _ => none

/-- the reward recorded for one interaction -/
def evalRewardS [DecidableEq V] [RewardFn R V] (c : Config) (v : View V R) (p : Option (Pred V)) (sc : Option Rat) :
    Option Rat :=
  match c.eval, p, sc with
  | .on, some p, _ => envReward v p.action
  | .ips, some p, _ => ipsReward v (some p.action)
  | .ips, none, some q => (ipsReward v v.offAct).map (fun w => q * w)
  | _, _, _ => none

def rewardsAtS [DecidableEq V] [RewardFn R V] (v : View V R) : List V → Option (List Rat)
  | [] => some []
  | a :: as => do
    let x ← envReward v a
    let xs ← rewardsAtS v as
    pure (x :: xs)

/-- the recorded `rewards` cell: the environment's reward of every action (discrete) or the reward object itself -/
def rewardsCellS [DecidableEq V] [RewardFn R V] (c : Config) (fl : Flags) (v : View V R) : Option (Row V R) :=
  if c.rcd "rewards" && fl.hasRewards then
    (if fl.discrete then
      match v.acts with
      | some as => (rewardsAtS v as).map (fun xs => [("rewards", Cell.nums xs)])
      | none => none
    else v.rewards.map (fun f => [("rewards", Cell.fld f)]))
  else some []

/-- the row the property demands for one interaction: the recorded values, then every additional
field of the interaction unchanged -/
def rowS [DecidableEq V] [RewardFn R V] (c : Config) (fl : Flags) (v : View V R) (p : Option (Pred V))
    (er : Option Rat) : Option (Row V R) :=
  (rewardsCellS c fl v).map fun rw =>
    (if c.rcd "context" then [("context", Cell.val v.ctx)] else [])
    ++ (if c.rcd "actions" && fl.hasActions then [("actions", Cell.acts v.acts)] else [])
    ++ (if c.rcd "action" && c.eval != .none then [("action", Cell.val (p.map (·.action)))] else [])
    ++ (if c.rcd "reward" && c.eval != .none then [("reward", Cell.num er)] else [])
    ++ rw
    ++ (match p.bind (·.prob) with
        | some q => if c.rcd "probability" && c.eval != .none then [("probability", Cell.num (some q))] else []
        | none => [])
    ++ v.extras.map (fun kv => (kv.1, Cell.fld kv.2))

/-- one interaction as the property describes it: (predict | score)? then learn?, and its row -/
def specInter [DecidableEq V] [RewardFn R V] (c : Config) (fl : Flags) (L : Learner σ V) (s : σ) (v : View V R) :
    Option (σ × List (Call V) × Row V R) :=
  let np := needPred c L.hasScore
  let sb := c.eval == .ips && L.hasScore && !np
  let s1 := if np then (L.predict s v.ctx v.acts).1 else s
  let p := if np then some (L.predict s v.ctx v.acts).2 else none
  let c1 := if np then [Call.predict v.ctx v.acts] else []
  let s2 := if sb then (L.score s1 v.ctx v.acts v.offAct).1 else s1
  let sc := if sb then some (L.score s1 v.ctx v.acts v.offAct).2 else none
  let c2 := if sb then [Call.score v.ctx v.acts v.offAct] else []
  (if c.eval != .none then (evalRewardS c v p sc).map some else some none).bind fun er =>
  (if c.learn != .none then
      (learnArgsS c v p).map (fun a => (L.learn s2 v.ctx a.1 a.2.1 a.2.2.1 a.2.2.2, [Call.learn v.ctx a.1 a.2.1 a.2.2.1 a.2.2.2]))
    else some (s2, [])).bind fun sc3 =>
  (rowS c fl v p er).map fun row => (sc3.1, c1 ++ c2 ++ sc3.2, row)

/-- the whole (unbatched) evaluation as the property describes it: interactions strictly in order -/
def specRun [DecidableEq V] [RewardFn R V] (c : Config) (fl : Flags) (L : Learner σ V) :
    σ → List (View V R) → Option (σ × List (Call V) × List (Row V R))
  | s, [] => some (s, [], [])
  | s, v :: vs =>
    (specInter c fl L s v).bind fun r1 =>
    (specRun c fl L r1.1 vs).map fun r2 => (r2.1, r1.2.1 ++ r2.2.1, r1.2.2 :: r2.2.2)

/-! ## Spec of a batched evaluation

A batch is handed to the learner as a whole: every row of the batch is predicted (rows in order, the learner state
threaded through them) before anything of the batch is learned, then every row is scored (score-based IPS
evaluation), then every row is learned, rows in order.  A batch-aware learner receives these as one call per phase
with `Batch.List` arguments, a learner without batch support receives them one row at a time (SafeLearner's
fallback); in both cases the sequence of row-level calls is the one below.  The documented per-interaction values
(`learnArgsS`, `evalRewardS`, the row) are those of the un-batched spec. -/

def predictS (L : Learner σ V) : σ → List (View V R) → σ × List (Pred V)
  | s, [] => (s, [])
  | s, v :: vs =>
    let r := predictS L (L.predict s v.ctx v.acts).1 vs
    (r.1, (L.predict s v.ctx v.acts).2 :: r.2)

def scoreS (L : Learner σ V) : σ → List (View V R) → σ × List Rat
  | s, [] => (s, [])
  | s, v :: vs =>
    let r := scoreS L (L.score s v.ctx v.acts v.offAct).1 vs
    (r.1, (L.score s v.ctx v.acts v.offAct).2 :: r.2)

def learnS (L : Learner σ V) : σ → List (View V R) → List (Option V × Option Rat × Option Rat × Dict V) → σ
  | s, v :: vs, a :: as => learnS L (L.learn s v.ctx a.1 a.2.1 a.2.2.1 a.2.2.2) vs as
  | s, _, _ => s

def allSome {α : Type} : List (Option α) → Option (List α)
  | [] => some []
  | some a :: rest => (allSome rest).map (a :: ·)
  | none :: _ => none

def zip3With {α β γ δ : Type} (f : α → β → γ → δ) : List α → List β → List γ → List δ
  | a :: as, b :: bs, c :: cs => f a b c :: zip3With f as bs cs
  | _, _, _ => []

/-- the row of one interaction of a batch: as `rowS`, except that the batched code path writes the
probability cell whenever a prediction was made, `None` included -/
def rowSB [DecidableEq V] [RewardFn R V] (c : Config) (fl : Flags) (np : Bool) (v : View V R) (p : Option (Pred V))
    (er : Option Rat) : Option (Row V R) :=
  (rewardsCellS c fl v).map fun rw =>
    (if c.rcd "context" then [("context", Cell.val v.ctx)] else [])
    ++ (if c.rcd "actions" && fl.hasActions then [("actions", Cell.acts v.acts)] else [])
    ++ (if c.rcd "action" && c.eval != .none then [("action", Cell.val (p.map (·.action)))] else [])
    ++ (if c.rcd "reward" && c.eval != .none then [("reward", Cell.num er)] else [])
    ++ rw
    ++ (if c.rcd "probability" && c.eval != .none && np then [("probability", Cell.num (p.bind (·.prob)))] else [])
    ++ v.extras.map (fun kv => (kv.1, Cell.fld kv.2))

/-- one batch as the property describes it -/
def specChunk [DecidableEq V] [RewardFn R V] (c : Config) (fl : Flags) (L : Learner σ V) (s : σ) (vs : List (View V R)) :
    Option (σ × List (Call V) × List (Row V R)) :=
  let np := needPred c L.hasScore
  let sb := c.eval == .ips && L.hasScore && !np
  let pp := if np then predictS L s vs else (s, [])
  let ps : List (Option (Pred V)) := if np then pp.2.map some else vs.map (fun _ => none)
  let c1 := if np then vs.map (fun v => Call.predict v.ctx v.acts) else []
  let qq := if sb then scoreS L pp.1 vs else (pp.1, [])
  let scs : List (Option Rat) := if sb then qq.2.map some else vs.map (fun _ => none)
  let c2 := if sb then vs.map (fun v => Call.score v.ctx v.acts v.offAct) else []
  (if c.eval != .none then (allSome (zip3With (evalRewardS c) vs ps scs)).map (·.map some)
   else some (vs.map (fun _ => none))).bind fun evals =>
  (if c.learn != .none then allSome (List.zipWith (learnArgsS c) vs ps) else some []).bind fun args =>
  (allSome (zip3With (rowSB c fl np) vs ps evals)).map fun rows =>
    (learnS L qq.1 vs args,
     c1 ++ c2 ++ List.zipWith (fun (v : View V R) a => Call.learn v.ctx a.1 a.2.1 a.2.2.1 a.2.2.2) vs args,
     rows)

/-- a batched evaluation as the property describes it: batches in order -/
def specRunB [DecidableEq V] [RewardFn R V] (c : Config) (fl : Flags) (L : Learner σ V) :
    σ → List (List (View V R)) → Option (σ × List (Call V) × List (Row V R))
  | s, [] => some (s, [], [])
  | s, ch :: rest =>
    (specChunk c fl L s ch).bind fun r1 =>
    (specRunB c fl L r1.1 rest).map fun r2 => (r2.1, r1.2.1 ++ r2.2.1, r1.2.2 ++ r2.2.2)

/-! ## `learning_info` in a batched pass

In a batched pass the dict collects everything the learner writes while the whole batch is predicted and then learned
(later writes `update` earlier ones), is merged into the BATCH row, and `Unbatch` then builds row i by `value[i]` for every
cell, falling back to the whole value when that raises.  So every row of the batch receives every key written during
the pass, and a value that happens to be subscriptable (list, tuple, str) is indexed by the row's position in the batch
(a quirk: `{'tag': 'ab'}` in a batch of two gives 'a' and 'b').  `Subscript.idx v i` is Python's `v[i]` when it works. -/

class Subscript (V : Type) where
  idx : V → Nat → Option V

/-- learner states in which the rows of a batch are predicted -/
def predStates (L : Learner σ V) : σ → List (RowIn V R) → List σ
  | _, [] => []
  | s, r :: rs => s :: predStates L (L.predict s r.ctx r.acts).1 rs

/-- learner states in which the rows of a batch are learned -/
def learnStates (L : Learner σ V) : σ → List (RowIn V R) → List (Option V × Option Rat × Option Rat × Dict V) → List σ
  | s, r :: rs, a :: as => s :: learnStates L (L.learn s r.ctx a.1 a.2.1 a.2.2.1 a.2.2.2) rs as
  | _, _, _ => []

/-- everything written to `learning_info` during one batched pass: predicts of all rows in order, then learns -/
def batchInfo (L : InfoLearner σ V) (sp : Bool) (s sL : σ) (rows : List (RowIn V R))
    (args : List (Option V × Option Rat × Option Rat × Dict V)) : Dict V :=
  let ip := if sp then List.zipWith (fun (r : RowIn V R) st => L.pinfo st r.ctx r.acts) rows (predStates L.toLearner s rows) else []
  let il := zip3With (fun (r : RowIn V R) st a => L.linfo st r.ctx a.1 a.2.1 a.2.2.1 a.2.2.2) rows (learnStates L.toLearner sL rows args) args
  (ip ++ il).foldl Dict.update []

/-- `Unbatch` on the info cells of row `i` of the batch -/
def indexInfo [Subscript V] (info : Dict V) (i : Nat) : Dict V :=
  info.map (fun kv => (kv.1, match Subscript.idx kv.2 i with
    | some x => x
    | none => kv.2))

def mergeIndexed [Subscript V] (info : Dict V) : Nat → List (Row V R) → List (Row V R)
  | _, [] => []
  | i, o :: os => mergeInfo o (indexInfo info i) :: mergeIndexed info (i + 1) os

/-- one batched pass with `learning_info`: as `stepChunk … true`, returning also the rows before merging and the info -/
def stepChunkIB [DecidableEq V] [RewardFn R V] (c : Config) (fl : Flags) (L : InfoLearner σ V) (s : σ)
    (chunk : List (Dict (Fld V R))) : Except Err (σ × List (Call V) × List (Row V R) × Dict V) :=
  (prepAll c fl chunk).bind fun rows =>
    let sp := shouldPred c L.hasScore
    let scoreBased := c.eval == .ips && L.hasScore && !sp
    let pp := if sp then predictPhase L.toLearner s rows else (s, [], [])
    let ps := optList sp rows.length pp.2.1
    let qq := if scoreBased then scorePhase L.toLearner pp.1 rows else (pp.1, [], [])
    let scs := optList scoreBased rows.length qq.2.1
    (evalsOf c scoreBased rows ps scs).bind fun evals =>
    (learnsOf c L.toLearner qq.1 rows ps).bind fun ll =>
    (mapM₃ (mkRow c fl sp true) rows ps evals).map fun out =>
      let args := if c.learn != .none then
          (match mapM₂ (learnArgs c) rows ps with
            | .ok as => as
            | .error _ => [])
        else []
      (ll.1, pp.2.2 ++ qq.2.2 ++ ll.2, out, batchInfo L sp s qq.1 rows args)

def runIB [DecidableEq V] [RewardFn R V] [Subscript V] (c : Config) (fl : Flags) (L : InfoLearner σ V) :
    σ → List (List (Dict (Fld V R))) → Except Err (σ × List (Call V) × List (Row V R))
  | s, [] => .ok (s, [], [])
  | s, ch :: rest =>
    (stepChunkIB c fl L s ch).bind fun r1 =>
    (runIB c fl L r1.1 rest).map fun r2 =>
      (r2.1, r1.2.1 ++ r2.2.1, (mergeIndexed r1.2.2.2 0 r1.2.2.1).filter (fun o => !o.isEmpty) ++ r2.2.2)

/-- batched `evaluate` for a learner that writes `learning_info` -/
def evaluateIB [DecidableEq V] [RewardFn R V] [Subscript V] (c : Config) (L : InfoLearner σ V) (n : Nat)
    (env : List (Dict (Fld V R))) (s : σ) : Outcome (σ × List (Call V) × List (Row V R)) :=
  match env with
  | [] => .ok (s, [], [])
  | first :: _ =>
    let miss := missingKeys c L.hasScore first
    if !miss.isEmpty then .rejected miss else Outcome.ofExcept (runIB c (mkFlags first) L s (chunks n env))

/-! ## Well-formedness of an environment (the hypotheses of the refinement theorems) -/

/-- field shapes of one interaction agree with the flags taken from the first interaction -/
def wf (fl : Flags) (d : Dict (Fld V R)) : Bool :=
  (match d.get? "context" with
    | none => !fl.hasContext
    | some (.val _) => fl.hasContext
    | some .none => fl.hasContext
    | _ => false)
  && (match d.get? "actions" with
    | none => !fl.hasActions
    | some (.acts _) => fl.hasActions
    | _ => false)
  && (match d.get? "rewards", d.get? "actions" with
    | none, _ => !fl.hasRewards
    | some (.rlist rs), some (.acts as) => fl.hasRewards && fl.rwdsIsList && as.length == rs.length
    | some (.rfn _), _ => fl.hasRewards && !fl.rwdsIsList
    | _, _ => false)
  && (!fl.rwdsIsList || fl.hasRewards)
  && (match d.get? "action" with
    | none => !fl.hasAction
    | some (.val _) => fl.hasAction
    | some .none => fl.hasAction
    | _ => false)
  && (match d.get? "reward" with
    | none => !fl.hasReward
    | some (.num _) => fl.hasReward
    | _ => false)
  && (match d.get? "probability" with
    | none => !fl.hasProb
    | some (.num _) => fl.hasProb
    | some .none => fl.hasProb
    | _ => false)

def nodupKeys : List String → Bool
  | [] => true
  | k :: ks => !ks.contains k && nodupKeys ks

/-- a homogeneous, well-shaped environment -/
def wfEnv (env : List (Dict (Fld V R))) : Bool :=
  match env with
  | [] => true
  | first :: _ => env.all (fun d => wf (mkFlags first) d && nodupKeys d.keys)

/-- the mode needs the logged probability (docstring: *ips* requires 'probability') and the environment has none -/
def ipsWithoutProb (c : Config) (first : Dict (Fld V R)) : Bool :=
  (c.learn == .ips || c.eval == .ips) && !first.has "probability"

/-- `probability: None` cells (written by the batched code path for learners without a probability) mean "absent" -/
def isNoneProb (kv : String × Cell V R) : Bool :=
  match kv with
  | ("probability", Cell.num none) => true
  | _ => false

def dropNoneProb (o : Row V R) : Row V R := o.filter (fun kv => !isNoneProb kv)


/-! ## Phase 4a — every mode the constructor accepts ('dr'/'dm' included): package guard and reward targets

`SequentialCB.__init__` accepts `learn ∈ {on, off, ips, dr, dm, None}` and `eval ∈ {on, ips, dr, dm, None}` without any
check.  `_results` turns the mode into a reward *type* (`learn_type`/`eval_type` ∈ {'IPS','DR','DM'}) and, per type, builds
`OpeRewards(type, target=…)`: the learn filter (target `learn_rewards`) first, then — only when `eval_type` is set and
differs from `learn_type` — the eval filter (target `eval_rewards`); the loop then reads `interaction[learn_target]` and
`interaction[eval_target]`.  `OpeRewards.__init__` calls `PackageChecker.vowpalwabbit` for 'DM' and 'DR', which raises
`CobaExit` when the package is absent — after `_validate`, before any interaction is read or the learner is used.
With the package present 'DM'/'DR' rewards come from a regressor trained on the log; that is not modelled
(`OutcomeX.notModelled`). -/

inductive LearnModeX | on | off | ips | dr | dm | none
  deriving DecidableEq, Repr

inductive EvalModeX | on | ips | dr | dm | none
  deriving DecidableEq, Repr

/-- `learn_type` / `eval_type` / the `rwd_type` of `OpeRewards` -/
inductive OpeType | ips | dr | dm
  deriving DecidableEq, Repr

structure ConfigX where
  learn : LearnModeX
  eval : EvalModeX
  record : List String
  deriving Repr

def ConfigX.rcd (c : ConfigX) (name : String) : Bool := c.record.contains name

/-- `learn_type = 'IPS' if lrn_ips else 'DR' if lrn_dr else 'DM' if lrn_dm else None` -/
def learnType : LearnModeX → Option OpeType
  | .ips => some .ips
  | .dr => some .dr
  | .dm => some .dm
  | _ => none

/-- `eval_type  = 'IPS' if val_ips else 'DR' if val_dr else 'DM' if val_dm else None` -/
def evalType : EvalModeX → Option OpeType
  | .ips => some .ips
  | .dr => some .dr
  | .dm => some .dm
  | _ => none

/-- `OpeRewards.__init__`: `if rwd_type in ['DM','DR']: PackageChecker.vowpalwabbit(…)` -/
def needsVw : OpeType → Bool
  | .ips => false
  | .dr => true
  | .dm => true

/-- `eval_type and eval_type != learn_type` -/
def evalOwnX (c : ConfigX) : Bool := (evalType c.eval).isSome && evalType c.eval != learnType c.learn

def learnTargetX : String := "learn_rewards"

/-- `eval_target = 'eval_rewards' if eval_type and eval_type != learn_type else 'learn_rewards'` -/
def evalTargetX (c : ConfigX) : String := if evalOwnX c then "eval_rewards" else "learn_rewards"

/-- the `OpeRewards(type, target)` filters `_results` constructs, in construction order -/
def opeFilters (c : ConfigX) : List (OpeType × String) :=
  (match learnType c.learn with
    | some t => [(t, "learn_rewards")]
    | none => [])
  ++ (match evalType c.eval with
    | some t => if evalOwnX c then [(t, "eval_rewards")] else []
    | none => [])

def outActionX (c : ConfigX) : Bool := c.rcd "action" && c.eval != .none
def outProbX (c : ConfigX) : Bool := c.rcd "probability" && c.eval != .none

/-- `should_pred` for every mode -/
def shouldPredX (c : ConfigX) (hasScore : Bool) : Bool :=
  (c.learn != .none && c.learn != .off) || c.eval == .on || c.eval == .dm || c.eval == .dr || (c.eval == .ips && !hasScore)
    || outActionX c || outProbX c

/-- `_required(has_score)` for every mode -/
def requiredX (c : ConfigX) (hasScore : Bool) : List String :=
  let pred := (c.learn != .none && c.learn != .off) || (c.eval != .none && (c.eval != .ips || !hasScore))
                || outActionX c || outProbX c
  let off := (c.learn != .none && c.learn != .on) || (c.eval != .none && c.eval != .on)
  let rwds := c.learn == .on || c.eval == .on
  (if pred then ["actions"] else []) ++ (if off then ["action", "reward"] else [])
    ++ (if rwds then ["rewards"] else [])

def LearnModeX.base : LearnModeX → Option LearnMode
  | .on => some .on
  | .off => some .off
  | .ips => some .ips
  | .none => some .none
  | _ => Option.none

def EvalModeX.base : EvalModeX → Option EvalMode
  | .on => some .on
  | .ips => some .ips
  | .none => some .none
  | _ => Option.none

/-- the configuration in the modes that need no optional package, if it is one -/
def ConfigX.base (c : ConfigX) : Option Config :=
  match c.learn.base, c.eval.base with
  | some l, some e => some { learn := l, eval := e, record := c.record }
  | _, _ => Option.none

inductive OutcomeX (α : Type) where
  | done (o : Outcome α)                               -- what the package-free model says
  | packageMissing (t : OpeType) (target : String)     -- CobaExit raised by `OpeRewards(t, target=…)` (no vowpalwabbit)
  | notModelled                                        -- 'dr'/'dm' with vowpalwabbit installed (trained reward regressor)
  deriving DecidableEq

/-- `SequentialCB(record, learn, eval).evaluate(env, learner)` for every accepted mode; `vw` = vowpalwabbit is installed -/
def evaluateX [DecidableEq V] [RewardFn R V] (vw : Bool) (c : ConfigX) (L : Learner σ V) (bs : Option Nat)
    (env : List (Dict (Fld V R))) (s : σ) : OutcomeX (σ × List (Call V) × List (Row V R)) :=
  match env with
  | [] => .done (.ok (s, [], []))
  | first :: _ =>
    let miss := (requiredX c L.hasScore).filter (fun k => !first.has k)
    if !miss.isEmpty then .done (.rejected miss)
    else match (opeFilters c).find? (fun tt => needsVw tt.1 && !vw) with
      | some tt => .packageMissing tt.1 tt.2
      | none =>
        match c.base with
        | some c0 => .done (evaluate c0 L bs env s)
        | Option.none => .notModelled

/-- a prediction is part of what the mode means (docstring), or the record options ask for its outcome -/
def needPredX (c : ConfigX) (hasScore : Bool) : Bool :=
  c.learn == .on || c.learn == .ips || c.learn == .dr || c.learn == .dm
    || c.eval == .on || c.eval == .dr || c.eval == .dm || (c.eval == .ips && !hasScore)
    || (c.eval != .none && (c.rcd "action" || c.rcd "probability"))

/-- documented requirements for every mode (docstring of `SequentialCB.__init__`): on — actions, rewards; off — action,
reward; ips — actions, action, reward, probability; dr/dm — actions, action, reward -/
def requiredSX (c : ConfigX) (hasScore : Bool) : List String :=
  (if needPredX c hasScore then ["actions"] else [])
    ++ (if c.learn == .off || c.learn == .ips || c.learn == .dr || c.learn == .dm
          || c.eval == .ips || c.eval == .dr || c.eval == .dm then ["action", "reward"] else [])
    ++ (if c.learn == .on || c.eval == .on then ["rewards"] else [])
    ++ (if c.learn == .ips || c.eval == .ips then ["probability"] else [])

/-! ## Phase 4b — the record-field set of a row -/

/-- the reserved-name cells `_results` writes into a row, in order, as a function of the configuration, the flags of the
first interaction, whether a prediction is made, batching, and whether the learner reported a probability -/
def recordKeys (c : Config) (fl : Flags) (sp batched hasPr : Bool) : List String :=
  (if c.rcd "context" then ["context"] else [])
  ++ (if c.rcd "actions" && fl.hasActions then ["actions"] else [])
  ++ (if outAction c then ["action"] else [])
  ++ (if c.rcd "reward" && c.eval != .none then ["reward"] else [])
  ++ (if c.rcd "rewards" && fl.hasRewards then ["rewards"] else [])
  ++ (if outProb c && sp && (batched || hasPr) then ["probability"] else [])

/-! ## Phase 4c — heterogeneous environments: which reserved keys the code reads from every interaction

All `has_*` flags come from the first interaction.  For a later interaction `d` the filters and the loop body subscript
exactly the keys below (program order): `Finalize` builds `DiscreteReward(new['actions'], new['rewards'])` when the FIRST
interaction's rewards are a list; each `OpeRewards('IPS')` reads `interaction['action']`, `interaction['reward']`
(`probability` via `.get`); the loop reads `interaction[k] if has_k` for context, actions, rewards, reward, action
(`probability` via `.get`).  Any other reserved key of `d` is ignored. -/

def neededKeys (c : Config) (fl : Flags) : List String :=
  (if fl.rwdsIsList then ["actions", "rewards"] else [])
  ++ (if learnIps c then ["action", "reward"] else [])
  ++ (if evalIpsOwn c then ["action", "reward"] else [])
  ++ (if fl.hasContext then ["context"] else [])
  ++ (if fl.hasActions then ["actions"] else [])
  ++ (if fl.hasRewards then ["rewards"] else [])
  ++ (if fl.hasReward then ["reward"] else [])
  ++ (if fl.hasAction then ["action"] else [])

/-- the keys the code subscripts and `d` lacks, in program order (the first one is the `KeyError`) -/
def missingOf (c : Config) (fl : Flags) (d : Dict (Fld V R)) : List String :=
  (neededKeys c fl).filter (fun k => !d.has k)

/-- index of the first interaction lacking a key the code subscripts, with the keys it lacks -/
def firstBad (c : Config) (fl : Flags) : List (Dict (Fld V R)) → Option (Nat × List String)
  | [] => none
  | d :: ds =>
    if (missingOf c fl d).isEmpty then (firstBad c fl ds).map (fun r => (r.1 + 1, r.2))
    else some (0, missingOf c fl d)

/-- every reserved field that is present has a shape the code can work with (no homogeneity demanded) -/
def shapeOk (fl : Flags) (d : Dict (Fld V R)) : Bool :=
  (match d.get? "context" with
    | none => true
    | some (.val _) => true
    | some .none => true
    | _ => false)
  && (match d.get? "actions" with
    | none => true
    | some (.acts _) => true
    | _ => false)
  && (match d.get? "rewards" with
    | none => true
    | some (.rlist rs) => fl.rwdsIsList && (match d.get? "actions" with
        | some (.acts as) => as.length == rs.length
        | _ => true)
    | some (.rfn _) => !fl.rwdsIsList
    | _ => false)
  && (match d.get? "action" with
    | none => true
    | some (.val _) => true
    | some .none => true
    | _ => false)
  && (match d.get? "reward" with
    | none => true
    | some (.num _) => true
    | _ => false)
  && (match d.get? "probability" with
    | none => true
    | some (.num _) => true
    | some .none => true
    | _ => false)
  && !d.has "learn_rewards" && !d.has "eval_rewards"

/-! ## Python spellings of the modes and reward types (used by the translator obligations and the driver) -/

/-- the constructor argument `learn` -/
def LearnModeX.pyName : LearnModeX → Option String
  | .on => some "on" | .off => some "off" | .ips => some "ips" | .dr => some "dr" | .dm => some "dm" | .none => Option.none

/-- the constructor argument `eval` -/
def EvalModeX.pyName : EvalModeX → Option String
  | .on => some "on" | .ips => some "ips" | .dr => some "dr" | .dm => some "dm" | .none => Option.none

/-- `rwd_type` -/
def OpeType.pyName : OpeType → String
  | .ips => "IPS" | .dr => "DR" | .dm => "DM"

/-- `_required` with its three key lists as parameters -/
def requiredWith (kPred kOff kRwds : List String) (c : ConfigX) (hasScore : Bool) : List String :=
  let pred := (c.learn != .none && c.learn != .off) || (c.eval != .none && (c.eval != .ips || !hasScore))
                || outActionX c || outProbX c
  let off := (c.learn != .none && c.learn != .on) || (c.eval != .none && c.eval != .on)
  let rwds := c.learn == .on || c.eval == .on
  (if pred then kPred else []) ++ (if off then kOff else []) ++ (if rwds then kRwds else [])

/-- the default of the `record` argument -/
def defaultRecord : List String := ["reward", "action", "probability"]

/-! ## Phase 5: the calls the learner OBJECT sees (SafeLearner between `SequentialCB` and the learner)

`Call` above is the row-level reading of a call.  What reaches the methods of the wrapped learner object is decided by
`SafeLearner._safe_call` (per method key: `_method[key]` unset → try the call as given; with batched arguments a
learner that raises is then called once per row and the key is pinned to the row-by-row fallback), by
`SafeLearner._parse_pred` on the FIRST predict (`_pred_batch is None`: `batch_order` asks the learner a second time
about the first row of the batch when the answer is square — as many rows as the first row's answer has items — and the
call went through as given), and by the two `has_score` reads of `evaluate` (`_validate(first, learner.has_score)`) and
`_results` (`has_score = learner.has_score`), each of which calls `score(None, None, None)` when the learner has `score`.
Interactions are named by their position in the environment. -/

inductive Meth | predict | score | learn
  deriving DecidableEq, Repr

/-- one invocation of a method of the learner object -/
inductive RawCall where
  | scoreProbe                                   -- `score(None,None,None)` made by `SafeLearner.has_score`
  | batch (m : Meth) (rows : List Nat) (ok : Bool) -- called with `Batch` arguments carrying these interactions; `ok = false`: the learner raised
  | row (m : Meth) (i : Nat)                     -- called with the plain values of interaction `i`
  | orient (i : Nat)                             -- `predict(Batch([ctx_i]), Batch([actions_i]))`: the orientation probe of `batch_order`
  deriving DecidableEq, Repr

/-- the part of a `SafeLearner`'s state that decides how it calls: `_method[key]` (`some true` = 1, as given;
`some false` = 2, row by row) and `_pred_batch is not None` -/
structure SafeSt where
  mPredict : Option Bool := none
  mScore : Option Bool := none
  mLearn : Option Bool := none
  parsed : Bool := false
  deriving DecidableEq, Repr

def SafeSt.get (st : SafeSt) : Meth → Option Bool
  | .predict => st.mPredict
  | .score => st.mScore
  | .learn => st.mLearn

def SafeSt.set (st : SafeSt) (m : Meth) (b : Bool) : SafeSt :=
  match m with
  | .predict => { st with mPredict := some b }
  | .score => { st with mScore := some b }
  | .learn => { st with mLearn := some b }

/-- `_safe_call(key, method, args)` with batched `args` carrying the interactions `rows`; `aware`: the learner accepts
batched arguments -/
def safeCall (aware : Bool) (st : SafeSt) (m : Meth) (rows : List Nat) : SafeSt × List RawCall :=
  match st.get m with
  | some true => (st, [.batch m rows true])
  | some false => (st, rows.map (.row m))
  | none =>
    if aware then (st.set m true, [.batch m rows true])
    else (st.set m false, .batch m rows false :: rows.map (.row m))

/-- `SafeLearner.predict` on a batch: the call, then — first parse only — the orientation probe.  `width` = `len()` of
the first row's answer when it has one and the rows are not all mappings (`none` otherwise: `batch_order` answers 'row'
without asking) -/
def predictCall (aware : Bool) (width : Option Nat) (st : SafeSt) (rows : List Nat) : SafeSt × List RawCall :=
  let r := safeCall aware st .predict rows
  if r.1.parsed then r
  else
    let probe := r.1.mPredict == some true && width == some rows.length
    ({ r.1 with parsed := true }, r.2 ++ (if probe then (rows.head?.map RawCall.orient).toList else []))

/-- one method of one loop pass -/
def phaseCall (batched aware : Bool) (width : Option Nat) (st : SafeSt) (m : Meth) (rows : List Nat) : SafeSt × List RawCall :=
  if !batched then
    -- no argument is a batch: `_method[key]` becomes 1 if unset, the call goes through as given; 'not' batched, no probe
    (if m == .predict then { (if (st.get m).isNone then st.set m true else st) with parsed := true }
     else (if (st.get m).isNone then st.set m true else st), rows.map (.row m))
  else if m == .predict then predictCall aware width st rows
  else safeCall aware st m rows

/-- one loop pass of `_results`: the methods of `phases` in order, all on the rows of this pass -/
def rawChunk (batched aware : Bool) (width : Option Nat) : List Meth → SafeSt → List Nat → SafeSt × List RawCall
  | [], st, _ => (st, [])
  | m :: ms, st, rows =>
    let r := phaseCall batched aware width st m rows
    let r' := rawChunk batched aware width ms r.1 rows
    (r'.1, r.2 ++ r'.2)

def rawRun (batched aware : Bool) (width : Option Nat) (phases : List Meth) : SafeSt → List (List Nat) → List RawCall
  | _, [] => []
  | st, ch :: rest =>
    let r := rawChunk batched aware width phases st ch
    r.2 ++ rawRun batched aware width phases r.1 rest

/-- the methods one loop pass of `_results` calls, in order (`should_pred`, the score-based IPS branch, `if learn`) -/
def phasesOf (c : Config) (hasScore : Bool) : List Meth :=
  let sp := shouldPred c hasScore
  (if sp then [.predict] else []) ++ (if c.eval == .ips && hasScore && !sp then [.score] else [])
    ++ (if c.learn != .none then [.learn] else [])

/-- every call the learner object receives during `SequentialCB(c).evaluate(env, learner)` with a learner that is not
yet wrapped (a fresh `SafeLearner` is made by every `evaluate`): `len` interactions, `missing` = validation rejects -/
def callsSeen (c : Config) (hasScore aware : Bool) (width : Option Nat) (bs : Option Nat) (len : Nat) (missing : Bool) :
    List RawCall :=
  if len == 0 then []
  else
    (if hasScore then [.scoreProbe] else []) ++
    (if missing then []
     else (if hasScore then [RawCall.scoreProbe] else []) ++
       rawRun bs.isSome aware width (phasesOf c hasScore) {}
         (match bs with
          | some n => chunks n (List.range len)
          | none => chunks 1 (List.range len)))

/-- the row-level reading of a raw call sequence: attempts the learner refused, `has_score` probes and orientation
probes carry nothing; a batch call is one call per row -/
def rowLevel : List RawCall → List (Meth × Nat)
  | [] => []
  | .scoreProbe :: t => rowLevel t
  | .orient _ :: t => rowLevel t
  | .batch _ _ false :: t => rowLevel t
  | .batch m rows true :: t => rows.map (fun i => (m, i)) ++ rowLevel t
  | .row m i :: t => (m, i) :: rowLevel t

/-- what the evaluation loop asks for: pass by pass, method by method, row by row -/
def skeleton (phases : List Meth) (cs : List (List Nat)) : List (Meth × Nat) :=
  cs.flatMap (fun ch => phases.flatMap (fun m => ch.map (fun i => (m, i))))

def Call.meth : Call V → Meth
  | .predict .. => .predict
  | .score .. => .score
  | .learn .. => .learn

def countOrient : List RawCall → Nat
  | [] => 0
  | .orient _ :: t => countOrient t + 1
  | _ :: t => countOrient t

def countRefused : List RawCall → Nat
  | [] => 0
  | .batch _ _ false :: t => countRefused t + 1
  | _ :: t => countRefused t

/-! ## Phase 5 (translator tie): the record-construction code of `_results` as an interpreted program

`flagDefs` = the `out_x = '<name>' in self._record [and <guard>]` assignments, `prog` = in program order every
`if <atom> and … : out['<key>'] = …` of the loop body; both are extracted from the source (Generated/C06RowProgram). -/

/-- guards of the flag definitions: `eval` (truthy unless None), `has_actions`, `has_rewards` of the first interaction -/
def guardVal (c : Config) (fl : Flags) (g : String) : Bool :=
  if g == "" then true else if g == "eval" then c.eval != .none else if g == "has_actions" then fl.hasActions
  else if g == "has_rewards" then fl.hasRewards else false

/-- an atom of a row statement's condition: `learn` (truthy unless None), `should_pred`, `on_pr is not None` (always in a
batched pass: a list), or a flag looked up in the flag definitions -/
def atomVal (defs : List (String × String × String)) (c : Config) (fl : Flags) (sp batched hasPr : Bool) (a : String) : Bool :=
  if a == "learn" then c.learn != .none else if a == "should_pred" then sp else if a == "on_pr" then (batched || hasPr)
  else match defs.lookup a with
    | some (name, g) => c.rcd name && guardVal c fl g
    | none => false

/-- cells that are written but not part of `recordKeys`: the timing columns (presence only, values are wall-clock) and
`ope_loss` (the constructor refuses it without vowpalwabbit) -/
def unmodelledCells : List String := ["predict_time", "learn_time", "ope_loss"]

/-- run the extracted program: the reserved-name cells of one row, in order -/
def progKeys (defs : List (String × String × String)) (prog : List (String × List String)) (c : Config) (fl : Flags)
    (sp batched hasPr : Bool) : List String :=
  (prog.filter (fun ka => ka.2.all (atomVal defs c fl sp batched hasPr))).map (·.1)

/-- the timing cells of a row (presence only): `predict_time` iff 'time' is recorded, `learn_time` iff also `learn` is called -/
def timeKeys (c : Config) : List String :=
  (if c.rcd "time" then ["predict_time"] else []) ++ (if c.rcd "time" && c.learn != .none then ["learn_time"] else [])

/-! ## Phase 6: a consumer that stops early (`evaluate` is a generator)

`SequentialCB.evaluate` is a generator over a lazily read environment (`peek_first`, `BatchSafe(Finalize())`, `OpeRewards`,
`_results`, `Unbatch` are all generators): a loop pass of `_results` runs only when the consumer asks for a row it yields.
A consumer that takes the rows of the first `j` loop passes (un-batched: `j` rows; `Batch(n)`: `j·n` rows, `Unbatch` hands a
batch's rows out one at a time) and then closes the generator has therefore made `_results` run exactly `j` passes — nothing
of the later interactions is predicted, scored, learned or recorded, and `close()` (GeneratorExit at the `yield`) runs no
further code of the loop.  Validation happens before the first pass, as in `evaluate`. -/
def evaluateStopped [DecidableEq V] [RewardFn R V] (c : Config) (L : Learner σ V) (bs : Option Nat)
    (env : List (Dict (Fld V R))) (s : σ) (j : Nat) : Outcome (σ × List (Call V) × List (Row V R)) :=
  match env with
  | [] => .ok (s, [], [])
  | first :: _ =>
    let miss := missingKeys c L.hasScore first
    if !miss.isEmpty then .rejected miss
    else
      let fl := mkFlags first
      match bs with
      | some n => Outcome.ofExcept (runChunks c fl L true s [] [] ((chunks n env).take j))
      | none => Outcome.ofExcept (runChunks c fl L false s [] [] ((chunks 1 env).take j))

/-- the passes the generator would still run if the consumer resumed asking after `j` passes, from what the first `j`
passes left (learner state, calls so far, rows so far) -/
def resumeStopped [DecidableEq V] [RewardFn R V] (c : Config) (L : Learner σ V) (bs : Option Nat)
    (env : List (Dict (Fld V R))) (j : Nat) (r : σ × List (Call V) × List (Row V R)) :
    Outcome (σ × List (Call V) × List (Row V R)) :=
  match env with
  | [] => .ok r
  | first :: _ =>
    match bs with
    | some n => Outcome.ofExcept (runChunks c (mkFlags first) L true r.1 r.2.1 r.2.2 ((chunks n env).drop j))
    | none => Outcome.ofExcept (runChunks c (mkFlags first) L false r.1 r.2.1 r.2.2 ((chunks 1 env).drop j))

/-- an abandoned evaluation inside a history: the learner goes on from the state the `j` passes left it in -/
structure EpisodeS (V R : Type) extends Episode V R where
  stop : Option Nat          -- `some j`: the consumer closes the generator after the rows of `j` passes

def EpisodeS.run [DecidableEq V] [RewardFn R V] (L : Learner σ V) (e : EpisodeS V R) (s : σ) :
    Outcome (σ × List (Call V) × List (Row V R)) :=
  match e.stop with
  | some j => evaluateStopped e.cfg L e.bs e.env s j
  | none => evaluate e.cfg L e.bs e.env s

def runHistoryS [DecidableEq V] [RewardFn R V] (L : Learner σ V) : σ → List (EpisodeS V R) →
    List (Outcome (σ × List (Call V) × List (Row V R)))
  | _, [] => []
  | s, e :: es =>
    let o := e.run L s
    o :: runHistoryS L (stateAfter s o) es

/-- the interactions an abandoned evaluation got through: `j` passes of `Batch(n)` are the first `j·n` interactions -/
def EpisodeS.seen (e : EpisodeS V R) : Episode V R :=
  match e.stop with
  | none => e.toEpisode
  | some j => { cfg := e.cfg, bs := e.bs, env := e.env.take (j * e.bs.getD 1) }

/-- the consumer took at least one row before closing, and `Batch(n)` has `n ≥ 1` -/
def EpisodeS.okStop (e : EpisodeS V R) : Prop :=
  (∀ j, e.stop = some j → 0 < j) ∧ (∀ n, e.bs = some n → 0 < n)

end Coba.C06
