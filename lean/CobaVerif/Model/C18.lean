/-
C18 — model of the analysis part of `coba/results/core.py`:
`moving_average`, `Result._remove` (three nested bisects over the sorted id columns),
`_group_p`, `_global_n`, `_filter_fin` (= `where_fin`/`filter_fin`), `filter_env/lrn/val`
(simple `where`), `_grouped_ys` + `raw_learners`; and the spec each is compared with.

Import-free (core Lean only).  A `Result` is modelled abstractly as four lists of rows:
parameter rows `(id, cells)` for environments / learners / evaluators and interaction rows
`(environment_id, learner_id, evaluator_id, index, y)`.  Parameter cells are integer *codes*
of the Python values (the harness numbers distinct values — by Python equality — 0,1,2,…):
the code under study only hashes and compares these values for equality.
`Table.where` / `Table.groupby` / `View` are modelled by their list meaning (`filter`, maximal
runs, selection by row number); their indexed implementation is the subject of C17.
Floats are exact rationals (rewards are small integers in the correspondence check, so every
float operation on the path is a single correctly rounded division of exact integers).
-/
namespace Coba.C18

inductive Err
  | indexError | keyError | zeroDivision | typeError | assertion | coba | statistics
deriving Repr, DecidableEq

/-! ## `moving_average(values, span, weights)` -/

/-- the `weights` argument: `None`, `'exp'`, or a sequence -/
inductive Weights
  | none
  | exp
  | ws (w : List Rat)
deriving Repr

/-- `itertools.accumulate(xs, f)` after its first element: running value `a` -/
def accFrom (f : Rat → Rat → Rat) : Rat → List Rat → List Rat
  | _, [] => []
  | a, v :: vs => f a v :: accFrom f (f a v) vs

/-- `itertools.accumulate(xs, f)`: the first element is `xs[0]` itself -/
def accumulateWith (f : Rat → Rat → Rat) : List Rat → List Rat
  | [] => []
  | v :: vs => v :: accFrom f v vs

def accumulate : List Rat → List Rat := accumulateWith (fun a v => a + v)

/-- `list(map(truediv, as, bs))`: zip-truncating, `ZeroDivisionError` on a zero divisor -/
def divAll : List Rat → List Rat → Except Err (List Rat)
  | a :: as, b :: bs =>
    if b = 0 then .error .zeroDivision
    else match divAll as bs with
      | .ok r => .ok (a / b :: r)
      | .error e => .error e
  | _, _ => .ok []

/-- `count(1)` cut to `n` elements -/
def countFrom1 (n : Nat) : List Rat := (List.range n).map (fun i => ((i + 1 : Nat) : Rat))

/-- `map(sub, xs, chain(repeat(0,span), xs))` -/
def subShift (span : Nat) (xs : List Rat) : List Rat :=
  List.zipWith (fun a b => a - b) xs (List.replicate span 0 ++ xs)

def mulAll (xs ws : List Rat) : List Rat := List.zipWith (fun a b => a * b) xs ws

/-- the implementation, branch by branch -/
def movingAverage (vs : List Rat) (span : Option Nat) (w : Weights) : Except Err (List Rat) :=
  match w with
  | .exp =>
    match span with
    | none => .error .typeError                       -- `1+None`
    | some s =>
      let alpha : Rat := 2 / (1 + (s : Rat))
      let f := fun (a v : Rat) => v + (1 - alpha) * a
      divAll (accumulateWith f vs) (accumulateWith f (List.replicate vs.length 1))
  | .none =>
    if span = some 1 then .ok vs
    else match span with
      | none => divAll (accumulate vs) (countFrom1 vs.length)
      | some s =>
        if s ≥ vs.length then divAll (accumulate vs) (countFrom1 vs.length)
        else divAll (accumulate (subShift s vs)) (accumulate (subShift s (List.replicate vs.length 1)))
  | .ws wl =>
    if wl.length ≠ vs.length then .error .assertion   -- the `assert`
    else if span = some 1 then .ok vs
    else if wl.isEmpty then                           -- `not weights` (then `values` is empty too)
      divAll (accumulate vs) (countFrom1 vs.length)
    else match span with
      | none => divAll (accumulate (mulAll vs wl)) (accumulate wl)
      | some s =>
        if s ≥ vs.length then divAll (accumulate (mulAll vs wl)) (accumulate wl)
        else divAll (accumulate (subShift s (mulAll vs wl))) (accumulate (subShift s wl))

/-! ### textbook definition -/

def sumL : List Rat → Rat
  | [] => 0
  | x :: xs => x + sumL xs

/-- the values a window ending at position `i` covers: all of `xs[0..i]`, or its last `span` -/
def window (span : Option Nat) (i : Nat) (xs : List Rat) : List Rat :=
  match span with
  | none => xs.take (i + 1)
  | some s => (xs.take (i + 1)).drop (i + 1 - s)

def divE (a b : Rat) : Except Err Rat := if b = 0 then .error .zeroDivision else .ok (a / b)

/-- weighted mean of the window ending at `i` -/
def wmeanAt (vs ws : List Rat) (span : Option Nat) (i : Nat) : Except Err Rat :=
  divE (sumL (window span i (mulAll vs ws))) (sumL (window span i ws))

/-- first error, else all values -/
def sequenceE : List (Except Err Rat) → Except Err (List Rat)
  | [] => .ok []
  | .error e :: _ => .error e
  | .ok x :: xs => match sequenceE xs with
    | .ok r => .ok (x :: r)
    | .error e => .error e

def rpow (b : Rat) : Nat → Rat
  | 0 => 1
  | n + 1 => b * rpow b n

/-- `Σ_{i<len ys} b^i * ys[i]` -/
def geoSum (b : Rat) (ys : List Rat) : Rat :=
  sumL (mulAll ((List.range ys.length).map (rpow b)) ys)

/-- pandas `ewm(span).mean()` (adjust=True) at position `t`:
`Σ_{i≤t} (1-α)^i x_{t-i} / Σ_{i≤t} (1-α)^i` -/
def ewmAt (vs : List Rat) (b : Rat) (t : Nat) : Except Err Rat :=
  divE (geoSum b (vs.take (t + 1)).reverse) (geoSum b (List.replicate (t + 1) 1))

def movingAverageS (vs : List Rat) (span : Option Nat) (w : Weights) : Except Err (List Rat) :=
  match w with
  | .exp =>
    match span with
    | none => .error .typeError
    | some s => sequenceE ((List.range vs.length).map (ewmAt vs (1 - 2 / (1 + (s : Rat)))))
  | .none => sequenceE ((List.range vs.length).map (wmeanAt vs (List.replicate vs.length 1) span))
  | .ws wl =>
    if wl.length ≠ vs.length then .error .assertion
    else sequenceE ((List.range vs.length).map (wmeanAt vs wl span))

/-! ## bisect and `_remove` -/

abbrev Triple := Nat × Nat × Nat

/-- lexicographic `<` and `≤` on id triples (Python tuple comparison) -/
def tlt (a b : Triple) : Bool :=
  a.1 < b.1 || (a.1 == b.1 && (a.2.1 < b.2.1 || (a.2.1 == b.2.1 && a.2.2 < b.2.2)))
def tle (a b : Triple) : Bool := !tlt b a

/-- CPython `bisect_left(c, a, lo, hi)`: `while lo < hi: mid=(lo+hi)//2; if c[mid] < a: lo=mid+1 else: hi=mid`.
`fuel = hi-lo` iterations always suffice. -/
def bisectLeftAux (c : List Nat) (a : Nat) : Nat → Nat → Nat → Except Err Nat
  | 0, lo, _ => .ok lo
  | f + 1, lo, hi =>
    if lo < hi then
      match c[(lo + hi) / 2]? with
      | none => .error .indexError
      | some x => if x < a then bisectLeftAux c a f ((lo + hi) / 2 + 1) hi else bisectLeftAux c a f lo ((lo + hi) / 2)
    else .ok lo

def bisectLeft (c : List Nat) (a lo hi : Nat) : Except Err Nat := bisectLeftAux c a (hi - lo) lo hi

/-- CPython `bisect_right`: `if a < c[mid]: hi=mid else: lo=mid+1` -/
def bisectRightAux (c : List Nat) (a : Nat) : Nat → Nat → Nat → Except Err Nat
  | 0, lo, _ => .ok lo
  | f + 1, lo, hi =>
    if lo < hi then
      match c[(lo + hi) / 2]? with
      | none => .error .indexError
      | some x => if a < x then bisectRightAux c a f lo ((lo + hi) / 2) else bisectRightAux c a f ((lo + hi) / 2 + 1) hi
    else .ok lo

def bisectRight (c : List Nat) (a lo hi : Nat) : Except Err Nat := bisectRightAux c a (hi - lo) lo hi

/-- `my_bisect_left(c,a,l,h) = l if c[l]==a else bisect_left(c,a,l,h)` -/
def myBisectLeft (c : List Nat) (a l h : Nat) : Except Err Nat :=
  match c[l]? with
  | none => .error .indexError
  | some x => if x = a then .ok l else bisectLeft c a l h

/-- `my_bisect_right(c,a,l,h) = h if c[h-1]==a else bisect_right(c,a,l,h)`; `c[-1]` is the last element -/
def myBisectRight (c : List Nat) (a l h : Nat) : Except Err Nat :=
  match c[if h = 0 then c.length - 1 else h - 1]? with
  | none => .error .indexError
  | some x => if x = a then .ok h else bisectRight c a l h

/-- insertion into a sorted list of triples; `sorted(ids)` -/
def insertT (t : Triple) : List Triple → List Triple
  | [] => [t]
  | x :: xs => if tlt x t then x :: insertT t xs else t :: x :: xs

def sortT : List Triple → List Triple
  | [] => []
  | x :: xs => insertT x (sortT xs)

/-- the `for i in range(len(ids))` loop of `_remove`; `E L V` are the three id columns,
`n` their length, `cut` the `n` argument of `_remove`, `loc` the cursor, `sel` the selection so far -/
def removeLoop (E L V : List Nat) (n cut : Nat) : List Triple → Nat → List Nat → Except Err (List Nat)
  | [], loc, sel => .ok (sel ++ List.range' loc (n - loc))
  | (e, l, v) :: ids, loc, sel =>
    match myBisectLeft E e loc n with
    | .error x => .error x
    | .ok lo1 =>
    match myBisectRight E e loc n with
    | .error x => .error x
    | .ok hi1 =>
    if lo1 = hi1 then removeLoop E L V n cut ids loc sel else
    match myBisectLeft L l lo1 hi1 with
    | .error x => .error x
    | .ok lo2 =>
    match myBisectRight L l lo1 hi1 with
    | .error x => .error x
    | .ok hi2 =>
    if lo2 = hi2 then removeLoop E L V n cut ids loc sel else
    match myBisectLeft V v lo2 hi2 with
    | .error x => .error x
    | .ok lo3 =>
    match myBisectRight V v lo2 hi2 with
    | .error x => .error x
    | .ok hi3 =>
    if lo3 = hi3 then removeLoop E L V n cut ids loc sel else
    removeLoop E L V n cut ids hi3
      (sel ++ List.range' loc (lo3 + (if hi3 - lo3 > cut then cut else 0) - loc))

/-- `Result._remove(ids, n)` on the list of id triples of the interaction rows:
the row numbers that survive -/
def remove (ts : List Triple) (ids : List Triple) (cut : Nat) : Except Err (List Nat) :=
  removeLoop (ts.map (·.1)) (ts.map (·.2.1)) (ts.map (·.2.2)) ts.length cut (sortT ids) 0 []

/-! ## Results -/

structure PRow where
  id : Nat
  cells : List Int
deriving Repr, DecidableEq

structure IRow where
  e : Nat
  l : Nat
  v : Nat
  idx : Nat
  y : Int
deriving Repr, DecidableEq

def IRow.triple (r : IRow) : Triple := (r.e, r.l, r.v)

structure Result where
  envs : List PRow
  lrns : List PRow
  evals : List PRow
  ints : List IRow
deriving Repr, DecidableEq

/-- a column that `l`, `p`, `x` may name: an id or the `j`-th parameter column of a table -/
inductive Col
  | eid | lid | vid
  | ep (j : Nat) | lp (j : Nat) | vp (j : Nat)
deriving Repr, DecidableEq

abbrev Key := List Int

/-- `View(data, select)`: the rows with the selected row numbers -/
def selectRows {α} (rows : List α) (sel : List Nat) : List α := sel.filterMap (fun i => rows[i]?)

/-- distinct elements in order of first occurrence (`set`/`dict` keys) -/
def dedup {α} [DecidableEq α] : List α → List α
  | [] => []
  | x :: xs => x :: (dedup xs).filter (fun y => y ≠ x)

/-- `Table.groupby(3, …)` on the interaction table: maximal runs of equal `(env,lrn,val)` -/
def runs : List IRow → List (Triple × List IRow)
  | [] => []
  | r :: rs =>
    match runs rs with
    | [] => [(r.triple, [r])]
    | (t, g) :: rest => if t = r.triple then (t, r :: g) :: rest else (r.triple, [r]) :: (t, g) :: rest

/-- `cache[id]` -/
def lookup : List PRow → Nat → Except Err PRow
  | [], _ => .error .keyError
  | r :: rs, id => if r.id = id then .ok r else lookup rs id

def cellOf (row : PRow) (j : Nat) : Except Err Int :=
  match row.cells[j]? with
  | some x => .ok x
  | none => .error .keyError

def colVal (e l v : PRow) (t : Triple) : Col → Except Err Int
  | .eid => .ok (t.1 : Int)
  | .lid => .ok (t.2.1 : Int)
  | .vid => .ok (t.2.2 : Int)
  | .ep j => cellOf e j
  | .lp j => cellOf l j
  | .vp j => cellOf v j

def keyOf (e l v : PRow) (t : Triple) : List Col → Except Err Key
  | [] => .ok []
  | c :: cs =>
    match colVal e l v t c with
    | .error x => .error x
    | .ok a => match keyOf e l v t cs with
      | .error x => .error x
      | .ok k => .ok (a :: k)

/-- one entry of `_grouped_ys(p,l,'environment_id','learner_id','evaluator_id',y=None,card='S')` -/
structure Idx where
  p : Key
  l : Key
  t : Triple
deriving Repr, DecidableEq

def mkIndexes (r : Result) (lc pc : List Col) : List Triple → Except Err (List Idx)
  | [] => .ok []
  | t :: ts =>
    match lookup r.envs t.1, lookup r.lrns t.2.1, lookup r.evals t.2.2 with
    | .ok e, .ok l, .ok v =>
      match keyOf e l v t pc, keyOf e l v t lc with
      | .ok pk, .ok lk =>
        match mkIndexes r lc pc ts with
        | .ok rest => .ok (⟨pk, lk, t⟩ :: rest)
        | .error x => .error x
      | _, _ => .error .keyError
    | _, _, _ => .error .keyError

/-- the keep/remove decision of `_group_p` for one `p`-group.
`fixed = false`: the code as it is (`len(group) == n_levels`);
`fixed = true`: with `fixes/C18-group-p-duplicate-level.diff`
(`len(group) <= n_levels and len(set(levels of group)) >= n_levels`). -/
def groupKeep (fixed : Bool) (nl : Nat) (g : List Idx) : Bool :=
  if fixed then !(g.length > nl) && !((dedup (g.map (·.l))).length < nl)
  else !(g.length > nl) && !(g.length < nl)

/-- `table.where(<id column>=keep)` guarded by `if len(keep) != len(table)` -/
def filterTable (rows : List PRow) (keep : List Nat) : List PRow :=
  if (dedup keep).length ≠ rows.length then rows.filter (fun r => keep.contains r.id) else rows

/-- the `p`-groups, in order of first occurrence of their key: grouping by *equality* of the key, which is what
`grouper(..., sorted_=False)` (dict of lists) does, and what `sorted()` + adjacent `groupby` does whenever the keys
are totally ordered or `sorted()` raises.  For hashable but only partially ordered keys (frozensets) the unchanged
code's sorted/adjacent path differs (finding C18-F2); `fixes/C18-partial-order-grouping.diff` makes the code take
the dict path always, which is this definition. -/
def groupsOf (ix : List Idx) : List (List Idx) :=
  (dedup (ix.map (·.p))).map (fun k => ix.filter (fun i => i.p = k))

/-- `if ids: interactions = Table(View(interactions._data, self._remove(ids, cut)), …)` -/
def removeRows (rows : List IRow) (ids : List Triple) (cut : Nat) : Except Err (List IRow) :=
  if ids.isEmpty then .ok rows
  else match remove (rows.map IRow.triple) ids cut with
    | .ok sel => .ok (selectRows rows sel)
    | .error x => .error x

def groupP (fixed : Bool) (r : Result) (lc pc : List Col) : Except Err Result :=
  match mkIndexes r lc pc ((runs r.ints).map (·.1)) with
  | .error x => .error x
  | .ok ix =>
    let nl := (dedup (ix.map (·.l))).length
    let toKeep := (((groupsOf ix).filter (fun g => groupKeep fixed nl g)).flatten).map (·.t)
    let toRemove := (((groupsOf ix).filter (fun g => !groupKeep fixed nl g)).flatten).map (·.t)
    match removeRows r.ints toRemove 0 with
    | .error x => .error x
    | .ok ints =>
      .ok { envs := filterTable r.envs (toKeep.map (·.1)),
            lrns := filterTable r.lrns (toKeep.map (·.2.1)),
            evals := filterTable r.evals (toKeep.map (·.2.2)),
            ints := ints }

/-- the `n` argument of `where_fin` -/
inductive NSpec
  | min
  | k (n : Nat)
deriving Repr, DecidableEq

def minOf : Nat → List Nat → Nat
  | m, [] => m
  | m, x :: xs => minOf (if x < m then x else m) xs

/-- `table.where(id=keep)` guarded by `if to_drop and len(keep) != len(table)` -/
def filterTableIf (c : Bool) (rows : List PRow) (keep : List Nat) : List PRow :=
  if c then filterTable rows keep else rows

def globalN (r : Result) (n : NSpec) : Except Err Result :=
  let ev := runs r.ints
  match n with
  | .min =>
    match ev.map (fun g => g.2.length) with
    | [] => .ok r                                   -- `where(index={'<=':'min'})` on the empty table
    | m :: ms => .ok { r with ints := r.ints.filter (fun row => row.idx ≤ minOf m ms) }
  | .k n =>
    let toDrop := (ev.filter (fun g => g.2.length < n)).map (·.1)
    let toKeep := (ev.filter (fun g => !(g.2.length < n))).map (·.1)
    match removeRows r.ints toDrop n with
    | .error x => .error x
    | .ok ints =>
      .ok { envs := filterTableIf (!toDrop.isEmpty) r.envs (toKeep.map (·.1)),
            lrns := filterTableIf (!toDrop.isEmpty) r.lrns (toKeep.map (·.2.1)),
            evals := filterTableIf (!toDrop.isEmpty) r.evals (toKeep.map (·.2.2)),
            ints := ints.filter (fun row => row.idx ≤ n) }

/-- `Result._filter_fin(n,l,p)` (= `where_fin`, `filter_fin`); `lp = none` when `l` and `p` are
both `None`; `n = some (.k 0)` is falsy in Python and skipped -/
def filterFin (fixed : Bool) (r : Result) (n : Option NSpec) (lp : Option (List Col × List Col)) : Except Err Result :=
  let r1 : Except Err Result := match lp with
    | none => .ok r
    | some (lc, pc) => groupP fixed r lc pc
  match r1 with
  | .error x => .error x
  | .ok r1 =>
    match n with
    | none => .ok r1
    | some (.k 0) => .ok r1
    | some n => globalN r1 n

/-! ### spec of `where_fin` -/

/-- all evaluations (id triples) of a result, with their `p`- and `l`-keys — by direct lookup -/
def levelsOf (ix : List Idx) : List Key := dedup (ix.map (·.l))

/-- the `p`-group of `k` has exactly one evaluation at every compared level -/
def completeGroup (ix : List Idx) (k : Key) : Bool :=
  (levelsOf ix).all (fun lv => ((ix.filter (fun i => i.p = k)).filter (fun i => i.l = lv)).length = 1)

/-- the evaluations that survive the pairing step -/
def keptTriplesS (ix : List Idx) : List Triple :=
  (ix.filter (fun i => completeGroup ix i.p)).map (·.t)

/-- keep the parameter rows that are still referenced by the interaction rows `ints` -/
def restrictTables (r : Result) (ints : List IRow) : Result :=
  { envs := r.envs.filter (fun p => (ints.map (·.e)).contains p.id),
    lrns := r.lrns.filter (fun p => (ints.map (·.l)).contains p.id),
    evals := r.evals.filter (fun p => (ints.map (·.v)).contains p.id),
    ints := ints }

/-- pairing step of the spec: the rows of the complete groups -/
def groupPIntsS (ints : List IRow) (ix : List Idx) : List IRow :=
  let keep := keptTriplesS ix          -- (named so that the compiled driver computes it once, not once per row)
  ints.filter (fun row => keep.contains row.triple)

/-- length step of the spec, on the runs: drop the evaluations shorter than `n`, cut the rest to `n` -/
def globalNIntsS (ints : List IRow) (n : NSpec) : List IRow :=
  match n with
  | .min =>
    match (runs ints).map (fun g => g.2.length) with
    | [] => ints
    | m :: ms => (runs ints).flatMap (fun g => g.2.take (minOf m ms))
  | .k n => (runs ints).flatMap (fun g => if g.2.length < n then [] else g.2.take n)

/-- `where_fin(n,l,p)` as the property states it: keep exactly the complete `p`-groups, then
drop/cut to the requested length, keep every surviving row as it is, keep exactly the
parameter rows that are still referenced -/
def whereFinS (r : Result) (n : Option NSpec) (lp : Option (List Col × List Col)) : Except Err Result :=
  let ints1 : Except Err (List IRow) := match lp with
    | none => .ok r.ints
    | some (lc, pc) =>
      match mkIndexes r lc pc ((runs r.ints).map (·.1)) with
      | .ok ix => .ok (groupPIntsS r.ints ix)
      | .error x => .error x
  match ints1 with
  | .error x => .error x
  | .ok ints1 =>
    match n with
    | none => .ok (restrictTables r ints1)
    | some (.k 0) => .ok (restrictTables r ints1)
    | some n => .ok (restrictTables r (globalNIntsS ints1 n))

/-- every id an interaction row refers to is present in its parameter table -/
def RefsPresent (r : Result) : Prop :=
  ∀ row ∈ r.ints, (∃ p ∈ r.envs, p.id = row.e) ∧ (∃ p ∈ r.lrns, p.id = row.l) ∧ (∃ p ∈ r.evals, p.id = row.v)

/-- every parameter row is referenced by some interaction row -/
def AllReferenced (r : Result) : Prop :=
  (∀ p ∈ r.envs, ∃ row ∈ r.ints, row.e = p.id) ∧ (∀ p ∈ r.lrns, ∃ row ∈ r.ints, row.l = p.id) ∧
  (∀ p ∈ r.evals, ∃ row ∈ r.ints, row.v = p.id)

def Consistent (r : Result) : Prop := RefsPresent r ∧ AllReferenced r

/-- the interaction table is sorted by `(environment_id, learner_id, evaluator_id)` (what
`Result.__init__` establishes by `index(...)`) -/
def SortedIds (ints : List IRow) : Prop := List.Pairwise (fun a b => tle a.triple b.triple = true) ints

/-- primary keys: no id occurs twice in a parameter table -/
def UniqueIds (r : Result) : Prop :=
  (r.envs.map (·.id)).Nodup ∧ (r.lrns.map (·.id)).Nodup ∧ (r.evals.map (·.id)).Nodup

/-- within every evaluation the `index` column is `1,2,…,len` -/
def IdxWF (ints : List IRow) : Prop := ∀ g ∈ runs ints, g.2.map (·.idx) = List.range' 1 g.2.length

instance (r : Result) : Decidable (RefsPresent r) := by unfold RefsPresent; infer_instance
instance (r : Result) : Decidable (AllReferenced r) := by unfold AllReferenced; infer_instance
instance (ints : List IRow) : Decidable (SortedIds ints) := by unfold SortedIds; infer_instance
instance (r : Result) : Decidable (UniqueIds r) := by unfold UniqueIds; infer_instance
instance (ints : List IRow) : Decidable (IdxWF ints) := by unfold IdxWF; infer_instance

/-! ## `where` (simple keyword forms) -/

inductive Tbl | env | lrn | val
deriving Repr, DecidableEq

/-- `where(col=v)` / `where(col=[v…])` on one parameter table: `j = none` is the id column -/
def rowMatches (j : Option Nat) (vals : List Int) (p : PRow) : Bool :=
  match j with
  | none => vals.contains (p.id : Int)
  | some j => match p.cells[j]? with
    | some x => vals.contains x
    | none => false

def whereTbl (r : Result) (tb : Tbl) (j : Option Nat) (vals : List Int) : Result :=
  match tb with
  | .env =>
    if r.envs.length = 0 then r else
    let envs := r.envs.filter (rowMatches j vals)
    if envs.length = r.envs.length then r else
    let ints := r.ints.filter (fun row => (envs.map (·.id)).contains row.e)
    { envs := envs, ints := ints,
      lrns := r.lrns.filter (fun p => (ints.map (·.l)).contains p.id),
      evals := r.evals.filter (fun p => (ints.map (·.v)).contains p.id) }
  | .lrn =>
    if r.lrns.length = 0 then r else
    let lrns := r.lrns.filter (rowMatches j vals)
    if lrns.length = r.lrns.length then r else
    let ints := r.ints.filter (fun row => (lrns.map (·.id)).contains row.l)
    { lrns := lrns, ints := ints,
      envs := r.envs.filter (fun p => (ints.map (·.e)).contains p.id),
      evals := r.evals.filter (fun p => (ints.map (·.v)).contains p.id) }
  | .val =>
    if r.lrns.length = 0 then r else               -- (sic) `filter_val` tests `self.learners`
    let evals := r.evals.filter (rowMatches j vals)
    if evals.length = r.evals.length then r else
    let ints := r.ints.filter (fun row => (evals.map (·.id)).contains row.v)
    { evals := evals, ints := ints,
      envs := r.envs.filter (fun p => (ints.map (·.e)).contains p.id),
      lrns := r.lrns.filter (fun p => (ints.map (·.l)).contains p.id) }

/-! ## `_grouped_ys(l, x, y=y, span=span)` and `raw_learners` -/

/-- what `x` names: the interaction column `'index'`, or parameter/id columns -/
inductive XSpec
  | index
  | cols (c : List Col)
deriving Repr, DecidableEq

def toRat (i : Int) : Rat := (i : Rat)

/-- `D[k].append(v)` on an insertion-ordered `defaultdict(list)` -/
def insertG (D : List ((Key × Key) × List Rat)) (k : Key × Key) (v : Rat) : List ((Key × Key) × List Rat) :=
  match D with
  | [] => [(k, [v])]
  | (k', vs) :: rest => if k' = k then (k', vs ++ [v]) :: rest else (k', vs) :: insertG rest k v

def insertAll (D : List ((Key × Key) × List Rat)) : List ((Key × Key) × Rat) → List ((Key × Key) × List Rat)
  | [] => D
  | (k, v) :: es => insertAll (insertG D k v) es

/-- `mean(Y)` -/
def meanL (ys : List Rat) : Except Err Rat := divE (sumL ys) (ys.length : Rat)

/-- the `N == 0` branch: `Y[-1] if span == 1 else mean(Y[-span:]) if span else mean(Y)` -/
def finalValue (ys : List Rat) (span : Option Nat) : Except Err Rat :=
  match span with
  | some 1 => match ys.getLast? with
    | some y => .ok y
    | none => .error .indexError
  | some 0 => meanL ys
  | none => meanL ys
  | some s => meanL (ys.drop (ys.length - s))

/-- the `(key, value)` pairs one evaluation contributes, in order -/
def evalEntries (r : Result) (lc : List Col) (x : XSpec) (span : Option Nat) (g : Triple × List IRow) :
    Except Err (List ((Key × Key) × Rat)) :=
  match lookup r.envs g.1.1, lookup r.lrns g.1.2.1, lookup r.evals g.1.2.2 with
  | .ok e, .ok l, .ok v =>
    match keyOf e l v g.1 lc with
    | .error err => .error err
    | .ok lk =>
      let ys := g.2.map (fun row => toRat row.y)
      match x with
      | .index =>
        match movingAverage ys span .none with
        | .error err => .error err
        | .ok ms => .ok (List.zipWith (fun row m => ((lk, [(row.idx : Int)]), m)) g.2 ms)
      | .cols xc =>
        match keyOf e l v g.1 xc with
        | .error err => .error err
        | .ok xk =>
          match finalValue ys span with
          | .error err => .error err
          | .ok m => .ok [((lk, xk), m)]
  | _, _, _ => .error .keyError

def allEntries (r : Result) (lc : List Col) (x : XSpec) (span : Option Nat) :
    List (Triple × List IRow) → Except Err (List ((Key × Key) × Rat))
  | [] => .ok []
  | g :: gs =>
    match evalEntries r lc x span g with
    | .error err => .error err
    | .ok es => match allEntries r lc x span gs with
      | .error err => .error err
      | .ok rest => .ok (es ++ rest)

/-- `_grouped_ys(l, x, y=y, span=span)` with `card='G'`: insertion-ordered dict of lists -/
def groupedYs (r : Result) (lc : List Col) (x : XSpec) (span : Option Nat) : Except Err (List ((Key × Key) × List Rat)) :=
  match allEntries r lc x span (runs r.ints) with
  | .error err => .error err
  | .ok es => .ok (insertAll [] es)

/-- `raw_learners(x, y, l, p, span)`: `_plottable`, `_finished` (when `p`), `_grouped_ys` -/
def rawLearners (fixed : Bool) (r : Result) (x : XSpec) (lc : List Col) (pc : Option (List Col)) (span : Option Nat) :
    Except Err (List ((Key × Key) × List Rat)) :=
  if r.ints.isEmpty then .error .coba else
  match pc with
  | none => groupedYs r lc x span
  | some pc =>
    match filterFin fixed r (if x = .index then some .min else none) (some (lc, pc)) with
    | .error err => .error err
    | .ok fin => if fin.lrns.isEmpty then .error .coba else groupedYs fin lc x span

/-! ### spec of `raw_learners`: direct computation from the interaction rows -/

/-- mean of the window ending at `i` of `ys` (progressive when `span = none`) -/
def directAt (ys : List Rat) (span : Option Nat) (i : Nat) : Except Err Rat :=
  wmeanAt ys (List.replicate ys.length 1) span i

/-- the value a direct computation reports for one evaluation under a parameter `x`:
the mean of its last `span` rewards (all of them when `span` is `None` or 0) -/
def directFinal (ys : List Rat) (span : Option Nat) : Except Err Rat :=
  match span with
  | none => meanL ys
  | some 0 => meanL ys
  | some s => meanL (window (some s) (ys.length - 1) ys)

/-- group `(key,value)` pairs by key, keys in order of first occurrence, values in order -/
def groupByKey (es : List ((Key × Key) × Rat)) : List ((Key × Key) × List Rat) :=
  (dedup (es.map (·.1))).map (fun k => (k, (es.filter (fun e => e.1 = k)).map (·.2)))

/-- the `(key,value)` pairs of one evaluation by direct computation -/
def evalEntriesS (r : Result) (lc : List Col) (x : XSpec) (span : Option Nat) (g : Triple × List IRow) :
    Except Err (List ((Key × Key) × Rat)) :=
  match lookup r.envs g.1.1, lookup r.lrns g.1.2.1, lookup r.evals g.1.2.2 with
  | .ok e, .ok l, .ok v =>
    match keyOf e l v g.1 lc with
    | .error err => .error err
    | .ok lk =>
      let ys := g.2.map (fun row => toRat row.y)
      match x with
      | .index =>
        match sequenceE ((List.range ys.length).map (directAt ys span)) with
        | .error err => .error err
        | .ok ms => .ok (List.zipWith (fun row m => ((lk, [(row.idx : Int)]), m)) g.2 ms)
      | .cols xc =>
        match keyOf e l v g.1 xc with
        | .error err => .error err
        | .ok xk =>
          match directFinal ys span with
          | .error err => .error err
          | .ok m => .ok [((lk, xk), m)]
  | _, _, _ => .error .keyError

def allEntriesS (r : Result) (lc : List Col) (x : XSpec) (span : Option Nat) :
    List (Triple × List IRow) → Except Err (List ((Key × Key) × Rat))
  | [] => .ok []
  | g :: gs =>
    match evalEntriesS r lc x span g with
    | .error err => .error err
    | .ok es => match allEntriesS r lc x span gs with
      | .error err => .error err
      | .ok rest => .ok (es ++ rest)

/-- what `raw_learners` must report on an (already filtered) result: for every `(l, x)` the
list, over the evaluations in table order, of the directly computed averages -/
def groupedYsS (r : Result) (lc : List Col) (x : XSpec) (span : Option Nat) : Except Err (List ((Key × Key) × List Rat)) :=
  match allEntriesS r lc x span (runs r.ints) with
  | .error err => .error err
  | .ok es => .ok (groupByKey es)

/-- `raw_learners` as the property states it: `where_fin` (spec) when `p` is given — to the
minimal length when `x` is `'index'` —, then the direct averages per `(l, x)` -/
def rawLearnersS (r : Result) (x : XSpec) (lc : List Col) (pc : Option (List Col)) (span : Option Nat) :
    Except Err (List ((Key × Key) × List Rat)) :=
  if r.ints.isEmpty then .error .coba else
  match pc with
  | none => groupedYsS r lc x span
  | some pc =>
    match whereFinS r (if x = .index then some .min else none) (some (lc, pc)) with
    | .error err => .error err
    | .ok fin => if fin.lrns.isEmpty then .error .coba else groupedYsS fin lc x span

/-! ## finding C18-F3: `where_fin(n=k,l,p)` pairs first and drops short evaluations afterwards -/

/-- `_filter_fin` with `fixes/C18-length-drop-before-pairing.diff`: for an integer `n` the length step runs
*before* the pairing step (for `'min'` and `None` nothing changes) -/
def filterFinD (r : Result) (n : Option NSpec) (lp : Option (List Col × List Col)) : Except Err Result :=
  match n with
  | some (.k (m + 1)) =>
    match globalN r (.k (m + 1)) with
    | .error x => .error x
    | .ok r1 =>
      match lp with
      | none => .ok r1
      | some (lc, pc) => groupP true r1 lc pc
  | _ => filterFin true r n lp

/-- the documented contract ("a Result where an `l` exists for every `p` and all `p` have `n` interactions"):
first the evaluations shorter than `n` go, then exactly the complete pairing groups of what is left stay -/
def whereFinJ (r : Result) (n : Option NSpec) (lp : Option (List Col × List Col)) : Except Err Result :=
  match n with
  | some (.k (m + 1)) =>
    match whereFinS r (some (.k (m + 1))) none with
    | .error x => .error x
    | .ok r1 => whereFinS r1 none lp
  | _ => whereFinS r n lp

/-- every pairing group of `r` has exactly one evaluation for every level that occurs in `r` -/
def pairingComplete (r : Result) (lc pc : List Col) : Except Err Bool :=
  match mkIndexes r lc pc ((runs r.ints).map (·.1)) with
  | .error x => .error x
  | .ok ix => .ok (ix.all (fun i => completeGroup ix i.p))

/-! ## `where_best` / `filter_best` -/

/-- one evaluation as `filter_best` sees it: its `p`-, `l`- and `full_l`-keys and the mean of its first `n` rewards -/
structure BEnt where
  p : Key
  l : Key
  f : Key
  t : Triple
  s : Rat
deriving Repr, DecidableEq

/-- `islice(Y, n)` -/
def takeN {α} (n : Option Nat) (l : List α) : List α :=
  match n with
  | none => l
  | some k => l.take k

/-- `_grouped_ys(p,l,full_l,full_id,y=y,func='list',card='S')` followed by `mean(islice(Y,n))` per evaluation -/
def mkBest (r : Result) (lc pc fc : List Col) (n : Option Nat) : List (Triple × List IRow) → Except Err (List BEnt)
  | [] => .ok []
  | g :: gs =>
    match lookup r.envs g.1.1, lookup r.lrns g.1.2.1, lookup r.evals g.1.2.2 with
    | .ok e, .ok l, .ok v =>
      match keyOf e l v g.1 pc, keyOf e l v g.1 lc, keyOf e l v g.1 fc with
      | .ok pk, .ok lk, .ok fk =>
        let ys := (takeN n g.2).map (fun (row : IRow) => toRat row.y)
        if ys.isEmpty then .error .statistics          -- `fmean([])`
        else match mkBest r lc pc fc n gs with
          | .ok rest => .ok (⟨pk, lk, fk, g.1, sumL ys / (ys.length : Rat)⟩ :: rest)
          | .error x => .error x
      | _, _, _ => .error .keyError
    | _, _, _ => .error .keyError

/-- Python's `<` on tuples of (order-preserving codes of) values -/
def klt : Key → Key → Bool
  | [], [] => false
  | [], _ :: _ => true
  | _ :: _, [] => false
  | a :: as, b :: bs => a < b || (a == b && klt as bs)

def insertK (k : Key) : List Key → List Key
  | [] => [k]
  | x :: xs => if klt x k then x :: insertK k xs else k :: x :: xs

/-- `sorted` on keys -/
def sortK : List Key → List Key
  | [] => []
  | x :: xs => insertK x (sortK xs)

/-- the order in which the `full_l` levels of a cell are walked when `sorted(groups)` succeeds: ascending -/
def sortLv (cell : List BEnt) : List Key := sortK (dedup (cell.map (·.f)))

/-- the order in which they are walked in general: first occurrence in the `groups` list as `filter_best` holds it after
`try: groups = sorted(groups) except: pass` — `ord` lists the evaluations' id triples in that order (when `sorted` raises
on values of mixed type this is the table order; the harness obtains `ord` from Python's own `sorted`) -/
def ordLv (ord : List Triple) (cell : List BEnt) : List Key :=
  dedup (ord.filterMap (fun t => (cell.find? (fun e => e.t = t)).map (·.f)))

/-- the `full_l` levels of one `(p,l)` cell in walking order `lv`, each with the mean of its evaluations' means and
their id triples -/
def levelScoresW (lv : List BEnt → List Key) (cell : List BEnt) : List (Key × Rat × List Triple) :=
  (lv cell).map (fun f =>
    let es := cell.filter (fun e => e.f = f)
    (f, sumL (es.map (·.s)) / (es.length : Rat), es.map (·.t)))

/-- the inner loop of `filter_best`: `max_val, k, d = -inf, [], []; for …: if mean_val < max_val: d += ids else: max_val = mean_val; d += k; k = ids`
(`maxv = none` is `-inf`) -/
def pickBest : List (Key × Rat × List Triple) → Option Rat → List Triple → List Triple → List Triple × List Triple
  | [], _, k, d => (k, d)
  | c :: rest, maxv, k, d =>
    if (match maxv with | some m => decide (c.2.1 < m) | none => false) then pickBest rest maxv k (d ++ c.2.2)
    else pickBest rest (some c.2.1) c.2.2 (d ++ k)

/-- the evaluations of the `(p,l)` cell of `e` -/
def cellOfEnt (es : List BEnt) (e : BEnt) : List BEnt := es.filter (fun e' => e'.p = e.p ∧ e'.l = e.l)

def keptByBestW (lv : List BEnt → List Key) (es : List BEnt) : List Triple :=
  (es.filter (fun e => (pickBest (levelScoresW lv (cellOfEnt es e)) none [] []).1.contains e.t)).map (·.t)

def droppedByBestW (lv : List BEnt → List Key) (es : List BEnt) : List Triple :=
  (es.filter (fun e => !(pickBest (levelScoresW lv (cellOfEnt es e)) none [] []).1.contains e.t)).map (·.t)

/-- `Result.filter_best(l,p,y,n,full_l,full_p)` (= `where_best`), the levels of a cell walked in the order `lv` -/
def filterBestW (lv : List BEnt → List Key) (r : Result) (lc pc : List Col) (n : Option Nat) (fl fp : List Col) : Except Err Result :=
  match filterFin true r none (some (fl, fp)) with
  | .error x => .error x
  | .ok fin =>
    match mkBest fin lc pc fl n (runs fin.ints) with
    | .error x => .error x
    | .ok es =>
      match removeRows fin.ints (droppedByBestW lv es) 0 with
      | .error x => .error x
      | .ok ints =>
        .ok { envs := filterTable fin.envs ((keptByBestW lv es).map (·.1)),
              lrns := filterTable fin.lrns ((keptByBestW lv es).map (·.2.1)),
              evals := filterTable fin.evals ((keptByBestW lv es).map (·.2.2)),
              ints := ints }

/-! ### spec of `where_best` -/

/-- a candidate level whose mean is not exceeded by any other level of the cell -/
def isMaxScore (cands : List (Key × Rat × List Triple)) (c : Key × Rat × List Triple) : Bool :=
  cands.all (fun c' => decide (c'.2.1 ≤ c.2.1))

/-- the level `where_best` must pick in a cell: one with the best mean; among several the last in walking order -/
def bestLevelS (cands : List (Key × Rat × List Triple)) : Option (Key × Rat × List Triple) :=
  (cands.filter (isMaxScore cands)).getLast?

def keptByBestSW (lv : List BEnt → List Key) (es : List BEnt) : List Triple :=
  (es.filter (fun e => (bestLevelS (levelScoresW lv (cellOfEnt es e))).map (·.1) = some e.f)).map (·.t)

/-- `where_best(l,p,y,n,full_l,full_p)` as documented: among the complete `full_p` groups (spec of `where_fin`),
in every `(p,l)` cell keep exactly the evaluations of the `full_l` level with the best mean — every kept row as it is,
parameter rows restricted to the ones still referenced -/
def whereBestSW (lv : List BEnt → List Key) (r : Result) (lc pc : List Col) (n : Option Nat) (fl fp : List Col) : Except Err Result :=
  match whereFinS r none (some (fl, fp)) with
  | .error x => .error x
  | .ok fin =>
    match mkBest fin lc pc fl n (runs fin.ints) with
    | .error x => .error x
    | .ok es =>
      let keep := keptByBestSW lv es
      .ok (restrictTables fin (fin.ints.filter (fun row => keep.contains row.triple)))

/-- the case `sorted(groups)` succeeds (keys of one type per column): levels in ascending order -/
def levelScores := levelScoresW sortLv
def keptByBest := keptByBestW sortLv
def droppedByBest := droppedByBestW sortLv
def filterBest := filterBestW sortLv
def keptByBestS := keptByBestSW sortLv
def whereBestS := whereBestSW sortLv

/-- every cell has a single level of best mean (then the walking order cannot matter) -/
def UniqueMax (cands : List (Key × Rat × List Triple)) : Prop :=
  ∀ c ∈ cands, ∀ c' ∈ cands, isMaxScore cands c = true → isMaxScore cands c' = true → c.1 = c'.1

/-! ## `raw_contrast` -/

/-- `D[k] = v` on an insertion-ordered dict (`card='S'`): a later value replaces an earlier one in place -/
def insertS (D : List ((Key × Key) × Rat)) (k : Key × Key) (v : Rat) : List ((Key × Key) × Rat) :=
  match D with
  | [] => [(k, v)]
  | (k', v') :: rest => if k' = k then (k', v) :: rest else (k', v') :: insertS rest k v

/-- `D.update(zip(keys, values))` over all evaluations -/
def lastWins : List ((Key × Key) × Rat) → List ((Key × Key) × Rat) → List ((Key × Key) × Rat)
  | D, [] => D
  | D, (k, v) :: es => lastWins (insertS D k v) es

/-- `for l_,v_ in wheres: subplot = subplot.where(**{l_:v_})` -/
def applySel (r : Result) : List (Tbl × Option Nat × Int) → Result
  | [] => r
  | (tb, j, v) :: ss => applySel (whereTbl r tb j [v]) ss

/-- `subplot._grouped_ys(p, x, y=y, card='S', span=span)` for one side of the contrast; `vals` says how the value of
one evaluation is computed (`allEntries` = the code, `allEntriesS` = direct averages) -/
def sideVals (vals : Result → List Col → XSpec → Option Nat → List (Triple × List IRow) → Except Err (List ((Key × Key) × Rat)))
    (r : Result) (sel : List (Tbl × Option Nat × Int)) (pc : List Col) (x : XSpec) (span : Option Nat) :
    Except Err (List ((Key × Key) × Rat)) :=
  match vals (applySel r sel) pc x span (runs (applySel r sel).ints) with
  | .error e => .error e
  | .ok es => .ok (lastWins [] es)

/-- the entries of the two sides under one pairing value: `zip` when `x` is `'index'` (x taken from the first side),
`product` otherwise (x = `makex(x1,x2)`, represented by the pair) -/
def pairUp (isIndex : Bool) (a b : List ((Key × Key) × Rat)) : List ((Key × Key) × (Rat × Rat)) :=
  if isIndex then List.zipWith (fun u w => ((u.1.2, u.1.2), (u.2, w.2))) a b
  else a.flatMap (fun u => b.map (fun w => ((u.1.2, w.1.2), (u.2, w.2))))

/-- `XY[x].append(pair)`: pairs grouped by x, x in order of first occurrence -/
def groupPairs (ps : List ((Key × Key) × (Rat × Rat))) : List ((Key × Key) × List (Rat × Rat)) :=
  (dedup (ps.map (·.1))).map (fun k => (k, (ps.filter (fun e => e.1 = k)).map (·.2)))

/-- `for L in l1: L1.extend(subplot._grouped_ys(...))`: the values of all labels of one side, label after label
(each label has its own `card='S'` dict) -/
def sideValsAll (vals : Result → List Col → XSpec → Option Nat → List (Triple × List IRow) → Except Err (List ((Key × Key) × Rat)))
    (r : Result) (pc : List Col) (x : XSpec) (span : Option Nat) :
    List (List (Tbl × Option Nat × Int)) → Except Err (List ((Key × Key) × Rat))
  | [] => .ok []
  | sel :: sels =>
    match sideVals vals r sel pc x span with
    | .error e => .error e
    | .ok es => match sideValsAll vals r pc x span sels with
      | .error e => .error e
      | .ok rest => .ok (es ++ rest)

/-- the pipeline of `raw_contrast(l1,l2,x,y,l,p,span)` after the label selections (`sels1`, `sels2`: one selection per
label of `l1` / `l2`); the pairing values common to both sides are walked in the order of the first side (the code walks
a `set`: the order of the pairs under one x is unspecified).  `strX`: the x values are strings — otherwise a label
`f"{x2}-{x1}"` next to a plain x value makes the final `sorted(XY.items())` raise `TypeError` -/
def rawContrastWith (vals : Result → List Col → XSpec → Option Nat → List (Triple × List IRow) → Except Err (List ((Key × Key) × Rat)))
    (r : Result) (sels1 sels2 : List (List (Tbl × Option Nat × Int))) (pc : List Col) (x : XSpec) (span : Option Nat)
    (strX : Bool) : Except Err (List ((Key × Key) × List (Rat × Rat))) :=
  if sels1.any (fun s => sels2.contains s) then .error .coba   -- "A value cannot be in both `l1` and `l2`"
  else if r.ints.isEmpty then .error .coba                     -- `_plottable`
  else
    match sideValsAll vals r pc x span sels1, sideValsAll vals r pc x span sels2 with
    | .ok L1, .ok L2 =>
      let ks := (dedup (L1.map (·.1.1))).filter (fun k => (L2.map (·.1.1)).contains k)
      let pairs := ks.flatMap (fun k => pairUp (x = .index) (L1.filter (fun e => e.1.1 = k)) (L2.filter (fun e => e.1.1 = k)))
      if pairs.isEmpty then .error .coba      -- "We were unable to create any pairings to contrast"
      else if !strX && !(x = .index) && pairs.any (fun e => e.1.1 = e.1.2) && pairs.any (fun e => e.1.1 ≠ e.1.2) then
        .error .typeError                     -- `sorted` over a value and a "b-a" string
      else .ok (groupPairs pairs)
    | .error e, _ => .error e
    | _, .error e => .error e

/-- the code: values from `moving_average` / `mean` as `_grouped_ys` computes them -/
def rawContrast := rawContrastWith allEntries
/-- the specification: the same pairing of *directly computed* averages -/
def rawContrastS := rawContrastWith allEntriesS


/-! ## `plot_contrast`: the computation that precedes drawing (Phase 4) -/

/-- `mode`: `'diff'` plots `l2 - l1`, `'prob'` plots `int(l2 - l1 > 0)` -/
inductive CMode
  | diff | prob
  deriving DecidableEq, Repr

/-- `contraster = (lambda t: t[1]-t[0]) if mode == 'diff' else (lambda t: int((t[1]-t[0])>0))` -/
def contrastOf (m : CMode) (t : Rat × Rat) : Rat :=
  match m with
  | .diff => t.2 - t.1
  | .prob => if t.2 - t.1 > 0 then 1 else 0

/-- `_boundary = 0 if mode == 'diff' else .5` -/
def boundaryOf : CMode → Rat
  | .diff => 0
  | .prob => 1 / 2

/-- `errevery = errevery or max(int(raw_data['x'][-1]*0.05),1) if x == 'index' else 1`
(parsed as `(errevery or max(..)) if x == 'index' else 1`; `0` is falsy) -/
def errEveryOf (isIndex : Bool) (errevery : Option Nat) (lastX : Nat) : Nat :=
  if isIndex then
    match errevery with
    | some (e + 1) => e + 1
    | _ => max (lastX / 20) 1
  else 1

/-- a `PointAndInterval` object: `point(Z)` and `point_interval(Z) = (point, (lo, hi))` -/
structure CiFn where
  point : List Rat → Except Err Rat
  interval : List Rat → Except Err (Rat × Rat × Rat)

/-- one plotted point: x label (the `makex` pair), y, and the lower / upper error sizes -/
structure CPoint where
  x : Key × Key
  y : Rat
  lo : Rat
  hi : Rat
  deriving DecidableEq, Repr

/-- `calc_ci(Z, i)` of `_confidence(err, errevery)`: without an interval object `(mean(Z), 0)`; with one the
interval is computed only at every `errevery`-th point -/
def calcCi (ci : Option CiFn) (every : Nat) (zs : List Rat) (i : Nat) : Except Err (Rat × Rat × Rat) :=
  match ci with
  | none =>
    match meanL zs with
    | .ok m => .ok (m, 0, 0)
    | .error e => .error e
  | some c =>
    if (i + 1) % every ≠ 0 then
      match c.point zs with
      | .ok m => .ok (m, 0, 0)
      | .error e => .error e
    else c.interval zs

/-- `for _xi, (_x, pairs) in enumerate(raw_data): X_Y_YE.append((_x,)+err(list(map(contraster,pairs)),_xi))` -/
def contrastPointsFrom (mode : CMode) (ci : Option CiFn) (every : Nat) :
    Nat → List ((Key × Key) × List (Rat × Rat)) → Except Err (List CPoint)
  | _, [] => .ok []
  | i, (x, ps) :: rest =>
    match calcCi ci every (ps.map (contrastOf mode)) i with
    | .error e => .error e
    | .ok (y, lo, hi) =>
      match contrastPointsFrom mode ci every (i + 1) rest with
      | .error e => .error e
      | .ok pts => .ok ({ x := x, y := y, lo := lo, hi := hi } :: pts)

/-- stable insertion by `y` (`sorted(..., key=itemgetter(1))`): an earlier element goes before its equals -/
def insertY (p : CPoint) : List CPoint → List CPoint
  | [] => [p]
  | q :: qs => if p.y ≤ q.y then p :: q :: qs else q :: insertY p qs

def sortY : List CPoint → List CPoint
  | [] => []
  | p :: ps => insertY p (sortY ps)

/-- the win / tie / loss split of `plot_contrast` (x neither `'index'` nor `l`), each part sorted by y -/
def splitLines (b : Rat) (pts : List CPoint) : List (List CPoint) :=
  [ sortY (pts.filter (fun p => p.y + p.hi < b)),
    sortY (pts.filter (fun p => p.y - p.lo ≤ b ∧ b ≤ p.y + p.hi)),
    sortY (pts.filter (fun p => b < p.y - p.lo)) ]

/-- which of the three drawing branches applies: `x == 'index'`, `x == l`, otherwise -/
inductive XKind
  | index | isL | other
  deriving DecidableEq, Repr

/-- the data lines handed to the plotter (the boundary line is constant).  For `x == l` with one label per side the
code's `sorted(X_Y_YE)` finds the list already sorted by x (`raw_contrast` sorts by x and the x are distinct). -/
def contrastLines (k : XKind) (b : Rat) (pts : List CPoint) : List (List CPoint) :=
  match k with
  | .index => [pts]
  | .isL => [pts]
  | .other => splitLines b pts

/-- insertion sort of the raw table by its x label (ascending `klt` on the first component: the index) -/
def insertX (e : (Key × Key) × List (Rat × Rat)) : List ((Key × Key) × List (Rat × Rat)) → List ((Key × Key) × List (Rat × Rat))
  | [] => [e]
  | q :: qs => if klt q.1.1 e.1.1 then q :: insertX e qs else e :: q :: qs

def sortX : List ((Key × Key) × List (Rat × Rat)) → List ((Key × Key) × List (Rat × Rat))
  | [] => []
  | e :: es => insertX e (sortX es)

/-- `X,Y = zip(*sorted(XY.items()))`: for `x='index'` ascending index; otherwise the order Python's `sorted` gave the
labels (`xord`, from the harness; it only decides the order among points of equal y, `errevery` being 1 there) -/
def orderRaw (xord : Option (List (Key × Key))) (raw : List ((Key × Key) × List (Rat × Rat))) :
    List ((Key × Key) × List (Rat × Rat)) :=
  match xord with
  | none => sortX raw
  | some o => o.filterMap (fun k => raw.find? (fun e => e.1 = k))

/-- the last index of the table (`raw_data['x'][-1]`) -/
def lastIndexOf (raw : List ((Key × Key) × List (Rat × Rat))) : Nat :=
  match raw.getLast? with
  | some e => (e.1.1.headD 0).toNat
  | none => 0

/-- the pairs that `raw_contrast` forms from the two sides: for every pairing value present on both sides (in the
order of the first side) `zip` / `product` of the entries with that value -/
def contrastPairs (isIndex : Bool) (L1 L2 : List ((Key × Key) × Rat)) : List ((Key × Key) × (Rat × Rat)) :=
  ((dedup (L1.map (·.1.1))).filter (fun k => (L2.map (·.1.1)).contains k)).flatMap
    (fun k => pairUp isIndex (L1.filter (fun e => e.1.1 = k)) (L2.filter (fun e => e.1.1 = k)))

/-- specification of the pairing: a reported pair takes its first value from an entry of side 1 and its second from an
entry of side 2 **with the same pairing value**, and its x label from those two entries -/
def PairedFrom (isIndex : Bool) (L1 L2 : List ((Key × Key) × Rat)) (e : (Key × Key) × (Rat × Rat)) : Prop :=
  ∃ u ∈ L1, ∃ w ∈ L2, u.1.1 = w.1.1 ∧ e.2 = (u.2, w.2) ∧
    e.1 = (if isIndex then (u.1.2, u.1.2) else (u.1.2, w.1.2))

/-- everything `plot_contrast` computes before drawing: `raw_contrast`, the contrasts per x, point estimate and
error sizes, the lines.  `vals` = how one evaluation's value is computed (code / direct averages). -/
def plotContrastWith (vals : Result → List Col → XSpec → Option Nat → List (Triple × List IRow) → Except Err (List ((Key × Key) × Rat)))
    (r : Result) (sels1 sels2 : List (List (Tbl × Option Nat × Int))) (pc : List Col) (x : XSpec) (span : Option Nat)
    (strX : Bool) (xord : Option (List (Key × Key))) (mode : CMode) (ci : Option CiFn) (errevery : Option Nat)
    (kind : XKind) : Except Err (List (List CPoint)) :=
  match rawContrastWith vals r sels1 sels2 pc x span strX with
  | .error e => .error e
  | .ok raw =>
    let tbl := orderRaw xord raw
    match contrastPointsFrom mode ci (errEveryOf (x = .index) errevery (lastIndexOf tbl)) 0 tbl with
    | .error e => .error e
    | .ok pts => .ok (contrastLines kind (boundaryOf mode) pts)

def plotContrast := plotContrastWith allEntries
def plotContrastS := plotContrastWith allEntriesS

/-- the interval object used by the correspondence check (all-rational): point = mean, error sizes = distance of the
mean to the smallest / largest contrast -/
def minL : Rat → List Rat → Rat
  | m, [] => m
  | m, z :: zs => minL (if z < m then z else m) zs
def maxL : Rat → List Rat → Rat
  | m, [] => m
  | m, z :: zs => maxL (if m < z then z else m) zs

def rangeCi : CiFn where
  point := meanL
  interval := fun zs =>
    match zs, meanL zs with
    | z :: rest, .ok m => .ok (m, m - minL z rest, maxL z rest - m)
    | _, .error e => .error e
    | [], .ok _ => .error .statistics

/-- the directly computed point of one x: the arithmetic mean of the contrasts of its pairs, no error bar -/
def meanPoint (mode : CMode) (e : (Key × Key) × List (Rat × Rat)) : CPoint :=
  { x := e.1, y := sumL (e.2.map (contrastOf mode)) / (e.2.length : Rat), lo := 0, hi := 0 }

/-- a small Result for the non-vacuity example of the `plot_contrast` theorem: 2 environments × 2 learners, 2 rewards each -/
def cexPlot : Result :=
  { envs := [{ id := 0, cells := [] }, { id := 1, cells := [] }],
    lrns := [{ id := 0, cells := [] }, { id := 1, cells := [] }],
    evals := [{ id := 0, cells := [] }],
    ints := [ { e := 0, l := 0, v := 0, idx := 1, y := 1 }, { e := 0, l := 0, v := 0, idx := 2, y := 3 },
              { e := 0, l := 1, v := 0, idx := 1, y := 2 }, { e := 0, l := 1, v := 0, idx := 2, y := 6 },
              { e := 1, l := 0, v := 0, idx := 1, y := 0 }, { e := 1, l := 0, v := 0, idx := 2, y := 4 },
              { e := 1, l := 1, v := 0, idx := 1, y := 5 }, { e := 1, l := 1, v := 0, idx := 2, y := 1 } ] }

/-! ### the literal tables of `plot_contrast` / `_confidence` that the model implements
(`Generated/C18Modes.lean` holds what `ast` extracts from the current source; `Props/C18.lean` proves them equal) -/

def modeName : CMode → String
  | .diff => "diff"
  | .prob => "prob"

/-- the accepted `err` strings of `_confidence` in dispatch order -/
def errNamesM : List String := ["se", "bs", "bi", "sd"]
/-- the special x value of `raw_contrast` / `plot_contrast` -/
def xSpecialM : List String := ["index"]
/-- comparison operators of the win / tie / loss split as `ast` names them: `upper < b`; `lower <= b and b <= upper`; `b < lower` -/
def splitOpsM : List String := ["Lt", "LtE", "LtE", "Lt"]
/-- `skip_err = (i+1) % errevery` -/
def skipOffsetM : Nat := 1

/-- `t[0]` / `t[1]` -/
def pairProj (i : Nat) (t : Rat × Rat) : Rat := if i = 0 then t.1 else t.2
/-- a Python comparison operator by its `ast` name -/
def cmpOp (op : String) (a b : Rat) : Bool :=
  if op = "Gt" then decide (a > b) else if op = "GtE" then decide (a ≥ b)
  else if op = "Lt" then decide (a < b) else if op = "LtE" then decide (a ≤ b) else false

/-! ## Python's `sorted()` on parameter values (Phase 4, goal 2): value classes, `<` with its `TypeError`s, and
CPython 3.12's `list.sort` for fewer than 64 elements (`count_run` + `binarysort`; no merging happens below 64) -/

/-- a hashable parameter value as far as ordering is concerned: `None`; bool/int/float (one numeric class, compared by
value); `str` (code points); `frozenset` of ints (`<` is proper subset: never raises, only a partial order) -/
inductive PyVal
  | none
  | num (q : Rat)
  | str (s : List Nat)
  | fset (l : List Nat)
  deriving DecidableEq, Repr

inductive PyClass
  | none | num | str | fset
  deriving DecidableEq, Repr

def pyClass : PyVal → PyClass
  | .none => .none
  | .num _ => .num
  | .str _ => .str
  | .fset _ => .fset

/-- `a < b` as Python evaluates it: `TypeError` across classes and for `None < None` -/
def pyLt : PyVal → PyVal → Except Err Bool
  | .num a, .num b => .ok (decide (a < b))
  | .str a, .str b => .ok (decide (a < b))
  | .fset a, .fset b => .ok (a.all (fun x => b.contains x) && b.any (fun x => !a.contains x))
  | _, _ => .error .typeError

/-- the binary search of `binarysort`: `do { p = l + ((r-l)>>1); if pivot < *p: r = p else l = p+1 } while (l < r)` -/
def pyBsearch (pivot : PyVal) (pre : List PyVal) : Nat → Nat → Nat → Except Err Nat
  | 0, l, _ => .ok l
  | f + 1, l, r =>
    if l < r then
      match pre[l + (r - l) / 2]? with
      | none => .error .indexError
      | some q =>
        match pyLt pivot q with
        | .error e => .error e
        | .ok true => pyBsearch pivot pre f l (l + (r - l) / 2)
        | .ok false => pyBsearch pivot pre f (l + (r - l) / 2 + 1) r
    else .ok l

/-- `binarysort`: every remaining element is inserted into the sorted prefix at the position the binary search finds -/
def pyBinSort : List PyVal → List PyVal → Except Err (List PyVal)
  | pre, [] => .ok pre
  | pre, v :: rest =>
    match pyBsearch v pre pre.length 0 pre.length with
    | .error e => .error e
    | .ok k => pyBinSort (pre.take k ++ v :: pre.drop k) rest

/-- `count_run`, ascending case: extend while `not (next < last)` -/
def pyRunAsc : PyVal → List PyVal → Except Err (List PyVal × List PyVal)
  | _, [] => .ok ([], [])
  | last, v :: vs =>
    match pyLt v last with
    | .error e => .error e
    | .ok true => .ok ([], v :: vs)
    | .ok false =>
      match pyRunAsc v vs with
      | .error e => .error e
      | .ok (r, rest) => .ok (v :: r, rest)

/-- `count_run`, strictly descending case: extend while `next < last` -/
def pyRunDesc : PyVal → List PyVal → Except Err (List PyVal × List PyVal)
  | _, [] => .ok ([], [])
  | last, v :: vs =>
    match pyLt v last with
    | .error e => .error e
    | .ok false => .ok ([], v :: vs)
    | .ok true =>
      match pyRunDesc v vs with
      | .error e => .error e
      | .ok (r, rest) => .ok (v :: r, rest)

/-- `sorted(l)` for `len(l) < 64`: the initial run (reversed when strictly descending), then binary insertion of the rest -/
def pySorted : List PyVal → Except Err (List PyVal)
  | [] => .ok []
  | [a] => .ok [a]
  | a :: b :: rest =>
    match pyLt b a with
    | .error e => .error e
    | .ok true =>
      match pyRunDesc b rest with
      | .error e => .error e
      | .ok (r, rest') => pyBinSort (a :: b :: r).reverse rest'
    | .ok false =>
      match pyRunAsc b rest with
      | .error e => .error e
      | .ok (r, rest') => pyBinSort (a :: b :: r) rest'

/-- `a <= b` in the order `sorted` realises: `not (b < a)` -/
def pyLe (a b : PyVal) : Prop := pyLt b a = .ok false

/-! ## incrementally built interaction tables (round g): in-order `Table.insert` with the cached group boundaries -/

/-- an indexed interaction table with its cache of group boundaries (`Table._lohis`, here: the cached groups themselves) -/
structure ITable where
  rows : List IRow
  cache : Option (List (Triple × List IRow))

inductive IncOp
  | ins (batch : List IRow)   -- `Table.insert(batch)`, batch in index order after the rows already there
  | look                      -- a read-only analysis call (`where`, `groupby`, `where_fin`, `raw_learners`): fills the cache

/-- the groups every analysis call works from: the cached ones when there are any -/
def ITable.groups (t : ITable) : List (Triple × List IRow) :=
  match t.cache with
  | some g => g
  | none => runs t.rows

/-- one operation; `clear = true` is the code (`if self._lohis: self._lohis = {}` on every insert), `clear = false` the
variant that keeps the cache when the rows arrive in index order (seeded change C18-gm4) -/
def ITable.step (clear : Bool) (t : ITable) : IncOp → ITable
  | .ins batch => { rows := t.rows ++ batch, cache := if clear then none else t.cache }
  | .look => { rows := t.rows, cache := some t.groups }

def runInc (clear : Bool) : List IncOp → ITable → ITable
  | [], t => t
  | op :: ops, t => runInc clear ops (t.step clear op)

/-- all rows a schedule inserts, in order: the rows of the Result built in one go -/
def insertedRows : List IncOp → List IRow
  | [] => []
  | .ins b :: ops => b ++ insertedRows ops
  | .look :: ops => insertedRows ops

/-- witness schedule for the stale cache: one evaluation, a look, a second evaluation -/
def cexInc : List IncOp :=
  [.ins [{ e := 0, l := 0, v := 0, idx := 1, y := 1 }], .look, .ins [{ e := 1, l := 0, v := 0, idx := 1, y := 2 }]]

/-! ## chains of `where_fin` / `where` -/

/-- a well-formed Result: sorted interaction table (`Result.__init__` indexes it), primary keys, per-evaluation
index `1..len`, every referenced id present -/
def WF (r : Result) : Prop := SortedIds r.ints ∧ UniqueIds r ∧ IdxWF r.ints ∧ RefsPresent r

instance (r : Result) : Decidable (WF r) := by unfold WF; infer_instance

inductive Step
  | fin (n : Option NSpec) (lp : Option (List Col × List Col))
  | wher (tb : Tbl) (j : Option Nat) (vals : List Int)
  | best (lc pc : List Col) (n : Option Nat) (fl fp : List Col)

/-- a chain `r.where_fin(…).where(…).where_fin(…)…` on the model -/
def runChain (fixed : Bool) : List Step → Result → Except Err Result
  | [], r => .ok r
  | .fin n lp :: ss, r =>
    match filterFin fixed r n lp with
    | .ok r' => runChain fixed ss r'
    | .error e => .error e
  | .wher tb j vals :: ss, r => runChain fixed ss (whereTbl r tb j vals)
  | .best lc pc n fl fp :: ss, r =>
    match filterBest r lc pc n fl fp with
    | .ok r' => runChain fixed ss r'
    | .error e => .error e

/-- the same chain with every `where_fin` replaced by its specification -/
def runChainS : List Step → Result → Except Err Result
  | [], r => .ok r
  | .fin n lp :: ss, r =>
    match whereFinS r n lp with
    | .ok r' => runChainS ss r'
    | .error e => .error e
  | .wher tb j vals :: ss, r => runChainS ss (whereTbl r tb j vals)
  | .best lc pc n fl fp :: ss, r =>
    match whereBestS r lc pc n fl fp with
    | .ok r' => runChainS ss r'
    | .error e => .error e

/-! ## Phase 5: Python's `sorted` on the x labels *inside* the model (no order handed over by the harness) -/

/-- the Python value of an x label (`labs`: the `makex` pair of the model -> the value that `sorted(XY.items())`
compares: the parameter value itself, or the string `f"{x2}-{x1}"`) -/
def labOf (labs : List ((Key × Key) × PyVal)) (k : Key × Key) : PyVal :=
  match labs.find? (fun e => e.1 = k) with
  | some e => e.2
  | none => .none

/-- `sorted(XY.items())` for a parameter x: CPython's `list.sort` (`pySorted`) over the labels — `TypeError` and all —,
each sorted label then taken back to its entry -/
def orderRawPy (labs : List ((Key × Key) × PyVal)) (raw : List ((Key × Key) × List (Rat × Rat))) :
    Except Err (List ((Key × Key) × List (Rat × Rat))) :=
  match pySorted (raw.map (fun e => labOf labs e.1)) with
  | .error e => .error e
  | .ok vs => .ok (vs.filterMap (fun v => raw.find? (fun e => labOf labs e.1 = v)))

/-- `raw_contrast` including its final `X,Y = zip(*sorted(XY.items()))`: ascending index for `x='index'`, otherwise
Python's sort of the labels as Python values (mixed-type x columns included: `TypeError` iff `pySorted` raises) -/
def rawContrastPyWith (vals : Result → List Col → XSpec → Option Nat → List (Triple × List IRow) → Except Err (List ((Key × Key) × Rat)))
    (r : Result) (sels1 sels2 : List (List (Tbl × Option Nat × Int))) (pc : List Col) (x : XSpec) (span : Option Nat)
    (labs : List ((Key × Key) × PyVal)) : Except Err (List ((Key × Key) × List (Rat × Rat))) :=
  match rawContrastWith vals r sels1 sels2 pc x span true with
  | .error e => .error e
  | .ok raw => if x = .index then .ok (sortX raw) else orderRawPy labs raw

def rawContrastPy := rawContrastPyWith allEntries
def rawContrastPyS := rawContrastPyWith allEntriesS

/-- `plot_contrast` before drawing, over the table that `raw_contrast` itself sorted -/
def plotContrastPyWith (vals : Result → List Col → XSpec → Option Nat → List (Triple × List IRow) → Except Err (List ((Key × Key) × Rat)))
    (r : Result) (sels1 sels2 : List (List (Tbl × Option Nat × Int))) (pc : List Col) (x : XSpec) (span : Option Nat)
    (labs : List ((Key × Key) × PyVal)) (mode : CMode) (ci : Option CiFn) (errevery : Option Nat)
    (kind : XKind) : Except Err (List (List CPoint)) :=
  match rawContrastPyWith vals r sels1 sels2 pc x span labs with
  | .error e => .error e
  | .ok tbl =>
    match contrastPointsFrom mode ci (errEveryOf (x = .index) errevery (lastIndexOf tbl)) 0 tbl with
    | .error e => .error e
    | .ok pts => .ok (contrastLines kind (boundaryOf mode) pts)

def plotContrastPy := plotContrastPyWith allEntries
def plotContrastPyS := plotContrastPyWith allEntriesS

/-! ## Phase 5, goal 2: `int(n*0.05)` on binary64 under a rounding law -/

/-- the binary64 value of the literal `0.05`: `3602879701896397 / 2^56` (= `1/20 + 1/(5·2^56)`) -/
def c05 : Rat := 3602879701896397 / 72057594037927936

/-- a binary64 value `m / 2^e` with a 53-bit significand (non-positive exponents suffice here) -/
def Repr53 (y : Rat) : Prop := ∃ (m : Int) (e : Nat), m.natAbs < 9007199254740992 ∧ y = (m : Rat) / ((2 ^ e : Nat) : Rat)

/-- what is used of IEEE round-to-nearest (any tie rule): rounding never crosses a representable value, and the
rounded value is not farther above `x` than a representable value below `x` is below it.  All three follow from
"`fl x` is a representable value nearest to `x`". -/
structure FloatLaw (fl : Rat → Rat) : Prop where
  below : ∀ x y, Repr53 y → y ≤ x → y ≤ fl x
  above : ∀ x y, Repr53 y → x ≤ y → fl x ≤ y
  near : ∀ x y, Repr53 y → y ≤ x → fl x - x ≤ x - y

/-- the boundary below which `int(n*0.05) = n // 20` holds: `3·2^51` -/
def int005Bound : Nat := 6755399441055744

/-- the `errevery` default as the driver evaluates it for the correspondence: `max(int(n*0.05),1)` modelled as `max (n/20) 1` -/
def errEveryDefault (n : Nat) : Nat := errEveryOf true none n

/-! ### defaults of the analysis functions and the `_confidence` dispatch, as model and harness assume them
(`Generated/C18Defaults.lean` holds what `ast` extracts from the current source; `Props/C18.lean` proves them equal) -/

/-- (function, parameter, `repr` of the default): pairing by environments, levels = learners, `x='index'` for learners and
`'environment_id'` for contrasts, `mode='diff'`, no span, no error bars, `where_fin` without pairing unless asked -/
def analysisDefaultsM : List (String × String × String) :=
  [ ("filter_best", "y", "'reward'"),
    ("filter_best", "n", "None"),
    ("filter_best", "full_l", "'learner_id'"),
    ("filter_best", "full_p", "'environment_id'"),
    ("filter_fin", "n", "None"),
    ("filter_fin", "l", "None"),
    ("filter_fin", "p", "None"),
    ("where_best", "p", "None"),
    ("where_best", "y", "'reward'"),
    ("where_best", "n", "None"),
    ("where_best", "full_l", "'learner_id'"),
    ("where_best", "full_p", "'environment_id'"),
    ("where_fin", "n", "None"),
    ("where_fin", "l", "None"),
    ("where_fin", "p", "None"),
    ("raw_learners", "x", "'index'"),
    ("raw_learners", "y", "'reward'"),
    ("raw_learners", "l", "'full_name'"),
    ("raw_learners", "p", "'environment_id'"),
    ("raw_learners", "span", "None"),
    ("raw_contrast", "x", "'environment_id'"),
    ("raw_contrast", "y", "'reward'"),
    ("raw_contrast", "l", "'learner_id'"),
    ("raw_contrast", "p", "'environment_id'"),
    ("raw_contrast", "span", "None"),
    ("plot_learners", "x", "'index'"),
    ("plot_learners", "y", "'reward'"),
    ("plot_learners", "l", "'full_name'"),
    ("plot_learners", "p", "'environment_id'"),
    ("plot_learners", "span", "None"),
    ("plot_learners", "err", "None"),
    ("plot_learners", "errevery", "None"),
    ("plot_contrast", "x", "'environment_id'"),
    ("plot_contrast", "y", "'reward'"),
    ("plot_contrast", "l", "'learner_id'"),
    ("plot_contrast", "p", "'environment_id'"),
    ("plot_contrast", "mode", "'diff'"),
    ("plot_contrast", "span", "None"),
    ("plot_contrast", "err", "None"),
    ("plot_contrast", "errevery", "None") ]

/-- `_confidence`: which interval object each `err` string selects, in dispatch order -/
def confDispatchM : List (String × String) :=
  [("se", "StdErrCI"), ("bs", "BootstrapCI"), ("bi", "BinomialCI"), ("sd", "StdDevCI")]

end Coba.C18
